"""C13 — BSpline<K,G>: range, end values, C^(K-1), locality, constant reproduction, left-equivariance.

harness/cspline.cpp (ops bs_eval, bs_tminmax; one binary per K) → T1 against SmoothModel/BSpline.lean →
audits ON THE IMPLEMENTATION'S OUTPUTS:
  value/vel/acc vs the exact oracle at the exact real t (a_bs_val);   end values outside [t_min,t_max] (bitwise, incl.
  times so far out that (t-t0)/dt leaves the int64 range, and +-inf);   one-sided agreement at every knot for orders <= K-1;
  locality by replacing one control point;   left-equivariance by left-multiplying all points;   constants.
"""
import math, random
from fractions import Fraction
from props.c11 import (vlib, Line, dec, enc, KS, GROUPS, DOF, REP, specs, gen_lines, line_K, eval_requests,
                       run_driver_par, t1, broken_from_t1, summarize_t1)

# value: differences reach pi - 1.1e-3, where log/exp amplify rounding by ~1/(pi - angle) <= 1e3
TOL_VALUE = 1e-11
TOL_DERIV = 1e-9
QUAT = {'SO3': [(0, 4)], 'SE2': [], 'SE3': [(3, 7)], 'B[SO3,T3]': [(0, 4)], 'T3': []}
FN = 'BSpline::operator()'


class Cfg:
    """one BSpline (K, group, basis words, t0, dt, control points) with the lines evaluated on it"""

    def __init__(self, l):
        self.K = line_K(l)
        self.grp = l.grp
        self.nb = (self.K + 1) ** 2
        self.head = l.ins[:3 + self.nb]            # K Bcum t0 dt
        self.ctrl = l.ins[4 + self.nb:]
        self.rep = REP[l.grp]
        self.dof = DOF[l.grp]
        self.N = len(self.ctrl) // self.rep
        self.t0 = dec(l.ins[1 + self.nb], 'f64')
        self.dt = dec(l.ins[2 + self.nb], 'f64')
        self.tmax = self.t0 + float(self.N - self.K) * self.dt
        self.lines = []

    @staticmethod
    def key(l):
        nb = (line_K(l) + 1) ** 2
        return (l.grp, tuple(l.ins[:3 + nb]), tuple(l.ins[4 + nb:]))

    def t_of(self, l):
        return dec(l.ins[3 + self.nb], 'f64')

    def request(self, t, ctrl=None):
        return ' '.join(['bs_eval', self.grp, 'f64'] + self.head + [enc(t, 'f64')] + (ctrl if ctrl is not None else self.ctrl))

    def split(self, l):
        o = l.out_vals()
        return o[:self.rep], o[self.rep:self.rep + self.dof], o[self.rep + self.dof:self.rep + 2 * self.dof]

    def knot(self, k):
        """exact rational knot t0 + k dt"""
        return Fraction(self.t0) + k * Fraction(self.dt)


def group_cfgs(lines):
    cfgs = {}
    for l in lines:
        if l.op != 'bs_eval':
            continue
        k = Cfg.key(l)
        if k not in cfgs:
            cfgs[k] = Cfg(l)
        cfgs[k].lines.append(l)
    return list(cfgs.values())


def gdiff(c, a, b):
    """max coefficient difference of two group elements, quaternion parts compared up to sign"""
    a = list(a)
    for lo, hi in QUAT[c.grp]:
        if sum(x * y for x, y in zip(a[lo:hi], b[lo:hi])) < 0:
            a[lo:hi] = [-x for x in a[lo:hi]]
    return max(abs(x - y) for x, y in zip(a, b)) / max(1.0, max(abs(y) for y in b))


def vdiff(a, b, s):
    return max(abs(x - y) for x, y in zip(a, b)) * s / max(1.0, max(abs(y) for y in b) * s)


def finding(region, what, err, tol, l, **kw):
    f = {'property': 'C13', 'key': {'fn': FN, 'region': region}, 'err': err, 'tol': tol, 'what': what, 'line': l.raw if isinstance(l, Line) else l}
    f.update(kw)
    return f


class C13:
    id = 'C13'
    # SrcTieLogic: the scalar decision logic regenerated from the C++ source by tools/gen_logic.py is the model (C13All = C13 + SrcTieLogic)
    props_files = ['SmoothProps/C13.lean', 'SmoothProps/SrcTieLogic.lean']
    props_module = 'SmoothProps.C13All'
    lean_targets = ['SmoothProps.C13All']

    @property
    def translators(self):
        # T2: the cumulative B-spline tables of the running implementation are re-dumped into
        # SmoothProofs/Gen/PolyTables.lean (C20's generator); C13.bspline_knot_identities re-checks them in the kernel
        from props import c20
        return [c20.gen_tables]
    rule = ('harness/cspline.cpp: BSpline<K,G>, K=1..6 x {SO3,SE2,SE3,Bundle<SO3,V3>,V3} x N in {K+1,K+2..,30} x t0 in '
            '{0,-3.75,1e6,-1e3,0.1,12345.678,random} x dt in {1e-3..1e3} x t at every knot and +-1 ulp, t_min, t_max, outside by '
            '1 ulp, t_min - f dt and t_max + f dt for f in {1e-9,1e-3,.25,.5,.75,1-1e-9,1,1+1e-9}, far (1e3 dt, 1e15 dt, 2^63 dt, 1e300, inf), random inside; distinct_nontrivial = distinct (group,K,N,t0,dt,t,ctrl bits)')
    assumptions = ['IEEE rounding is audited against the fixed-point oracle, not proved',
                   'the float quotient (t-t0)/dt can round across an integer at exact knots: outputs of order >= K are '
                   'two-valued there and excluded from the knot/locality comparisons',
                   'the cumulative B-spline table is a parameter; its identities are re-checked by the kernel (C13.knot_continuity, C20)']

    def budget(self, ctx):
        if ctx['tier'] == 'quick':
            return 2, 600 * ctx.get('budget', 1), 20
        return 10, 6000 * ctx.get('budget', 1), 120

    def prebuild(self):
        vlib.build_harnesses(specs())

    # ------------------------------------------------------------------ checks
    def check_lines(self, ctx, lines, n_val, n_pair_cfgs, generated=True):
        rnd = random.Random(ctx['seed'] * 13 + 5)
        res_t1 = t1(lines, ctx, exact_ops=('bs_tminmax',))
        broken = broken_from_t1(res_t1)
        findings = []
        stats = {}
        cfgs = group_cfgs(lines)
        bsl = [l for c in cfgs for l in c.lines]

        # ---- t_min / t_max against the defining formula (exact words)
        for l in lines:
            if l.op == 'bs_tminmax':
                K, N, t0, dt = l.in_vals()
                want = [t0, t0 + float(int(N) - int(K)) * dt]
                if l.out_vals() != want:
                    findings.append(finding('t_min/t_max', 't_min/t_max differ from t0, t0+(N-K)dt', None, 0, l))
                stats['tminmax'] = stats.get('tminmax', 0) + 1

        # ---- A. exact oracle at the exact real t
        cand = list(bsl)
        rnd.shuffle(cand)
        # knots and their neighbours first (that is where windows change), then the rest
        near = [l for l in cand if l.tag.startswith('t_min-') or l.tag.startswith('t_max+')]   # within (1+1e-9) dt outside the range
        knots = [l for l in cand if l.tag.startswith('knot')]
        rest = [l for l in cand if not (l.tag.startswith('knot') or l.tag.startswith('t_min-') or l.tag.startswith('t_max+'))]
        pick = near[:n_val // 3] + knots[:n_val // 2]
        pick += rest[:max(0, n_val - len(pick))]
        reqs = [' '.join(['a_bs_val', l.grp, 'f64a'] + l.ins + l.outs) for l in pick]
        reps = run_driver_par(reqs, chunk=16)
        worst = {}
        n_other_window = 0
        samples = []
        for l, rep, rq in zip(pick, reps, reqs):
            if rep.startswith('ERR'):
                raise vlib.MachineryError(f'audit op failed: {rq[:80]} -> {rep}')
            if rep.startswith('NONFINITE'):
                t = dec(l.ins[3 + (line_K(l) + 1) ** 2], 'f64')
                if math.isfinite(t):
                    findings.append(finding('nonfinite', 'non-finite output', None, 0, l))
                continue
            e = [dec(w, 'f64') for w in rep.split()]
            K = line_K(l)
            same = e[3] == 1.0
            n_other_window += 0 if same else 1
            for d, (nm, tol) in enumerate((('value', TOL_VALUE), ('vel', TOL_DERIV), ('acc', TOL_DERIV))):
                if d <= K - 1 or same:
                    k = f'{l.grp}|{nm}'
                    worst[k] = max(worst.get(k, 0.0), e[d])
                    if not (e[d] <= tol):
                        findings.append(finding('oracle', f'{nm} differs from the exact oracle (window by exact arithmetic, product of matrix exponentials)',
                                                e[d], tol, l, K=K, output=nm, stratum=l.tag))
            if len(samples) < 6 and len(samples) * 40 < stats.get('oracle', 0) + 1:
                samples.append({'group': l.grp, 'K': K, 'stratum': l.tag, 'request': l.request()[:200],
                                'oracle_errors': {'value': e[0], 'vel_u_units': e[1], 'acc_u_units': e[2]},
                                'same_window_as_exact_arithmetic': same, 'istar': int(e[4]), 'u': e[5]})
            stats['oracle'] = stats.get('oracle', 0) + 1
        stats['oracle_float_quotient_crossed_knot'] = n_other_window

        # ---- B. end values outside [t_min, t_max] (bitwise); C. beyond the int64 range
        # reference end values: the clamp branches themselves, taken 10 dt outside the range
        out_reqs, out_meta = [], []
        for c in cfgs:
            todo = [(c.t_of(l), l) for l in c.lines]
            need_lo = any(t <= c.t0 for t, _ in todo)
            need_hi = any(t >= c.tmax for t, _ in todo)
            if need_lo:
                out_reqs.append(c.request(c.t0 - 10.0 * c.dt)); out_meta.append((c, 'ref_lo', None, None))
            if need_hi:
                out_reqs.append(c.request(c.tmax + 10.0 * c.dt)); out_meta.append((c, 'ref_hi', None, None))
        evs = eval_requests(out_reqs)
        ref = {}
        for (c, kind, region, t), ev in zip(out_meta, evs):
            if kind.startswith('ref') and ev is not None:
                ref[(id(c), kind)] = ev.outs
        n_out = n_out_close = 0
        by_raw = {}
        for (c, kind, region, t), ev in zip(out_meta, evs):
            if kind.startswith('ref') and ev is not None:
                by_raw[(id(c), kind)] = ev
        for c in cfgs:
            for l in c.lines:
                t = c.t_of(l)
                if not (t <= c.t0 or t >= c.tmax):
                    continue
                kind = 'ref_lo' if t <= c.t0 else 'ref_hi'
                want = ref.get((id(c), kind))
                n_out += 1
                if want is None or l.outs == want:
                    continue
                # Not bit-identical.  Within a few ulp of the end the float quotient (t-t0)/dt can land just inside the
                # last interval (u = 1 - rounding instead of the clamp u = 1): then the outputs must agree with the end
                # values up to that rounding; anywhere else they must be bit-identical.
                tref = c.t0 if t <= c.t0 else c.tmax
                a, b = c.split(l), c.split(by_raw[(id(c), kind)])
                errs = [gdiff(c, a[0], b[0]), vdiff(a[1], b[1], c.dt), vdiff(a[2], b[2], c.dt ** 2)]
                if not math.isfinite(t) or abs(t - tref) / c.dt > 1e-6:
                    findings.append(finding('outside range', 'value/vel/acc outside [t_min,t_max] are not the end values', max(errs), 0, l, stratum=l.tag))
                    continue
                du = (abs(t - tref) + 4 * math.ulp(max(abs(t), abs(c.t0), abs(tref)))) / c.dt
                tol = TOL_DERIV + 200.0 * du
                if not (max(errs) <= tol):
                    findings.append(finding('outside range', 'value/vel/acc outside [t_min,t_max] are not the end values', max(errs), tol, l, stratum=l.tag))
                else:
                    n_out_close += 1
        stats['outside_range_checked'] = n_out
        stats['outside_range_equal_up_to_quotient_rounding_not_bitwise'] = n_out_close
        stats['beyond_int64_quotient'] = sum(1 for c in cfgs for l in c.lines if not abs((c.t_of(l) - c.t0) / c.dt) < 2.0 ** 63)

        # ---- D. one-sided agreement at the knots, orders <= K-1
        n_knot, worst_knot = 0, [0.0, 0.0, 0.0]
        for c in cfgs:
            bytag = {l.tag: l for l in c.lines}
            for tag, l in bytag.items():
                if not tag.startswith('knot') or tag.endswith('ulp'):
                    continue
                L, R = bytag.get(tag + '-1ulp'), bytag.get(tag + '+1ulp')
                if L is None or R is None:
                    continue
                du = (c.t_of(R) - c.t_of(L)) / c.dt
                tol = TOL_DERIV + 200.0 * abs(du)
                (gL, vL, aL), (gC, vC, aC), (gR, vR, aR) = c.split(L), c.split(l), c.split(R)
                errs = [max(gdiff(c, gL, gR), gdiff(c, gL, gC)),
                        max(vdiff(vL, vR, c.dt), vdiff(vL, vC, c.dt)),
                        max(vdiff(aL, aR, c.dt ** 2), vdiff(aL, aC, c.dt ** 2))]
                n_knot += 1
                for d in range(3):
                    if d <= c.K - 1:
                        worst_knot[d] = max(worst_knot[d], errs[d])
                        if not (errs[d] <= tol):
                            findings.append(finding('knot continuity', f'derivative order {d} jumps across {tag} (K={c.K})', errs[d], tol, L,
                                                    line2=R.raw, K=c.K, order=d, pair='continuity'))
        stats['knots_compared'] = n_knot
        stats['knot_worst_jump_order0_1_2'] = [float(f'{x:.3e}') for x in worst_knot]

        # ---- E. locality, F. equivariance, constants — on a subset of configurations
        sub = list(cfgs)
        rnd.shuffle(sub)
        sub = sub[:n_pair_cfgs]
        self.locality(rnd, sub, findings, stats)
        self.equivariance(rnd, sub, findings, stats, worst)

        sig = set()
        strata = {}
        for l in bsl:
            sig.add((l.grp, tuple(l.ins)))
            s = l.tag
            if s.startswith('knot'):
                s = 'knot' + ('-1ulp' if s.endswith('-1ulp') else '+1ulp' if s.endswith('+1ulp') else '')
            strata[s] = strata.get(s, 0) + 1
        perK = {}
        for c in cfgs:
            perK[f'K={c.K}'] = perK.get(f'K={c.K}', 0) + len(c.lines)
        cov = {'evaluations': len(lines) + len(out_reqs) + stats.get('locality_evals', 0) + stats.get('equivariance_evals', 0),
               'distinct_nontrivial': len(sig), 'rule': self.rule, 'samples': samples, 'strata_hits': strata, 'per_K': perK,
               'configurations': len(cfgs), 'N_values': sorted({c.N for c in cfgs}),
               't1_stats': summarize_t1(res_t1['stats']),
               't1_worst_ulp': max([v['worst_ulp'] for v in res_t1['stats'].values()] or [0.0]),
               't1_breaks': len(res_t1['breaks']), 'audit_samples': stats.get('oracle', 0), 'audit_counts': stats,
               'audit_worst': {k: float(f'{v:.3e}') for k, v in sorted(worst.items())},
               'tolerances': {'value': TOL_VALUE, 'derivatives': TOL_DERIV, 'knot': 'TOL_DERIV + 200*(t_right - t_left)/dt'},
               'traces_validated_against_impl': len(lines)}
        return {'coverage': cov, 'findings': findings, 'broken': broken}

    def locality(self, rnd, cfgs, findings, stats):
        reqs, meta = [], []
        for c in cfgs:
            i = rnd.randrange(c.N)
            j = (i + 2) % c.N
            wi, wj = c.ctrl[i * c.rep:(i + 1) * c.rep], c.ctrl[j * c.rep:(j + 1) * c.rep]
            if wi == wj:
                continue
            ctrl2 = c.ctrl[:i * c.rep] + wj + c.ctrl[(i + 1) * c.rep:]
            for l in c.lines:
                reqs.append(c.request(c.t_of(l), ctrl2))
                meta.append((c, i, l))
        evs = eval_requests(reqs)
        n_out = n_in = n_in_changed = n_edge = 0
        for (c, i, l), ev in zip(meta, evs):
            if ev is None:
                continue
            t = c.t_of(l)
            if not math.isfinite(t):
                continue
            # the curve is clamped: t >= t_max evaluates AT the last knot, t <= t_min at the first
            if t >= c.tmax:
                tq = c.knot(c.N - c.K)
            elif t <= c.t0:
                tq = c.knot(0)
            else:
                tq = Fraction(t)
            lo, hi = c.knot(i - c.K), c.knot(i + 1)
            inside = lo <= tq <= hi
            ulp = Fraction(math.ulp(t)) * 2 + Fraction(math.ulp(c.t0)) * 2
            near_edge = (not inside) and (lo - ulp <= tq <= hi + ulp)
            a, b = c.split(l), c.split(ev)
            if inside:
                n_in += 1
                n_in_changed += 0 if l.outs == ev.outs else 1
                continue
            n_out += 1
            n_edge += 1 if near_edge else 0
            if not near_edge:
                for d in range(3):
                    if a[d] != b[d]:
                        findings.append(finding('locality', f'replacing control point {i} changed output order {d} at t outside '
                                                f'[t0+(i-K)dt, t0+(i+1)dt]', None, 0, l, line2=ev.raw, K=c.K, ctrl_index=i, order=d, pair='locality'))
            else:
                # within 2 ulp of an end of the support the float quotient may select the neighbouring window: outputs of
                # order <= K-1 are continuous there (must agree up to rounding), outputs of order >= K are two-valued
                du = float(ulp) * 2 / c.dt
                errs = [gdiff(c, a[0], b[0]), vdiff(a[1], b[1], c.dt), vdiff(a[2], b[2], c.dt ** 2)]
                for d in range(3):
                    if d <= c.K - 1 and not (errs[d] <= TOL_DERIV + 200.0 * du):
                        findings.append(finding('locality', f'replacing control point {i} changed output order {d} at t just outside '
                                                f'[t0+(i-K)dt, t0+(i+1)dt]', errs[d], TOL_DERIV + 200.0 * du, l, line2=ev.raw, K=c.K,
                                                ctrl_index=i, order=d, pair='locality'))
        stats.update({'locality_evals': len(reqs), 'locality_outside_support_bitwise': n_out, 'locality_inside_support': n_in,
                      'locality_inside_support_changed': n_in_changed, 'locality_within_2ulp_of_support_edge': n_edge})

    def equivariance(self, rnd, cfgs, findings, stats, worst):
        # h * g_i through the (T1-checked) Lean model of composition; identity words for the constant test
        creqs, cmeta = [], []
        for c in cfgs:
            h = c.ctrl[(c.N // 2) * c.rep:(c.N // 2 + 1) * c.rep]
            for j in range(c.N):
                creqs.append(' '.join(['compose', c.grp, 'f64'] + h + c.ctrl[j * c.rep:(j + 1) * c.rep]))
                cmeta.append((c, j))
        idreq = [' '.join(['identity', g, 'f64']) for g in GROUPS]
        reps = vlib.run_driver(creqs + idreq)
        ident = {g: reps[len(creqs) + k].split() for k, g in enumerate(GROUPS)}
        newctrl = {}
        for (c, j), rep in zip(cmeta, reps):
            if rep.startswith('ERR'):
                raise vlib.MachineryError('compose failed: ' + rep)
            newctrl.setdefault(id(c), []).extend(rep.split())
        reqs, meta = [], []
        for c in cfgs:
            h = c.ctrl[(c.N // 2) * c.rep:(c.N // 2 + 1) * c.rep]
            ls = [l for l in c.lines if math.isfinite(c.t_of(l))]
            rnd.shuffle(ls)
            for l in ls[:10]:
                reqs.append(c.request(c.t_of(l), newctrl[id(c)])); meta.append(('equiv', c, l, h))
            const = c.ctrl[:c.rep] * c.N
            for l in ls[:6]:
                reqs.append(c.request(c.t_of(l), const)); meta.append(('const', c, l, None))
        evs = eval_requests(reqs)
        areqs, ameta = [], []
        for (kind, c, l, h), ev in zip(meta, evs):
            if ev is None:
                continue
            if kind == 'equiv':
                areqs.append(' '.join(['a_bs_equiv', c.grp, 'f64a'] + h + l.outs + ev.outs)); ameta.append((kind, c, l, ev))
            else:
                zeros = [enc(0.0, 'f64')] * (2 * c.dof)
                areqs.append(' '.join(['a_bs_equiv', c.grp, 'f64a'] + ident[c.grp] + c.ctrl[:c.rep] + zeros + ev.outs)); ameta.append((kind, c, l, ev))
        reps = run_driver_par(areqs)
        n_eq = n_const = 0
        for (kind, c, l, ev), rep in zip(ameta, reps):
            if rep.startswith('ERR'):
                raise vlib.MachineryError('a_bs_equiv failed: ' + rep)
            if rep.startswith('NONFINITE'):
                continue
            e = [dec(w, 'f64') for w in rep.split()]
            if kind == 'equiv':
                n_eq += 1
                # body derivatives are compared in u-units (vel*dt, acc*dt^2), like everywhere else
                (_, v0, a0), (_, v1, a1) = c.split(l), c.split(ev)
                e = [e[0], vdiff(v1, v0, c.dt), vdiff(a1, a0, c.dt ** 2)]
                for d, (nm, tol) in enumerate((('value', 1e-11), ('vel', TOL_DERIV), ('acc', TOL_DERIV))):
                    k = f'equivariance|{nm}'
                    worst[k] = max(worst.get(k, 0.0), e[d])
                    if not (e[d] <= tol):
                        findings.append(finding('left equivariance', f'{nm}: curve of (h g_i) is not h * curve of (g_i) / body derivative changed',
                                                e[d], tol, l, line2=ev.raw, K=c.K, output=nm, pair='equivariance'))
            else:
                n_const += 1
                g, v, a = c.split(ev)
                errs = [e[0], max(abs(x) for x in v) * c.dt, max(abs(x) for x in a) * c.dt ** 2]
                for d, (nm, tol) in enumerate((('value', TOL_VALUE), ('vel', TOL_VALUE), ('acc', TOL_VALUE))):
                    k = f'constant|{nm}'
                    worst[k] = max(worst.get(k, 0.0), errs[d])
                    if not (errs[d] <= tol):
                        findings.append(finding('constant reproduction', f'{nm}: constant control points do not give the constant curve',
                                                errs[d], tol, ev, K=c.K, output=nm))
        stats.update({'equivariance_evals': len(reqs), 'equivariance_checked': n_eq, 'constant_checked': n_const})

    # ------------------------------------------------------------------ entry points
    def explore(self, ctx):
        nconf, n_val, n_pair = self.budget(ctx)
        lines = [l for l in gen_lines(ctx, 0, nconf) if l.op in ('bs_eval', 'bs_tminmax')]
        return self.check_lines(ctx, lines, n_val, n_pair)

    def search(self, ctx, broken):
        nconf, n_val, n_pair = self.budget(dict(ctx, tier='thorough'))
        lines = [l for l in gen_lines(dict(ctx, seed=ctx['seed'] + 7919), 0, nconf) if l.op in ('bs_eval', 'bs_tminmax')]
        res = self.check_lines(ctx, lines, n_val, n_pair)
        return {'coverage': {'evaluations': len(lines)}, 'findings': res['findings']}

    def replay(self, ctx, payload):
        reqs = []
        for c in payload.get('cases', []):
            for k in ('line', 'line2'):
                if k in c:
                    reqs.append(Line(c[k]).request())
        for b in payload.get('no_longer_checks', []) + payload.get('broken', []):
            if isinstance(b.get('first'), dict) and 'line' in b['first']:
                reqs.append(Line(b['first']['line']).request())
        if not reqs:
            return {'coverage': {}, 'findings': [], 'broken': payload.get('no_longer_checks', [])}
        lines = [l for l in eval_requests(reqs) if l is not None]
        return self.check_lines(ctx, lines, 10 ** 9, 0, generated=False)


def make():
    return C13()
