/-
  c20_mkexact.lean — development tool (not part of any check): prints SmoothProofs/C20Exact.lean, the
  exact rational tables of the Poly model written as literals.  The literals are NOT trusted: theorems
  `C20T.basis_eq_exact_*` (SmoothProofs/C20ModelEq*.lean) re-derive them from the model in the kernel.
    cd /verif/lean && lake env lean --run ../tools/props/c20_mkexact.lean > SmoothProofs/C20Exact.lean
-/
import SmoothModel.Poly
open Poly

def ratStr (x : Rat) : String :=
  if x.den = 1 then (if x.num < 0 then s!"({x.num} : Rat)" else s!"{x.num}")
  else s!"qq ({x.num}) {x.den}"

def rowsStr (M : Tab Rat) : String :=
  "[" ++ ",\n   ".intercalate (M.map fun r => "[" ++ ", ".intercalate (r.map ratStr) ++ "]") ++ "]"

def bases : List (Basis × String) :=
  [(.Bernstein, "Bernstein"), (.Bspline, "Bspline"), (.Chebyshev1st, "Chebyshev1st"), (.Chebyshev2nd, "Chebyshev2nd"),
   (.Hermite, "Hermite"), (.Laguerre, "Laguerre"), (.Legendre, "Legendre"), (.Monomial, "Monomial")]

def main : IO Unit := do
  IO.println "/-\n  C20Exact.lean — exact rational tables of the Poly model as literals (printed by\n  tools/props/c20_mkexact.lean).  NOT trusted: `C20T.basis_eq_exact_*`, `cum_eq_exact_*`,\n  `monint_eq_exact` (SmoothProofs/C20ModelEq*.lean) re-derive every table from the model in the kernel.\n  Their only purpose is to let the many table theorems evaluate the model once instead of once per theorem.\n-/"
  IO.println "import SmoothModel.Poly\n\nnamespace C20T.Exact\n\n/-- `n / d` -/\ndef qq (n : Int) (d : Nat) : Rat := mkRat n d\n"
  for (b, nm) in bases do
    for K in List.range 11 do
      IO.println s!"def basis_{nm}_{K} : List (List Rat) :=\n  {rowsStr (basis (α := Rat) b K)}\n"
  for (b, nm) in bases do
    for K in List.range 11 do
      IO.println s!"def cum_{nm}_{K} : List (List Rat) :=\n  {rowsStr (cumulativeBasis (α := Rat) b K)}\n"
  for (kind, fn) in [("basis", "basis"), ("cum", "cumBasis")] do
    IO.println s!"def {fn} : _root_.Poly.Basis → Nat → List (List Rat)"
    for (_, nm) in bases do
      for K in List.range 11 do
        IO.println s!"  | .{nm}, {K} => {kind}_{nm}_{K}"
    IO.println "  | _, _ => []\n"
  for K in List.range 11 do
    for P in List.range 5 do
      IO.println s!"def monint_{K}_{P} : List (List Rat) :=\n  {rowsStr (monomialIntegral (α := Rat) K P)}\n"
  IO.println "def monint : Nat → Nat → List (List Rat)"
  for K in List.range 11 do
    for P in List.range 5 do
      IO.println s!"  | {K}, {P} => monint_{K}_{P}"
  IO.println "  | _, _ => []\n"
  IO.println "end C20T.Exact"
