"""C19 — sparse Lie-group derivative routines equal the dense ones in the designated block.

Tie (DESIGN.md §C19):
  T2  harness/sparse.cpp `dump` → SmoothProofs/Gen/SparsePatterns.lean: `ad_sparse_pattern<G>`,
      `d_exp_sparse_pattern<G>`, `d2_exp_sparse_pattern<G>` of every catalogued group/Bundle as the running code
      builds them, proved equal to the model patterns (`Sparse.adPattern/dPattern/d2Pattern`, which carry
      `C19.pattern_covers_support`) by `decide` — a dropped entry breaks an obligation even if no sampled tangent
      makes it non-zero;
  T1  host matrices of random size / random pattern ⊇ shifted block, pre-filled with distinct finite
      sentinels, block offsets i0 = 0..12: after each call the full triplet list, isCompressed(), nonZeros() of the
      implementation are compared with the Lean model (`sp_*` driver ops): (a) structure and every untouched value
      bitwise with the model's own dispatch and dense formulas, (b) every value bitwise when the implementation's dense
      result is fed to the model's block write; dense formulas themselves by the standard T1 comparator;
  audit (independent of the model): block == dense result of the implementation (bitwise; ad: numerically, the sparse
      sum starts from +0), untouched entries bit-identical, pattern / compression / nonZeros unchanged, support of
      every dense result ⊆ published pattern;
  failure mode: a host lacking a block entry (precondition violated) — NDEBUG build: coeffRef inserts, the matrix is
      left uncompressed, exactly as the model's `missing_entry_uncompresses` says.
"""
import os, random, sys, time
sys.path.insert(0, os.path.dirname(os.path.dirname(__file__)))
import vlib
from vlib import log
from props import gdesc
from props.gdesc import parse, enc, dec, sentinel

FAMS = list(range(6))
ND_FAMS = [0, 1]          # -DNDEBUG variants (missing-entry failure mode)
CATALOGUE = ['SO2', 'SO3', 'SE2', 'C1', 'T3', 'SE3', 'B[T3,SO2]', 'B[T3,SO3]', 'GAL', 'SEK2', 'B[GAL,T4]',
             'B[SO3,SE2]', 'B[C1,T1,SO3,SO2]', 'B[B[SO3,T3],SE2]', 'B[T2,B[SO2,B[SE3,T1]]]', 'B[SE3,SE3]',
             'B[SE2,T3,SO3,T2,C1,B[T3,SO3],SE3]']
ND_GROUPS = ['SO3', 'SE2', 'C1', 'SE3', 'B[T3,SO3]', 'B[T3,SO2]']
GEN_DIR = os.path.join(vlib.LEAN, 'SmoothProofs', 'Gen')
ROUTINES = ['sp_ad', 'sp_dr_exp', 'sp_dr_expinv', 'sp_d2r_exp', 'sp_d2r_expinv']
DENSE_OP = {'sp_ad': 'ad', 'sp_dr_exp': 'dr_exp', 'sp_dr_expinv': 'dr_expinv', 'sp_d2r_exp': 'd2r_exp', 'sp_d2r_expinv': 'd2r_expinv'}


def specs():
    s = [(f'sparse{f}', 'sparse.cpp', (f'-DFAMILY={f}', '-DSCALAR=2')) for f in FAMS]
    s += [(f'sparse{f}_nd', 'sparse.cpp', (f'-DFAMILY={f}', '-DSCALAR=2', '-DNDEBUG')) for f in ND_FAMS]
    return s


_bins = None


def bins():
    global _bins
    if _bins is None:
        from concurrent.futures import ThreadPoolExecutor
        t0 = time.time()
        with ThreadPoolExecutor(max_workers=max(4, os.cpu_count() or 8)) as ex:
            futs = {s[0]: ex.submit(vlib.build_harness, *s) for s in specs()}
            _bins = {k: f.result() for k, f in futs.items()}
        if time.time() - t0 > 5:
            log(f'sparse harness ready in {time.time() - t0:.0f}s')
    return _bins


def eval_lines(requests, nd=False):
    b = bins()
    out = [None] * len(requests)
    todo = list(range(len(requests)))
    names = [f'sparse{f}_nd' for f in ND_FAMS] if nd else [f'sparse{f}' for f in FAMS]
    for name in names:
        if not todo:
            break
        raw = []
        pending = list(todo)
        while pending:
            # the implementation may abort (assertion / heap corruption) on one request: keep the replies
            # produced before it, mark that request CRASH, and go on with the rest in a fresh process
            try:
                raw += vlib.run_harness(b[name], ['eval'], stdin='\n'.join(requests[i] for i in pending) + '\n')
                pending = []
            except vlib.HarnessRunError as e:
                done = [l for l in getattr(e, 'out_lines', None) or (e.out.splitlines() if isinstance(e.out, str) else list(e.out or []))]
                done = done[:max(0, len(pending) - 1)]
                raw += done
                raw.append(f'CRASH rc={e.rc} ' + (e.err or '').strip().splitlines()[-1][:200] if (e.err or '').strip() else f'CRASH rc={e.rc}')
                pending = pending[len(done) + 1:]
        nxt = []
        for i, r in zip(todo, raw):
            if r.startswith('SKIP'):
                nxt.append(i)
            else:
                out[i] = r
        todo = nxt
    return out


# ----------------------------------------------------------------------------- dump → patterns
class Dump:
    def __init__(self, raw):
        self.pat = {}        # (g, which) -> list of (r, c)   (must agree over scalars)
        self.meta = {}       # (g, which) -> (rows, cols, compressed, nnz)
        self.sizes = {}
        self.problems = []
        self.patvalues_bad = []
        for l in raw:
            t = l.split()
            if not t:
                continue
            if t[0] == 'sizes':
                self.sizes[t[1]] = (int(t[3]), int(t[4]))
            elif t[0] == 'patvalues' and int(t[3]):
                self.patvalues_bad.append(l)
            elif t[0] == 'pattern':
                g, which = t[1], t[3]
                rows, cols, comp, nnz = (int(x) for x in t[4:8])
                nums = [int(x) for x in t[9:]]
                pr = list(zip(nums[0::2], nums[1::2]))
                if len(pr) != nnz:
                    self.problems.append(f'{g} {which}: nonZeros()={nnz} but {len(pr)} stored entries')
                if not comp:
                    self.problems.append(f'{g} {which}: published pattern is not compressed')
                if (g, which) in self.pat and self.pat[(g, which)] != pr:
                    self.problems.append(f'{g} {which}: pattern differs between scalar types')
                self.pat[(g, which)] = pr
                self.meta[(g, which)] = (rows, cols, comp, nnz)


_dump = None


def get_dump():
    global _dump
    if _dump is None:
        b = bins()
        raw = []
        for f in FAMS:
            raw += vlib.run_harness(b[f'sparse{f}'], ['dump'])
        _dump = Dump(raw)
    return _dump


def gen_sparse_patterns(ctx):
    """T2: published patterns dumped from the running code → Gen/SparsePatterns.lean (= model patterns by decide)"""
    try:
        dump = get_dump()
    except vlib.HarnessCompileError as e:
        return False, 'harness sparse.cpp does not compile: ' + e.err[-1500:]
    if dump.problems:
        return False, '; '.join(dump.problems)
    groups = sorted({g for (g, _) in dump.pat}, key=lambda x: (CATALOGUE.index(x) if x in CATALOGUE else 99, x))
    rows = []
    for g in groups:
        d = parse(g)
        P = gdesc.lean_pairs
        m = dump.meta[(g, 'd2')]
        rows.append(f'  {{ g := {d.lean()}, dof := {dump.sizes[g][0]}, comm := {"true" if dump.sizes[g][1] else "false"},\n'
                    f'    ad := {P(dump.pat[(g, "ad")])},\n    d := {P(dump.pat[(g, "d")])},\n    d2 := {P(dump.pat[(g, "d2")])},\n'
                    f'    d2cols := {m[1]} }}')
    text = f'''/-
  GENERATED by tools/props/c19.py from the running implementation (harness/sparse.cpp `dump`, built against the
  current /repo/include) — do not edit.  Tie T2 of property C19: the published sparsity patterns
  `ad_sparse_pattern<G>`, `d_exp_sparse_pattern<G>`, `d2_exp_sparse_pattern<G>` (column-major, as Eigen iterates
  them) equal the model patterns that carry `C19.pattern_covers_support`.
-/
import SmoothModel.Sparse
open Sparse Mem

namespace Gen.SparsePatterns

structure Row where
  g : GDesc
  dof : Nat
  comm : Bool
  ad : List (Nat × Nat)
  d : List (Nat × Nat)
  d2 : List (Nat × Nat)
  d2cols : Nat

def rows : List Row := [
{(',' + chr(10)).join(rows)}]

set_option maxRecDepth 100000 in
theorem sizes_eq_model :
    rows.all (fun r => r.dof == dofSize r.g && r.comm == isComm r.g && r.d2cols == dofSize r.g * dofSize r.g) = true := by
  decide +kernel

set_option maxRecDepth 100000 in
/-- `ad_sparse_pattern<G>` = model pattern -/
theorem ad_pattern_eq_model : rows.all (fun r => r.ad == adPattern r.g) = true := by decide +kernel

set_option maxRecDepth 100000 in
/-- `d_exp_sparse_pattern<G>` = model pattern -/
theorem d_pattern_eq_model : rows.all (fun r => r.d == dPattern r.g) = true := by decide +kernel

set_option maxRecDepth 100000 in
/-- `d2_exp_sparse_pattern<G>` = model pattern -/
theorem d2_pattern_eq_model : rows.all (fun r => r.d2 == d2Pattern r.g) = true := by decide +kernel

end Gen.SparsePatterns
'''
    changed = gdesc.write_if_changed(os.path.join(GEN_DIR, 'SparsePatterns.lean'), text)
    ok, out = vlib.lake_build(['SmoothProofs.Gen.SparsePatterns'])
    if not ok:
        return False, 'Gen/SparsePatterns.lean (dumped pattern ≠ model pattern):\n' + out[-2500:]
    return True, f'SparsePatterns.lean {"rewritten" if changed else "unchanged"}: {len(rows)} groups'


# ----------------------------------------------------------------------------- request generation
def block_cells(pat, D, rows, i0, hess):
    if hess:
        return [(i0 + r, rows * (i0 + c // D) + i0 + c % D) for r, c in pat]
    return [(i0 + r, i0 + c) for r, c in pat]


def make_request(rng, g, prec, routine, pat, stratum, drop=None, i0=None):
    d = parse(g)
    D = d.dof()
    hess = routine in ('sp_d2r_exp', 'sp_d2r_expinv')
    if routine == 'sp_ad':
        i0, rows, cols = 0, D, D
    else:
        i0 = rng.randint(0, 12) if i0 is None else i0
        rows = i0 + D + rng.choice((0, 0, 1, 3, 5))
        if hess:
            cols = rows * (i0 + D) + rng.choice((0, 0, 2, rows, rows * rng.randint(0, 3)))
        else:
            cols = i0 + D + rng.choice((0, 0, 1, 4))
    cells = set(block_cells(pat, D, rows, i0, hess))
    if drop is not None and cells:
        cells.discard(sorted(cells, key=lambda k: (k[1], k[0]))[drop % len(cells)])
    # extra stored entries outside the block pattern
    nextra = rng.choice((0, 3, 10, 40))
    for _ in range(nextra):
        cells.add((rng.randrange(rows), rng.randrange(cols)))
    order = sorted(cells, key=lambda k: (k[1], k[0]))
    toks = [routine, g, prec, str(rows), str(cols), str(i0), str(len(order))]
    for k, (r, c) in enumerate(order):
        toks += [str(r), str(c), enc(1024.0 + 0.25 * k, prec)]   # distinct finite sentinels (Lean's Float.toBits canonicalises NaN payloads)
    a = gdesc.tangent(d, rng, stratum)
    toks += [str(D)] + [enc(v, prec) for v in a]
    return ' '.join(toks) + ' # ' + stratum


def parse_reply(rep):
    """`request | comp nnz (r c w)* | D n words # tag` → (comp, nnz, {(r,c): w} in order list, dense words)"""
    body = rep.split(' # ')[0]
    parts = body.split(' | ')
    t = parts[1].split()
    comp, nnz = int(t[0]), int(t[1])
    tr = [(int(t[2 + 3 * k]), int(t[3 + 3 * k]), t[4 + 3 * k]) for k in range((len(t) - 2) // 3)]
    dense = parts[2].split()[2:] if len(parts) > 2 else []
    return comp, nnz, tr, dense


def parse_request(req):
    t = req.split(' # ')[0].split(' |')[0].split()
    routine, g, prec, rows, cols, i0, nnz = t[0], t[1], t[2], int(t[3]), int(t[4]), int(t[5]), int(t[6])
    host = [(int(t[7 + 3 * k]), int(t[8 + 3 * k]), t[9 + 3 * k]) for k in range(nnz)]
    p = 7 + 3 * nnz
    na = int(t[p])
    a = t[p + 1:p + 1 + na]
    return routine, g, prec, rows, cols, i0, host, a


def zero_word(w, prec):
    return dec(w, prec) == 0.0


def check_requests(reqs, pats, stats, findings, broken, samples, dense_lines, nd=False):
    impl = eval_lines(reqs, nd=nd)
    live = [(q, r) for q, r in zip(reqs, impl) if r is not None and not r.startswith(('BAD', 'PRECOND', 'SKIP', 'CRASH'))]
    for q, r in zip(reqs, impl):
        if r is not None and r.startswith('CRASH'):
            try:
                routine, g, prec, rows, cols, i0, host, a = parse_request(q)
                key = {'routine': routine, 'group': g, 'prec': prec, 'stratum': q.split(' # ')[1] if ' # ' in q else '', 'kind': 'crash'}
            except Exception:
                key = {'kind': 'crash'}
            findings.append({'property': 'C19', 'key': key, 'err': None, 'tol': 0,
                             'what': 'the sparse routine aborted the process on this request (' + r[:220] + ')', 'line': q})
        elif r is None or r.startswith('BAD'):
            broken.append({'what': 'correspondence', 'name': 'sparse harness rejects a generated request', 'first': {'line': q[:3000], 'reply': (r or 'none')[:100]}})
        elif r.startswith('PRECOND'):
            stats['precond_skipped'] += 1
    if not live:
        return
    plain = [q.split(' # ')[0] for q, _ in live]
    with_dense = []
    for q, r in live:
        _, _, _, dense = parse_reply(r)
        with_dense.append(q.split(' # ')[0] + f' D {len(dense)} ' + ' '.join(dense))
    rep_a = vlib.run_driver(plain)
    rep_b = vlib.run_driver(with_dense)
    for (q, r), ma, mb in zip(live, rep_a, rep_b):
        routine, g, prec, rows, cols, i0, host, a = parse_request(q)
        tag = q.split(' # ')[1] if ' # ' in q else ''
        d = parse(g)
        D = d.dof()
        hess = routine in ('sp_d2r_exp', 'sp_d2r_expinv')
        comp, nnz, tr, dense = parse_reply(r)
        stats['calls'] += 1
        stats['by_routine'][routine] = stats['by_routine'].get(routine, 0) + 1
        stats['entries_compared'] += len(tr)
        stats['i0_hist'][i0] = stats['i0_hist'].get(i0, 0) + 1
        key = {'routine': routine, 'group': g, 'prec': prec, 'stratum': tag}
        which = 'ad' if routine == 'sp_ad' else ('d2' if hess else 'd')
        pat = pats[(g, which)]
        W = D * D if hess else D
        block = {}
        for (pr, pc) in pat:
            cell = (i0 + pr, rows * (i0 + pc // D) + i0 + pc % D) if hess else (i0 + pr, i0 + pc)
            block[cell] = dense[pr * W + pc]
        hostmap = {(hr, hc): w for hr, hc, w in host}
        got = {(rr, cc): w for rr, cc, w in tr}
        missing_in_host = [c for c in block if c not in hostmap]
        # ---------- audits independent of the model (only when the precondition holds)
        if not missing_in_host:
            if comp != 1 or nnz != len(host) or [(x[0], x[1]) for x in tr] != [(x[0], x[1]) for x in host]:
                findings.append({'property': 'C19', 'key': dict(key, kind='structure_changed'), 'err': abs(nnz - len(host)) + (1 - comp), 'tol': 0,
                                 'what': f'sparsity structure / compression changed: isCompressed={comp} nonZeros {len(host)}→{nnz}', 'line': q})
            for cell, w in got.items():
                if cell in block:
                    same = (w == block[cell]) or (routine == 'sp_ad' and dec(w, prec) == dec(block[cell], prec))
                    if not same:
                        findings.append({'property': 'C19', 'key': dict(key, kind='block_ne_dense'), 'err': 1, 'tol': 0,
                                         'what': f'entry {cell} of the block is {w}, dense routine gives {block[cell]}', 'line': q})
                        break
                elif routine == 'sp_ad':
                    if not zero_word(w, prec):
                        findings.append({'property': 'C19', 'key': dict(key, kind='ad_outside_pattern_nonzero'), 'err': 1, 'tol': 0,
                                         'what': f'ad_sparse left {w} at {cell} outside its pattern (dense ad is 0 there)', 'line': q})
                        break
                elif hostmap.get(cell) != w:
                    findings.append({'property': 'C19', 'key': dict(key, kind='untouched_entry_changed'), 'err': 1, 'tol': 0,
                                     'what': f'stored entry {cell} outside the block changed {hostmap.get(cell)} → {w}', 'line': q})
                    break
            # support of the dense result ⊆ published pattern
            pset = set(pat)
            for pr in range(D):
                for pc in range(W):
                    if (pr, pc) not in pset and not zero_word(dense[pr * W + pc], prec):
                        findings.append({'property': 'C19', 'key': dict(key, kind='pattern_misses_support', entry=[pr, pc]), 'err': abs(dec(dense[pr * W + pc], prec)), 'tol': 0,
                                         'what': f'dense {DENSE_OP[routine]} is non-zero at ({pr},{pc}) which is not in the published pattern', 'line': q})
            stats['support_entries_checked'] += D * W
        else:
            stats['missing_entry_cases'] += 1
            if not (comp == 0 and nnz == len(host) + len(missing_in_host)):
                stats['missing_entry_unexpected'] += 1
        # ---------- T1 against the model
        for name, mrep, full in (('model dispatch + model dense', ma, False), ('model block write of the implementation dense', mb, True)):
            if mrep.startswith('ERR'):
                broken.append({'what': 'correspondence', 'name': f'T1 {routine} {g} {prec}: model error {mrep[:80]}', 'first': {'line': q[:3000]}})
                continue
            mt = mrep.split()
            mcomp, mnnz = int(mt[0]), int(mt[1])
            mtr = [(int(mt[2 + 3 * k]), int(mt[3 + 3 * k]), mt[4 + 3 * k]) for k in range((len(mt) - 2) // 3)]
            bad = None
            if (mcomp, mnnz) != (comp, nnz) or [(x[0], x[1]) for x in mtr] != [(x[0], x[1]) for x in tr]:
                bad = f'structure: impl (compressed={comp}, nnz={nnz}) model (compressed={mcomp}, nnz={mnnz})'
            else:
                for (rr, cc, w), (_, _, mw) in zip(tr, mtr):
                    inblock = (rr, cc) in block
                    if (full or not inblock or routine == 'sp_ad') and w != mw:
                        bad = f'value at ({rr},{cc}): impl {w} model {mw}'
                        break
            if bad:
                broken.append({'what': 'correspondence', 'name': f'T1 {routine} {g} {prec} ({name})', 'first': {'line': q[:3000], 'why': bad}})
        # dense formulas themselves: standard comparator
        dense_lines.append(' '.join([DENSE_OP[routine], g, prec] + a) + ' | ' + ' '.join(dense) + ' # ' + tag)
        if len(samples) < 6 and stats['calls'] % 97 == 1:
            samples.append({'request': q[:400] + ' …', 'impl': r.split(' | ', 1)[1][:300]})


class C19:
    id = 'C19'
    props_files = ['SmoothProps/C19.lean', 'SmoothProps/SrcTieLogicC19.lean']
    props_module = 'SmoothProps.C19All'
    lean_targets = ['SmoothProps.C19All']
    translators = [gen_sparse_patterns]
    rule = ('harness/sparse.cpp: 17 catalogued types (SO2 SO3 SE2 SE3 C1 R3 Galilei SE_K_3<2>, 9 Bundles incl. commutative and nested) x '
            '{double,float} x {ad, dr_exp, dr_expinv, d2r_exp, d2r_expinv}_sparse x tangent strata {zero, single-axis, series branch, '
            'generic, large} x block offsets 0..12 x random host size / extra stored entries; distinct_nontrivial counts distinct '
            '(routine, group, scalar, stratum, i0, host shape) with a non-zero tangent')
    assumptions = ['Eigen::SparseMatrix internals (coeffRef search, operator+= on sparse expressions) are modelled, not verified',
                   'the host matrix is compressed and contains the shifted block pattern (documented precondition); the failure mode '
                   'without it is modelled (coeffRef inserts, matrix uncompressed) and checked on an NDEBUG build',
                   'rounding of the dense formulas themselves is the subject of C03-C05']

    def _stats(self):
        return {'calls': 0, 'by_routine': {}, 'entries_compared': 0, 'i0_hist': {}, 'precond_skipped': 0, 'missing_entry_cases': 0,
                'missing_entry_unexpected': 0, 'support_entries_checked': 0}

    def explore(self, ctx):
        quick = ctx['tier'] == 'quick'
        budget = ctx.get('budget', 1)
        rng = random.Random(ctx['seed'] * 104729 + 19)
        findings, broken, samples, dense_lines = [], [], [], []
        stats = self._stats()
        dump = get_dump()
        for l in dump.patvalues_bad:
            findings.append({'property': 'C19', 'key': {'kind': 'pattern_values', 'group': l.split()[1]}, 'err': 1, 'tol': 0,
                             'what': 'published d_exp pattern holds values other than identity/zero: ' + l, 'line': l})
        per = (2 if quick else 60) * budget
        reqs, sig = [], set()
        for g in CATALOGUE:
            d = parse(g)
            for prec in ('f64', 'f32'):
                for routine in ROUTINES:
                    if routine in ('sp_d2r_exp', 'sp_d2r_expinv') and not d.has_hess():
                        continue
                    which = 'ad' if routine == 'sp_ad' else ('d2' if 'd2r' in routine else 'd')
                    for k in range(per):
                        st = gdesc.STRATA[(k + rng.randrange(len(gdesc.STRATA))) % len(gdesc.STRATA)] if k >= 2 or not quick else rng.choice(gdesc.STRATA)
                        q = make_request(rng, g, prec, routine, dump.pat[(g, which)], st)
                        reqs.append(q)
                        t = q.split()
                        if st != 'zero':
                            sig.add((routine, g, prec, st, t[5], t[3], t[4]))
        check_requests(reqs, dump.pat, stats, findings, broken, samples, dense_lines)
        # dense formulas: standard T1 comparator (model's own LieModel functions vs the implementation)
        t1 = {'stats': {}, 'breaks': []}
        if dense_lines:
            lines = vlib.parse_lines(dense_lines)
            t1 = vlib.t1_compare(lines, tol_ulp=64.0, exact_ops=('ad',), rng_seed=ctx['seed'])
            by = {}
            for b in t1['breaks']:
                l = vlib.Line(b['line'])
                by.setdefault(f'{l.op}|{l.grp}|{l.prec}', []).append(b)
            for k, bs in by.items():
                broken.append({'what': 'correspondence', 'name': f'T1 dense {k} (implementation vs Lean model)', 'count': len(bs), 'first': bs[0]})
        # failure mode: host lacking one block entry (NDEBUG build)
        nd_stats = self._stats()
        nd_reqs = []
        for g in ND_GROUPS:
            d = parse(g)
            for prec in ('f64', 'f32'):
                for routine in ROUTINES[1:]:
                    which = 'd2' if 'd2r' in routine else 'd'
                    if not dump.pat[(g, which)]:
                        continue
                    for k in range(1 if quick else 10):
                        nd_reqs.append(make_request(rng, g, prec, routine, dump.pat[(g, which)], 'generic', drop=rng.randrange(1000)))
        nd_dense = []
        check_requests(nd_reqs, dump.pat, nd_stats, findings, broken, samples, nd_dense, nd=True)
        if nd_stats['missing_entry_unexpected']:
            broken.append({'what': 'correspondence', 'name': 'missing-entry failure mode: implementation did not insert+uncompress as the model says',
                           'count': nd_stats['missing_entry_unexpected'], 'first': {}})
        worst = {k: v['worst_ulp'] for k, v in t1['stats'].items()}
        cov = {'evaluations': stats['calls'] + nd_stats['calls'], 'distinct_nontrivial': len(sig), 'rule': self.rule, 'samples': samples,
               'calls': stats, 'missing_entry_failure_mode': {'calls': nd_stats['calls'], 'cases': nd_stats['missing_entry_cases'],
                                                              'unexpected': nd_stats['missing_entry_unexpected']},
               'dense_t1_worst_ulp': max(worst.values()) if worst else 0.0, 'dense_t1_lines': len(dense_lines), 't1_breaks': len(t1['breaks']),
               'patterns_dumped': len(dump.pat), 'gen_obligations': 4,
               'gen_obligations_discharged': 4 - sum(1 for b in broken if 'Gen/' in b.get('name', '')),
               'traces_validated_against_impl': stats['calls']}
        return {'coverage': cov, 'findings': findings, 'broken': broken}

    def search(self, ctx, broken):
        res = self.explore(dict(ctx, seed=ctx['seed'] + 15485863, budget=3))
        return {'coverage': {'evaluations': res['coverage'].get('evaluations', 0)}, 'findings': res['findings']}

    def replay(self, ctx, payload):
        reqs = []
        for c in payload.get('cases', []):
            if str(c.get('line', '')).startswith('sp_'):
                reqs.append(c['line'])
        for b in payload.get('no_longer_checks', []):
            f = b.get('first')
            if isinstance(f, dict) and str(f.get('line', '')).startswith('sp_'):
                reqs.append(f['line'])
        if not reqs:
            return self.explore(ctx)
        findings, broken, samples, dense_lines = [], [], [], []
        stats = self._stats()
        check_requests(reqs, get_dump().pat, stats, findings, broken, samples, dense_lines)
        return {'coverage': {'evaluations': stats['calls'], 'calls': stats, 'samples': samples}, 'findings': findings, 'broken': broken}


def make():
    return C19()
