"""C15 — representation invariants and accuracy survive any history of operations.

harness/hist.cpp (families 0-3; family 9 = modified_midpoint compile probe), SmoothModel/Hist.lean,
Driver/OpsHist.lean.  Every executed op is a T1 line (implementation vs executable Lean model, current
register contents as inputs); every program ends with a trailer from which the driver replays the
whole history with the exact oracle (`hist_audit`).

The machine is two-sorted for SO2 / SE2: element registers E and lifted registers L (SO3 / SE3) with the
ops `lift` (L[d] = E[a].lift_so3()/lift_se3()) and `project` (E[d] = L[a].project_so2()/project_se2());
every lifted element is itself a checkpoint (finite, unit, q_w >= 0, distance to the exact lift of the
exact history value)."""
import json, math, os, sys, time
from concurrent.futures import ThreadPoolExecutor
sys.path.insert(0, os.path.dirname(os.path.dirname(__file__)))
import vlib
from vlib import Line, dec, enc, log
from props.lie import parse_desc, flat_prims, prim_sizes, band_of

PID = 'C15'
FAMILIES = [0, 1, 2, 3]
STEP_OPS = ('compose', 'inverse', 'exp', 'rplus', 'hist_cast', 'hist_liftproj', 'hist_ode', 'hist_lift', 'hist_project')
STEP_CODE = {'compose': 0, 'inverse': 1, 'exp': 2, 'rplus': 3, 'hist_cast': 6, 'hist_liftproj': 7, 'hist_ode': 9,
             'hist_lift': 11, 'hist_project': 12}
OP_NAMES = ['compose', 'inverse', 'exp', 'rplus', 'mul_assign', 'plus_assign', 'cast', 'liftproj', 'settan', 'ode', 'loop',
            'lift', 'project', 'setlift']
LREP = {'SO2': 4, 'SE2': 7}      # coefficient count of the companion type (lifted registers)
# projections whose conditioning rho = |(R00, R10)| is below this are informational (yaw singularity)
RHO_MIN = 1e-2
STEPPERS = ['euler', 'runge_kutta4', 'runge_kutta_cash_karp54', 'runge_kutta_dopri5', 'runge_kutta_fehlberg78']

# property tolerances (per executed op; a checkpoint after k ops is judged at (k+1)·tol)
TOL_DEFECT = {'f64': 1e-14, 'f32': 1e-5}
TOL_ACC = {'f64': 1e-13, 'f32': 1e-4}
TOL_STAGE = {'f64': 1e-12, 'f32': 1e-3}
PARAMS = {  # nprog, maxlen, chainlen, nchain   per family
    'quick': {0: (8, 200, 1000, 3), 1: (8, 200, 1000, 3), 2: (6, 200, 1000, 3), 3: (4, 120, 1000, 3)},
    'thorough': {0: (96, 200, 100000, 12), 1: (72, 200, 100000, 12), 2: (48, 200, 100000, 9), 3: (32, 200, 10000, 9)},
}


def specs():
    return [(f'hist{f}', 'hist.cpp', (f'-DFAMILY={f}',)) for f in FAMILIES]


def pdriver(reqs, nproc=8):
    """driver replies, requests spread over several driver processes (balanced by request size)"""
    if len(reqs) < 16:
        return vlib.run_driver(reqs)
    order = sorted(range(len(reqs)), key=lambda i: -len(reqs[i]))
    buckets = [[] for _ in range(nproc)]
    load = [0] * nproc
    for i in order:
        b = load.index(min(load))
        buckets[b].append(i)
        load[b] += len(reqs[i]) + 200
    out = [None] * len(reqs)

    def work(idx):
        return vlib.run_driver([reqs[i] for i in idx])
    with ThreadPoolExecutor(max_workers=nproc) as ex:
        for idx, reps in zip(buckets, ex.map(work, buckets)):
            for i, r in zip(idx, reps):
                out[i] = r
    return out


# ------------------------------------------------------------------------------ helpers on lines
def sizes(grp):
    ps = flat_prims(parse_desc(grp))
    return sum(prim_sizes(p)[0] for p in ps), sum(prim_sizes(p)[1] for p in ps)


def tag_fields(tag):
    """'p12 k=5 compose' / 'c7 chain:x+=a n=1000' -> (prog id, dict)"""
    t = tag.split()
    d = {'prog': t[0] if t else '?'}
    for x in t[1:]:
        if '=' in x and ':' not in x:
            k, v = x.split('=', 1)
            d[k] = v
        else:
            d.setdefault('word', x)
    return d


def rot_band(grp, tangent, prec):
    """most delicate rotation band of a flat tangent: (band, theta, primitive)"""
    off = 0
    best = None
    order = {'above_switch': 0, 'series': 1, 'generic': 2, 'zero': 3}
    for p in flat_prims(parse_desc(grp)):
        rep, dof, ridx = prim_sizes(p)
        if ridx:
            th = math.sqrt(sum(tangent[off + i] ** 2 for i in ridx))
            b = band_of(th, prec)
            if best is None or order[b] < order[best[0]]:
                best = (b, th, p)
        off += dof
    return best or ('none', 0.0, 'T')


def step_tangent(l):
    """tangent (as floats) an exp/rplus/ode step hands to exp, else None"""
    rep, dof = sizes(l.grp)
    v = l.in_vals()
    if l.op == 'exp':
        return v[:dof]
    if l.op == 'rplus':
        return v[rep:rep + dof]
    if l.op == 'hist_ode':
        h = v[1]
        return [h * x for x in v[2 + rep:2 + rep + dof]]
    return None


def heading_band(l):
    """distance of the heading of the SO2 / SE2 operand of a lift / lift∘project step to the half turn"""
    v = l.in_vals()
    sn, cs = (v[0], v[1]) if l.grp == 'SO2' else (v[2], v[3])
    if not (math.isfinite(sn) and math.isfinite(cs)):
        return 'nonfinite'
    d = math.pi - abs(math.atan2(sn, cs))
    if cs < 0 and (sn == 0 or d <= 2.5e-16):
        return 'half_turn(sin=0 or 1ulp)'
    tiny, near = (1.5e-8, 1e-4) if l.prec == 'f64' else (1e-3, 1e-2)
    return f'<{tiny:g}' if d < tiny else f'{tiny:g}..{near:g}' if d < near else f'{near:g}..1e-2' if d < 1e-2 else 'generic'


class Program:
    """decoded trailer"""

    def __init__(self, l):
        self.line = l
        self.grp, self.prec = l.grp, l.prec[:3]
        self.rep, self.dof = sizes(l.grp)
        tf = tag_fields(l.tag)
        self.id = tf['prog']
        self.shape = tf.get('word', 'random')
        v = l.in_vals()
        self.ne, self.nt, self.nops = int(v[0]), int(v[1]), int(v[2])
        off = 3 + self.ne * self.rep + self.nt * self.dof
        self.head = l.ins[:off]
        self.lrep = LREP.get(l.grp, 0)
        self.ops = []          # (code, d, a, b, extra words)
        for _ in range(self.nops):
            code, d, a, b = (int(x) for x in v[off:off + 4])
            nx = self.dof if code == 8 else 2 if code == 9 else self.lrep if code == 13 else 0
            self.ops.append((code, d, a, b, l.ins[off + 4:off + 4 + nx]))
            off += 4 + nx
        # checkpoints `k r coeffs`: r < 100 element register (rep words), r >= 100 lifted register (lrep words)
        self.cks = []
        o = l.out_vals()
        i = 0
        while i + 2 <= len(o):
            reg = int(o[i + 1]) if math.isfinite(o[i + 1]) else 0
            n = self.lrep if reg >= 100 else self.rep
            if i + 2 + n > len(o):
                break
            self.cks.append((int(o[i]), reg, l.outs[i + 2:i + 2 + n]))
            i += 2 + n
        self.n = self.total()

    def total(self):
        n, i = 0, 0
        while i < len(self.ops):
            c = self.ops[i]
            if c[0] == 10:
                n += c[1] * c[2]
                i += 1 + c[1]
            elif c[0] == 13:
                i += 1
            else:
                n += 1
                i += 1
        return n

    def fanin(self):
        return self.shape.startswith('fanin')

    @staticmethod
    def request(grp, prec, head, ops, tag):
        """a `hist_audit` request line for the harness `prog` mode (re-execution)"""
        w = list(head)
        w[2] = enc(float(len(ops)), prec)
        for (code, d, a, b, extra) in ops:
            w += [enc(float(x), prec) for x in (code, d, a, b)] + list(extra)
        return ' '.join(['hist_audit', grp, prec + 'a'] + w) + ' # ' + tag

    def describe(self, maxops=40):
        out = []
        shown = [o for o in self.ops if o[0] != 13 or any(c[0] == 12 for c in self.ops)]
        for (code, d, a, b, extra) in shown[:maxops]:
            if code == 10:
                out.append(f'loop(len={d},count={a})')
            elif code == 8:
                out.append(f'T{d}=' + '[' + ','.join('%.3g' % dec(w, self.prec) for w in extra) + ']')
            elif code == 9:
                out.append(f'E{d}=ode[{STEPPERS[int(dec(extra[0], self.prec))]},h={dec(extra[1], self.prec):.3g}](E{a},T{b})')
            elif code == 0:
                out.append(f'E{d}=E{a}*E{b}')
            elif code == 1:
                out.append(f'E{d}=inv(E{a})')
            elif code == 2:
                out.append(f'E{d}=exp(T{a})')
            elif code == 3:
                out.append(f'E{d}=E{a}+T{b}')
            elif code == 4:
                out.append(f'E{d}*=E{a}')
            elif code == 5:
                out.append(f'E{d}+=T{a}')
            elif code == 6:
                out.append(f'E{d}=cast(E{a})')
            elif code == 7:
                out.append(f'E{d}=liftproj(E{a})')
            elif code == 11:
                out.append(f'L{d}=lift(E{a})')
            elif code == 12:
                out.append(f'E{d}=project(L{a})')
            elif code == 13:
                out.append(f'L{d}:=[' + ','.join('%.17g' % dec(w, self.prec) for w in extra) + ']')
        if len(shown) > maxops:
            out.append('…')
        return '; '.join(out)


# ------------------------------------------------------------------------------ the plugin
class C15:
    id = PID
    props_files = ['SmoothProps/C15.lean']
    props_module = 'SmoothProps.C15'
    lean_targets = ['SmoothProps.C15']
    rule = ('harness/hist.cpp: register machine (6 element + 4 tangent registers) per group type '
            '(SO2 SO3 SE2 SE3 C1 GAL SEK2 B[SO3,T3,SE2] B[SE3,SO2,T1] B[T2,B[SO2,B[SO3,T1]]]; double and float); '
            'random programs (length strata 1-5, 6-20, 21-60, 61-200; ops compose inverse exp rplus *= += cast lift∘project '
            'settan odeint-step; operands biased to the register with the longest history; an op is admitted only if the '
            'expression tree of its result has at most as many operations as the program has steps so far — otherwise '
            'rounding errors are duplicated by the arithmetic itself, see fan-in programs — and if the exact result stays '
            'below 1e6 in magnitude), homogeneous chains (x=x*g, x*=g, x+=a, x=x+a, x=g*x, x=x.inverse(), x=x*g;x=x*g⁻¹, '
            'ode steps) up to 1e3 (quick) / 1e5 (thorough), fan-in programs x*=x (informational), odeint: 5 steppers x '
            'step counts 1..1e4 x SO3 SE2 SE3 Bundle via integrate_n_steps.  SO2 / SE2 additionally (own random stream): '
            'lifted registers L (SO3 / SE3) with ops lift (L=E.lift_so3()/lift_se3(), every lifted element audited: finite, unit, '
            'q_w>=0, distance to the exact lift diag(M,1) of the exact history value) and project (E=L.project_so2()/project_se2(), '
            'planar and non-planar L; exact yaw by 320-bit sqrt); special-point scripts: E at SO2(pi) SO2(-pi) SO2(0,-1) SO2(-0,-1) '
            'SO2(complex(-2,0)) pi-+10^U(-12,-3) complex(-1,+-tiny) SO2(+-tiny,-1) 3pi -5pi nextafter(pi) pi-1e-4 quarter, '
            'quarter*quarter, id*=quarter*=quarter, exp(+-pi), id+=quarter+=quarter, L at rot_z(pi), Quaternion(w=0,z=1), '
            'rot_z(+-(pi-e)), non-planar; liftmix random programs (lift/project in the op mix, two registers at special points); '
            'chains ENDING at a half turn ((G(pi/N))^N by *=, x*g, g*x, +=, odeint steps; N = 2,7,64,100..1000, chainlen/100, /10, '
            'chainlen) followed by lift, lift∘project, project; projections next to the yaw singularity (informational).  '
            'evaluations = executed primitive ops; '
            'distinct_nontrivial = distinct emitted step lines (op, group, scalar, input bits) + audited checkpoints')
    assumptions = ['IEEE rounding (the per-op ε) is measured against the exact oracle, not proved; the theorems carry the '
                   'invariants over ℝ, the drift recurrence for any ε, and the Runge–Kutta constant-velocity law',
                   'initial registers are the implementation\'s own constructor outputs taken as exact starting points',
                   'relative error of a register = max-entry distance of matrices / max(1, largest magnitude met along its history)',
                   'boost::odeint 1.74 as installed; stage rows of runge_kutta_fehlberg78 are not modelled (only its weights)',
                   'the exact value of project_so2 / project_se2 is the yaw atan2(R10, R00) of the exact rotation; where its '
                   'conditioning rho = |(R00, R10)| is below 1e-2 (pitch within 0.6 deg of +-90 deg) the accuracy of the projected '
                   'element is reported, not judged (finiteness, unit norm are judged)']

    def prebuild(self):
        vlib.build_harnesses(specs())

    # -------------------------------------------------------------- generation
    def gen(self, ctx):
        bins = vlib.build_harnesses(specs())
        par = PARAMS[ctx['tier']]
        env = {'VERIF_SEED': str(ctx['seed'])}

        def run(f):
            return vlib.run_harness(bins[f'hist{f}'], list(par[f]), env=env)
        with ThreadPoolExecutor(max_workers=4) as ex:
            raws = list(ex.map(run, FAMILIES))
        lines = []
        for raw in raws:
            lines += vlib.parse_lines(raw)
        return lines

    def reexec(self, requests):
        """run `hist_audit` / step request lines through the implementation (prog/eval mode)"""
        bins = vlib.build_harnesses(specs())
        out = [None] * len(requests)
        todo = list(range(len(requests)))
        for f in (3, 0, 1, 2):
            if not todo:
                break
            raw = vlib.run_harness(bins[f'hist{f}'], ['prog'], stdin='\n'.join(requests[i] for i in todo) + '\n')
            # a program yields several lines (steps + trailer); split the stream per request
            cur = []
            res = {}
            ti = 0
            for r in raw:
                if r.startswith('SKIP'):
                    res[todo[ti]] = None
                    ti += 1
                    cur = []
                    continue
                cur.append(r)
                req_is_prog = requests[todo[ti]].startswith('hist_audit')
                if (req_is_prog and r.startswith('hist_audit')) or not req_is_prog:
                    res[todo[ti]] = cur
                    ti += 1
                    cur = []
            nxt = []
            for i in todo:
                if res.get(i) is None:
                    nxt.append(i)
                else:
                    out[i] = vlib.parse_lines(res[i])
            todo = nxt
        return out

    def probe_modified_midpoint(self):
        try:
            b = vlib.build_harness('hist9', 'hist.cpp', ('-DFAMILY=9',))
            out = vlib.run_harness(b)
            return {'compiles': True, 'output': out[:1]}
        except vlib.HarnessCompileError as e:
            errs = [l for l in e.err.splitlines() if 'error' in l][:2]
            return {'compiles': False, 'error': ' | '.join(x.strip()[:300] for x in errs)}

    # -------------------------------------------------------------- checks on a set of lines
    def check_lines(self, ctx, lines, probe=True, shrink=True):
        t0 = time.time()
        findings, broken = [], []
        steps = [l for l in lines if l.op in STEP_OPS]
        trailers = [l for l in lines if l.op == 'hist_audit']
        odefin = [l for l in lines if l.op == 'hist_odefinal']
        odestg = [l for l in lines if l.op == 'hist_odestage']
        progs = [Program(l) for l in trailers]

        # ---- T1: every executed step against the executable model
        t1 = vlib.t1_compare(steps, tol_ulp=64.0, exact_ops=('hist_cast',), rng_seed=ctx['seed'])
        by = {}
        for b in t1['breaks']:
            l = Line(b['line'])
            by.setdefault(f'{l.op}|{l.grp}|{l.prec}', []).append(b)
        for k, bs in by.items():
            broken.append({'what': 'correspondence', 'name': f'T1 {k} (implementation vs Lean model, history step)',
                           'count': len(bs), 'first': bs[0]})
        t_t1 = time.time() - t0

        # ---- T1 of the register machine: `Hist.step` folded over the whole program with teacher forcing —
        # after every op the model's destination register is overwritten with the implementation's
        # checkpoint, so the value the model reports at step k must be BIT-IDENTICAL to the model's
        # reply to the step line k (same model op; operands fetched by the model's own register
        # semantics vs the registers the implementation actually read).
        model_step = {}
        for l, r in zip(steps, pdriver([l.request() for l in steps])):
            tf = tag_fields(l.tag)
            if 'k' in tf:
                model_step[(tf['prog'], int(tf['k']))] = (r.split(), l)
        runs = [p for p in progs if p.n <= 400 and len(p.cks) > 0]
        reps = pdriver([' '.join(['hist_run', p.grp, p.prec] + p.line.ins + p.line.outs) for p in runs])
        run_stats = {'programs': 0, 'checkpoints': 0, 'bit_identical': 0}
        for p, r in zip(runs, reps):
            if r.startswith('ERR'):
                broken.append({'what': 'correspondence', 'name': f'hist_run {p.grp} {p.prec} (model error {r})', 'first': {'line': p.line.raw[:2000]}})
                continue
            w = r.split()
            if len(w) != sum(len(c[2]) for c in p.cks):
                broken.append({'what': 'correspondence', 'name': f'hist_run {p.grp} {p.prec} (checkpoint words model {len(w)} impl {sum(len(c[2]) for c in p.cks)})',
                               'first': {'line': p.line.raw[:2000]}})
                continue
            run_stats['programs'] += 1
            wpos = 0
            for i, (k, reg, cw) in enumerate(p.cks):
                mw = w[wpos:wpos + len(cw)]
                wpos += len(cw)
                ms = model_step.get((p.id, k))
                run_stats['checkpoints'] += 1
                if ms is None:
                    continue
                same = ms[0] == mw and ms[1].outs == cw
                if not same:
                    broken.append({'what': 'correspondence', 'name': f'hist_run {p.grp} {p.prec}: register machine model (Hist.step) vs implementation at step {k}',
                                   'first': {'line': p.line.raw[:3000], 'k': k, 'model_machine': ' '.join(mw), 'model_step_line': ' '.join(ms[0]),
                                             'impl_checkpoint': ' '.join(cw), 'impl_step_line': ' '.join(ms[1].outs)}})
                    break
                run_stats['bit_identical'] += 1
        t_run = time.time() - t0

        # ---- per-op ε against the exact oracle
        stepsel = [l for l in steps if l.prec == 'f64'] + [l for i, l in enumerate(steps) if l.prec == 'f32' and i % 3 == 0]
        sreqs = [' '.join(['hist_step', l.grp, l.prec + 'a', enc(float(STEP_CODE[l.op]), l.prec)] + l.ins + l.outs) for l in stepsel]
        sreps = pdriver(sreqs)
        eps = {}          # (op tag, group, prec) -> [max matrix eps, max norm eps, n]
        eps_band = {}     # (group, prec, band) -> max matrix eps of exp-type steps
        step_eps = {}     # (prog id, k) -> (matrix eps, band, op)
        lowrho = set()    # programs containing a projection next to the yaw singularity (informational)
        rho_min = 1.0
        for l, r in zip(stepsel, sreps):
            tf = tag_fields(l.tag)
            if r.startswith('ERR projection-singular') or (r.startswith('ERR') and not all(math.isfinite(x) for x in l.in_vals())):
                lowrho.add(tf['prog'])     # yaw undefined / operand already non-finite: nothing to measure
                continue
            if r.startswith('ERR'):
                raise vlib.MachineryError(f'hist_step failed: {l.raw[:120]} -> {r}')
            e = [dec(w, 'f64') for w in r.split()]
            opn = tf.get('word', l.op)
            key = f'{opn}|{l.grp}|{l.prec}'
            opdef = e[2] if len(e) > 2 else 0.0
            if not tf['prog'].startswith(('s', 'g')):     # fan-in / yaw-singularity programs are informational only
                s = eps.setdefault(key, [0.0, 0.0, 0, 0.0])
                s[0], s[1], s[2] = max(s[0], e[0]), max(s[1], e[1]), s[2] + 1
                if opdef <= (1e-15 if l.prec == 'f64' else 1e-6):
                    s[3] = max(s[3], e[0])         # operands unit to a few ulp: the op's own rounding
            tan = step_tangent(l)
            band = rot_band(l.grp, tan, l.prec)[0] if tan is not None else '-'
            if tan is not None and not tf['prog'].startswith(('s', 'g')):
                bk = f'{l.grp}|{l.prec}|{band}'
                eps_band[bk] = max(eps_band.get(bk, 0.0), e[0])
            if 'k' in tf:
                step_eps[(tf['prog'], int(tf['k']))] = (e[0], band, opn, e[2] if len(e) > 2 else 0.0)
            if l.op == 'hist_project' and len(e) > 3:
                rho_min = min(rho_min, e[3])
                if e[3] < RHO_MIN:
                    lowrho.add(tf['prog'])
        t_eps = time.time() - t0

        # ---- history audit
        areqs = [' '.join(['hist_audit', p.grp, p.line.prec] + p.line.ins + p.line.outs) for p in progs]
        areps = pdriver(areqs)
        hist_stats = {'programs': len(progs), 'checkpoints': 0, 'ops_executed': sum(p.n for p in progs),
                      'worst_defect_per_op': {}, 'worst_err_per_op': {}, 'float_informational': {}, 'fanin_informational': {},
                      'yaw_singularity_informational': {}, 'lifted_checkpoints': sum(1 for p in progs for c in p.cks if c[1] >= 100)}
        length_hist = {}
        samples = []
        failing = []
        for p, r in zip(progs, areps):
            lb = '1-5' if p.n <= 5 else '6-20' if p.n <= 20 else '21-60' if p.n <= 60 else '61-200' if p.n <= 200 else \
                '201-1e3' if p.n <= 1000 else '1e3-1e4' if p.n <= 10000 else '1e4-1e5'
            length_hist[lb] = length_hist.get(lb, 0) + 1
            illcond = p.shape.startswith('gimbal') or p.id in lowrho
            if r.startswith('ERR projection-singular') and illcond:
                continue
            if r.startswith('ERR'):
                raise vlib.MachineryError(f'hist_audit failed on {p.grp} {p.prec} {p.id}: {r}')
            v = [dec(w, 'f64') for w in r.split()]
            rows = [v[i:i + 6] for i in range(0, len(v), 6)]
            hist_stats['checkpoints'] += len(rows)
            gk = f'{p.grp}|{p.prec}'
            viol = {}
            if illcond:
                yi = hist_stats['yaw_singularity_informational'].setdefault(gk, {'worst_err_per_op': 0.0, 'programs': 0})
                yi['programs'] += 1
            for (err, defect, minw, scale, fin, k) in rows:
                k = int(k)
                if p.fanin():
                    # rounding errors are doubled by the arithmetic: judged against the tree size 2^k − 1
                    W = 2.0 ** min(k, 1000) - 1
                    fi = hist_stats['fanin_informational'].setdefault(gk, {'worst_err_over_tree_size': 0.0, 'worst_err_over_n_plus_1': 0.0})
                    if fin == 1.0:
                        fi['worst_err_over_tree_size'] = max(fi['worst_err_over_tree_size'], err / (W + 1))
                        fi['worst_err_over_n_plus_1'] = max(fi['worst_err_over_n_plus_1'], err / (k + 1))
                    continue
                if fin != 1.0:
                    viol.setdefault('nonfinite', (k, float('inf'), 0.0))
                    continue
                if minw < 0:
                    viol.setdefault('sign', (k, -minw, 0.0))
                d1, e1 = defect / (k + 1), err / (k + 1)
                if illcond:
                    # the yaw of an element next to the singularity rho = 0 is ill-conditioned (error/rho):
                    # accuracy reported, not judged; finiteness, sign and unit norm are judged as usual
                    yi = hist_stats['yaw_singularity_informational'].setdefault(gk, {'worst_err_per_op': 0.0, 'programs': 0})
                    yi['worst_err_per_op'] = max(yi['worst_err_per_op'], e1)
                    if p.prec == 'f64' and not (d1 <= TOL_DEFECT['f64']) and 'drift' not in viol:
                        viol['drift'] = (k, defect, (k + 1) * TOL_DEFECT['f64'])
                    continue
                if p.prec == 'f64':
                    hist_stats['worst_defect_per_op'][gk] = max(hist_stats['worst_defect_per_op'].get(gk, 0.0), d1)
                    hist_stats['worst_err_per_op'][gk] = max(hist_stats['worst_err_per_op'].get(gk, 0.0), e1)
                    if not (d1 <= TOL_DEFECT['f64']) and 'drift' not in viol:
                        viol['drift'] = (k, defect, (k + 1) * TOL_DEFECT['f64'])
                    if not (e1 <= TOL_ACC['f64']) and 'accuracy' not in viol:
                        viol['accuracy'] = (k, err, (k + 1) * TOL_ACC['f64'], defect)
                else:
                    fi = hist_stats['float_informational'].setdefault(gk, {'worst_defect_per_op': 0.0, 'worst_err_per_op': 0.0,
                                                                           'over_1e-5_defect': 0, 'over_1e-4_err': 0})
                    fi['worst_defect_per_op'] = max(fi['worst_defect_per_op'], d1)
                    fi['worst_err_per_op'] = max(fi['worst_err_per_op'], e1)
                    fi['over_1e-5_defect'] += int(not d1 <= TOL_DEFECT['f32'])
                    fi['over_1e-4_err'] += int(not e1 <= TOL_ACC['f32'])
            if len(samples) < 8 and rows and (len(samples) < 4 or p.n > 100):
                samples.append({'group': p.grp, 'prec': p.prec, 'shape': p.shape, 'n': p.n, 'program': p.describe(12),
                                'last_checkpoint': {'err': rows[-1][0], 'defect': rows[-1][1], 'min_qw': rows[-1][2], 'k': int(rows[-1][5])}})
            for kind, vv in viol.items():
                failing.append((p, kind, vv[0], vv[1], vv[2], vv[3] if len(vv) > 3 else 0.0))

        # ---- findings with culprit attribution
        for (p, kind, k, val, tol, defect_k) in failing:
            culprit, band, ceps, ck, cdef = 'none', '-', 0.0, None, 0.0
            cause = 'accumulation'
            if kind in ('accuracy', 'drift', 'nonfinite'):
                # the worst single step up to k whose own error exceeds the per-op budget
                for kk in range(1, k + 1):
                    se = step_eps.get((p.id, kk))
                    if se and se[0] > TOL_ACC[p.prec] and se[0] > ceps:
                        ceps, band, culprit, ck, cdef = se[0], se[1], se[2], kk, se[3]
                if culprit != 'none':
                    if band == 'above_switch':
                        cause = 'exp_above_switch'
                    elif cdef > 0 and ceps <= 8 * cdef:
                        # M(a)·M(b) ≠ M(a·b) by the operands' own constraint defect: the step error is the drift
                        cause = 'operand_norm_drift'
                    else:
                        cause = 'single_op'
                elif kind == 'accuracy' and defect_k * k >= 0.4 * val:
                    # linear norm drift δ_j ≈ δ_k·j/k feeds Σ_j δ_j ≈ δ_k·k/2 into the translation part
                    cause = 'operand_norm_drift'
            elif kind == 'sign':
                cause = 'sign'
            key = {'kind': kind, 'group': p.grp, 'prec': p.prec, 'shape': p.shape.split(':')[0], 'cause': cause,
                   'culprit_op': culprit, 'theta_band': band}
            f = {'property': PID, 'key': key, 'err': val if math.isfinite(val) else None, 'tol': tol, 'n': p.n, 'k': k,
                 'what': {'accuracy': f'register differs from the exact result of the same history by {val:.3g} relative after {k} ops (bound {tol:.3g})',
                          'drift': f'constraint defect |‖q‖²−1| = {val:.3g} after {k} ops (bound {tol:.3g})',
                          'sign': f'canonical sign lost: q_w = {-val:.3g} < 0 after {k} ops',
                          'nonfinite': f'non-finite coefficient after {k} ops'}[kind],
                 'culprit_step': {'k': ck, 'op': culprit, 'theta_band': band, 'own_error': ceps, 'operand_defect': cdef},
                 'defect_at_k': defect_k, 'shape': p.shape,
                 'program': p.describe(), 'line': p.line.request() + ' # ' + p.line.tag}
            f['_prog'] = p
            findings.append(f)
        # shrink the worst program of every key (delta debugging on the op list)
        worst_of = {}
        for f in findings:
            if '_prog' in f:
                gk = json.dumps(f['key'], sort_keys=True)
                if gk not in worst_of or (f.get('err') or 0) > (worst_of[gk].get('err') or 0):
                    worst_of[gk] = f
        for f in worst_of.values():
            pp = f['_prog']
            if shrink and pp.n <= 400:
                try:
                    sh = self.shrink(ctx, pp, f['key']['kind'])
                    if sh:
                        f['shrunk'] = sh
                except Exception as e:  # the shrinker is a convenience, never a verdict
                    f['shrunk_error'] = str(e)[:200]
        for f in findings:
            f.pop('_prog', None)
        t_hist = time.time() - t0

        # ---- odeint law
        ode_stats = {'runs': len(odefin), 'stages': len(odestg), 'worst_rel_err_per_step': {}, 'worst_stage_err': {}}
        oreps = pdriver([' '.join([l.op, l.grp, l.prec + 'a'] + l.ins + l.outs) for l in odefin + odestg])
        for l, r in zip(odefin + odestg, oreps):
            if r.startswith('ERR'):
                raise vlib.MachineryError(f'{l.op} failed: {r}')
            err, defect, minw, fin = [dec(w, 'f64') for w in r.split()]
            iv = l.in_vals()
            stepper = l.tag.split()[1] if len(l.tag.split()) > 1 else '?'
            sk = f'{stepper}|{l.grp}|{l.prec}'
            if l.op == 'hist_odefinal':
                n = int(iv[1])
                tol_a, tol_d = (n + 1) * TOL_ACC[l.prec], (n + 1) * TOL_DEFECT[l.prec]
                ode_stats['worst_rel_err_per_step'][sk] = max(ode_stats['worst_rel_err_per_step'].get(sk, 0.0), err / (n + 1))
                bad = []
                if fin != 1.0:
                    bad.append(('nonfinite', None, None))
                elif l.prec == 'f64':
                    if not err <= tol_a:
                        bad.append(('accuracy', err, tol_a))
                    if not defect <= tol_d:
                        bad.append(('drift', defect, tol_d))
                if fin == 1.0 and minw < 0:
                    bad.append(('sign', -minw, 0.0))
                for (what, e, t) in bad:
                    rep, dof = sizes(l.grp)
                    band = rot_band(l.grp, [iv[2] * x for x in iv[3 + rep:3 + rep + dof]], l.prec)[0]
                    findings.append({'property': PID, 'key': {'kind': 'odeint', 'group': l.grp, 'prec': l.prec, 'stepper': stepper,
                                                              'fails': what, 'theta_band': band},
                                     'err': e, 'tol': t, 'n': n,
                                     'what': f'integrate_n_steps({stepper}, constant body velocity, {n} steps) vs x0·exp(T v): {what} {e} (bound {t})',
                                     'line': l.raw})
            else:
                ode_stats['worst_stage_err'][sk] = max(ode_stats['worst_stage_err'].get(sk, 0.0), err)
                if fin != 1.0 or not err <= TOL_STAGE[l.prec]:
                    findings.append({'property': PID, 'key': {'kind': 'odeint', 'group': l.grp, 'prec': l.prec, 'stepper': stepper, 'fails': 'stage'},
                                     'err': err, 'tol': TOL_STAGE[l.prec],
                                     'what': f'stage state of {stepper} is not x ⊕ c·h·v (t = {iv[0]:.6g})', 'line': l.raw})
        mm = None
        if probe:
            mm = self.probe_modified_midpoint()
            if not mm['compiles']:
                findings.append({'property': PID, 'key': {'kind': 'odeint', 'stepper': 'modified_midpoint', 'fails': 'instantiation'},
                                 'err': None, 'tol': None,
                                 'what': 'boost::numeric::odeint::modified_midpoint cannot be instantiated through compat/odeint.hpp: '
                                         + mm.get('error', ''),
                                 'line': 'harness/hist.cpp -DFAMILY=9'})

        strata = {}
        for l in steps:
            tan = step_tangent(l)
            if tan is not None:
                b = rot_band(l.grp, tan, l.prec)[0]
                strata[b] = strata.get(b, 0) + 1
        opmix = {}
        for l in steps:
            w = tag_fields(l.tag).get('word', l.op)
            opmix[w] = opmix.get(w, 0) + 1
        lift_bands = {}
        for l in steps:
            if l.op in ('hist_lift', 'hist_liftproj'):
                bk = f'{l.op[5:]}|{l.grp}|{l.prec}|{heading_band(l)}'
                lift_bands[bk] = lift_bands.get(bk, 0) + 1
        halfturn_chains = {}
        for p in progs:
            if p.shape.startswith('halfturn'):
                halfturn_chains.setdefault(f'{p.grp}|{p.prec}|{p.shape}', []).append(p.n)
        cov = {'evaluations': hist_stats['ops_executed'] + len(odefin) + len(odestg),
               'distinct_nontrivial': len({(l.op, l.grp, l.prec, tuple(l.ins)) for l in steps}) + hist_stats['checkpoints'],
               'rule': self.rule, 'samples': samples,
               'step_lines': len(steps), 'op_mix': opmix, 'exp_argument_bands': strata,
               'lift_operand_distance_to_half_turn': dict(sorted(lift_bands.items())),
               'half_turn_chains_lengths': halfturn_chains,
               'projection_min_conditioning_rho': rho_min, 'programs_with_ill_conditioned_projection': len(lowrho),
               'program_length_histogram': length_hist, 'programs_by_shape': self.by_shape(progs),
               't1_stats': t1['stats'], 't1_breaks': len(t1['breaks']), 'register_machine_t1': run_stats,
               'per_op_eps': {k: {'matrix': v[0], 'matrix_unit_operands': v[3], 'norm2': v[1], 'n': v[2]} for k, v in sorted(eps.items())},
               'per_op_eps_by_exp_band': dict(sorted(eps_band.items())),
               'history_audit': hist_stats, 'odeint': ode_stats, 'modified_midpoint_probe': mm,
               'audit_samples': hist_stats['checkpoints'] + len(stepsel) + len(odefin) + len(odestg),
               'traces_validated_against_impl': len(steps),
               'wall': {'t1': round(t_t1, 1), 'hist_run': round(t_run - t_t1, 1), 'per_op_eps': round(t_eps - t_run, 1),
                        'history_audit': round(t_hist - t_eps, 1), 'odeint': round(time.time() - t0 - t_hist, 1)}}
        return {'coverage': cov, 'findings': findings, 'broken': broken}

    @staticmethod
    def by_shape(progs):
        d = {}
        for p in progs:
            d[p.shape] = d.get(p.shape, 0) + 1
        return d

    # -------------------------------------------------------------- shrinking (delta debugging on the op list)
    def fails(self, ctx, grp, prec, head, ops, kind):
        req = Program.request(grp, prec, head, ops, 'r0 replay')
        out = self.reexec([req])[0]
        if not out:
            return None
        tr = [l for l in out if l.op == 'hist_audit']
        if not tr:
            return None
        p = Program(tr[-1])
        r = vlib.run_driver([' '.join(['hist_audit', p.grp, p.line.prec] + p.line.ins + p.line.outs)])[0]
        if r.startswith('ERR'):
            return None
        v = [dec(w, 'f64') for w in r.split()]
        for i in range(0, len(v), 6):
            err, defect, minw, scale, fin, k = v[i:i + 6]
            bad = {'accuracy': fin == 1.0 and not err <= (k + 1) * TOL_ACC[prec], 'drift': fin == 1.0 and not defect <= (k + 1) * TOL_DEFECT[prec],
                   'sign': fin == 1.0 and minw < 0, 'nonfinite': fin != 1.0}[kind]
            if bad:
                return {'k': int(k), 'err': err, 'defect': defect, 'min_qw': minw, 'program': p}
        return None

    def shrink(self, ctx, p, kind, budget=60):
        ops = list(p.ops)
        if any(o[0] == 10 for o in ops):
            return None
        best = self.fails(ctx, p.grp, p.prec, p.head, ops, kind)
        if best is None:
            return None
        n = 2
        tries = 0
        while len(ops) >= 2 and tries < budget:
            chunk = max(1, len(ops) // n)
            reduced = False
            for s in range(0, len(ops), chunk):
                cand = ops[:s] + [o for o in ops[s:s + chunk] if o[0] == 13] + ops[s + chunk:]
                if len(cand) == len(ops) or not [o for o in cand if o[0] != 13]:
                    continue
                tries += 1
                r = self.fails(ctx, p.grp, p.prec, p.head, cand, kind)
                if r is not None:
                    ops, best, reduced = cand, r, True
                    n = max(n - 1, 2)
                    break
                if tries >= budget:
                    break
            if not reduced:
                if chunk == 1:
                    break
                n = min(len(ops), n * 2)
        q = best['program']
        return {'ops': len(ops), 'k': best['k'], 'err': best['err'], 'defect': best['defect'], 'min_qw': best['min_qw'],
                'program': q.describe(), 'line': q.line.request() + ' # ' + q.line.tag}

    # -------------------------------------------------------------- entry points
    def explore(self, ctx):
        lines = self.gen(ctx)
        return self.check_lines(ctx, lines)

    def search(self, ctx, broken):
        lines = self.gen(dict(ctx, seed=ctx['seed'] + 7919))
        res = self.check_lines(ctx, lines, probe=False)
        return {'coverage': {'evaluations': res['coverage']['evaluations']}, 'findings': res['findings']}

    def replay(self, ctx, payload):
        reqs = []
        for c in payload.get('cases', []):
            for key in ('line',):
                if isinstance(c.get(key), str) and c[key].split()[0] in STEP_OPS + ('hist_audit',):
                    reqs.append(c[key])
            if isinstance(c.get('shrunk'), dict) and 'line' in c['shrunk']:
                reqs.append(c['shrunk']['line'])
        for b in payload.get('no_longer_checks', []) + payload.get('broken', []):
            f = b.get('first')
            if isinstance(f, dict) and isinstance(f.get('line'), str) and f['line'].split()[0] in STEP_OPS + ('hist_audit',):
                reqs.append(f['line'])
        stage = []
        for c in payload.get('cases', []):
            ln = c.get('line')
            if isinstance(ln, str) and ln.startswith('hist_odefinal'):
                reqs.append(ln)
            elif isinstance(ln, str) and ln.startswith('hist_odestage'):
                stage.append(Line(ln))
        probe = any(c.get('key', {}).get('stepper') == 'modified_midpoint' for c in payload.get('cases', []))
        lines = []
        if reqs:
            for out in self.reexec(reqs):
                if out:
                    lines += out
        if stage:
            # stage states are regenerated by the generator with the stored seed
            gl = [l for l in self.gen(dict(ctx, seed=payload.get('seed', ctx['seed']), tier=payload.get('tier', ctx['tier'])))
                  if l.op == 'hist_odestage']
            want = {(l.op, l.grp, l.prec, tuple(l.ins)) for l in stage}
            lines += [l for l in gl if (l.op, l.grp, l.prec, tuple(l.ins)) in want]
        if not lines and not probe:
            return {'coverage': {}, 'findings': [], 'broken': payload.get('no_longer_checks', [])}
        return self.check_lines(ctx, lines, probe=probe, shrink=False)


def make():
    return C15()
