"""Shared plugin for the Lie-group properties C01–C05 (harness/lie.cpp, six catalogue families)."""
import math, os, sys
sys.path.insert(0, os.path.dirname(os.path.dirname(__file__)))
import vlib
from vlib import Line, dec, enc

FAMILIES = [0, 1, 2, 3, 4, 5]
EXACT_OPS = ('cos_2', 'sin_3', 'cos_4', 'sin_5', 'cos_6', 'identity', 'hat', 'vee')


def lie_specs():
    return [(f'lie{f}', 'lie.cpp', (f'-DFAMILY={f}',)) for f in FAMILIES]


def tangent_words(n, prec, k):
    """deterministic dyadic test tangent for audits that need an extra vector"""
    vals = [((7 * (i + 1) * (k + 3)) % 17 - 8) / 8.0 for i in range(n)]
    return [enc(v, prec) for v in vals]


class LieProp:
    def __init__(self, pid, ops, props_files, audit_fn, tol, rule, assumptions=None, nq=18, nt=180):
        self.id = pid
        self.ops = set(ops)
        self.props_files = props_files
        self.props_module = 'SmoothProps.' + pid
        self.lean_targets = ['SmoothProps.' + pid]
        self.audit_fn = audit_fn
        self.tol = tol
        self.rule = rule
        self.assumptions = assumptions or []
        self.nq, self.nt = nq, nt

    # ------------------------------------------------------------------ generation
    def gen_lines(self, ctx, n):
        bins = vlib.build_harnesses(lie_specs())
        lines = []
        for f in FAMILIES:
            raw = vlib.run_harness(bins[f'lie{f}'], [n], env={'VERIF_SEED': str(ctx['seed'])})
            lines += [l for l in vlib.parse_lines(raw) if l.op in self.ops]
        return lines

    def eval_lines(self, requests):
        """run request lines through the implementation (eval mode of every family binary)"""
        bins = vlib.build_harnesses(lie_specs())
        out = [None] * len(requests)
        todo = list(range(len(requests)))
        for f in FAMILIES:
            if not todo:
                break
            raw = vlib.run_harness(bins[f'lie{f}'], ['eval'], stdin='\n'.join(requests[i] for i in todo) + '\n')
            nxt = []
            for i, r in zip(todo, raw):
                if r.startswith('SKIP'):
                    nxt.append(i)
                else:
                    out[i] = Line(r)
            todo = nxt
        return out

    # ------------------------------------------------------------------ T1 + audit on a set of lines
    def check_lines(self, ctx, lines):
        t1 = vlib.t1_compare(lines, tol_ulp=64.0, exact_ops=EXACT_OPS, rng_seed=ctx['seed'])
        broken = []
        if t1['breaks']:
            by = {}
            for b in t1['breaks']:
                l = Line(b['line'])
                by.setdefault(f'{l.op}|{l.grp}|{l.prec}', []).append(b)
            for k, bs in by.items():
                broken.append({'what': 'correspondence', 'name': f'T1 {k} (implementation vs Lean model)',
                               'count': len(bs), 'first': bs[0]})
        findings, audit_stats, samples = self.run_audit(ctx, lines)
        strata = {}
        sig = set()
        for l in lines:
            strata[l.tag] = strata.get(l.tag, 0) + 1
            vals = l.in_vals()
            if any(v != 0 for v in vals):
                sig.add((l.op, l.grp, l.prec, l.tag, tuple(l.ins)))
        cov = {'evaluations': len(lines), 'distinct_nontrivial': len(sig),
               'rule': self.rule, 'samples': samples,
               'strata_hits': strata, 't1_stats': t1['stats'], 't1_breaks': len(t1['breaks']),
               'audit_samples': audit_stats.get('n', 0), 'audit_worst': audit_stats.get('worst', {}),
               'traces_validated_against_impl': len(lines)}
        return {'coverage': cov, 'findings': findings, 'broken': broken}

    def run_audit(self, ctx, lines):
        reqs = self.audit_fn(lines)          # list of (request_line, meta)
        if not reqs:
            return [], {}, []
        reps = vlib.run_driver([r for r, m in reqs])
        findings, worst, samples = [], {}, []
        n = 0
        for (r, m), rep in zip(reqs, reps):
            if rep.startswith('ERR'):
                raise vlib.MachineryError(f'audit op failed: {r[:80]} -> {rep}')
            if rep.startswith('NONFINITE'):
                findings.append({'property': self.id, 'key': dict(m['key'], kind='nonfinite'), 'err': None,
                                 'what': 'non-finite output', 'line': m['line']})
                continue
            n += 1
            errs = [dec(w, 'f64') for w in rep.split()]
            fs = m['judge'](errs, m)
            k = f"{m['key']['op']}|{m['key']['group']}|{m['key']['prec']}"
            worst[k] = max(worst.get(k, 0.0), errs[0])
            if len(samples) < 6 and n % 97 == 1:
                samples.append({'request': m['line'][:300], 'oracle_error': errs[0], 'tolerance': m.get('tol')})
            for (err, tol, what) in fs:
                findings.append({'property': self.id, 'key': m['key'], 'err': err, 'tol': tol, 'what': what,
                                 'line': m['line'], 'audit_request': r})
        return findings, {'n': n, 'worst': worst}, samples

    # ------------------------------------------------------------------ entry points
    def explore(self, ctx):
        n = self.nq if ctx['tier'] == 'quick' else self.nt
        lines = self.gen_lines(ctx, n)
        return self.check_lines(ctx, lines)

    def search(self, ctx, broken):
        lines = self.gen_lines(dict(ctx, seed=ctx['seed'] + 7919), self.nt)
        res = self.check_lines(ctx, lines)
        return {'coverage': {'evaluations': len(lines)}, 'findings': res['findings']}

    def replay(self, ctx, payload):
        reqs = []
        for c in payload.get('cases', []):
            if 'line' in c:
                reqs.append(Line(c['line']).request())
        for b in payload.get('no_longer_checks', []):
            if isinstance(b.get('first'), dict) and 'line' in b['first']:
                reqs.append(Line(b['first']['line']).request())
        if not reqs:
            return {'coverage': {}, 'findings': [], 'broken': payload.get('no_longer_checks', [])}
        lines = [l for l in self.eval_lines(reqs) if l is not None]
        return self.check_lines(ctx, lines)


def std_key(l):
    return {'op': l.op, 'group': l.grp, 'prec': l.prec, 'stratum': l.tag}


def simple_judge(errs, m):
    return [(errs[0], m['tol'], m['what'])] if not (errs[0] <= m['tol']) else []
