"""Shared plugin for the Lie-group properties C01–C05 (harness/lie.cpp, six catalogue families)."""
import math, os, sys
sys.path.insert(0, os.path.dirname(os.path.dirname(__file__)))
import vlib
from vlib import Line, dec, enc

FAMILIES = [0, 1, 2, 3, 4, 5]
EXACT_OPS = ('cos_2', 'sin_3', 'cos_4', 'sin_5', 'cos_6', 'identity', 'hat', 'vee',
             # API-coverage ops with input-independent or exactly mirrored outputs (props/apiops.py)
             'identity_free', 'set_identity', 'set_identity_map', 'consts', 'isapprox', 'fisapprox', 'isapprox_default', 'stream')
CANCELLING_OPS = ('exp', 'log', 'logexp', 'Adexp', 'rplus', 'rminus', 'dr_exp', 'dl_exp', 'dr_expinv', 'dl_expinv', 'dr_rminus',
                  'dr_rminus_sqn', 'd2r_exp', 'd2l_exp', 'd2r_expinv', 'd2l_expinv', 'd2r_rminus', 'd2r_rminus_sqn',
                  'calc_S1', 'calc_S2', 'calc_S1inv', 'calculate_q', 'calculate_r',
                  # the same functions reached through the free-function API / in-place operators / const views (props/apiops.py)
                  'fexp', 'flog', 'log_cmap', 'frplus', 'frminus', 'rminus_cmap', 'lplus', 'lminus', 'pluseq', 'pluseq_map', 'pluseq_log',
                  'fdr_exp', 'fdl_exp', 'fdr_expinv', 'fdl_expinv', 'fd2r_exp', 'fd2l_exp', 'fd2r_expinv', 'fd2l_expinv')


def lie_specs():
    return [(f'lie{f}', 'lie.cpp', (f'-DFAMILY={f}',)) for f in FAMILIES]


def tangent_words(n, prec, k):
    """deterministic dyadic test tangent for audits that need an extra vector"""
    vals = [((7 * (i + 1) * (k + 3)) % 17 - 8) / 8.0 for i in range(n)]
    return [enc(v, prec) for v in vals]


def isapprox_too_close(l):
    """isApprox lines whose relative coefficient distance is within a factor 1.5 of the threshold (last input word): the
    Boolean then depends on the summation order of two squared norms, which Eigen and the model are free to choose
    differently.  The generator keeps a factor >= 4 from the threshold by construction; this guards the one case it does
    not control (two unrelated elements that happen to be that close)."""
    if l.op not in ('isapprox', 'fisapprox', 'isapprox_default'):
        return False
    try:
        v = l.in_vals()
        eps = v[-1]
        n = (len(v) - 1) // 2
        a, b = v[:n], v[n:2 * n]
        d = math.sqrt(sum((x - y) ** 2 for x, y in zip(a, b)))
        m = math.sqrt(min(sum(x * x for x in a), sum(x * x for x in b)))
        return m > 0 and eps > 0 and eps / 1.5 <= d / m <= eps * 1.5
    except Exception:
        return False


class LieProp:
    def __init__(self, pid, ops, props_files, audit_fn, tol, rule, assumptions=None, nq=18, nt=180):
        self.id = pid
        self.ops = set(ops)
        self.props_files = props_files
        # C01..C05 also carry the source-tie theorems: C02, C04, C05 the coefficient code regenerated from
        # the C++ (SrcTie.lean); every one of them the whole implementation functions it is about
        # (SrcTieImplCxx.lean; C01 also the manifest of translated functions, SrcTieImpl.lean)
        agg = pid in ('C01', 'C02', 'C03', 'C04', 'C05')
        if agg:
            self.props_files = list(props_files) \
                + (['SmoothProps/SrcTie.lean'] if pid in ('C02', 'C04', 'C05') else []) \
                + (['SmoothProps/SrcTieImpl.lean'] if pid == 'C01' else []) \
                + [f'SmoothProps/SrcTieImpl{pid}.lean'] \
                + (['SmoothProps/SrcTieBundle.lean'] if pid in ('C02', 'C05') else [])   # BundleImpl (tools/gen_bundle.py)
        self.props_module = 'SmoothProps.' + pid + ('All' if agg else '')
        self.lean_targets = [self.props_module]
        self.audit_fn = audit_fn
        self.tol = tol
        self.rule = rule
        self.assumptions = assumptions or []
        self.nq, self.nt = nq, nt

    def prebuild(self):
        vlib.build_harnesses(lie_specs())

    # ------------------------------------------------------------------ generation
    def gen_lines(self, ctx, n):
        bins = vlib.build_harnesses(lie_specs())
        lines = []
        for f in FAMILIES:
            raw = vlib.run_harness(bins[f'lie{f}'], [n], env={'VERIF_SEED': str(ctx['seed'])})
            lines += [l for l in vlib.parse_lines(raw) if l.op in self.ops and not isapprox_too_close(l)]
        return lines

    def eval_lines(self, requests):
        """run request lines through the implementation (eval mode of every family binary)"""
        bins = vlib.build_harnesses(lie_specs())
        out = [None] * len(requests)
        todo = list(range(len(requests)))
        for f in FAMILIES:
            if not todo:
                break
            raw = vlib.run_harness(bins[f'lie{f}'], ['eval'], stdin='\n'.join(requests[i] for i in todo) + '\n')
            nxt = []
            for i, r in zip(todo, raw):
                if r.startswith('SKIP'):
                    nxt.append(i)
                else:
                    out[i] = Line(r)
            todo = nxt
        return out

    # ------------------------------------------------------------------ T1 + audit on a set of lines
    def check_lines(self, ctx, lines):
        t1 = vlib.t1_compare(lines, tol_ulp=64.0, exact_ops=EXACT_OPS, rng_seed=ctx['seed'])
        broken = []
        unstable_f32 = 0
        if t1['breaks']:
            by = {}
            for b in t1['breaks']:
                l = Line(b['line'])
                # Single precision, rotation angle in [1e-4, 0.3), formulas with closed-form Taylor tails:
                # the float evaluation is numerically meaningless there (differences of terms ~1e12 with
                # ulp 1e5; known findings KF-*-f32-above-switch) and one rounding of an intermediate flips
                # the result, so bit-level agreement of two evaluations cannot be expected.  Counted, not
                # reported as a correspondence break.
                if l.prec == 'f32' and l.op in CANCELLING_OPS and b.get('why') == 'disagreement':
                    k = std_key(l, 'out' if l.op == 'log' else 'in')
                    if k.get('theta_band') == 'above_switch':
                        unstable_f32 += 1
                        continue
                by.setdefault(f'{l.op}|{l.grp}|{l.prec}', []).append(b)
            for k, bs in by.items():
                broken.append({'what': 'correspondence', 'name': f'T1 {k} (implementation vs Lean model)',
                               'count': len(bs), 'first': bs[0]})
        findings, audit_stats, samples = self.run_audit(ctx, lines)
        strata = {}
        sig = set()
        for l in lines:
            strata[l.tag] = strata.get(l.tag, 0) + 1
            vals = l.in_vals()
            if any(v != 0 for v in vals):
                sig.add((l.op, l.grp, l.prec, l.tag, tuple(l.ins)))
        cov = {'evaluations': len(lines), 'distinct_nontrivial': len(sig),
               'rule': self.rule, 'samples': samples,
               'strata_hits': strata, 't1_stats': t1['stats'], 't1_breaks': len(t1['breaks']) - unstable_f32,
               't1_f32_above_switch_unstable': unstable_f32,
               'audit_samples': audit_stats.get('n', 0), 'audit_worst': audit_stats.get('worst', {}),
               'traces_validated_against_impl': len(lines)}
        return {'coverage': cov, 'findings': findings, 'broken': broken}

    def run_audit(self, ctx, lines):
        reqs = self.audit_fn(lines)          # list of (request_line, meta)
        if not reqs:
            return [], {}, []
        reps = vlib.run_driver([r for r, m in reqs])
        # findings an audit function raised itself, on the implementation's words (no oracle call needed)
        findings, worst, samples = list(getattr(self.audit_fn, 'pyfindings', [])), {}, []
        n = 0
        for (r, m), rep in zip(reqs, reps):
            if rep.startswith('ERR'):
                raise vlib.MachineryError(f'audit op failed: {r[:80]} -> {rep}')
            if rep.startswith('NONFINITE'):
                findings.append({'property': self.id, 'key': dict(m['key'], kind='nonfinite'), 'err': None,
                                 'what': 'non-finite output', 'line': m['line']})
                continue
            n += 1
            errs = [dec(w, 'f64') for w in rep.split()]
            fs = m['judge'](errs, m)
            k = f"{m['key']['op']}|{m['key']['group']}|{m['key']['prec']}"
            worst[k] = max(worst.get(k, 0.0), errs[0])
            if len(samples) < 6 and n % 97 == 1:
                samples.append({'request': m['line'][:300], 'oracle_error': errs[0], 'tolerance': m.get('tol')})
            for (err, tol, what) in fs:
                findings.append({'property': self.id, 'key': m['key'], 'err': err, 'tol': tol, 'what': what,
                                 'line': m['line'], 'audit_request': r})
        return findings, {'n': n, 'worst': worst}, samples

    # ------------------------------------------------------------------ entry points
    def explore(self, ctx):
        n = self.nq if ctx['tier'] == 'quick' else self.nt
        lines = self.gen_lines(ctx, n)
        return self.check_lines(ctx, lines)

    def search(self, ctx, broken):
        lines = self.gen_lines(dict(ctx, seed=ctx['seed'] + 7919), self.nt)
        res = self.check_lines(ctx, lines)
        return {'coverage': {'evaluations': len(lines)}, 'findings': res['findings']}

    def replay(self, ctx, payload):
        reqs = []
        for c in payload.get('cases', []):
            if 'line' in c:
                reqs.append(Line(c['line']).request())
        for b in payload.get('no_longer_checks', []):
            if isinstance(b.get('first'), dict) and 'line' in b['first']:
                reqs.append(Line(b['first']['line']).request())
        if not reqs:
            return {'coverage': {}, 'findings': [], 'broken': payload.get('no_longer_checks', [])}
        lines = [l for l in self.eval_lines(reqs) if l is not None]
        return self.check_lines(ctx, lines)


# ---------------------------------------------------------------- descriptor helpers
def parse_desc(s):
    """'B[SO3,T2,B[SE2,C1]]' -> nested lists / strings"""
    def go(i):
        if s.startswith('B[', i):
            i += 2
            items = []
            while s[i] != ']':
                d, i = go(i)
                items.append(d)
                if s[i] == ',':
                    i += 1
            return items, i + 1
        j = i
        while j < len(s) and s[j] not in ',]':
            j += 1
        return s[i:j], j
    return go(0)[0]


def prim_sizes(p):
    """(rep, dof, rotation tangent indices, quaternion rep offset or None)"""
    if p == 'SO2': return 2, 1, [0]
    if p == 'SO3': return 4, 3, [0, 1, 2]
    if p == 'SE2': return 4, 3, [2]
    if p == 'SE3': return 7, 6, [3, 4, 5]
    if p == 'C1': return 2, 2, [1]
    if p == 'GAL': return 11, 10, [7, 8, 9]
    if p.startswith('SEK'):
        k = int(p[3:]); return 4 + 3 * k, 3 + 3 * k, [3 * k, 3 * k + 1, 3 * k + 2]
    if p.startswith('T'):
        n = int(p[1:]); return n, n, []
    raise ValueError(p)


def flat_prims(d):
    if isinstance(d, str):
        return [d]
    out = []
    for x in d:
        out += flat_prims(x)
    return out


def rot_norms(grp, tangent):
    """[(primitive, rotation norm)] of a flat tangent vector of group descriptor `grp`"""
    off = 0
    res = []
    for p in flat_prims(parse_desc(grp)):
        rep, dof, ridx = prim_sizes(p)
        if ridx:
            res.append((p, math.sqrt(sum(tangent[off + i] ** 2 for i in ridx))))
        off += dof
    return res


PRIORITY = ['GAL', 'SEK', 'SE3', 'SE2', 'SO3', 'C1', 'SO2']


def band_of(th, prec):
    if th == 0: return 'zero'
    # `series` only when th² is below eps2 by more than the working precision can resolve (16 eps): the implementation's own
    # test `th2 < eps2` is made on ITS rounded th2, and at theta = 1e-4·(1 − 1.3e-8) in single precision it lands on the
    # closed-form side, where the float formulas are garbage (known findings *-f32-above-switch; DESIGN 8.2, 8.6)
    if th * th < 1e-8 * (1 - 16 * vlib.EPS.get(prec, 0.0)): return 'series'
    if th < 0.3: return 'above_switch'      # closed forms with cancellation
    return 'generic'


def region_key(grp, tangent, prec):
    """(culprit primitive, theta band, theta): the rotation factor in the most delicate band;
    among equals the most complex primitive"""
    rn = rot_norms(grp, tangent)
    order = {'above_switch': 0, 'series': 1, 'generic': 2, 'zero': 3}
    best = None
    for p, th in rn:
        b = band_of(th, prec)
        fam = 'SEK' if p.startswith('SEK') else p
        rank = (order[b], PRIORITY.index(fam) if fam in PRIORITY else 99)
        if best is None or rank < best[0]:
            best = (rank, fam, b, th)
    if best is None:
        return 'T', 'none', 0.0
    return best[1], best[2], best[3]


def std_key(l, tangent_from='in'):
    """identifying key of a finding: op, scalar, culprit primitive and theta band of the tangent"""
    k = {'op': l.op, 'group': l.grp, 'prec': l.prec, 'stratum': l.tag}
    try:
        vals = l.in_vals() if tangent_from == 'in' else l.out_vals()
        _, dof = 0, sum(prim_sizes(p)[1] for p in flat_prims(parse_desc(l.grp)))
        if len(vals) >= dof and tangent_from in ('in', 'out'):
            fam, band, th = region_key(l.grp, vals[:dof], l.prec)
            k.update({'culprit': fam, 'theta_band': band, 'theta': th})
    except Exception:
        pass
    return k


def simple_judge(errs, m):
    return [(errs[0], m['tol'], m['what'])] if not (errs[0] <= m['tol']) else []
