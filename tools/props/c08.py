"""C08 — diff::dr returns the true tangent-space derivatives (harness/diff.cpp, Driver/OpsDiff.lean).

T1: `diff_trace` (the argument tuple at every evaluation of f: step rule, order of the
perturb/restore schedule incl. the interleaved K=2 schedule, index-subset wrapper, restoration)
and `diff_dr` (value, Jacobian, Hessian in the documented layout, arguments after the call) are
re-evaluated by the executable Lean model of dr_numerical on the Lean models of the callables.
The difference quotients amplify last-bit differences of f by 1/eps; lines over the ulp tolerance
get vlib's sensitivity second pass (the model re-evaluated on inputs nudged by 1 ulp).
Audit (implementation only, `aud_diff`): closed-form derivatives (1e-4 first order, 5e-2 second
order), restoration (1e-15 of the largest coefficient), K=0 value, Analytic/Default pass-through
(bit-identical to the callable's own jacobian/hessian, one evaluation of f), const arguments
untouched, index-subset derivative = columns of the full derivative.
"""
import math, os, sys
sys.path.insert(0, os.path.dirname(os.path.dirname(__file__)))
import vlib
from vlib import Line, dec

FAMILIES = [0, 1, 2, 3, 4, 5, 6]
TOL_FIRST = 1e-4
TOL_SECOND = 5e-2
TOL_RESTORE = 1e-15
FLOOR = 0.1            # "O(1) derivatives": relative errors are taken w.r.t. max(|true|max, FLOOR)
T1_TOL_ULP = 16.0
TRACE_TOL_ULP = 4.0


def specs():
    return [(f'diff{f}', 'diff.cpp', (f'-DFAMILY={f}',)) for f in FAMILIES]


def tok(l):
    fam, grp, k, mode, idx, cm = l.grp.split(':')
    return {'family': fam, 'group': grp, 'K': int(k[1:]), 'mode': mode, 'subset': idx[1:], 'const': cm[1:]}


def modelled(l):
    t = tok(l)
    return not (t['K'] >= 1 and t['subset'] == 'all' and t['mode'] in ('ana', 'def'))


class C08:
    id = 'C08'
    props_files = ['SmoothProps/C08.lean', 'SmoothProps/SrcTieLogicC08.lean']
    props_module = 'SmoothProps.C08All'
    lean_targets = ['SmoothProps.C08All']
    rule = ('harness/diff.cpp: callables with closed-form derivatives {prod x*y, log, action x*v, rminus, 0.5|x-y|^2, '
            'sum_i log(v_i) over std::vector<G>, (x*y)*v, polynomial maps R x R3 x R^n -> R^m (incl. affine)} on '
            '{SO3, SE2, SE3, Bundle<SO3,R2>} and, for prod/rminus, on the commutative rotation groups {SO2, C1, Bundle<SO2,R2>} with '
            'angles at and around the +-pi branch cut (pi-1e-9..1e-2, -pi+1e-9..1e-2, pi, generic); argument kinds group/static vector/dynamic vector/scalar/std::vector/Bundle; '
            'K in {0,1,2} x modes {Numerical, Analytic, Default with and without member jacobian/hessian} x const masks '
            '{none, all, mixed} x every non-empty index subset of up to 3 arguments; vector coordinates zero or of '
            'magnitude 0.1..10, group elements exp of tangents in [-1.2,1.2]; distinct_nontrivial = distinct '
            '(op,configuration,input bits)')
    assumptions = ['rounding of the difference quotients and of the restore step is audited, not proved',
                   'T1 of derivative values on SO3-based callables is limited by the 1/eps amplification of last-bit differences in f '
                   '(Eigen quaternion product); the schedule itself (diff_trace) is compared at 4 ulp',
                   'Autodiff / Ceres modes are not built in this image',
                   'closed-form Hessians exist for prod/SO3, action/SO3, 0.5|x-y|^2/SO3 and the polynomial maps; other K=2 outputs are tied by T1 only']

    # ------------------------------------------------------------------ generation / evaluation
    def prebuild(self):
        vlib.build_harnesses(specs())

    def gen_lines(self, ctx, n):
        bins = vlib.build_harnesses(specs())
        lines = []
        for f in FAMILIES:
            raw = vlib.run_harness(bins[f'diff{f}'], [n], env={'VERIF_SEED': str(ctx['seed'])})
            lines += vlib.parse_lines(raw)
        return lines

    def eval_lines(self, requests):
        bins = vlib.build_harnesses(specs())
        out = [None] * len(requests)
        todo = list(range(len(requests)))
        for f in FAMILIES:
            if not todo:
                break
            raw = vlib.run_harness(bins[f'diff{f}'], ['eval'], stdin='\n'.join(requests[i] for i in todo) + '\n')
            nxt = []
            for i, r in zip(todo, raw):
                if r.startswith('SKIP'):
                    nxt.append(i)
                else:
                    out[i] = Line(r)
            todo = nxt
        return out

    # ------------------------------------------------------------------ T1 + audit
    def check_lines(self, ctx, lines):
        tr = [l for l in lines if l.op == 'diff_trace' and modelled(l)]
        dr = [l for l in lines if l.op == 'diff_dr' and modelled(l)]
        aud = [l for l in lines if l.op == 'aud_diff']
        broken, findings = [], []
        t1a = vlib.t1_compare(tr, tol_ulp=TRACE_TOL_ULP, rng_seed=ctx['seed'], sens_variants=2)
        t1b = vlib.t1_compare(dr, tol_ulp=T1_TOL_ULP, rng_seed=ctx['seed'], sens_variants=4)
        breaks = t1a['breaks'] + t1b['breaks']
        by = {}
        for b in breaks:
            l = Line(b['line'])
            t = tok(l)
            by.setdefault(f"{l.op}|{t['family']}:{t['group']}:k{t['K']}", []).append(b)
        for k, bs in by.items():
            broken.append({'what': 'correspondence', 'name': f'T1 {k} (implementation vs Lean model of dr_numerical)',
                           'count': len(bs), 'first': bs[0]})

        def agg(stats):
            out = {}
            for k, v in stats.items():
                op, grp, prec = k.split('|')
                fam, g, kk = grp.split(':')[:3]
                a = out.setdefault(f'{op}|{fam}:{g}:{kk}', {'n': 0, 'worst_ulp': 0.0, 'excused_by_sensitivity': 0})
                a['n'] += v['n']
                a['worst_ulp'] = max(a['worst_ulp'], v['worst_ulp'])
                a['excused_by_sensitivity'] += v['excused_by_sensitivity']
            return out
        t1_stats = agg(t1a['stats'])
        t1_stats.update(agg(t1b['stats']))

        worst = {}
        samples = []

        def track(name, t, v):
            k = f"{name}|{t['family']}:{t['group']}:k{t['K']}"
            if not math.isnan(v):
                worst[k] = max(worst.get(k, 0.0), v)

        def add(l, t, kind, err, tol, what):
            key = {'kind': kind, 'family': t['family'], 'group': t['group'], 'K': t['K'], 'mode': t['mode']}
            findings.append({'property': 'C08', 'key': key, 'err': err, 'tol': tol, 'what': what, 'line': l.raw,
                             'config': t})

        n_aud = 0
        for l in aud:
            t = tok(l)
            eJ, sJ, eH, sH, rest, value_ok, const_ok, eSub, passthrough, nev = l.out_vals()
            n_aud += 1
            numerical = t['mode'] in ('num', 'dfn') or t['subset'] != 'all'
            if value_ok != 1.0:
                add(l, t, 'value', None, None, 'dr does not return f(x) as the value')
            if const_ok != 1.0:
                add(l, t, 'const_modified', None, None, 'an argument passed by const reference was modified')
            if t['K'] == 0 and nev != 1.0:
                add(l, t, 'k0_evaluations', nev, 1, 'K=0 evaluated f more than once')
            if t['K'] >= 1:
                relJ = eJ / max(sJ, FLOOR)
                if numerical:
                    kind = 'first_derivative' if t['K'] == 1 else 'k2_first_derivative'
                    track(kind, t, relJ)
                    if not (relJ <= TOL_FIRST):
                        add(l, t, kind, relJ, TOL_FIRST,
                            'numerical first derivative differs from the closed form' +
                            (' (Jacobian returned by the K=2 call, computed with the eps^(1/4) step)' if t['K'] == 2 else ''))
                    if not math.isnan(eSub):
                        relS = eSub / max(sJ, FLOOR)
                        track('subset_vs_full', t, relS)
                        if not (relS <= TOL_FIRST):
                            add(l, t, 'subset_columns', relS, TOL_FIRST,
                                'derivative w.r.t. an index subset differs from the columns of the full derivative')
                else:
                    if passthrough != 1.0:
                        add(l, t, 'analytic_passthrough', None, None,
                            "Analytic/Default mode does not return the callable's own jacobian/hessian verbatim")
                    if nev != 1.0:
                        add(l, t, 'analytic_evaluations', nev, 1, 'Analytic/Default mode evaluated f more than once')
            if t['K'] == 2 and numerical and not math.isnan(eH):
                relH = eH / max(sH, FLOOR)
                track('second_derivative', t, relH)
                if not (relH <= TOL_SECOND):
                    add(l, t, 'second_derivative', relH, TOL_SECOND, 'numerical Hessian differs from the closed form')
            track('restore', t, rest)
            if not (rest <= TOL_RESTORE):
                add(l, t, 'restore', rest, TOL_RESTORE,
                    'after the call an argument passed by reference differs from its original value by more than 1e-15 of its largest coefficient')
            if len(samples) < 8 and n_aud % 173 == 1:
                samples.append({'line': l.raw[:260], 'relJ': None if t['K'] == 0 else eJ / max(sJ, FLOOR), 'restore': rest})

        conf = {}
        sig = set()
        for l in lines:
            t = tok(l)
            for name in ('family', 'K', 'mode', 'subset', 'const'):
                k = f'{name}={t[name]}'
                conf[k] = conf.get(k, 0) + 1
            if any(dec(w, l.prec) != 0 for w in l.ins):
                sig.add((l.op, l.grp, tuple(l.ins)))
        cov = {'evaluations': len(lines), 'distinct_nontrivial': len(sig), 'rule': self.rule, 'samples': samples,
               'strata_hits': conf, 't1_trace_lines': len(tr), 't1_result_lines': len(dr),
               't1_stats': t1_stats, 't1_breaks': len(breaks),
               'audit_samples': n_aud, 'audit_worst': worst,
               'traces_validated_against_impl': len(tr) + len(dr)}
        return {'coverage': cov, 'findings': findings, 'broken': broken}

    # ------------------------------------------------------------------ entry points
    def explore(self, ctx):
        n = 2 if ctx['tier'] == 'quick' else 14
        return self.check_lines(ctx, self.gen_lines(ctx, n))

    def search(self, ctx, broken):
        lines = self.gen_lines(dict(ctx, seed=ctx['seed'] + 7919), 8)
        res = self.check_lines(ctx, lines)
        return {'coverage': {'evaluations': len(lines)}, 'findings': res['findings']}

    def replay(self, ctx, payload):
        reqs = []
        for c in payload.get('cases', []):
            if 'line' in c:
                reqs.append(Line(c['line']).request())
        for b in payload.get('no_longer_checks', []) + payload.get('broken', []):
            if isinstance(b.get('first'), dict) and 'line' in b['first']:
                reqs.append(Line(b['first']['line']).request())
        if not reqs:
            return {'coverage': {}, 'findings': [], 'broken': payload.get('no_longer_checks', [])}
        lines = [l for l in self.eval_lines(reqs) if l is not None]
        return self.check_lines(ctx, lines)


def make():
    return C08()
