"""C09 — minimize never makes things worse, terminates, and finds the minimiser.

Theorems: SmoothProps/C09.lean about the state machine `Optim.minimize` (SmoothModel/Optim.lean).
Tie (T1): harness/optim.cpp (PART 1..8) runs the real `smooth::minimize` on generated problem families and
logs, through public hooks only (callback, a TrustRegionStrategy subclass wrapping the real strategy object,
an f wrapper), per iteration the observables the state machine consumes and what the code decided; the driver op
`opt_replay` re-executes the decision logic of the model in Float and must agree word for word (rho bits,
take_step, acceptance, Delta before/after, iter, status, number of callbacks).
Audit: monotone cost over the callback points (recomputed exactly with rationals for the linear families),
iter <= max_iter, MaxIters <=> reason, final arguments = last iterate, distance to the known minimiser on the
well-conditioned families, the C10 contract on the (J, d, r, Delta) of actual solver calls.
"""
import json, math, os, sys
from fractions import Fraction
sys.path.insert(0, os.path.dirname(os.path.dirname(__file__)))
import vlib
from vlib import dec
from props import c10 as C10

PARTS = [1, 2, 3, 4, 5, 6, 7, 8]
EPS = 2.0 ** -52
DIST_TOL = 1e-3
DELTA_UNDERFLOW = 1e-290  # Delta below this: lambda = 1/Delta and lambda*d*d overflow
STALE_DELTA = 1e-6        # Delta at the start of a later call with a shared strategy object
DRIFT_TOL = 1e-9          # numerical differentiation perturbs/restores the arguments in place
STATUS = {0: 'Ftol', 1: 'Ptol', 2: 'MaxIters'}
TINY_COORD = 1e-7   # |x_j| below which sqrt(eps)*|x_j| < 1.5e-15: the finite-difference step drowns in the rounding of an O(1) f


def fr(w):
    """exact value of an f64 hex word"""
    return Fraction(dec(w, 'f64'))


def specs():
    return [C10.optim_spec(p) for p in PARTS]


class Run:
    def __init__(self, meta):
        self.meta = meta          # list of RUN dicts (one per call)
        self.replay = None        # raw opt_replay line
        self.tr = []              # in-situ opt_tr lines


DEFSEQ = []   # default-options call sequences seen by the last gen()/rerun (dicts)


def parse_output(raw):
    runs, cur_meta, tr_pending = [], [], []
    for l in raw:
        if l.startswith('DEFSEQ '):
            DEFSEQ.append(json.loads(l[7:]))
        elif l.startswith('RUN '):
            cur_meta.append(json.loads(l[4:]))
        elif l.startswith('opt_replay'):
            r = Run(cur_meta)
            r.replay = l
            r.tr = tr_pending
            runs.append(r)
            cur_meta, tr_pending = [], []
        elif l.startswith('opt_tr'):
            tr_pending.append(l)
    return runs


def same_word(a, b):
    if a == b:
        return True
    x, y = dec(a, 'f64'), dec(b, 'f64')
    return math.isnan(x) and math.isnan(y)


# ----------------------------------------------------------------------------- exact linear algebra (Fractions)
def solve_exact(M, rhs):
    n = len(M)
    A = [row[:] + [rhs[i]] for i, row in enumerate(M)]
    for c in range(n):
        p = next((r for r in range(c, n) if A[r][c] != 0), None)
        if p is None:
            return None
        A[c], A[p] = A[p], A[c]
        pv = A[c][c]
        A[c] = [v / pv for v in A[c]]
        for r in range(n):
            if r != c and A[r][c] != 0:
                f = A[r][c]
                A[r] = [a - f * b for a, b in zip(A[r], A[c])]
    return [A[i][n] for i in range(n)]


def lin_exact(meta):
    """exact minimiser and exact costs at the callback points of a linear family (f = A x - b)"""
    A = [[fr(w) for w in row] for row in meta['A']]
    b = [fr(w) for w in meta['b']]
    m, n = len(A), len(A[0])
    AtA = [[sum(A[k][i] * A[k][j] for k in range(m)) for j in range(n)] for i in range(n)]
    Atb = [sum(A[k][i] * b[k] for k in range(m)) for i in range(n)]
    xs = solve_exact(AtA, Atb)

    def cost2(x):
        return sum((sum(A[i][j] * x[j] for j in range(n)) - b[i]) ** 2 for i in range(m))
    costs = None
    if 'cb_args' in meta and all(math.isfinite(dec(w, 'f64')) for a in meta['cb_args'] for w in a):
        costs = [cost2([fr(w) for w in a]) for a in meta['cb_args']]
    dist = None
    if xs is not None and all(math.isfinite(dec(w, 'f64')) for w in meta['final_args']):
        xf = [fr(w) for w in meta['final_args']]
        dist = math.sqrt(float(sum((a - c) ** 2 for a, c in zip(xf, xs))))
    return xs, costs, dist


def fsqrt(q):
    """sqrt of a non-negative Fraction as float, safe for tiny/huge values"""
    if q <= 0:
        return 0.0
    e = (q.numerator.bit_length() - q.denominator.bit_length()) // 2
    s = Fraction(2) ** e
    return math.sqrt(float(q / (s * s))) * float(s) if abs(e) < 500 else math.sqrt(float(q / (s * s))) * math.ldexp(1.0, e)


class C09:
    id = 'C09'
    # SrcTieLogic: the scalar decision logic regenerated from the C++ source by tools/gen_logic.py is the model (C09All = C09 + SrcTieLogic)
    props_files = ['SmoothProps/C09.lean', 'SmoothProps/SrcTieLogic.lean']
    props_module = 'SmoothProps.C09All'
    lean_targets = ['SmoothProps.C09All']
    rule = ('harness/optim.cpp PART 1..8: families lin_static/lin_dynamic/lin_sparse/lin_multi (dyadic A, exact recomputation), '
            'degen_unused/degen_const/degen_stationary, rosenbrock, poly, expfit, mixed_so3_vec, align_so3/se2/se3 (noise 0, 1e-3, 1e-2), '
            'bundle, tri_so3_sparse x differentiation mode (analytic, numerical, default) x strategy (Ceres, Disney) x '
            'ftol, ptol in {0, 1e-12, 1e-9, 1e-6, 1e-3, 1e10} x max_iter in {0,1,2,3,5,10,50,200,1000} x start in '
            '{at minimiser, close, generic, far} x shared strategy object across two calls; every run replayed decision by '
            'decision by the Lean state machine; distinct_nontrivial = runs with at least one iteration and non-zero start residual')
    assumptions = ['the step solver is a parameter of the model: the cost theorems assume the C10 contract (audited in exact arithmetic '
                   'on the (J,d,r,Delta) of actual solver calls)',
                   'IEEE rounding is not covered by the theorems: a float pred_red <= 0 with dx != 0, and the in-place '
                   'perturb/restore of numerical differentiation, are audited on every run',
                   'per-iteration observables are re-computed by the harness with the library functions on the logged arguments; '
                   'the re-computation is validated by bitwise equality of rho with the value handed to the strategy hook',
                   'distance to the minimiser is audited only when ftol, ptol <= 1e-6 (the defaults) on the families flagged '
                   'well-conditioned (cond(A) <= 20 for linear least squares; alignment with noise <= 1e-2)']

    def prebuild(self):
        """build the harness binaries (called by tools/prebuild.py during setup)"""
        return vlib.build_harnesses(specs())

    # ------------------------------------------------------------------ generation
    def gen(self, ctx, n, seed=None):
        bins = vlib.build_harnesses(specs())
        runs = []
        del DEFSEQ[:]
        for p in PARTS:
            raw = vlib.run_harness(bins[f'optim{p}'], ['gen', n], env={'VERIF_SEED': str(seed if seed is not None else ctx['seed'])})
            runs += parse_output(raw)
        return runs

    def rerun(self, ids):
        """ids: list of (part, fam, index, seed); fam == 'defseq' replays one default-options sequence"""
        bins = vlib.build_harnesses(specs())
        runs = []
        del DEFSEQ[:]
        for (p, f, i, s) in ids:
            if f == 'defseq':
                parse_output(vlib.run_harness(bins['optim1'], ['defseq', i], env={'VERIF_SEED': str(s)}))
                continue
            raw = vlib.run_harness(bins[f'optim{p}'], ['run', f, i], env={'VERIF_SEED': str(s)})
            runs += parse_output(raw)
        return runs

    # ------------------------------------------------------------------ checks
    def check_runs(self, ctx, runs):
        findings, broken = [], []
        cov = {'regions': {}, 'families': {}, 'modes': {}, 'strategies': {}, 'status': {}, 'strata': {}, 'rho_classes': {},
               'decisions': {'accepted_take_step': 0, 'accepted_pred_le_0': 0, 'accepted_zero_residual': 0, 'rejected': 0},
               'pred_le_0_with_nonzero_dx': 0, 'worst_cost_increase_over_tol': 0.0, 'max_numerical_drift': 0.0,
               'shared_strategy_runs': 0}
        # ---- T1: replay through the Lean state machine
        reps = vlib.run_driver([r.replay.split(' |')[0] for r in runs])
        n_iter_cmp = 0
        t1_breaks, recon_breaks = [], []
        dist_checked, exact_checked, mono_pairs = 0, 0, 0
        worst_dist = 0.0
        samples = []
        nontrivial = 0
        tr_lines = []
        for r, rep in zip(runs, reps):
            m0 = r.meta[0]
            ident = {'part': m0['part'], 'fam': m0['fam'], 'family': m0['family'], 'index': m0['index'], 'seed': m0['seed'],
                     'mode': m0['mode'], 'strat': m0['strat']}
            body, _, tag = r.replay.partition(' # ')
            req, _, out = body.partition(' |')
            impl = out.split()
            # reconstruction sanity (harness-level): must hold before anything else is trusted
            for m in r.meta:
                if m['recon_bad']:
                    recon_breaks.append({'run': ident, 'why': m['recon_why'], 'line': r.replay[:400]})
            if rep.startswith('ERR'):
                t1_breaks.append({'run': ident, 'line': r.replay, 'model': rep, 'why': 'model-error'})
            else:
                mod = rep.split()
                if len(mod) != len(impl) or not all(same_word(a, b) for a, b in zip(impl, mod)):
                    k = next((i for i, (a, b) in enumerate(zip(impl, mod)) if not same_word(a, b)), min(len(impl), len(mod)))
                    t1_breaks.append({'run': ident, 'line': r.replay, 'model': rep, 'why': 'disagreement', 'first_word': k,
                                      'impl': dec(impl[k], 'f64') if k < len(impl) else None,
                                      'model_val': dec(mod[k], 'f64') if k < len(mod) else None})
            # ---- decision statistics from the impl log
            words = req.split()[3:]
            pos = 3
            ipos = 0
            for m in r.meta:
                K = int(dec(words[pos + 3], 'f64'))
                m['_min_delta'] = float('inf')
                m['_first_delta'] = dec(impl[ipos], 'f64') if K > 0 else float('nan')
                for k in range(K):
                    o = pos + 4 + 5 * k
                    rn, fx, ln, dd = (dec(words[o + j], 'f64') for j in range(4))
                    dbef, rho, take, acc, daft = (dec(impl[ipos + j], 'f64') for j in range(5))
                    ipos += 5
                    if dbef == dbef:
                        m['_min_delta'] = min(m['_min_delta'], dbef)
                    m['_last_acc'] = acc
                    m['_last_obs'] = (rn, fx, ln, dd, dec(words[o + 4], 'f64'), rho)
                    n_iter_cmp += 1
                    cls = 'nan' if math.isnan(rho) else ('inf' if math.isinf(rho) else ('<=0' if rho <= 0 else '>0'))
                    cov['rho_classes'][cls] = cov['rho_classes'].get(cls, 0) + 1
                    if acc:
                        if rn == 0:
                            cov['decisions']['accepted_zero_residual'] += 1
                        elif take:
                            cov['decisions']['accepted_take_step'] += 1
                        else:
                            cov['decisions']['accepted_pred_le_0'] += 1
                            if dd != 0:
                                cov['pred_le_0_with_nonzero_dx'] += 1
                    else:
                        cov['decisions']['rejected'] += 1
                m['_K'] = K
                ipos += 3
                pos += 4 + 5 * K
            # ---- property audits per call
            for m in r.meta:
                fam = m['family']
                # region: the trust-region size underflowed (lambda = 1/Delta overflows) during this call
                reg = 'generic'
                if m.get('_min_delta', 1.0) < DELTA_UNDERFLOW:
                    reg = 'delta_underflow'
                elif m['call'] > 0 and m.get('_first_delta', 1.0) < STALE_DELTA:
                    # a second call inherits a tiny Delta from the strategy object used by the first call
                    reg = 'stale_strategy_delta'
                if reg == 'generic' and m['mode'] in ('numerical', 'default_nojac'):
                    # forward differences use the RELATIVE step sqrt(eps)*|x_j| for vector coordinates (no floor except
                    # at exactly 0): a tiny non-zero coordinate gets a step below the rounding of f, its Jacobian column
                    # is lost and the coordinate never moves (bit-identical at the end)
                    x0v = [dec(w, 'f64') for w in m['x0']]
                    for j, (a0, w0, w1) in enumerate(zip(x0v, m['x0'], m['final_args'])):
                        if 0 < abs(a0) < TINY_COORD and w0 == w1:
                            reg = 'tiny_coordinate_stuck'
                            break
                key0 = {'family': fam, 'mode': m['mode'], 'strat': m['strat'], 'region': reg}
                cov['regions'][reg] = cov['regions'].get(reg, 0) + 1
                cov['families'][fam] = cov['families'].get(fam, 0) + 1
                cov['modes'][m['mode']] = cov['modes'].get(m['mode'], 0) + 1
                cov['strategies'][m['strat']] = cov['strategies'].get(m['strat'], 0) + 1
                cov['status'][STATUS[m['status']]] = cov['status'].get(STATUS[m['status']], 0) + 1
                if m.get('stratum'):
                    for kv in m['stratum'].split(','):
                        cov['strata'][kv] = cov['strata'].get(kv, 0) + 1
                cov['strata'][f"max_iter={m['max_iter']}"] = cov['strata'].get(f"max_iter={m['max_iter']}", 0) + 1
                ftol, ptol = dec(m['ftol'], 'f64'), dec(m['ptol'], 'f64')
                cov['strata'][f'ftol={ftol:g}'] = cov['strata'].get(f'ftol={ftol:g}', 0) + 1
                cov['strata'][f'ptol={ptol:g}'] = cov['strata'].get(f'ptol={ptol:g}', 0) + 1
                if m['calls'] > 1:
                    cov['shared_strategy_runs'] += 1
                costs = [dec(w, 'f64') for w in m['cb_cost']]
                scales = [dec(w, 'f64') for w in m['cb_scale']]
                if m['iter'] > 0 and costs[0] != 0:
                    nontrivial += 1

                def add(check, err, tol, what, extra=None):
                    f = {'property': 'C09', 'key': dict(key0, check=check), 'err': err, 'tol': tol, 'what': what,
                         'run': dict(ident, call=m['call']), 'line': r.replay[:2000]}
                    if extra:
                        f.update(extra)
                    findings.append(f)
                # (1) iteration bound and status
                if m['iter'] > m['max_iter']:
                    add('iter_le_max_iter', m['iter'], m['max_iter'], 'more than max_iter iterations')
                if m['status'] == 2 and m['iter'] != m['max_iter']:
                    add('MaxIters_iff', m['iter'], m['max_iter'], 'status MaxIters although the loop ended before max_iter')
                if m['iter'] != m.get('_K', m['iter']):
                    add('iter_count', m['iter'], m.get('_K'), 'reported iter differs from the number of strategy updates observed')
                if m['status'] in (0, 1) and not (m.get('_K', 0) > 0 and m.get('_last_acc') == 1.0):
                    add('MaxIters_iff', m['status'], 2, 'Ftol/Ptol reported although the last iteration did not accept a step '
                        '(the convergence tests are only evaluated after an accepted step)')
                if m['status'] == 2 and m.get('_K', 0) > 0 and m.get('_last_acc') == 1.0 and '_last_obs' in m:
                    # converse (seed C09e): MaxIters must NOT be reported when a convergence test fired on the last permitted
                    # iteration.  The tests are recomputed here from the logged observables, independently of the model
                    # (optim.hpp: r_n == 0 || (|actu_red| < ftol && pred_red < ftol && rho <= 2) -> Ftol; |d.dx| < ptol*n -> Ptol),
                    # with a relative margin of 1e-9 so that a value exactly at a tolerance is not judged.
                    rn_, fx_, ln_, dd_, n_, rho_ = m['_last_obs']
                    fired = None
                    if rn_ == 0:
                        fired = 'Ftol (zero residual)'
                    else:
                        actu_, pred_ = 1.0 - (fx_ / rn_) ** 2, 1.0 - (ln_ / rn_) ** 2
                        if abs(actu_) < ftol * (1 - 1e-9) and pred_ < ftol * (1 - 1e-9) and rho_ <= 2.0:
                            fired = 'Ftol'
                        elif dd_ < ptol * n_ * (1 - 1e-9):
                            fired = 'Ptol'
                    if fired:
                        add('MaxIters_iff', 2, 0 if fired.startswith('F') else 1,
                            f'status MaxIters although the {fired} test is met by the last accepted iteration (iter = max_iter = '
                            f"{m['max_iter']}): the solver stopped because it converged, not because the budget ran out")
                if m['ncb'] > 1 + m['iter']:
                    add('callback_count', m['ncb'], 1 + m['iter'], 'more callbacks than 1 + iterations')
                # (2) monotone cost over the callback points, float-evaluated f
                for i in range(len(costs) - 1):
                    mono_pairs += 1
                    tol = 64 * EPS * max(scales[i], scales[i + 1]) + 8 * EPS * costs[i]
                    if not (costs[i + 1] <= costs[i] + tol):
                        over = costs[i + 1] - costs[i]
                        cov['worst_cost_increase_over_tol'] = max(cov['worst_cost_increase_over_tol'], over if over == over else float('inf'))
                        add('cost_nonincreasing', over, tol, f'callback point {i + 1} has larger cost |f| than point {i} '
                            f'({costs[i + 1]!r} > {costs[i]!r})')
                # (3) exact recomputation for the linear families
                exact_dist = None
                if 'A' in m:
                    xs, ecosts, exact_dist = lin_exact(m)
                    if ecosts is not None:
                        exact_checked += 1
                        ec = [fsqrt(c) for c in ecosts]
                        for i in range(len(ec) - 1):
                            tol = 64 * EPS * max(scales[i], scales[i + 1]) + 8 * EPS * ec[i]
                            if ecosts[i + 1] > ecosts[i] and not (ec[i + 1] <= ec[i] + tol):
                                add('cost_nonincreasing_exact', ec[i + 1] - ec[i], tol,
                                    f'exactly recomputed |A x - b| increases from callback point {i} to {i + 1}')
                # (4) never worse than the start; final arguments are the last iterate
                fin, last = m['final_args'], m['last_cb_args']
                fv = [dec(w, 'f64') for w in fin]
                if any(not math.isfinite(x) for x in fv) and all(math.isfinite(dec(w, 'f64')) for w in m['x0']):
                    add('finite_result', None, None, 'non-finite arguments returned from a finite start')
                if m['mode'] in ('analytic', 'default_jac'):
                    if fin != last:
                        add('final_is_last_iterate', 1.0, 0.0, 'final arguments differ from the last callback point (analytic Jacobian)')
                else:
                    lv = [dec(w, 'f64') for w in last]
                    sc = max([1.0] + [abs(x) for x in lv if math.isfinite(x)])
                    drift = max([abs(a - b) for a, b in zip(fv, lv)] + [0.0]) / sc
                    cov['max_numerical_drift'] = max(cov['max_numerical_drift'], drift if drift == drift else 0.0)
                    if not (drift <= DRIFT_TOL):
                        add('final_is_last_iterate', drift, DRIFT_TOL, 'final arguments differ from the last callback point beyond the '
                            'rounding of the in-place perturb/restore of numerical differentiation')
                # (5) distance to the known minimiser
                if m['wc'] and m['has_ref'] and m['status'] in (0, 1) and ftol <= 1e-6 and ptol <= 1e-6:
                    dist = exact_dist if exact_dist is not None else dec(m['dist_final'], 'f64')
                    dist_checked += 1
                    worst_dist = max(worst_dist, dist if dist == dist else float('inf'))
                    if not (dist <= DIST_TOL):
                        add('distance_to_minimiser', dist, DIST_TOL, f"status {STATUS[m['status']]} but the result is {dist:.3g} from the "
                            f"minimiser (start was {dec(m['dist_start'], 'f64'):.3g} away)")
                if len(samples) < 10 and (len(runs) < 10 or (m['index'] * 7 + len(fam)) % 23 == 0):
                    samples.append({'run': dict(ident, call=m['call']), 'status': STATUS[m['status']], 'iter': m['iter'],
                                    'max_iter': m['max_iter'], 'ftol': ftol, 'ptol': ptol, 'callbacks': m['ncb'],
                                    'cost_start': costs[0], 'cost_final': costs[-1], 'dist_final': dec(m['dist_final'], 'f64'),
                                    'stratum': m.get('stratum')})
            tr_lines += [(ident, l) for l in r.tr]
        # ---- default-options call sequences (independent calls must not influence each other)
        cov['default_option_sequences'] = len(DEFSEQ)
        for d in DEFSEQ:
            ident = {'part': 1, 'fam': 'defseq', 'index': d['k'], 'seed': d['seed']}

            def addd(check, err, tol, what):
                findings.append({'property': 'C09', 'key': {'family': 'default_options_sequence', 'region': 'default_options_sequence',
                                                            'check': check, 'a_kind': d['a_kind']},
                                 'err': err, 'tol': tol, 'what': what, 'run': dict(ident, call=1), 'line': json.dumps(d)[:2000]})
            for which in ('delta_fresh_before', 'delta_fresh_after'):
                dl = dec(d[which], 'f64')
                if dl != 10000.0:   # = Optim ceres initial state (SrcTieLogic.optim_ceres_init ties the constant to the source)
                    addd('fresh_default_delta', abs(dl - 10000.0), 0.0,
                         f'a freshly default-constructed MinimizeOptions has trust-region size {dl!r} ({which}), not the initial 10000: '
                         'default options carry state from earlier calls')
            if d['shared_default_strategy']:
                addd('shared_default_strategy', 1.0, 0.0, 'two default-constructed MinimizeOptions share one strategy object')
            if d['b_x_default'] != d['b_x_explicit'] or d['b_status_default'] != d['b_status_explicit'] or d['b_iter_default'] != d['b_iter_explicit']:
                addd('default_equals_explicit_fresh', 1.0, 0.0,
                     f"minimize with default options (status {STATUS[d['b_status_default']]}, iter {d['b_iter_default']}) differs from the same call "
                     f"with a fresh CeresStrategy (status {STATUS[d['b_status_explicit']]}, iter {d['b_iter_explicit']}) after an earlier default-options call")
            dist = dec(d['b_dist_default'], 'f64')
            if d['b_status_default'] in (0, 1) and not (dist <= DIST_TOL):
                addd('distance_to_minimiser', dist, DIST_TOL, f"status {STATUS[d['b_status_default']]} but the result is {dist:.3g} from the minimiser "
                     f"(start was {dec(d['b_dist_start'], 'f64'):.3g} away) in a call that follows another default-options call")
        if recon_breaks:
            broken.append({'what': 'correspondence', 'name': 'harness re-computation of the loop observables (rho handed to the strategy '
                           'hook differs from the re-computed one)', 'count': len(recon_breaks), 'first': recon_breaks[0]})
        if t1_breaks:
            by = {}
            for b in t1_breaks:
                by.setdefault(b['run']['strat'], []).append(b)
            for k, bs in by.items():
                broken.append({'what': 'correspondence', 'name': f'T1 opt_replay {k} (decision logic: implementation vs Lean state machine)',
                               'count': len(bs), 'first': bs[0]})
        # ---- the C10 contract on the actual solver calls
        tr_n, tr_worst_be, tr_worst_descent = 0, 0.0, -1.0
        cap = 1500 if ctx['tier'] == 'quick' else 6000
        if len(tr_lines) > cap:      # exact rational audits are the expensive part: a seeded subsample
            import random
            tr_lines = random.Random(ctx['seed']).sample(tr_lines, cap)
        if tr_lines:
            tls = [(i, C10.TrLine(l)) for i, l in tr_lines]
            tls = [(i, l) for i, l in tls if l.ok_shape()]
            treps = vlib.run_driver([l.audit_request() for _, l in tls])
            for (ident, l), rep in zip(tls, treps):
                if rep.startswith('ERR'):
                    raise vlib.MachineryError(f'audit op failed: {rep}')
                v = [dec(w, 'f64') for w in rep.split()]
                tr_n += 1
                tr_worst_be = max(tr_worst_be, max(v[1:5]))
                tr_worst_descent = max(tr_worst_descent, v[5])
                for (chk, where, err, tol, what) in C10.judge(l, v):
                    if chk in ('dense_vs_sparse', 'dphi', 'colwise_norm', 'normal_equations'):
                        continue   # C10's own business; here only what the C09 argument depends on (zero step, lambda, finiteness)
                    if chk == 'descent':
                        # a rounding-level excess (r nearly orthogonal to range J, see C10) is irrelevant to C09: the loop
                        # evaluates pred_red in floating point anyway and the cost sequence is audited directly
                        if err <= 1e-12:
                            continue
                        chk, tol = 'descent_gross', 1e-12
                    findings.append({'property': 'C09', 'key': {'check': 'c10_contract_insitu/' + chk, 'family': ident['family'],
                                                                'mode': ident['mode'], 'strat': ident['strat']},
                                     'err': err, 'tol': tol, 'what': 'solver call inside minimize: ' + what, 'run': ident, 'line': l.raw})
        cov.update({'evaluations': len(runs), 'distinct_nontrivial': nontrivial, 'rule': self.rule, 'samples': samples,
                    'iterations_replayed': n_iter_cmp, 't1_breaks': len(t1_breaks), 'recon_breaks': len(recon_breaks),
                    'monotonicity_pairs_checked': mono_pairs, 'runs_recomputed_exactly': exact_checked,
                    'distance_checked': dist_checked, 'worst_distance_when_converged': worst_dist,
                    'insitu_solver_calls_audited': tr_n, 'insitu_worst_backward_error': tr_worst_be, 'insitu_worst_descent_excess': tr_worst_descent,
                    'traces_validated_against_impl': len(runs)})
        return {'coverage': cov, 'findings': findings, 'broken': broken}

    # ------------------------------------------------------------------ entry points
    def explore(self, ctx):
        n = 100 if ctx['tier'] == 'quick' else 1500
        return self.check_runs(ctx, self.gen(ctx, n * ctx.get('budget', 1)))

    def search(self, ctx, broken):
        runs = self.gen(ctx, 200, seed=ctx['seed'] + 7919)
        res = self.check_runs(ctx, runs)
        return {'coverage': {'evaluations': len(runs)}, 'findings': res['findings']}

    def replay(self, ctx, payload):
        ids = []
        for c in payload.get('cases', []):
            r = c.get('run')
            if r:
                ids.append((r['part'], r['fam'], r['index'], r['seed']))
        for b in payload.get('no_longer_checks', []):
            f = b.get('first')
            if isinstance(f, dict) and 'run' in f:
                r = f['run']
                ids.append((r['part'], r['fam'], r['index'], r['seed']))
        ids = sorted(set(ids))
        if not ids:
            return {'coverage': {}, 'findings': [], 'broken': payload.get('no_longer_checks', [])}
        return self.check_runs(ctx, self.rerun(ids))


def make():
    return C09()
