"""Plugin of property C20 — polynomial, quadrature and search utilities equal their definitions.

Ties (DESIGN.md §1.3, §3 C20):
  T2  `harness/poly dump` prints every constexpr table the running code produces (polynomial_basis and
      polynomial_cumulative_basis for 8 basis types x K = 0..10, monomial_integral K = 0..10 x P = 0..4,
      lgr_nodes K = 1..16) as exact bit patterns; `gen_tables` turns them into exact rationals in
      lean/SmoothProofs/Gen/PolyTables.lean; the theorems of SmoothProofs/C20Tables.lean about those
      numbers are re-checked by `lake build` on every run.
  T1  run-time functions and the same tables: implementation vs executable Lean model, 0 ulp.
  audit  exact definitions evaluated with fractions.Fraction (sampling, never a theorem).
"""
import math, os, sys, struct
from fractions import Fraction as Fr

sys.path.insert(0, os.path.dirname(os.path.dirname(__file__)))
import vlib
from vlib import Line, dec, enc, log

PID = 'C20'
BASES = ['Bernstein', 'Bspline', 'Chebyshev1st', 'Chebyshev2nd', 'Hermite', 'Laguerre', 'Legendre', 'Monomial']
KMAX, PMAX, LGRMAX = 10, 4, 16
GEN_PATH = os.path.join(vlib.LEAN, 'SmoothProofs', 'Gen', 'PolyTables.lean')
EXACT_OPS = ('poly_monoderiv', 'poly_monoderivs', 'poly_lagrange', 'poly_basisderivs', 'poly_intabs',
             'search_f64', 'search_int', 'poly_basis', 'poly_cumbasis', 'poly_monint', 'poly_lgr')
TOL = 1e-9


def harness():
    return vlib.build_harness('poly', 'poly.cpp')


# ----------------------------------------------------------------------------- exact numbers
def fr(w):
    """exact rational value of a finite f64 word (None for inf/nan)"""
    x = dec(w, 'f64')
    if not math.isfinite(x):
        return None
    return Fr(x)


def lean_rat(x):
    """Lean term (type Rat) for a dyadic rational"""
    n, d = x.numerator, x.denominator
    if d == 1:
        return f'({n} : Rat)' if n < 0 else f'{n}'
    k = d.bit_length() - 1
    assert d == 1 << k, 'not dyadic'
    return f'dy ({n}) {k}'


def lean_rows(rows):
    return '[' + ',\n   '.join('[' + ', '.join(lean_rat(v) for v in r) + ']' for r in rows) + ']'


# ----------------------------------------------------------------------------- T2 translator
def parse_dump(raw):
    """dump lines -> dict: ('basis',B,K) / ('cum',B,K) / ('monint',K,P) -> rows of Fraction; ('lgr',K) -> (nodes, weights)"""
    tabs = {}
    for l in vlib.parse_lines(raw):
        vals = [fr(w) for w in l.outs]
        if any(v is None for v in vals):
            raise ValueError(f'non-finite entry in table {l.op} {l.grp}')
        if l.op in ('poly_basis', 'poly_cumbasis'):
            b, k = l.grp.split(':'); k = int(k)
            if len(vals) != (k + 1) ** 2:
                raise ValueError(f'table {l.op} {l.grp}: {len(vals)} entries')
            rows = [vals[i * (k + 1):(i + 1) * (k + 1)] for i in range(k + 1)]
            tabs[('basis' if l.op == 'poly_basis' else 'cum', b, k)] = rows
        elif l.op == 'poly_monint':
            k, p = map(int, l.grp.split(':'))
            rows = [vals[i * (k + 1):(i + 1) * (k + 1)] for i in range(k + 1)]
            tabs[('monint', k, p)] = rows
        elif l.op == 'poly_lgr':
            k = int(l.grp)
            if len(vals) != 2 * k:
                raise ValueError(f'lgr {k}: {len(vals)} entries')
            tabs[('lgr', k)] = (vals[:k], vals[k:])
    return tabs


def render_tables(tabs):
    o = []
    o.append('/-\n  GENERATED on every run by tools/props/c20.py (gen_tables) from `harness/poly dump`, i.e. from the\n'
             '  tables the RUNNING implementation produces (constexpr, double).  Do not edit.\n'
             '  Every double is written as the exact dyadic rational it denotes.\n-/')
    o.append('import SmoothModel.Poly\n')
    o.append('namespace Gen.Poly\n')
    o.append('/-- `m / 2^k` -/\ndef dy (m : Int) (k : Nat) : Rat := mkRat m (2 ^ k)\n')
    for kind in ('basis', 'cum'):
        for b in BASES:
            for k in range(KMAX + 1):
                rows = tabs.get((kind, b, k))
                if rows is None:
                    continue
                o.append(f'def {kind}_{b}_{k} : List (List Rat) :=\n  {lean_rows(rows)}\n')
    for kind, fn in (('basis', 'basis'), ('cum', 'cumBasis')):
        o.append(f'/-- `polynomial_{"cumulative_" if kind == "cum" else ""}basis<B,K,double>()` as produced by the code -/')
        o.append(f'def {fn} : _root_.Poly.Basis → Nat → List (List Rat)')
        for b in BASES:
            for k in range(KMAX + 1):
                if (kind, b, k) in tabs:
                    o.append(f'  | .{b}, {k} => {kind}_{b}_{k}')
        o.append('  | _, _ => []\n')
    for k in range(KMAX + 1):
        for p in range(PMAX + 1):
            rows = tabs.get(('monint', k, p))
            if rows is not None:
                o.append(f'def monint_{k}_{p} : List (List Rat) :=\n  {lean_rows(rows)}\n')
    o.append('/-- `monomial_integral<K,P,double>()` as produced by the code -/')
    o.append('def monint : Nat → Nat → List (List Rat)')
    for k in range(KMAX + 1):
        for p in range(PMAX + 1):
            if ('monint', k, p) in tabs:
                o.append(f'  | {k}, {p} => monint_{k}_{p}')
    o.append('  | _, _ => []\n')
    for k in range(1, LGRMAX + 1):
        t = tabs.get(('lgr', k))
        if t is not None:
            o.append(f'def lgrX_{k} : List Rat := [' + ', '.join(lean_rat(v) for v in t[0]) + ']')
            o.append(f'def lgrW_{k} : List Rat := [' + ', '.join(lean_rat(v) for v in t[1]) + ']\n')
    for nm, pre in (('lgrX', 'nodes'), ('lgrW', 'weights')):
        o.append(f'/-- {pre} of `lgr_nodes<K>()` as produced by the code -/')
        o.append(f'def {nm} : Nat → List Rat')
        for k in range(1, LGRMAX + 1):
            if ('lgr', k) in tabs:
                o.append(f'  | {k} => {nm}_{k}')
        o.append('  | _ => []\n')
    o.append('end Gen.Poly\n')
    return '\n'.join(o)


def gen_tables(ctx):
    """T2: regenerate SmoothProofs/Gen/PolyTables.lean from the running implementation"""
    try:
        raw = vlib.run_harness(harness(), ['dump'])
        tabs = parse_dump(raw)
        txt = render_tables(tabs)
    except vlib.HarnessCompileError:
        raise
    except Exception as e:  # a table that no longer has the expected shape is an obligation that broke
        return False, f'gen_tables: {e}'
    os.makedirs(os.path.dirname(GEN_PATH), exist_ok=True)
    if not os.path.exists(GEN_PATH) or open(GEN_PATH).read() != txt:
        tmp = GEN_PATH + '.tmp'
        open(tmp, 'w').write(txt)
        os.replace(tmp, GEN_PATH)
    ctx['c20_tables'] = len(tabs)
    return True, f'{len(tabs)} tables'


if __name__ == '__main__':
    print(gen_tables({}))
