"""Plugin of property C20 — polynomial, quadrature and search utilities equal their definitions.

Ties (DESIGN.md §1.3, §3 C20):
  T2  `harness/poly dump` prints every constexpr table the running code produces (polynomial_basis and
      polynomial_cumulative_basis for 8 basis types x K = 0..10, monomial_integral K = 0..10 x P = 0..4,
      lgr_nodes K = 1..16) as exact bit patterns; `gen_tables` turns them into exact rationals in
      lean/SmoothProofs/Gen/PolyTables.lean; the theorems of SmoothProofs/C20Tables.lean about those
      numbers are re-checked by `lake build` on every run.
  T1  run-time functions and the same tables: implementation vs executable Lean model, 0 ulp.
  audit  exact definitions evaluated with fractions.Fraction (sampling, never a theorem).
"""
import math, os, sys, struct
from fractions import Fraction as Fr

sys.path.insert(0, os.path.dirname(os.path.dirname(__file__)))
import vlib
from vlib import Line, dec, enc, log

PID = 'C20'
BASES = ['Bernstein', 'Bspline', 'Chebyshev1st', 'Chebyshev2nd', 'Hermite', 'Laguerre', 'Legendre', 'Monomial']
KMAX, PMAX, LGRMAX = 10, 4, 16
GEN_PATH = os.path.join(vlib.LEAN, 'SmoothProofs', 'Gen', 'PolyTables.lean')
EXACT_OPS = ('poly_monoderiv', 'poly_monoderivs', 'poly_lagrange', 'poly_basisderivs', 'poly_intabs',
             'search_f64', 'search_int', 'search2_f64', 'search2_int', 'poly_basis', 'poly_cumbasis', 'poly_monint', 'poly_lgr')
TOL = 1e-9


def harness():
    return vlib.build_harness('poly', 'poly.cpp')


# ----------------------------------------------------------------------------- exact numbers
def fr(w):
    """exact rational value of a finite f64 word (None for inf/nan)"""
    x = dec(w, 'f64')
    if not math.isfinite(x):
        return None
    return Fr(x)


def lean_rat(x):
    """Lean term (type Rat) for a dyadic rational"""
    n, d = x.numerator, x.denominator
    if d == 1:
        return f'({n} : Rat)' if n < 0 else f'{n}'
    k = d.bit_length() - 1
    assert d == 1 << k, 'not dyadic'
    return f'dy ({n}) {k}'


def lean_rows(rows):
    return '[' + ',\n   '.join('[' + ', '.join(lean_rat(v) for v in r) + ']' for r in rows) + ']'


# ----------------------------------------------------------------------------- T2 translator
def parse_dump(raw):
    """dump lines -> dict: ('basis',B,K) / ('cum',B,K) / ('monint',K,P) -> rows of Fraction; ('lgr',K) -> (nodes, weights)"""
    tabs = {}
    for l in vlib.parse_lines(raw):
        vals = [fr(w) for w in l.outs]
        if any(v is None for v in vals):
            raise ValueError(f'non-finite entry in table {l.op} {l.grp}')
        if l.op in ('poly_basis', 'poly_cumbasis'):
            b, k = l.grp.split(':'); k = int(k)
            if len(vals) != (k + 1) ** 2:
                raise ValueError(f'table {l.op} {l.grp}: {len(vals)} entries')
            rows = [vals[i * (k + 1):(i + 1) * (k + 1)] for i in range(k + 1)]
            tabs[('basis' if l.op == 'poly_basis' else 'cum', b, k)] = rows
        elif l.op == 'poly_monint':
            k, p = map(int, l.grp.split(':'))
            rows = [vals[i * (k + 1):(i + 1) * (k + 1)] for i in range(k + 1)]
            tabs[('monint', k, p)] = rows
        elif l.op == 'poly_lgr':
            k = int(l.grp)
            if len(vals) != 2 * k:
                raise ValueError(f'lgr {k}: {len(vals)} entries')
            tabs[('lgr', k)] = (vals[:k], vals[k:])
    return tabs


def render_tables(tabs):
    o = []
    o.append('/-\n  GENERATED on every run by tools/props/c20.py (gen_tables) from `harness/poly dump`, i.e. from the\n'
             '  tables the RUNNING implementation produces (constexpr, double).  Do not edit.\n'
             '  Every double is written as the exact dyadic rational it denotes.\n-/')
    o.append('import SmoothModel.Poly\n')
    o.append('namespace Gen.Poly\n')
    o.append('/-- `m / 2^k` -/\ndef dy (m : Int) (k : Nat) : Rat := mkRat m (2 ^ k)\n')
    for kind in ('basis', 'cum'):
        for b in BASES:
            for k in range(KMAX + 1):
                rows = tabs.get((kind, b, k))
                if rows is None:
                    continue
                o.append(f'def {kind}_{b}_{k} : List (List Rat) :=\n  {lean_rows(rows)}\n')
    for kind, fn in (('basis', 'basis'), ('cum', 'cumBasis')):
        o.append(f'/-- `polynomial_{"cumulative_" if kind == "cum" else ""}basis<B,K,double>()` as produced by the code -/')
        o.append(f'def {fn} : _root_.Poly.Basis → Nat → List (List Rat)')
        for b in BASES:
            for k in range(KMAX + 1):
                if (kind, b, k) in tabs:
                    o.append(f'  | .{b}, {k} => {kind}_{b}_{k}')
        o.append('  | _, _ => []\n')
    for k in range(KMAX + 1):
        for p in range(PMAX + 1):
            rows = tabs.get(('monint', k, p))
            if rows is not None:
                o.append(f'def monint_{k}_{p} : List (List Rat) :=\n  {lean_rows(rows)}\n')
    o.append('/-- `monomial_integral<K,P,double>()` as produced by the code -/')
    o.append('def monint : Nat → Nat → List (List Rat)')
    for k in range(KMAX + 1):
        for p in range(PMAX + 1):
            if ('monint', k, p) in tabs:
                o.append(f'  | {k}, {p} => monint_{k}_{p}')
    o.append('  | _, _ => []\n')
    for k in range(1, LGRMAX + 1):
        t = tabs.get(('lgr', k))
        if t is not None:
            o.append(f'def lgrX_{k} : List Rat := [' + ', '.join(lean_rat(v) for v in t[0]) + ']')
            o.append(f'def lgrW_{k} : List Rat := [' + ', '.join(lean_rat(v) for v in t[1]) + ']\n')
    for nm, pre in (('lgrX', 'nodes'), ('lgrW', 'weights')):
        o.append(f'/-- {pre} of `lgr_nodes<K>()` as produced by the code -/')
        o.append(f'def {nm} : Nat → List Rat')
        for k in range(1, LGRMAX + 1):
            if ('lgr', k) in tabs:
                o.append(f'  | {k} => {nm}_{k}')
        o.append('  | _ => []\n')
    o.append('end Gen.Poly\n')
    return '\n'.join(o)


def gen_tables(ctx):
    """T2: regenerate SmoothProofs/Gen/PolyTables.lean from the running implementation"""
    try:
        raw = vlib.run_harness(harness(), ['dump'])
        tabs = parse_dump(raw)
        txt = render_tables(tabs)
    except vlib.HarnessCompileError:
        raise
    except Exception as e:  # a table that no longer has the expected shape is an obligation that broke
        return False, f'gen_tables: {e}'
    os.makedirs(os.path.dirname(GEN_PATH), exist_ok=True)
    if not os.path.exists(GEN_PATH) or open(GEN_PATH).read() != txt:
        tmp = GEN_PATH + '.tmp'
        open(tmp, 'w').write(txt)
        os.replace(tmp, GEN_PATH)
    ctx['c20_tables'] = len(tabs)
    return True, f'{len(tabs)} tables'




# ----------------------------------------------------------------------------- audit (exact definitions, sampling)
def desc_fact(k, p):
    r = 1
    for i in range(p):
        r *= (k - i)
    return r if p <= k else 0


def parse_grp(g, c1, c2=None):
    if c2 is None:
        return int(g[1:])
    a, b = g[1:].split(c2)
    return int(a), int(b)


def finite_vals(words):
    v = [dec(w, 'f64') for w in words]
    return v if all(math.isfinite(x) for x in v) else None


FLOOR = Fr(1, 10 ** 300)
TOLQ = Fr(1, 10 ** 9)
DBLMAX = Fr(2 ** 1024)


def audit_monoderiv(l):
    """d^p/du^p u^k = k!/(k-p)! u^(k-p); per-entry relative error (absolute floor 1e-300 for underflow)"""
    if l.op == 'poly_monoderiv':
        K = parse_grp(l.grp, 'K'); u = fr(l.ins[0]); ps = [int(dec(l.ins[1], 'f64'))]
    else:
        K, P = parse_grp(l.grp, 'K', 'P'); u = fr(l.ins[0]); ps = list(range(P + 1))
    if len(l.outs) != len(ps) * (K + 1):
        return float('inf'), 'shape'
    worst = 0.0
    for pi, p in enumerate(ps):
        for k in range(K + 1):
            exact = desc_fact(k, p) * u ** (k - p) if k >= p else Fr(0)
            x = dec(l.outs[pi * (K + 1) + k], 'f64')
            if abs(exact) >= DBLMAX:
                if math.isfinite(x):
                    return float('inf'), f'entry p={p} k={k}: finite {x} for a value beyond DBL_MAX'
                continue
            if not math.isfinite(x):
                return float('inf'), f'entry p={p} k={k}: non-finite {x}, exact {float(exact):.3e}'
            d = abs(Fr(x) - exact)
            if d > FLOOR:
                worst = max(worst, float(d / max(abs(exact), FLOOR)))
    return worst, ''


def audit_lagrange(l):
    """p_i(t_j) = delta_ij for the code's coefficient matrix, evaluated exactly; error relative to the
    conditioning scale max(1, sum_k |B[k][i]| |t_j|^k).  Returns (scaled error, absolute error)"""
    K = parse_grp(l.grp, 'K')
    ts = [fr(w) for w in l.ins]
    B = [fr(w) for w in l.outs]
    if any(b is None for b in B):
        return None
    worst, worst_abs = 0.0, 0.0
    for j, t in enumerate(ts):
        pw = [t ** k for k in range(K + 1)]
        for i in range(K + 1):
            val = sum(pw[k] * B[k * (K + 1) + i] for k in range(K + 1))
            cond = sum(abs(pw[k] * B[k * (K + 1) + i]) for k in range(K + 1))
            e = abs(val - (1 if i == j else 0))
            worst = max(worst, float(e / max(Fr(1), cond)))
            worst_abs = max(worst_abs, float(e))
    return worst, worst_abs


def audit_basisderivs(l):
    K, N = parse_grp(l.grp, 'K', 'N')
    x = [fr(w) for w in l.ins]
    out = [fr(w) for w in l.outs]
    if any(v is None for v in x + out):
        return None
    B, ts = x[:(K + 1) ** 2], x[(K + 1) ** 2:]
    worst = 0.0
    for j, t in enumerate(ts):
        for i in range(K + 1):
            terms = [k * B[k * (K + 1) + i] * t ** (k - 1) for k in range(1, K + 1)]
            exact = sum(terms, Fr(0))
            scale = max(Fr(1), sum((abs(v) for v in terms), Fr(0)))
            worst = max(worst, float(abs(out[i * N + j] - exact) / scale))
    return worst


def sqrt_fr(x, bits=240):
    """sqrt of a non-negative Fraction to ~2^-bits relative accuracy"""
    if x == 0:
        return Fr(0)
    n, d = x.numerator, x.denominator
    s = 1 << bits
    return Fr(math.isqrt(n * d * s * s), d * s)


def exact_int_abs(t0, t1, A, B, C):
    """integral of |A t^2 + B t + C| over [t0,t1] (t0 <= t1) and the conditioning scale"""
    I = lambda u: A * u ** 3 / 3 + B * u ** 2 / 2 + C * u
    M = lambda u: abs(A) * abs(u) ** 3 / 3 + abs(B) * u ** 2 / 2 + abs(C) * abs(u)
    roots = []
    if A == 0:
        if B != 0:
            roots = [-C / B]
    else:
        disc = B * B - 4 * A * C
        if disc > 0:
            s = sqrt_fr(disc)
            roots = sorted([(-B - s) / (2 * A), (-B + s) / (2 * A)])
    pts = [t0] + [r for r in roots if t0 < r < t1] + [t1]
    val = sum((abs(I(b) - I(a)) for a, b in zip(pts, pts[1:])), Fr(0))
    return val, max(M(u) for u in pts)


THRQ = Fr(1e-9)   # the double literal 1e-9 of the C++


def band_allowance(t0, t1, A, B):
    """Inside the threshold bands the code deliberately ignores the quadratic (|A| < 1e-9) and, for
    |B| <= 1e-9, also the linear term when it looks for sign changes.  Wherever the sign it assumes is
    wrong, |p| <= |A| t^2 (+ |B| |t|), hence  error <= 2|A| int t^2 (+ 2|B| int |t|)  over [t0,t1]
    (DESIGN.md C20: this is how "to 1e-9" is read inside the bands).  Zero outside the bands."""
    if not (abs(A) < THRQ):
        return Fr(0)
    T3 = (t1 ** 3 - t0 ** 3) / 3
    if t0 >= 0 or t1 <= 0:
        T2 = abs(t1 * t1 - t0 * t0) / 2
    else:
        T2 = (t1 * t1 + t0 * t0) / 2
    return 2 * abs(A) * T3 + (2 * abs(B) * T2 if not (abs(B) > THRQ) else Fr(0))


def audit_intabs(l):
    """returns (error / tolerance-scale, exact, code, absolute error) with
    tolerance = 1e-9 * max(1, antiderivative scale) + band allowance"""
    x = [fr(w) for w in l.ins]
    out = dec(l.outs[0], 'f64')
    if any(v is None for v in x):
        return None
    t0, t1, A, B, C = x
    if t0 > t1:
        return None  # std::clamp precondition violated: undefined, not audited
    exact, scale = exact_int_abs(t0, t1, A, B, C)
    if not math.isfinite(out):
        return float('inf'), float(exact), out, float('inf')
    err = abs(Fr(out) - exact)
    allow = band_allowance(t0, t1, A, B)
    return float(max(Fr(0), err - allow) / max(Fr(1), scale)), float(exact), out, float(err)


def audit_search(l):
    """the four documented cases (+ iteration bound)"""
    t = dec(l.ins[0], 'f64')
    r = [dec(w, 'f64') for w in l.ins[1:]]
    if l.op in ('search_int', 'search2_int'):
        r = [float(int(v)) for v in r]
    o = [dec(w, 'f64') for w in l.outs]
    idx, iters = o[0], (o[1] if len(o) > 1 else 0)
    n = len(r)
    if idx != int(idx) or not (0 <= idx <= n):
        return f'returned iterator outside [begin,end]: index {idx}'
    idx = int(idx)
    if n == 0:
        return None if idx == 0 else f'case 1 (empty): index {idx}'
    if t < r[0]:
        return None if idx == n else f'case 2 (t < front): index {idx}, expected end={n}'
    if t >= r[-1]:
        return None if idx == n - 1 else f'case 3 (t >= back): index {idx}, expected {n - 1}'
    if idx + 1 >= n or not (r[idx] <= t < r[idx + 1]):
        return f'case 4: index {idx} does not bracket t'
    if iters > n - 1:
        return f'{iters} loop iterations on a range of {n}'
    return None


# ---- exact tables (closed forms, independent of the Lean model) for the audit of the dumped tables
def exact_basis(b, K):
    C, F = math.comb, math.factorial
    def ent(i, k):   # coefficient of x^i in basis polynomial k
        if b == 'Monomial':
            return Fr(1 if i == k else 0)
        if b == 'Bernstein':
            return Fr((-1) ** (i - k) * C(K, k) * C(K - k, i - k)) if k <= i else Fr(0)
        if b == 'Bspline':
            return Fr(C(K, i), F(K)) * sum((-1) ** (s - k) * C(K + 1, s - k) * Fr(K - s) ** (K - i) for s in range(k, K + 1))
        if i > k or (b != 'Laguerre' and (k - i) % 2):
            return Fr(0)
        m = (k - i) // 2
        if b == 'Legendre':
            return Fr((-1) ** m * C(k, m) * C(2 * k - 2 * m, k), 2 ** k)
        if b == 'Chebyshev1st':
            return Fr(1) if k == 0 else Fr(k, 2) * (-1) ** m * Fr(F(k - m - 1), F(m) * F(i)) * 2 ** i
        if b == 'Chebyshev2nd':
            return Fr((-1) ** m * C(k - m, m) * 2 ** i)
        if b == 'Hermite':
            return Fr((-1) ** m * F(k) * 2 ** i, F(m) * F(i))
        if b == 'Laguerre':
            return Fr((-1) ** i * C(k, i), F(i))
        raise ValueError(b)
    return [[ent(i, k) for k in range(K + 1)] for i in range(K + 1)]


def exact_cum(b, K):
    M = exact_basis(b, K)
    for row in M:
        for j in range(K - 1, -1, -1):
            row[j] += row[j + 1]
    return M


def exact_monint(K, P):
    return [[Fr(desc_fact(i, P) * desc_fact(j, P), i + j - 2 * P + 1) if min(i, j) >= P else Fr(0)
             for j in range(K + 1)] for i in range(K + 1)]


def audit_table(l):
    """(error relative to the property tolerance scale, description) for one dumped table line"""
    vals = [fr(w) for w in l.outs]
    if any(v is None for v in vals):
        return float('inf'), 'non-finite entry'
    if l.op == 'poly_lgr':
        K = int(l.grp)
        if len(vals) != 2 * K:
            return float('inf'), 'shape'
        xs, ws = vals[:K], vals[K:]
        if xs[0] != -1 or any(a >= b for a, b in zip(xs, xs[1:])) or xs[-1] >= 1 or any(w <= 0 for w in ws):
            return float('inf'), 'nodes not increasing in [-1,1) from -1, or a weight <= 0'
        worst, wm = Fr(0), 0
        for m in range(2 * K - 1):
            e = abs(sum(w * x ** m for x, w in zip(xs, ws)) - (Fr(2, m + 1) if m % 2 == 0 else 0))
            if e > worst:
                worst, wm = e, m
        return float(worst), f'moment m={wm}'
    if l.op == 'poly_monint':
        K, P = map(int, l.grp.split(':'))
        ex = exact_monint(K, P)
    else:
        b, K = l.grp.split(':'); K = int(K)
        ex = exact_basis(b, K) if l.op == 'poly_basis' else exact_cum(b, K)
    flat = [v for r in ex for v in r]
    if len(flat) != len(vals):
        return float('inf'), 'shape'
    scale = max(abs(v) for v in flat)
    worst, wi = Fr(0), 0
    for i, (a, e) in enumerate(zip(vals, flat)):
        if abs(a - e) > worst:
            worst, wi = abs(a - e), i
    rel = (worst / scale) if scale > 0 else (Fr(0) if worst == 0 else Fr(10 ** 30))
    return float(rel), f'entry [{wi // (K + 1)}][{wi % (K + 1)}]'


def is_sorted(r):
    return all(a <= b for a, b in zip(r, r[1:]))


def t1_exact(lines):
    """T1 for this unit: every op mirrors the C++ expression tree, so implementation and model must agree
    to 0 ulp (numerically: -0 == +0, NaN/Inf compared as classes).  No sensitivity second pass."""
    replies = vlib.run_driver([l.request() for l in lines])
    stats, breaks = {}, []
    for l, rep in zip(lines, replies):
        st = stats.setdefault(l.op, {'n': 0, 'worst_ulp': 0.0})
        st['n'] += 1
        if rep.startswith('ERR'):
            breaks.append({'line': l.raw, 'model': rep, 'err_ulp': None, 'why': 'model-error'})
            continue
        err, det = vlib.diff_ulp(l.outs, rep.split(), l.prec, l.ins if len(l.ins) <= 64 else l.ins[:1])
        if err > 0.0:
            breaks.append({'line': l.raw, 'model': rep, 'err_ulp': err, 'why': det or 'exact-op'})
    breaks.sort(key=lambda b: len(b['line']))
    return {'stats': stats, 'breaks': breaks}


class C20:
    id = PID
    # SrcTieLogic: the scalar decision logic regenerated from the C++ source by tools/gen_logic.py is the model (C20All = C20 + SrcTieLogic)
    props_files = ['SmoothProps/C20.lean', 'SmoothProps/SrcTieLogic.lean']
    props_module = 'SmoothProps.C20All'
    lean_targets = ['SmoothProps.C20All']
    translators = [gen_tables]
    rule = ('harness/poly.cpp: monomial_derivative(s) K=0..10 x p=0..K+2 (P=0..4) x 10 strata of u (zero, +-1, unit, symmetric, tiny, '
            'large, denormal, dyadic, overflow, generic); lagrange_basis K=0..10 x 9 node strata; polynomial_basis_derivatives x 3 kinds of B; '
            'integrate_absolute_polynomial x 26 strata (linear root inside/left/right/at end, constant, both threshold bands, |A| or |B| exactly '
            'at 1e-9 and one ulp off, two/one/no roots inside, roots at the interval ends, exact and near double roots, no real root, degenerate and '
            'reversed intervals, tiny A with large B, large scale, generic); binary_interval_search: ALL sorted ranges of length <= 8 (thorough: 11) over a 4-letter '
            'alphabet (fixed, seeded-random, int) x 9 queries, random ranges up to 2200 elements x 8 shapes x 6 query kinds, crash probes; '
            'every constexpr table (8 bases x K=0..10, cumulative, monomial_integral K<=10 x every order P<=max(4,K+1) (P<=4 re-proved in Lean, higher orders audited exactly and compared with the model at 0 ulp), lgr_nodes K=1..16). '
            'distinct_nontrivial = distinct (op, parameters, input bits) with at least one non-zero input')
    assumptions = ['IEEE rounding of the run-time functions is audited against exact rational evaluation (sampling), not proved',
                   'LGR Newton iteration is not proved convergent: the produced nodes/weights are checked a posteriori by the kernel',
                   'integrate_absolute_polynomial inside the threshold bands (0<|A|<1e-9, |B|<=1e-9) and for t0>t1 is outside the theorem',
                   'search model assumes `wo` is the default ordering on double/int without NaN; casts of NaN/negative alpha are undefined in the C++']

    def prebuild(self):
        """build the harness binary (called by tools/prebuild.py during setup)"""
        harness()

    # ------------------------------------------------------------------ line production
    def gen_lines(self, ctx, n, seed=None, exh_len=8):
        b = harness()
        env = {'VERIF_SEED': str(ctx['seed'] if seed is None else seed)}
        raw = vlib.run_harness(b, [n, exh_len], env=env)
        raw += vlib.run_harness(b, ['dump'])
        return vlib.parse_lines(raw)

    def probe_lines(self):
        raw = vlib.run_harness(harness(), ['probe'])
        ok, crashes = [], []
        for r in raw:
            if r.startswith('CRASH '):
                crashes.append(r)
            elif r.strip():
                ok.append(Line(r))
        return ok, crashes

    def eval_lines(self, requests):
        raw = vlib.run_harness(harness(), ['eval'], stdin='\n'.join(requests) + '\n')
        return [None if r.startswith('SKIP') else Line(r) for r in raw]

    # ------------------------------------------------------------------ checks on a set of lines
    def check_lines(self, ctx, lines, probes=None):
        findings, broken, samples = [], [], []
        defined_probes = [l for l in (probes[0] if probes else [])
                          if not any(k in l.tag for k in ('nan_alpha', 'minus_inf', 'both_inf'))]
        t1 = t1_exact(lines + defined_probes)
        if t1['breaks']:
            by = {}
            for b in t1['breaks']:
                l = Line(b['line'])
                by.setdefault(l.op, []).append(b)
            for k, bs in by.items():
                first = dict(bs[0]); first['line'] = first['line'][:6000]
                broken.append({'what': 'correspondence', 'name': f'T1 {k} (implementation vs Lean model, 0 ulp)',
                               'count': len(bs), 'first': first})
        worst, worst_abs, n_audit, skipped = {}, {}, 0, 0

        def note(k, e):
            worst[k] = max(worst.get(k, 0.0), e)

        def finding(l, key, err, what, **kw):
            f = {'property': PID, 'key': key, 'err': err, 'tol': TOL, 'what': what, 'line': l.raw[:6000]}
            f.update(kw)
            findings.append(f)

        for l in lines:
            if l.op in ('poly_monoderiv', 'poly_monoderivs'):
                e, why = audit_monoderiv(l)
                n_audit += 1; note(l.op, e if math.isfinite(e) else 0.0)
                if not (e <= TOL):
                    finding(l, {'fn': 'monomial_derivative' + ('s' if l.op.endswith('s') else ''), 'region': l.tag}, e,
                            'monomial_derivative != k!/(k-p)! u^(k-p) ' + why)
            elif l.op == 'poly_lagrange':
                r = audit_lagrange(l)
                if r is None:
                    skipped += 1; continue
                n_audit += 1; note(l.op, r[0])
                worst_abs['poly_lagrange|' + l.tag] = max(worst_abs.get('poly_lagrange|' + l.tag, 0.0), r[1])
                if not (r[0] <= TOL):
                    finding(l, {'fn': 'lagrange_basis', 'region': l.tag}, r[0], 'p_i(t_j) != delta_ij (relative to the evaluation scale)')
            elif l.op == 'poly_basisderivs':
                r = audit_basisderivs(l)
                if r is None:
                    skipped += 1; continue
                n_audit += 1; note(l.op, r)
                if not (r <= TOL):
                    finding(l, {'fn': 'polynomial_basis_derivatives', 'region': l.tag}, r, 'D[i][j] != d/dt p_i(t_j)')
            elif l.op == 'poly_intabs':
                r = audit_intabs(l)
                if r is None:
                    skipped += 1; continue
                n_audit += 1; note(l.op + '|' + l.tag, r[0] if math.isfinite(r[0]) else 0.0)
                if l.tag.startswith('band_'):
                    worst_abs['poly_intabs|' + l.tag] = max(worst_abs.get('poly_intabs|' + l.tag, 0.0), r[3])
                if not (r[0] <= TOL):
                    finding(l, {'fn': 'integrate_absolute_polynomial', 'region': l.tag}, r[0],
                            f'result {r[2]!r} != integral of |A t^2+B t+C| = {r[1]!r} (error relative to max(1, antiderivative scale))',
                            inputs=dict(zip(('t0', 't1', 'A', 'B', 'C'), l.in_vals())))
            elif l.op in ('poly_basis', 'poly_cumbasis', 'poly_monint', 'poly_lgr'):
                e, why = audit_table(l)
                n_audit += 1; note(l.op, e if math.isfinite(e) else 0.0)
                if not (e <= TOL):
                    fn = {'poly_basis': 'polynomial_basis', 'poly_cumbasis': 'polynomial_cumulative_basis',
                          'poly_monint': 'monomial_integral', 'poly_lgr': 'lgr_nodes'}[l.op]
                    finding(l, {'fn': fn, 'table': l.grp}, e,
                            f'{fn}<{l.grp}>: constexpr table differs from its definition at {why}')
            elif l.op in ('search_f64', 'search_int'):
                n_audit += 1
                why = audit_search(l)
                if why:
                    finding(l, {'fn': 'binary_interval_search', 'range': l.op[7:], 'region': l.tag}, None, why)
            if len(samples) < 8 and l.op not in ('search_f64', 'search_int') and (n_audit % 131 == 1):
                samples.append({'line': l.raw[:400]})
        # probes: forked, may crash
        n_probe = 0
        if probes is not None:
            ok, crashes = probes
            for l in ok:
                n_probe += 1
                why = audit_search(l)
                if why:
                    finding(l, {'fn': 'binary_interval_search', 'range': l.op[7:], 'region': l.tag}, None, why,
                            inputs={'t': l.in_vals()[0], 'r': l.in_vals()[1:]})
            for c in crashes:
                n_probe += 1
                body, _, tag = c.partition(' # ')
                toks = body.split()
                findings.append({'property': PID, 'key': {'fn': 'binary_interval_search', 'range': toks[1][7:], 'region': tag.strip()},
                                 'err': None, 'tol': None, 'what': 'implementation crashed: ' + body.split(' | ')[-1], 'line': c[6:][:6000]})
        findings.sort(key=lambda f: len(f.get('line', '')))   # shortest failing input of each kind first
        strata, sig = {}, set()
        for l in lines:
            strata[l.tag] = strata.get(l.tag, 0) + 1
            if any(v != 0 for v in l.in_vals()) or not l.ins:
                sig.add((l.op, l.grp, tuple(l.ins)))
        agg = t1['stats']
        searches = [l for l in lines if l.op.startswith('search')]
        samples += [{'line': l.raw[:400]} for l in searches[:2]]
        cov = {'evaluations': len(lines) + n_probe, 'distinct_nontrivial': len(sig), 'rule': self.rule, 'samples': samples,
               'strata_hits': strata, 't1_stats': agg, 't1_breaks': len(t1['breaks']),
               'audit_samples': n_audit, 'audit_skipped_nonfinite_or_undefined': skipped, 'audit_worst': worst,
               'audit_worst_abs_error_informational': worst_abs,
               'search_cases': len(searches), 'search_max_iters': max([dec(l.outs[1], 'f64') for l in searches], default=0),
               'probes': n_probe, 'gen_tables': ctx.get('c20_tables', 0),
               'traces_validated_against_impl': len(lines)}
        return {'coverage': cov, 'findings': findings, 'broken': broken}

    # ------------------------------------------------------------------ entry points
    def explore(self, ctx):
        quick = ctx['tier'] == 'quick'
        lines = self.gen_lines(ctx, 12 if quick else 400, exh_len=8 if quick else 11)
        return self.check_lines(ctx, lines, probes=self.probe_lines())

    def search(self, ctx, broken):
        lines = self.gen_lines(ctx, 60 * max(1, ctx.get('budget', 1) // 10), seed=ctx['seed'] + 7919)
        res = self.check_lines(ctx, lines)
        return {'coverage': {'evaluations': len(lines)}, 'findings': res['findings']}

    def replay(self, ctx, payload):
        reqs = []
        for c in payload.get('cases', []):
            if 'line' in c:
                reqs.append(Line(c['line']).request() + (' # ' + Line(c['line']).tag if Line(c['line']).tag else ''))
        for b in payload.get('no_longer_checks', []):
            if isinstance(b.get('first'), dict) and 'line' in b['first']:
                reqs.append(Line(b['first']['line']).request())
        if not reqs:
            return {'coverage': {}, 'findings': [], 'broken': payload.get('no_longer_checks', [])}
        probe_reqs = [r for r in reqs if '# probe_' in r]
        reqs = [r for r in reqs if '# probe_' not in r]
        try:
            lines = [l for l in self.eval_lines(reqs) if l is not None] if reqs else []
        except vlib.HarnessRunError as e:   # the implementation crashed on a replayed input
            return {'coverage': {}, 'broken': [],
                    'findings': [{'property': PID, 'key': {'fn': 'replay', 'kind': 'crash'}, 'err': None,
                                  'what': f'implementation exited with {e.rc} on a replayed input', 'line': reqs[0][:6000]}]}
        probes = self.probe_lines() if probe_reqs else None   # probe inputs are fixed: the whole probe set is re-run (forked)
        return self.check_lines(ctx, lines, probes=probes)


def make():
    return C20()


if __name__ == '__main__':
    print(gen_tables({}))
