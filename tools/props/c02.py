from props.lie import *
from props import apiops
import math

TOL = {'f64': 1e-9, 'f32': 1e-3}
TOL_NEAR_PI = {'f64': 1e-7, 'f32': 1e-2}
BAND = {'f64': 1e-5, 'f32': 1e-2}
RANGE_SLACK = {'f64': 1e-9, 'f32': 1e-3}


def audit(lines):
    reqs = []
    thin = apiops.Thin(6)
    for l in lines:
        p = l.prec + 'a'
        base = {'key': std_key(l, 'out' if l.op == 'log' else 'in'), 'line': l.raw, 'tol': TOL[l.prec], 'judge': simple_judge}
        if apiops.audit_c02(l, p, TOL, TOL_NEAR_PI, BAND, reqs, thin):
            pass
        elif l.op == 'exp':
            reqs.append((' '.join(['a_exp', l.grp, p] + l.ins + l.outs),
                         dict(base, what='matrix(exp(a)) != matrix exponential of hat(a)')))
        elif l.op == 'log':
            def judge(errs, m, prec=l.prec):
                out = []
                rn = [math.sqrt(max(0.0, x)) for x in errs[1:]]
                near = any(abs(math.pi - r) < BAND[prec] for r in rn)
                tol = TOL_NEAR_PI[prec] if near else TOL[prec]
                if not (errs[0] <= tol):
                    out.append((errs[0], tol, 'exp(log(g)) != g'))
                for r in rn:
                    if not (r <= math.pi * (1 + RANGE_SLACK[prec])):
                        out.append((r, math.pi, 'rotation part of log(g) has norm above pi'))
                return out
            reqs.append((' '.join(['a_explog', l.grp, p] + l.ins + l.outs), dict(base, judge=judge, what='exp(log(g)) != g')))
        elif l.op == 'logexp':
            # the claim is for rotation parts of norm below pi (judged on the actual scalar value of the
            # input: float(pi - 1e-9) is above pi), with the relaxed tolerance within BAND of pi
            try:
                rn = [th for _, th in rot_norms(l.grp, l.in_vals())]
            except Exception:
                rn = []
            if any(th >= math.pi for th in rn):
                continue
            near = any(abs(math.pi - th) < BAND[l.prec] for th in rn)
            if any(math.pi - th < 4 * vlib.EPS[l.prec] * math.pi for th in rn):
                # the rotation angle is below pi by less than the format can resolve (|q_w| = cos(theta/2) is
                # below the rounding error of cos): the sign of q_w, hence the branch of log, is decided by
                # rounding.  Kept in the audit, but keyed separately (known finding KF-C02-half-turn-unresolvable).
                base = dict(base, key=dict(base['key'], theta_band='half_turn_unresolvable'))
            def judge_le(errs, m):
                out = []
                if not (errs[0] <= m['tol']):
                    out.append((errs[0], m['tol'], 'log(exp(a)) != a'))
                elif len(errs) > 1 and not (errs[1] <= m['tol']):
                    # "uniformly in a ... arbitrarily small": relative to |a| itself, not to max(1, |a|)
                    out.append((errs[1], m['tol'], 'log(exp(a)) != a relative to |a| (tiny tangent)'))
                return out
            c1s = set(apiops.c1_scale_indices(l.grp))
            tolv = TOL_NEAR_PI[l.prec] if near else TOL[l.prec]
            if not c1s:
                reqs.append((' '.join(['a_vec', l.grp, p] + l.ins + l.outs), dict(base, judge=judge_le, tol=tolv, what='log(exp(a)) != a')))
            else:
                # The measure relative to |a| does not apply to the log-scale coordinate a0 of a C1 factor: C1 stores
                # e^{a0}·(sin, cos), so a0 comes back to ABSOLUTE precision eps whatever the implementation (DESIGN 8.6).
                # Those coordinates stay under the max(1,|a|) measure (first request); the |a|-relative measure is taken
                # over the remaining coordinates only, numerator and scale (second request).
                def judge_abs(errs, m):
                    return [(errs[0], m['tol'], 'log(exp(a)) != a')] if not (errs[0] <= m['tol']) else []

                def judge_rel(errs, m):
                    if errs[0] <= m['tol'] and len(errs) > 1 and not (errs[1] <= m['tol']):
                        return [(errs[1], m['tol'], 'log(exp(a)) != a relative to |a| (tiny tangent; C1 log-scale coordinates excluded)')]
                    return []
                reqs.append((' '.join(['a_vec', l.grp, p] + l.ins + l.outs), dict(base, judge=judge_abs, tol=tolv, what='log(exp(a)) != a')))
                keep = [i for i in range(len(l.ins)) if i not in c1s]
                if keep and len(l.outs) == len(l.ins):
                    reqs.append((' '.join(['a_vec', l.grp, p] + [l.ins[i] for i in keep] + [l.outs[i] for i in keep]),
                                 dict(base, judge=judge_rel, tol=tolv, what='log(exp(a)) != a')))
    return reqs


def make():
    return LieProp('C02', ['exp', 'log', 'logexp', 'cos_2', 'sin_3', 'cos_4', 'sin_5', 'cos_6', 'calc_S1', 'calc_S2', 'calc_S1inv']
                   + apiops.API_OPS['C02'],
                   ['SmoothProps/C02.lean'], audit, TOL,
                   rule='harness/lie.cpp: every group type of the catalogue x scalar x 9 rotation-angle strata (dense around the '
                        'eps2 switch: exact switch value and its floating-point neighbours, 1e-12..1e-3, generic, pi-1e-9..pi+1, up to 50) '
                        'x 5 translation strata; scalar coefficient functions compared at 0 ulp; distinct_nontrivial = distinct '
                        '(op,group,scalar,stratum,input bits) with a non-zero input',
                   assumptions=['IEEE rounding of the closed forms is audited against a 320-bit series oracle, not proved',
                                'matrix exponential oracle: scaling-and-squaring Taylor series in fixed point (Oracle.lean)'])
