from props.lie import *
import math

TOL = {'f64': 1e-9, 'f32': 1e-3}
TOL_NEAR_PI = {'f64': 1e-7, 'f32': 1e-2}
BAND = {'f64': 1e-5, 'f32': 1e-2}
RANGE_SLACK = {'f64': 1e-9, 'f32': 1e-3}


def audit(lines):
    reqs = []
    for l in lines:
        p = l.prec + 'a'
        base = {'key': std_key(l, 'out' if l.op == 'log' else 'in'), 'line': l.raw, 'tol': TOL[l.prec], 'judge': simple_judge}
        if l.op == 'exp':
            reqs.append((' '.join(['a_exp', l.grp, p] + l.ins + l.outs),
                         dict(base, what='matrix(exp(a)) != matrix exponential of hat(a)')))
        elif l.op == 'log':
            def judge(errs, m, prec=l.prec):
                out = []
                rn = [math.sqrt(max(0.0, x)) for x in errs[1:]]
                near = any(abs(math.pi - r) < BAND[prec] for r in rn)
                tol = TOL_NEAR_PI[prec] if near else TOL[prec]
                if not (errs[0] <= tol):
                    out.append((errs[0], tol, 'exp(log(g)) != g'))
                for r in rn:
                    if not (r <= math.pi * (1 + RANGE_SLACK[prec])):
                        out.append((r, math.pi, 'rotation part of log(g) has norm above pi'))
                return out
            reqs.append((' '.join(['a_explog', l.grp, p] + l.ins + l.outs), dict(base, judge=judge, what='exp(log(g)) != g')))
        elif l.op == 'logexp':
            # the claim is for rotation parts of norm below pi (judged on the actual scalar value of the
            # input: float(pi - 1e-9) is above pi), with the relaxed tolerance within BAND of pi
            try:
                rn = [th for _, th in rot_norms(l.grp, l.in_vals())]
            except Exception:
                rn = []
            if any(th >= math.pi for th in rn):
                continue
            near = any(abs(math.pi - th) < BAND[l.prec] for th in rn)
            if any(math.pi - th < 4 * vlib.EPS[l.prec] * math.pi for th in rn):
                # the rotation angle is below pi by less than the format can resolve (|q_w| = cos(theta/2) is
                # below the rounding error of cos): the sign of q_w, hence the branch of log, is decided by
                # rounding.  Kept in the audit, but keyed separately (known finding KF-C02-half-turn-unresolvable).
                base = dict(base, key=dict(base['key'], theta_band='half_turn_unresolvable'))
            def judge_le(errs, m):
                out = []
                if not (errs[0] <= m['tol']):
                    out.append((errs[0], m['tol'], 'log(exp(a)) != a'))
                elif len(errs) > 1 and not (errs[1] <= m['tol']):
                    # "uniformly in a ... arbitrarily small": relative to |a| itself, not to max(1, |a|)
                    out.append((errs[1], m['tol'], 'log(exp(a)) != a relative to |a| (tiny tangent)'))
                return out
            reqs.append((' '.join(['a_vec', l.grp, p] + l.ins + l.outs),
                         dict(base, judge=judge_le, tol=TOL_NEAR_PI[l.prec] if near else TOL[l.prec], what='log(exp(a)) != a')))
    return reqs


def make():
    return LieProp('C02', ['exp', 'log', 'logexp', 'cos_2', 'sin_3', 'cos_4', 'sin_5', 'cos_6', 'calc_S1', 'calc_S2', 'calc_S1inv'],
                   ['SmoothProps/C02.lean'], audit, TOL,
                   rule='harness/lie.cpp: every group type of the catalogue x scalar x 9 rotation-angle strata (dense around the '
                        'eps2 switch: exact switch value and its floating-point neighbours, 1e-12..1e-3, generic, pi-1e-9..pi+1, up to 50) '
                        'x 5 translation strata; scalar coefficient functions compared at 0 ulp; distinct_nontrivial = distinct '
                        '(op,group,scalar,stratum,input bits) with a non-zero input',
                   assumptions=['IEEE rounding of the closed forms is audited against a 320-bit series oracle, not proved',
                                'matrix exponential oracle: scaling-and-squaring Taylor series in fixed point (Oracle.lean)'])
