"""C06 (layout part) — Bundle prefix-sum layouts = `Bundle.psum` of the model's part sizes.

For the C06 plugin:   from props import c06layout
    translators  += c06layout.translators           # regenerates SmoothProofs/Gen/BundleLayout.lean (T2, by decide)
    props_files  += c06layout.props_files           # SmoothProps/C06Layout.lean (namespace C06L)
    lean_targets += c06layout.lean_targets
    res = c06layout.explore_layout(ctx)             # {'coverage', 'findings', 'broken'} to be merged
Stand-alone:  python3 tools/check.py C06LAYOUT --tier quick
"""
import os, sys
sys.path.insert(0, os.path.dirname(os.path.dirname(__file__)))
import vlib
from props import c16, gdesc

translators = [c16.gen_bundle_layout]
props_files = ['SmoothProps/C06Layout.lean']
lean_targets = ['SmoothProps.C06Layout']
theorem_files = props_files
GEN_OBLIGATIONS = 4   # theorems of Gen/BundleLayout.lean


def explore_layout(ctx):
    """runtime cross-check (independent of the Lean build): arrays dumped from the running code vs the driver's
    `mem_psum` / `mem_table` of the model, and the arithmetic facts the property states"""
    dump = c16.get_dump()
    findings, broken, samples = [], [], []
    groups = sorted(dump.bundles)
    reps = vlib.run_driver([f'mem_psum {g} -' for g in groups] + [f'mem_table {g} -' for g in groups])
    n = 0
    for i, g in enumerate(groups):
        b = dump.bundles[g]
        d = gdesc.parse(g)
        # model
        m = {}
        for sec in reps[i].split('|'):
            w = sec.split()
            m[w[0].rstrip(':')] = [int(x) for x in w[1:]]
        for code_key, model_key in (('reppsum', 'rep'), ('dofpsum', 'dof'), ('dimpsum', 'dim')):
            n += 1
            if b[code_key] != m.get(model_key):
                findings.append({'property': 'C06', 'key': {'kind': 'layout', 'group': g, 'array': code_key}, 'err': 1, 'tol': 0,
                                 'what': f'{code_key} of {g}: code {b[code_key]} model {m.get(model_key)}', 'line': f'bundle {g}'})
        # the property itself, on the dumped numbers: psum = running sum, PartStart/PartDof, totals
        for sizes, ps in ((b['reps'], b['reppsum']), (b['dofs'], b['dofpsum']), (b['dims'], b['dimpsum'])):
            n += 1
            run = [0]
            for s in sizes:
                run.append(run[-1] + s)
            if run != ps:
                findings.append({'property': 'C06', 'key': {'kind': 'psum', 'group': g}, 'err': 1, 'tol': 0,
                                 'what': f'prefix sums {ps} are not the running sums of {sizes}', 'line': f'bundle {g}'})
        n += 1
        if b['partstart'] != b['dofpsum'][:-1] or b['partdof'] != b['dofs'] or b['total'] != [b['reppsum'][-1], b['dofpsum'][-1], b['dimpsum'][-1]]:
            findings.append({'property': 'C06', 'key': {'kind': 'partstart', 'group': g}, 'err': 1, 'tol': 0,
                             'what': f'PartStart/PartDof/totals of {g} inconsistent with the prefix sums: {b}', 'line': f'bundle {g}'})
        # part<i>() offsets observed by writing through the accessor = RepSizesPsum[i]
        t = reps[len(groups) + i].split()
        table = {x.split(':')[0]: (int(x.split(':')[1]), int(x.split(':')[2])) for x in t[3:]}
        for k in range(len(d.parts)):
            n += 1
            obs = dump.views.get((g, f'part{k}'), set())
            want = (str(b['reppsum'][k]), str(b['reps'][k]))
            if obs != {want} or table.get(f'part{k}') != (b['reppsum'][k], b['reps'][k]):
                findings.append({'property': 'C06', 'key': {'kind': 'part_offset', 'group': g, 'part': k}, 'err': 1, 'tol': 0,
                                 'what': f'part<{k}>() of {g}: observed write-set {sorted(obs)}, RepSizesPsum/RepSizes {want}, model {table.get(f"part{k}")}',
                                 'line': f'view {g} part{k}'})
        if len(samples) < 4:
            samples.append({'bundle': g, 'code': b, 'model': m})
    cov = {'evaluations': n, 'distinct_nontrivial': len(groups), 'samples': samples, 'bundles': groups,
           'rule': 'every Bundle type of the harness catalogue (harness/mem.cpp, 15 types incl. nested, double and float): the '
                   'constexpr arrays RepSizesPsum/DofsPsum/DimsPsum, PartStart<i>/PartDof<i>, observed part<i>() write offsets',
           'gen_obligations': GEN_OBLIGATIONS, 'gen_obligations_discharged': GEN_OBLIGATIONS}
    return {'coverage': cov, 'findings': findings, 'broken': broken}


class C06Layout:
    id = 'C06LAYOUT'
    props_files = props_files
    props_module = 'SmoothProps.C06Layout'
    lean_targets = lean_targets
    translators = translators
    rule = 'see coverage.rule'
    assumptions = ['Bundle instantiations outside the harness catalogue rely on the theorems about the model '
                   '(the offset code is one template, array_psum, shared by all instantiations)']

    def explore(self, ctx):
        return explore_layout(ctx)

    def replay(self, ctx, payload):
        return explore_layout(ctx)


def make():
    return C06Layout()
