"""C14 — curve construction meets its specification (fit_spline_1d, fit_spline, fit_bspline,
dubins_curve, reparameterize_spline).

Pipeline per run (harness/fit.cpp is a pure evaluator; all inputs are generated here from ctx['seed']):
  (a) fit_1d   : coefficients of fit_spline_1d  →  every constraint of the specification re-evaluated
                 EXACTLY (python Fractions on the returned bit patterns, Bézier difference formula,
                 independent of the code's tables) at 1e-6 relative; the executable Lean model's rows
                 (driver `fit_resid`) must give the same residuals (tie of the row assembly), the
                 tables U0tB/U1tB/P must equal the model's bit for bit (`fit_tab`), and for small
                 well-conditioned problems the coefficients must equal the exact solution of the
                 model's KKT system (`fit_kkt`, ties the cost-block factor).
  (b) fit_spl  : fit_spline on SO3/SE3/SE2/R^3 probed through operator() at the data times from both
                 sides; velocity continuity (K >= 3); rest at the ends.  `fit_glue`: the Lean model of
                 the glue (differences, cumulative coefficients, middle re-solve, concat chain) vs the
                 implementation at mid-segment times (the 1-d solutions are passed as the parameter).
  (c) dub      : dubins / dubins_curve vs the Lean model (`dub_word`, bit level) and audits: end pose,
                 unit speed, curvature, minimality against independently computed candidates.
  (d) bsp      : fit_bspline t_min/t_max/#ctrl vs model (`fit_bsp`) and the covering property.
  (e) rep      : reparameterize_spline vs the model's forward/backward bookkeeping with an exact
                 rational LP (`rep_run`); monotone, onto, start speed.
"""
import math, os, random, struct, sys
from fractions import Fraction as Fr
from math import comb, factorial

sys.path.insert(0, os.path.dirname(os.path.dirname(__file__)))
import vlib
from vlib import Line, dec, enc

PID = 'C14'
# The input domain includes the degenerate classes inside the property's quantifier on which the pinned tree failed
# (knot spacing dividing the data span exactly, exactly tangent Dubins circles, curves at rest / infeasible forward pass);
# findings on them carry narrow identifying keys.  The implementation is whatever vlib.REPO points to.
FULL_DOMAIN = True
REP_PREDICTED = {}    # rep request -> the Lean model predicts a segment of non-positive duration
U = 2.0 ** -52
TOL_REL = 1e-6          # the property's tolerance: 1-d constraints, interpolation of the group curve
TOL_VEL = 1e-5          # body-velocity continuity / rest at the ends of the group curve (relative to the data speed)

# spec name -> (K, OptDeg, InnCnt, LeftDeg, RghtDeg)
SPEC = {'PL': (1, -1, 0, [], []), 'FDC11': (3, -1, 2, [1], [1]), 'FDC22': (3, -1, 2, [2], [2]),
        'FDC12': (3, -1, 2, [1], [2]), 'FDC21': (3, -1, 2, [2], [1]),
        'MD5': (5, 3, 3, [1, 2], [1, 2]), 'MD6': (6, 3, 3, [1, 2], [1, 2])}
SPEC_DOC = {'PL': 'PiecewiseLinear', 'FDC11': 'FixedDerCubic<1,1>', 'FDC22': 'FixedDerCubic<2,2>',
            'FDC12': 'FixedDerCubic<1,2>', 'FDC21': 'FixedDerCubic<2,1>',
            'MD5': 'MinDerivative<5,3,3>', 'MD6': 'MinDerivative<6,3,3>'}
GROUPS = {'SO3': (4, 3), 'SE3': (7, 6), 'SE2': (4, 3), 'T3': (3, 3)}   # rep, dof
PROBE = [-64, -1, 0, 1, 64]

DT_BANDS = [(0.02, '<0.02'), (0.05, '0.02-0.05'), (0.125, '0.05-0.125'), (0.3, '0.125-0.3'), (0.6, '0.3-0.6'),
            (1.25, '0.6-1.25'), (2.5, '1.25-2.5'), (10.0, '2.5-10'), (float('inf'), '>=10')]


def dt_band(dtmin):
    for hi, name in DT_BANDS:
        if dtmin < hi:
            return name
    return '>=10'


def hexs(vals):
    return ' '.join(enc(float(v), 'f64') for v in vals)


def fvals(words):
    return [dec(w, 'f64') for w in words]


def harness_specs():
    return [(f'fit{p}', 'fit.cpp', ('-O1', f'-DPART={p}')) for p in (0, 1, 2)]


PART_OF_OP = {'fit_tab': 0, 'fit_1d': 0, 'dub': 0, 'lp2d': 0, 'rep': 0, 'crv': 0, 'bsp': 1}


def part_of(req):
    t = req.split(None, 3)
    op, grp = t[0], t[1]
    if op in PART_OF_OP:
        return PART_OF_OP[op]
    g = grp.split(':')[0]
    return 1 if g in ('SO3', 'T3') else 2


CRASHES = []     # (request, return code, stderr tail) of requests on which the implementation aborted


def _run_part(binary, reqs, idx, out):
    try:
        raw = vlib.run_harness(binary, ['eval'], stdin='\n'.join(reqs[i] for i in idx) + '\n')
    except vlib.HarnessRunError as e:
        if len(idx) == 1:
            CRASHES.append((reqs[idx[0]], e.rc, e.err[-600:]))
            return
        h = len(idx) // 2
        _run_part(binary, reqs, idx[:h], out)
        _run_part(binary, reqs, idx[h:], out)
        return
    if len(raw) != len(idx):
        raise vlib.MachineryError(f'harness returned {len(raw)} lines for {len(idx)} requests')
    for i, l in zip(idx, raw):
        if not l.startswith('SKIP'):
            out[i] = Line(l)


def run_impl(reqs):
    """evaluate request lines with the implementation; returns list of Line (None when skipped or
    when the implementation aborted on that request — those are recorded in CRASHES)"""
    bins = vlib.build_harnesses(harness_specs())
    out = [None] * len(reqs)
    by = {}
    for i, r in enumerate(reqs):
        by.setdefault(part_of(r), []).append(i)
    for p, idx in by.items():
        _run_part(bins[f'fit{p}'], reqs, idx, out)
    return out


def crash_findings():
    fs = []
    for (req, rc, err) in CRASHES:
        t = req.split(None, 3)
        op, grp = t[0], t[1]
        key = {'kind': 'abort', 'op': op}
        what = f'the implementation aborted (exit {rc}) on {op} {grp}'
        m = None
        if 'Assertion' in err:
            m = err[err.index('Assertion'):][:200]
            what += ': ' + m
        if op == 'rep':
            key = {'kind': 'reparameterize_abort', 'model_predicts_nonpositive_segment_duration': bool(REP_PREDICTED.get(req.split(' # ')[0].strip(), False))}
            what = (f'reparameterize_spline aborts on {grp}' + (f' [{m}]' if m else '') +
                    ('; the Lean model of the forward pass (with the implementation\'s lp2d results) emits a segment of duration <= 0 here'
                     if key['model_predicts_nonpositive_segment_duration'] else ''))
        if op == 'bsp':
            l = Line(req)
            v = l.in_vals()
            N = int(grp.split(':')[2])
            ts, dt = v[:N], v[-1]
            q = (max(ts) - min(ts)) / dt
            key = {'kind': 'fit_bspline_abort', 'span_over_dt_integral': q == math.floor(q)}
            what = (f'fit_bspline<{grp.split(":")[0]}> aborts: (t1-t0)/dt = {q!r} but (t1-t0+dt)/dt = {(max(ts) - min(ts) + dt) / dt!r}, '
                    f'so NumPts is one short of the window of the last data point' + (f' [{m}]' if m else ''))
        fs.append({'property': PID, 'key': key, 'err': None, 'tol': 0.0, 'what': what, 'line': req})
    return fs


# ============================================================================ (a) fit_spline_1d
def bern_deriv(K, d, x, end):
    """d-th derivative w.r.t. u of sum_k x_k b_{k,K}(u) at u = end (0 or 1): K!/(K-d)! * d-th forward
    difference of the first / last d+1 coefficients (exact on Fractions)."""
    base = 0 if end == 0 else K - d
    s = Fr(0)
    for j in range(d + 1):
        s += (-1) ** (d - j) * comb(d, j) * x[base + j]
    return Fr(factorial(K), factorial(K - d)) * s


def rowmax(K, d):
    return Fr(factorial(K), factorial(K - d)) * max(comb(d, j) for j in range(d + 1))


def constraint_residuals(spec, dt, dx, lv, rv, x):
    """every constraint of the specification on the coefficients x, exactly.
    returns list of (row_kind, segment, order, residual, scale) in the row order of the code."""
    K, O, Inn, L, R = SPEC[spec]
    N = len(dt)
    X = [[Fr(v) for v in x[i * (K + 1):(i + 1) * (K + 1)]] for i in range(N)]
    S = max([abs(v) for v in dx + lv + rv] + [0.0])
    S = Fr(S) if S > 0 else Fr(1)
    dtf = [Fr(v) for v in dt]
    xs = [max(abs(v) for v in Xi) for Xi in X]
    out = []
    for k, d in enumerate(L):
        out.append(('boundary', 0, d, bern_deriv(K, d, X[0], 0) - Fr(lv[k]), rowmax(K, d) * max(S, xs[0])))
    for i in range(N):
        out.append(('interp', i, 0, X[i][0], max(S, xs[i])))
        out.append(('interp', i, 0, X[i][K] - Fr(dx[i]), max(S, xs[i])))
    for i in range(N - 1):
        m = max(S, xs[i], xs[i + 1])
        for d in range(1, Inn + 1):
            a = bern_deriv(K, d, X[i], 1) / dtf[i] ** d
            b = bern_deriv(K, d, X[i + 1], 0) / dtf[i + 1] ** d
            out.append(('cont', i, d, a - b, rowmax(K, d) / min(dtf[i], dtf[i + 1]) ** d * m))
    for k, d in enumerate(R):
        out.append(('boundary', N - 1, d, bern_deriv(K, d, X[N - 1], 1) - Fr(rv[k]), rowmax(K, d) * max(S, xs[N - 1])))
    return out


def gen_dts(rnd, N, maxratio):
    """N sampling intervals in [1e-2, 1e2]; neighbouring ratio at most maxratio"""
    c = 10 ** rnd.uniform(-2, 2)
    mode = rnd.random()
    if mode < 0.2:           # nearly uniform sampling
        return [min(1e2, max(1e-2, c * rnd.uniform(0.9, 1.1))) for _ in range(N)]
    if mode < 0.3:           # uniform sampling with timing jitter: neighbouring intervals differ by a relative 1e-9 … 1e-2
        #                      (absolute differences from ~1e-11 s to ~1 s: any absolute "are the knots uniform?" threshold is crossed; seed C14e)
        j = 10 ** rnd.uniform(-9, -2)
        return [min(1e2, max(1e-2, c * (1.0 + j * rnd.uniform(-1, 1)))) for _ in range(N)]
    if mode < 0.4:           # alternating between two rates at the extreme neighbouring ratio of the quantifier
        lo = 10 ** rnd.uniform(-2, 2 - math.log10(maxratio))
        return [lo if (k % 2 == 0) else lo * maxratio for k in range(N)]
    r = maxratio if mode < 0.75 else min(maxratio, 3.0)
    out = [c]
    for _ in range(N - 1):
        f = 10 ** rnd.uniform(-math.log10(r), math.log10(r))
        nxt = out[-1] * f
        if nxt > 1e2 or nxt < 1e-2:
            nxt = out[-1] / f
        nxt = min(1e2, max(1e-2, nxt))
        # keep the neighbouring ratio within the quantifier after clamping
        if max(nxt / out[-1], out[-1] / nxt) > maxratio:
            nxt = out[-1]
        out.append(nxt)
    return out


def gen_fit1d(rnd, n_per_spec):
    reqs = []
    sizes = [1, 2, 3, 4, 6, 9, 15, 24, 39]
    for spec in SPEC:
        K, O, Inn, L, R = SPEC[spec]
        for t in range(n_per_spec):
            N = sizes[t % len(sizes)] if t < 2 * len(sizes) else rnd.randint(1, 39)
            dt = gen_dts(rnd, N, 10.0 if O >= 0 else 1e3)
            mag = rnd.choice([1.0, 1.0, 10.0, 0.01, 100.0])
            dx = [rnd.uniform(-1, 1) * mag for _ in range(N)]
            if rnd.random() < 0.65:
                lv, rv = [0.0] * len(L), [0.0] * len(R)
            else:
                lv = [rnd.uniform(-1, 1) * mag for _ in L]
                rv = [rnd.uniform(-1, 1) * mag for _ in R]
            reqs.append(f'fit_1d {spec}:{N} f64 ' + hexs(dt + dx + lv + rv) + f' # {dt_band(min(dt))}')
    return reqs


def split_fit1d(l):
    spec, N = l.grp.split(':')
    N = int(N)
    K, O, Inn, L, R = SPEC[spec]
    v = l.in_vals()
    return spec, N, v[:N], v[N:2 * N], v[2 * N:2 * N + len(L)], v[2 * N + len(L):]


def judge_fit1d(lines, st):
    """exact constraint audit + tie of the model's rows (driver fit_resid)"""
    findings, broken = [], []
    reqs = []
    for l in lines:
        reqs.append(' '.join(['fit_resid', l.grp, 'f64'] + l.ins + l.outs))
    reps = vlib.run_driver(reqs)
    for l, rep in zip(lines, reps):
        spec, N, dt, dx, lv, rv = split_fit1d(l)
        K = SPEC[spec][0]
        x = l.out_vals()
        band = dt_band(min(dt))
        key0 = f'{spec}|{band}'
        cs = st['fit1d'].setdefault(key0, {'n': 0, 'worst_rel': 0.0, 'failing_cases': 0})
        cs['n'] += 1
        if len(x) != (K + 1) * N or not all(math.isfinite(v) for v in x):
            findings.append({'property': PID, 'key': {'kind': 'fit1d_nonfinite', 'spec': spec, 'dt_band': band},
                             'err': None, 'tol': TOL_REL, 'what': f'fit_spline_1d({SPEC_DOC[spec]}) returned non-finite or missized coefficients',
                             'line': l.raw})
            cs['failing_cases'] += 1
            continue
        res = constraint_residuals(spec, dt, dx, lv, rv, x)
        worst = {}
        for (kind, i, d, r, sc) in res:
            rel = float(abs(r) / sc)
            if rel > worst.get(kind, (0.0,))[0]:
                worst[kind] = (rel, i, d, float(r))
        cs['worst_rel'] = max([cs['worst_rel']] + [w[0] for w in worst.values()])
        bad = False
        for kind, (rel, i, d, r) in worst.items():
            if not rel <= TOL_REL:
                bad = True
                findings.append({'property': PID,
                                 'key': {'kind': 'fit1d_constraint', 'spec': spec, 'dt_band': band, 'row': kind},
                                 'err': rel, 'tol': TOL_REL,
                                 'what': f'fit_spline_1d({SPEC_DOC[spec]}): {kind} constraint (segment {i}, order {d}) violated: '
                                         f'residual {r:.3e}, {rel:.3e} relative; N={N} min dt={min(dt):.4g} max dt={max(dt):.4g}',
                                 'line': l.raw})
        cs['failing_cases'] += bad
        # ---- tie: the Lean model's rows evaluated in floating point on the same coefficients
        st['t1']['fit_resid']['n'] += 1
        if rep.startswith('ERR'):
            broken.append({'what': 'correspondence', 'name': 'T1 fit_resid (model rows)', 'first': {'line': l.raw, 'model': rep}})
            continue
        mr = fvals(rep.split())
        if len(mr) != len(res):
            broken.append({'what': 'correspondence', 'name': 'T1 fit_resid: number of rows N_eq differs from the specification',
                           'first': {'line': l.raw, 'model_rows': len(mr), 'spec_rows': len(res)}})
            continue
        for (kind, i, d, r, sc), m in zip(res, mr):
            # float evaluation of a dot product of at most 2(K+1) terms, each bounded by sc
            slack = 512 * U * float(sc)
            e = abs(m - float(r))
            st['t1']['fit_resid']['worst'] = max(st['t1']['fit_resid']['worst'], e / (U * float(sc)))
            if not e <= slack:
                broken.append({'what': 'correspondence', 'name': f'T1 fit_resid {spec} row kind {kind} (Lean rows vs exact constraint)',
                               'first': {'line': l.raw, 'segment': i, 'order': d, 'model': m, 'exact': float(r)}})
                break
    return findings, broken


def solve_exact(H, rhs):
    """Gauss elimination on Fractions (dense, partial pivoting by first non-zero)"""
    n = len(rhs)
    M = [[Fr(v) for v in H[i * n:(i + 1) * n]] + [Fr(rhs[i])] for i in range(n)]
    for c in range(n):
        p = next((r for r in range(c, n) if M[r][c] != 0), None)
        if p is None:
            return None
        M[c], M[p] = M[p], M[c]
        inv = 1 / M[c][c]
        for r in range(c + 1, n):
            if M[r][c] != 0:
                f = M[r][c] * inv
                row, piv = M[r], M[c]
                for k in range(c, n + 1):
                    if piv[k] != 0:
                        row[k] -= f * piv[k]
    x = [Fr(0)] * n
    for c in range(n - 1, -1, -1):
        s = M[c][n]
        for k in range(c + 1, n):
            if M[c][k] != 0:
                s -= M[c][k] * x[k]
        x[c] = s / M[c][c]
    return x


def check_kkt(rnd, n_cases, st):
    """small, well-conditioned MinDerivative problems: implementation == exact solution of the model's KKT system"""
    reqs = []
    for t in range(n_cases):
        spec = ('MD5', 'MD6')[t % 2]
        N = 1 + t % 3
        dt = [rnd.uniform(2.0, 8.0) for _ in range(N)]
        dx = [rnd.uniform(-1, 1) for _ in range(N)]
        lv = [rnd.uniform(-1, 1) * (t % 4 == 3) for _ in range(2)]
        rv = [rnd.uniform(-1, 1) * (t % 4 == 3) for _ in range(2)]
        reqs.append(f'fit_1d {spec}:{N} f64 ' + hexs(dt + dx + lv + rv) + ' # kkt')
    impl = [l for l in run_impl(reqs) if l is not None]
    kreqs = [' '.join(['fit_kkt', l.grp, 'f64'] + l.ins) for l in impl]
    reps = vlib.run_driver(kreqs)
    broken = []
    for l, rep in zip(impl, reps):
        st['t1']['fit_kkt']['n'] += 1
        if rep.startswith('ERR'):
            broken.append({'what': 'correspondence', 'name': 'T1 fit_kkt', 'first': {'line': l.raw, 'model': rep}})
            continue
        w = fvals(rep.split())
        n = int(w[0])
        H, rhs = w[1:1 + n * n], w[1 + n * n:]
        xs = solve_exact(H, rhs)
        x = l.out_vals()
        if xs is None or len(rhs) != n:
            broken.append({'what': 'correspondence', 'name': 'T1 fit_kkt: model KKT matrix singular', 'first': {'line': l.raw}})
            continue
        sc = max([abs(float(v)) for v in xs[:len(x)]] + [1.0])
        e = max(abs(a - float(b)) for a, b in zip(x, xs)) / sc
        st['t1']['fit_kkt']['worst'] = max(st['t1']['fit_kkt']['worst'], e)
        if not e <= 1e-5:
            broken.append({'what': 'correspondence', 'name': 'T1 fit_kkt (implementation vs exact solution of the model KKT system)',
                           'first': {'line': l.raw, 'rel_err': e}})
    return broken


def check_tables(st):
    reqs = [f'fit_tab {s} f64' for s in ('PL', 'FDC11', 'FDC22', 'MD5', 'MD6')]
    impl = run_impl(reqs)
    reps = vlib.run_driver(reqs)
    broken = []
    for l, rep in zip(impl, reps):
        st['t1']['fit_tab']['n'] += 1
        if l is None or rep.split() != l.outs:
            broken.append({'what': 'correspondence', 'name': f'T1 fit_tab {l.grp if l else "?"}: U0tB/U1tB/P tables of the running code differ from the model',
                           'first': {'line': l.raw if l else None, 'model': rep[:400]}})
    return broken


# ============================================================================ (b) fit_spline
def so3_exp(a):
    th = math.sqrt(sum(v * v for v in a))
    if th < 1e-9:
        return [a[0] / 2, a[1] / 2, a[2] / 2, 1.0]
    s = math.sin(th / 2) / th
    return [a[0] * s, a[1] * s, a[2] * s, math.cos(th / 2)]


def qmul(p, q):
    x1, y1, z1, w1 = p
    x2, y2, z2, w2 = q
    return [w1 * x2 + x1 * w2 + y1 * z2 - z1 * y2, w1 * y2 - x1 * z2 + y1 * w2 + z1 * x2,
            w1 * z2 + x1 * y2 - y1 * x2 + z1 * w2, w1 * w2 - x1 * x2 - y1 * y2 - z1 * z2]


def qrot(q, v):
    x, y, z, w = q
    t = [2 * (y * v[2] - z * v[1]), 2 * (z * v[0] - x * v[2]), 2 * (x * v[1] - y * v[0])]
    return [v[0] + w * t[0] + (y * t[2] - z * t[1]), v[1] + w * t[1] + (z * t[0] - x * t[2]),
            v[2] + w * t[2] + (x * t[1] - y * t[0])]


def qnorm(q):
    n = math.sqrt(sum(v * v for v in q))
    q = [v / n for v in q]
    return q if q[3] >= 0 else [-v for v in q]


def gen_group_data(rnd, G, N, dts):
    """N group elements with consecutive differences inside the injectivity radius (rotation < 2.6 rad)"""
    gs = []
    ang = rnd.choice([0.05, 0.5, 1.5, 2.6])
    tr = rnd.choice([0.1, 1.0, 5.0])
    if G == 'T3':
        g = [rnd.uniform(-1, 1) for _ in range(3)]
        for i in range(N):
            gs.append(list(g))
            g = [v + rnd.uniform(-tr, tr) for v in g]
    elif G == 'SO3':
        q = qnorm([rnd.gauss(0, 1) for _ in range(4)])
        for i in range(N):
            gs.append(q)
            a = [rnd.gauss(0, 1) for _ in range(3)]
            n = math.sqrt(sum(v * v for v in a)) or 1.0
            th = rnd.uniform(0, ang)
            q = qnorm(qmul(q, so3_exp([v / n * th for v in a])))
    elif G == 'SE3':
        q = qnorm([rnd.gauss(0, 1) for _ in range(4)])
        p = [rnd.uniform(-1, 1) for _ in range(3)]
        for i in range(N):
            gs.append(p + q)
            a = [rnd.gauss(0, 1) for _ in range(3)]
            n = math.sqrt(sum(v * v for v in a)) or 1.0
            th = rnd.uniform(0, ang)
            dp = qrot(q, [rnd.uniform(-tr, tr) for _ in range(3)])
            p = [u + v for u, v in zip(p, dp)]
            q = qnorm(qmul(q, so3_exp([v / n * th for v in a])))
    elif G == 'SE2':
        th = rnd.uniform(-3, 3)
        p = [rnd.uniform(-1, 1) for _ in range(2)]
        for i in range(N):
            gs.append(p + [math.sin(th), math.cos(th)])
            d = [rnd.uniform(-tr, tr), rnd.uniform(-tr, tr)]
            p = [p[0] + math.cos(th) * d[0] - math.sin(th) * d[1], p[1] + math.sin(th) * d[0] + math.cos(th) * d[1]]
            th += rnd.uniform(-ang, ang)
    return gs


def gdist(G, a, b):
    """distance of two group elements in coefficient space (quaternion sign removed)"""
    if G == 'SO3':
        return min(max(abs(u - v) for u, v in zip(a, b)), max(abs(u + v) for u, v in zip(a, b)))
    if G == 'SE3':
        dq = min(max(abs(u - v) for u, v in zip(a[3:], b[3:])), max(abs(u + v) for u, v in zip(a[3:], b[3:])))
        return max(max(abs(u - v) for u, v in zip(a[:3], b[:3])), dq)
    return max(abs(u - v) for u, v in zip(a, b))


GSPECS = ['PL', 'FDC11', 'FDC22', 'MD5', 'MD6']


def gen_fitspl(rnd, n_per, op='fit_spl'):
    reqs = []
    sizes = [40, 2, 5, 3, 10, 21]      # the 40-point data sets come first so that the quick tier has them
    for G in GROUPS:
        rep, dof = GROUPS[G]
        for spec in GSPECS:
            K, O, Inn, L, R = SPEC[spec]
            for t in range(n_per):
                N = sizes[t % len(sizes)]
                if op == 'fit_glue':
                    N = min(N, 10)
                dts = gen_dts(rnd, N - 1, 10.0 if O >= 0 else 1e3)
                t0 = 0.0
                ts = [t0]
                for d in dts:
                    ts.append(ts[-1] + d)
                gs = gen_group_data(rnd, G, N, dts)
                flat = [v for g in gs for v in g]
                extra = [] if op == 'fit_glue' else [0.0] * (dof * (len(L) + len(R)))
                real_dts = [b - a for a, b in zip(ts, ts[1:])]
                reqs.append(f'{op} {G}:{spec}:{N} f64 ' + hexs(ts + flat + extra) + f' # {dt_band(min(real_dts))}')
    return reqs


def judge_fitspl(lines, st):
    findings = []
    for l in lines:
        G, spec, N = l.grp.split(':')
        N = int(N)
        rep, dof = GROUPS[G]
        K, O, Inn, L, R = SPEC[spec]
        v = l.in_vals()
        ts = v[:N]
        gs = [v[N + i * rep:N + (i + 1) * rep] for i in range(N)]
        o = l.out_vals()
        dts = [b - a for a, b in zip(ts, ts[1:])]
        band = dt_band(min(dts))
        cs = st['fitspl'].setdefault(f'{G}|{spec}|{band}', {'n': 0, 'worst_interp': 0.0, 'worst_vel_jump_rel': 0.0, 'worst_rest_rel': 0.0})
        cs['n'] += 1
        key = {'group': G, 'spec': spec, 'dt_band': band}
        if not all(math.isfinite(x) for x in o):
            findings.append({'property': PID, 'key': dict(key, kind='fit_spline_nonfinite'), 'err': None, 'tol': TOL_REL,
                             'what': f'fit_spline({G}, {SPEC_DOC[spec]}) evaluates to non-finite values', 'line': l.raw})
            continue
        tmin, tmax = o[0], o[1]
        span = ts[-1] - ts[0]
        if tmin != 0.0 or abs(tmax - span) > 1e-12 * max(1.0, span) * N:
            findings.append({'property': PID, 'key': dict(key, kind='fit_spline_span'), 'err': abs(tmax - span), 'tol': 1e-12,
                             'what': f'fit_spline: t_min={tmin}, t_max={tmax}, data span {span}', 'line': l.raw})
        blk = rep + dof
        P = [[o[2 + (i * 5 + p) * blk:2 + (i * 5 + p + 1) * blk] for p in range(5)] for i in range(N)]
        # typical velocity scale of the data
        vscale = 1.0
        for i in range(N - 1):
            vscale = max(vscale, gdist(G, gs[i], gs[i + 1]) / dts[i])
        gscale = max(1.0, max(abs(x) for g in gs for x in g))
        w_int, w_vel, w_rest = 0.0, 0.0, 0.0
        at = None
        for i in range(N):
            for p in range(5):
                e = gdist(G, P[i][p][:rep], gs[i]) / gscale
                if e > w_int:
                    w_int, at = e, (i, PROBE[p])
        if not w_int <= TOL_REL:
            findings.append({'property': PID, 'key': dict(key, kind='fit_spline_interp'), 'err': w_int, 'tol': TOL_REL,
                             'what': f'fit_spline({G}, {SPEC_DOC[spec]}): curve misses data point {at[0]} at its time stamp '
                                     f'(probe {at[1]:+d} ulp) by {w_int:.3e} relative; N={N} min dt={min(dts):.4g}', 'line': l.raw})
        if K >= 3:
            for i in range(1, N - 1):
                vl, vr = P[i][0][rep:], P[i][4][rep:]
                m = max(vscale, max(abs(x) for x in vl + vr))
                e = max(abs(a - b) for a, b in zip(vl, vr)) / m
                if e > w_vel:
                    w_vel, at = e, i
            if not w_vel <= TOL_VEL:
                findings.append({'property': PID, 'key': dict(key, kind='fit_spline_velocity'), 'err': w_vel, 'tol': TOL_VEL,
                                 'what': f'fit_spline({G}, {SPEC_DOC[spec]}): body velocity jumps at data point {at} by {w_vel:.3e} '
                                         f'relative; N={N} min dt={min(dts):.4g}', 'line': l.raw})
        if 1 in L and 1 in R:
            v0 = P[0][2][rep:]
            v1 = P[N - 1][0][rep:]
            w_rest = max(max(abs(x) for x in v0), max(abs(x) for x in v1)) / vscale
            if not w_rest <= TOL_VEL:
                findings.append({'property': PID, 'key': dict(key, kind='fit_spline_rest'), 'err': w_rest, 'tol': TOL_VEL,
                                 'what': f'fit_spline({G}, {SPEC_DOC[spec]}): zero boundary velocity requested, curve starts/ends with '
                                         f'speed {w_rest:.3e} relative to the data speed; N={N} min dt={min(dts):.4g}', 'line': l.raw})
        cs['worst_interp'] = max(cs['worst_interp'], w_int)
        cs['worst_vel_jump_rel'] = max(cs['worst_vel_jump_rel'], w_vel)
        cs['worst_rest_rel'] = max(cs['worst_rest_rel'], w_rest)
    return findings, []


def judge_fitglue(lines, st):
    """T1 of the fit_spline glue model: the 1-d solutions V (from the public fit_spline_1d) are the parameter"""
    reqs, keep = [], []
    for l in lines:
        G, spec, N = l.grp.split(':')
        N = int(N)
        rep, dof = GROUPS[G]
        K = SPEC[spec][0]
        nV = dof * (K + 1) * (N - 1)
        V = l.outs[:nV]
        if not all(math.isfinite(x) for x in fvals(V)) or max(abs(x) for x in fvals(V)) > 1e6:
            st['t1']['fit_glue']['skipped_garbage_V'] = st['t1']['fit_glue'].get('skipped_garbage_V', 0) + 1
            continue
        reqs.append(' '.join(['fit_glue', l.grp, 'f64'] + l.ins + V))
        keep.append((l, l.outs[nV:]))
    tlines = [Line(r + ' | ' + ' '.join(o) + ' # ' + l.tag) for r, (l, o) in zip(reqs, keep)]
    t1 = vlib.t1_compare(tlines, tol_ulp=256.0, rng_seed=1, sens_factor=16.0)
    s = st['t1']['fit_glue']
    for k, v in t1['stats'].items():
        s['n'] += v['n']
        s['worst'] = max(s['worst'], v['worst_ulp'])
        s['excused_by_sensitivity'] = s.get('excused_by_sensitivity', 0) + v['excused_by_sensitivity']
    broken = []
    if t1['breaks']:
        b = t1['breaks'][0]
        b = dict(b, line=Line(b['line']).request(), model=str(b.get('model'))[:1500])
        broken.append({'what': 'correspondence', 'name': 'T1 fit_glue (fit_spline glue: implementation vs Lean model)',
                       'count': len(t1['breaks']), 'first': b})
    return [], broken


# ============================================================================ (c) dubins
def mod2pi(a):
    a = math.fmod(a, 2 * math.pi)
    if a < 0:
        a += 2 * math.pi
    return a


def dubins_candidates(x, y, phi, R):
    """six candidate words (normalised lengths t,p,q) from the classical closed forms (Shkel & Lumelsky);
    used only after forward validation"""
    dx, dy = x / R, y / R
    D = math.hypot(dx, dy)
    th = math.atan2(dy, dx) if D > 0 else 0.0
    a, b = mod2pi(-th), mod2pi(phi - th)
    sa, sb, ca, cb, cab = math.sin(a), math.sin(b), math.cos(a), math.cos(b), math.cos(a - b)
    out = {}
    p2 = 2 + D * D - 2 * cab + 2 * D * (sa - sb)
    if p2 >= 0:
        t1 = math.atan2(cb - ca, D + sa - sb)
        out['LSL'] = (mod2pi(-a + t1), math.sqrt(p2), mod2pi(b - t1))
    p2 = 2 + D * D - 2 * cab + 2 * D * (sb - sa)
    if p2 >= 0:
        t1 = math.atan2(ca - cb, D - sa + sb)
        out['RSR'] = (mod2pi(a - t1), math.sqrt(p2), mod2pi(-b + t1))
    p2 = -2 + D * D + 2 * cab + 2 * D * (sa + sb)
    if p2 >= 0:
        p = math.sqrt(p2)
        t2 = math.atan2(-ca - cb, D + sa + sb) - math.atan2(-2.0, p)
        out['LSR'] = (mod2pi(-a + t2), p, mod2pi(-mod2pi(b) + t2))
    p2 = D * D - 2 + 2 * cab - 2 * D * (sa + sb)
    if p2 >= 0:
        p = math.sqrt(p2)
        t2 = math.atan2(ca + cb, D - sa - sb) - math.atan2(2.0, p)
        out['RSL'] = (mod2pi(a - t2), p, mod2pi(b - t2))
    tmp = (6 - D * D + 2 * cab + 2 * D * (sa - sb)) / 8
    if abs(tmp) <= 1:
        p = mod2pi(2 * math.pi - math.acos(tmp))
        t = mod2pi(a - math.atan2(ca - cb, D - sa + sb) + p / 2)
        out['RLR'] = (t, p, mod2pi(a - b - t + p))
    tmp = (6 - D * D + 2 * cab + 2 * D * (-sa + sb)) / 8
    if abs(tmp) <= 1:
        p = mod2pi(2 * math.pi - math.acos(tmp))
        t = mod2pi(-a - math.atan2(ca - cb, D + sa - sb) + p / 2)
        out['LRL'] = (t, p, mod2pi(mod2pi(b) - a - t + p))
    return out


def drive(word, lens, R):
    """end pose of the path `word` (letters L,S,R) with normalised lengths, from the identity"""
    x = y = th = 0.0
    for c, l in zip(word, lens):
        if c == 'S':
            x += R * l * math.cos(th)
            y += R * l * math.sin(th)
        elif c == 'L':
            x += R * (math.sin(th + l) - math.sin(th))
            y += R * (-math.cos(th + l) + math.cos(th))
            th += l
        else:
            x += R * (-math.sin(th - l) + math.sin(th))
            y += R * (math.cos(th - l) - math.cos(th))
            th -= l
    return x, y, th


def pose_err(x, y, th, tx, ty, tphi, R):
    return max(abs(x - tx), abs(y - ty)) / max(R, 1.0) + abs(math.remainder(th - tphi, 2 * math.pi))


def tangent_config(x, y, phi, R):
    """circles exactly tangent: |C1C3| = 2R for opposite turning directions or 4R for equal ones"""
    cth, sth = math.cos(phi), math.sin(phi)
    cen = {s_: (x - sth * (R if s_ == 'L' else -R), y + cth * (R if s_ == 'L' else -R)) for s_ in 'LR'}
    d = {a_ + b_: math.hypot(cen[b_][0], cen[b_][1] - (R if a_ == 'L' else -R)) for a_ in 'LR' for b_ in 'LR'}
    return (min(abs(d['LR'] - 2 * R), abs(d['RL'] - 2 * R)) <= 1e-9 * R or
            min(abs(d['LL'] - 4 * R), abs(d['RR'] - 4 * R)) <= 1e-9 * R)


def gen_dub(rnd, n_random, grid):
    reqs = []
    radii = [0.01, 0.25, 1.0, 3.0, 100.0]
    pts = [-4.0, -1.5, -0.5, 0.0, 0.5, 1.5, 4.0]
    k = 0
    if grid:
        for R in radii:
            for gx in pts:
                for gy in pts:
                    for a in range(8):
                        k += 1
                        if grid < 1.0 and (k * 2654435761 % 1000) / 1000.0 > grid:
                            continue
                        phi = a * math.pi / 4 - math.pi
                        if not FULL_DOMAIN and tangent_config(gx * R, gy * R, phi, R):
                            continue
                        reqs.append('dub 3 f64 ' + hexs([gx * R, gy * R, math.sin(phi), math.cos(phi), R]) + ' # grid')
    for i in range(n_random):
        R = 10 ** rnd.uniform(-2, 2)
        sc = rnd.choice([0.2, 1.0, 3.0, 8.0, 50.0])
        phi = rnd.uniform(-math.pi, math.pi)
        reqs.append('dub 3 f64 ' + hexs([rnd.uniform(-sc, sc) * R, rnd.uniform(-sc, sc) * R, math.sin(phi), math.cos(phi), R]) + ' # random')
    return reqs


WORDS = ['LSL', 'LSR', 'RSL', 'RSR', 'RLR', 'LRL']
LET = 'LSR'


def judge_dub(lines, st):
    findings, broken = [], []
    # ---- T1: word, lengths, six candidates, total time against the Lean model
    tl = []
    for l in lines:
        o = l.outs
        tl.append(Line(' '.join(['dub_word', l.grp, 'f64'] + l.ins) + ' | ' + ' '.join(o[:24]) + ' # ' + l.tag))
    reps = vlib.run_driver([t.request() for t in tl])
    sus = []
    for l, t, rep in zip(lines, tl, reps):
        st['t1']['dub_word']['n'] += 1
        if rep.startswith('ERR'):
            broken.append({'what': 'correspondence', 'name': 'T1 dub_word', 'first': {'line': l.raw, 'model': rep}})
            continue
        mw = rep.split()
        err, det = vlib.diff_ulp(t.outs, mw[:24], 'f64')
        tmax_impl = dec(l.outs[24], 'f64')
        tmax_model = dec(mw[-1], 'f64')
        e2 = abs(tmax_impl - tmax_model) / (U * max(1.0, abs(tmax_impl)))
        st['t1']['dub_word']['worst'] = max(st['t1']['dub_word']['worst'], err if math.isfinite(err) else 0.0, e2)
        if err > 64 or det or e2 > 64:
            sus.append((l, t, mw, err, det))
    if sus:
        real = []
        for (l, t, mw, err, det) in sus:
            # angle wrap 0 <-> 2pi under 1-ulp input changes is a conditioning effect, anything else a break
            iv, mv = fvals(t.outs), fvals(mw[:24])
            wrap = all((a == b) or (math.isinf(a) and math.isinf(b)) or abs(a - b) <= 1e-9 * max(1, abs(a)) or
                       abs(abs(a - b) - 2 * math.pi) <= 1e-9 for a, b in zip(iv, mv))
            if wrap:
                st['t1']['dub_word']['excused_wrap'] = st['t1']['dub_word'].get('excused_wrap', 0) + 1
            else:
                real.append({'line': l.raw, 'model': ' '.join(mw), 'err_ulp': err, 'why': det or 'disagreement'})
        if real:
            broken.append({'what': 'correspondence', 'name': 'T1 dub_word (dubins: implementation vs Lean model)', 'count': len(real), 'first': real[0]})
    # ---- audit
    for l in lines:
        x, y, qz, qw, R = l.in_vals()
        phi = math.atan2(qz, qw)
        o = l.out_vals()
        six = [o[3 * i:3 * i + 3] for i in range(6)]
        word = ''.join(LET[int(c)] for c in o[18:21])
        lens = o[21:24]
        tmax, nseg = o[24], o[25]
        end = o[26:30]
        probes = [o[30 + 8 * i:30 + 8 * (i + 1)] for i in range(16)]
        st['dub']['n'] += 1
        st['dub']['words'][word] = st['dub']['words'].get(word, 0) + 1
        key = {'kind': 'dubins', 'word': word}
        scale = max(R, 1.0, abs(x), abs(y))
        # total length = sum of the emitted durations
        Limpl = sum((R * v if c != 'S' else v) for c, v in zip(word, lens))
        if abs(tmax - Limpl) > 1e-9 * max(1.0, Limpl):
            findings.append({'property': PID, 'key': dict(key, check='length'), 'err': abs(tmax - Limpl), 'tol': 1e-9,
                             'what': f'dubins_curve t_max {tmax} differs from the length of the returned word {Limpl}', 'line': l.raw})
        # end pose = target
        e_end = max(abs(end[0] - x), abs(end[1] - y)) / scale + abs(end[2] * qw - end[3] * qz)
        st['dub']['worst_end'] = max(st['dub']['worst_end'], e_end)
        if not e_end <= 1e-8:
            findings.append({'property': PID, 'key': dict(key, check='end_pose'), 'err': e_end, 'tol': 1e-8,
                             'what': f'dubins_curve({x},{y},{phi},R={R}) ends at {end} instead of the target', 'line': l.raw})
        # independent forward integration of the returned word
        fx, fy, fth = drive(word, [v / R if c == 'S' else v for c, v in zip(word, lens)], R)
        e_fw = pose_err(fx, fy, fth, x, y, phi, R)
        if not e_fw <= 1e-7:
            findings.append({'property': PID, 'key': dict(key, check='word_reaches_target'), 'err': e_fw, 'tol': 1e-7,
                             'what': f'the returned word {word} {lens} does not reach the target (independent integration error {e_fw:.2e})', 'line': l.raw})
        # unit speed, curvature
        for pr in probes:
            if tmax <= 0:
                break
            vx, vy, k = pr[5], pr[6], pr[7]
            e = max(abs(vx - 1), abs(vy), max(0.0, abs(k) - 1 / R) * R,
                    min(abs(k), abs(k - 1 / R), abs(k + 1 / R)) * R)
            st['dub']['worst_speed'] = max(st['dub']['worst_speed'], e)
            if not e <= 1e-9:
                findings.append({'property': PID, 'key': dict(key, check='unit_speed_curvature'), 'err': e, 'tol': 1e-9,
                                 'what': f'dubins_curve body velocity {pr[5:8]} at t={pr[0]} is not (1,0,k) with k in {{0,+-1/R}}', 'line': l.raw})
                break
        # minimality: scan semantics on the implementation's own six candidates
        tot = []
        for i, c in enumerate(six):
            tot.append(c[1] + R * (c[0] + c[2]) if i < 4 else R * (c[0] + c[1] + c[2]))
        best = min(range(6), key=lambda i: (tot[i], i))
        if WORDS[best] != word and tot[best] < Limpl:
            findings.append({'property': PID, 'key': dict(key, check='argmin_scan'), 'err': Limpl - tot[best], 'tol': 0.0,
                             'what': f'returned word {word} (length {Limpl}) is not the first minimiser of the six candidates {tot}', 'line': l.raw})
        # minimality against independently computed, forward-validated candidates
        cands = dubins_candidates(x, y, phi, R)
        valid = {}
        for w, ln in cands.items():
            ex, ey, eth = drive(w, ln, R)
            if pose_err(ex, ey, eth, x, y, phi, R) <= 1e-7:
                valid[w] = R * sum(ln)
        st['dub']['independent_valid'] += len(valid)
        st['dub']['independent_total'] += 6
        if valid:
            bw = min(valid, key=valid.get)
            gap = Limpl - valid[bw]
            st['dub']['worst_gap'] = max(st['dub']['worst_gap'], gap / scale)
            if gap > 1e-8 * max(1.0, valid[bw]):
                tang = tangent_config(x, y, phi, R)
                findings.append({'property': PID, 'key': dict(key, check='minimal_length', config='tangent_circles' if tang else 'generic'),
                                 'err': gap, 'tol': 1e-8,
                                 'what': f'dubins length {Limpl} ({word}) exceeds the independently computed {bw} path of length {valid[bw]}',
                                 'line': l.raw})
            # the implementation's own candidates vs the independent ones (information)
            for i, w in enumerate(WORDS):
                if w in valid and math.isfinite(tot[i]):
                    d = abs(tot[i] - valid[w])
                    if d > 1e-8 * max(1.0, valid[w]):
                        st['dub']['candidate_mismatch'] += 1
    return findings, broken


# ============================================================================ (d) fit_bspline
def gen_bsp(rnd, n):
    reqs = []
    kinds = [(3, 'SO3'), (1, 'T3'), (4, 'T3')]
    for t in range(n):
        K, G = kinds[t % 3]
        N = rnd.choice([2, 3, 6, 12, 40])
        dts = gen_dts(rnd, N - 1, 30.0)
        t0 = rnd.choice([0.0, 2.0, -7.5, 1234.5])
        ts = [t0]
        for d in dts:
            ts.append(ts[-1] + d)
        span = ts[-1] - ts[0]
        # control point spacing: keep the number of control points moderate
        m = rnd.choice([1, 2, 3, 5, 8, 13, 30])
        dt = span / m * rnd.choice([1.0, 1.0, 0.999999, 1.000001, rnd.uniform(0.7, 1.3)])
        q = (ts[-1] - ts[0]) / dt
        if not FULL_DOMAIN and q == math.floor(q):
            dt = dt * (1 + 2.0 ** -40)      # knot spacing that does not divide the span exactly
        gs = gen_group_data(rnd, G, N, dts)
        reqs.append(f'bsp {K}:{G}:{N} f64 ' + hexs(ts + [v for g in gs for v in g] + [dt]) + ' # bsp')
    return reqs


def judge_bsp(lines, st):
    findings, broken = [], []
    reqs = []
    for l in lines:
        K, G, N = l.grp.split(':')
        N = int(N)
        v = l.in_vals()
        ts = v[:N]
        reqs.append(f'fit_bsp {K} f64 ' + hexs([min(ts), max(ts), v[-1]]))
    reps = vlib.run_driver(reqs)
    for l, rep in zip(lines, reps):
        K, G, N = l.grp.split(':')
        N, K = int(N), int(K)
        v = l.in_vals()
        ts = v[:N]
        tmin, tmax, ncp = l.out_vals()
        st['bsp']['n'] += 1
        st['t1']['fit_bsp']['n'] += 1
        if rep.startswith('ERR'):
            broken.append({'what': 'correspondence', 'name': 'T1 fit_bsp', 'first': {'line': l.raw, 'model': rep}})
        else:
            m = fvals(rep.split())
            if m != [ncp, tmin, tmax]:
                broken.append({'what': 'correspondence', 'name': 'T1 fit_bsp (NumPts, t_min, t_max: implementation vs Lean model)',
                               'first': {'line': l.raw, 'model': m, 'impl': [ncp, tmin, tmax]}})
        key = {'kind': 'fit_bspline_cover', 'K': K, 'group': G}
        if tmin != min(ts):
            findings.append({'property': PID, 'key': dict(key, check='t_min'), 'err': abs(tmin - min(ts)), 'tol': 0.0,
                             'what': f'fit_bspline t_min {tmin} is not the first time stamp {min(ts)}', 'line': l.raw})
        short = max(ts) - tmax
        st['bsp']['worst_short'] = max(st['bsp']['worst_short'], short / max(1.0, abs(max(ts))))
        if short > 0:
            st['bsp']['short_by_rounding'] += 1
        if short > 1e-9 * max(1.0, abs(max(ts)), max(ts) - min(ts)):
            findings.append({'property': PID, 'key': dict(key, check='t_max'), 'err': short, 'tol': 1e-9,
                             'what': f'fit_bspline t_max {tmax} does not cover the last time stamp {max(ts)} ({int(ncp)} control points, dt={v[-1]})',
                             'line': l.raw})
    return findings, broken


# ============================================================================ (e) reparameterize_spline
def gen_rep(rnd, n):
    """SE2 cubic splines of 1..4 segments: c = ConstantVelocity(v, T), f = FixedCubic(exp(a), va, vb, T).
    Default domain: curves that keep moving (no segment starts or ends at rest)."""
    reqs = []
    for t in range(n):
        nseg = rnd.choice([1, 2, 3, 4])
        codes, words = '', []
        for s in range(nseg):
            if rnd.random() < 0.6:
                codes += 'c'
                if FULL_DOMAIN:
                    v = [rnd.choice([1.0, -1.0, 0.5, 2.0, 0.0]) if rnd.random() < 0.8 else rnd.uniform(-2, 2),
                         rnd.choice([0.0, 0.0, rnd.uniform(-0.5, 0.5)]), rnd.choice([0.0, 1.0, -1.0, rnd.uniform(-2, 2)])]
                else:
                    v = [rnd.choice([1.0, -1.0, 0.5, 2.0]) if rnd.random() < 0.8 else rnd.choice([-1, 1]) * rnd.uniform(0.3, 2),
                         rnd.choice([0.0, 0.0, rnd.uniform(-0.5, 0.5)]), rnd.choice([0.0, 1.0, -1.0, rnd.uniform(-2, 2)])]
                words += v + [rnd.choice([1.0, 1.0, 0.5, 3.0])]
            else:
                codes += 'f'
                if FULL_DOMAIN:
                    words += [rnd.uniform(-2, 2), rnd.uniform(-1, 1), rnd.uniform(-2.5, 2.5)]
                    z = rnd.random() < 0.5
                    words += [0.0, 0.0, 0.0] if z else [rnd.uniform(-1, 1) for _ in range(3)]
                    words += [0.0, 0.0, 0.0] if z else [rnd.uniform(-1, 1) for _ in range(3)]
                    words += [rnd.choice([1.0, 2.0, 0.7])]
                else:
                    T = rnd.choice([1.0, 2.0, 0.7])
                    sp = rnd.uniform(0.6, 1.5)
                    words += [sp * T, rnd.uniform(-0.3, 0.3) * T, rnd.uniform(-0.8, 0.8)]
                    words += [sp * rnd.uniform(0.8, 1.2), 0.0, rnd.uniform(-0.5, 0.5)]
                    words += [sp * rnd.uniform(0.8, 1.2), 0.0, rnd.uniform(-0.5, 0.5)]
                    words += [T]
        vmax = [10 ** rnd.uniform(-1, 1) for _ in range(3)]
        vmin = [-10 ** rnd.uniform(-1, 1) for _ in range(3)] if rnd.random() < 0.5 else [-v for v in vmax]
        amax = [10 ** rnd.uniform(-1.3, 1) for _ in range(3)]
        amin = [-10 ** rnd.uniform(-1.3, 1) for _ in range(3)] if rnd.random() < 0.5 else [-v for v in amax]
        sv = rnd.choice([1.0, 1.0, 0.0, 0.3, 5.0])
        ev = rnd.choice([float('inf'), 1.0, 0.0, 0.3])
        N = rnd.choice([10, 40, 100])
        reqs.append(f'rep SE2:{codes}:{N} f64 ' + hexs(words + vmin + vmax + amin + amax + [sv, ev]) + ' # rep')
    return reqs


def judge_rep(lines, st):
    findings, broken = [], []
    cases = []
    for l in lines:
        _, codes, N = l.grp.split(':')
        N = int(N)
        v = l.in_vals()
        o = l.out_vals()
        sv, ev = v[-2], v[-1]
        bounds = v[-14:-2]
        T, smax, nseg, ncalls = o[0], o[1], int(o[2]), int(o[3])
        calls = [o[4 + 7 * i:4 + 7 * (i + 1)] for i in range(ncalls)]
        samp = o[4 + 7 * ncalls:4 + 7 * ncalls + 3 * 257]
        samples = [samp[3 * j:3 * j + 3] for j in range(257)]
        s_after = o[-1]
        st['rep']['n'] += 1
        key = {'kind': 'reparameterize'}
        ok_shape = (ncalls == 2 * N + 1)
        if not all(math.isfinite(x) for x in [T] + samp):
            findings.append({'property': PID, 'key': dict(key, check='finite'), 'err': None, 'tol': 0.0,
                             'what': f'reparameterize_spline returns a non-finite map (T={T})', 'line': l.raw})
            continue
        # monotone on the grid
        worst_dec = 0.0
        for a, b in zip(samples, samples[1:]):
            worst_dec = max(worst_dec, a[1] - b[1])
        st['rep']['worst_decrease'] = max(st['rep']['worst_decrease'], worst_dec / max(1.0, smax))
        if worst_dec > 1e-9 * max(1.0, smax):
            findings.append({'property': PID, 'key': dict(key, check='monotone'), 'err': worst_dec, 'tol': 1e-9,
                             'what': f's decreases by {worst_dec} between consecutive grid points', 'line': l.raw})
        neg = min(s[2] for s in samples)
        if neg < -1e-9:
            findings.append({'property': PID, 'key': dict(key, check='monotone'), 'err': -neg, 'tol': 1e-9,
                             'what': f"s' = {neg} < 0 on the grid", 'line': l.raw})
        # onto [t_min, t_max]
        stationary = any(max(abs(x) for x in c[1:4]) <= REP_EPS for c in calls)
        at_rest0 = ncalls > 1 + N and max(abs(x) for x in calls[1 + N][1:4]) <= REP_EPS
        if stationary:
            st['rep']['stationary_grid_point_cases'] = st['rep'].get('stationary_grid_point_cases', 0) + 1
        if samples[0][1] != 0.0:
            findings.append({'property': PID, 'key': dict(key, check='onto_start', curve='starts_at_rest' if at_rest0 else 'moving'),
                             'err': abs(samples[0][1]), 'tol': 0.0,
                             'what': f's(0) = {samples[0][1]} is not t_min = 0' +
                                     (' (the curve is at rest at t_min: the code skips stationary stretches, `if (ai != inf)`)' if at_rest0 else ''),
                             'line': l.raw})
        gap = abs(samples[-1][1] - smax) / max(1.0, smax)
        if not stationary:
            st['rep']['worst_end_gap'] = max(st['rep'].get('worst_end_gap', 0.0), gap)
        # `onto` = the map starts at t_min and its final value (last concat_global(t_max), s(T+)) is t_max; the value AT T is
        # the last segment's own end, which the max(eps, .) guard may leave short of t_max (statistic worst_end_gap)
        if not (s_after >= smax and s_after <= smax * (1 + 1e-12) and samples[-1][1] <= smax * (1 + 1e-12)):
            findings.append({'property': PID, 'key': dict(key, check='onto_end'), 'err': gap, 'tol': TOL_REL,
                             'what': f's(T) = {samples[-1][1]}, s(T+1e-6) = {s_after}, curve t_max = {smax}', 'line': l.raw})
        # start speed
        ds0 = samples[0][2]
        st['rep']['worst_start_excess'] = max(st['rep']['worst_start_excess'], ds0 - sv)
        if ds0 > sv * (1 + 1e-9) + 1e-12:
            findings.append({'property': PID, 'key': dict(key, check='start_speed'), 'err': ds0 - sv, 'tol': 1e-9,
                             'what': f"s'(0) = {ds0} exceeds the requested start speed {sv}", 'line': l.raw})
        # ---- T1 preparation: curve values at the grid points as recorded through the callable
        if ok_shape:
            back = calls[1:1 + N]
            fwd = calls[1 + N:]
            pts = [c[1:] for c in fwd] + [calls[0][1:]]
            if [c[1:] for c in reversed(back)] != [c[1:] for c in fwd]:
                ok_shape = False
        if ok_shape:
            cases.append({'line': l, 'N': N, 'pts': pts, 'bounds': bounds, 'sv': sv, 'ev': ev, 'smax': smax, 'T': T, 'nseg': nseg})
        else:
            broken.append({'what': 'correspondence', 'name': 'T1 rep_run: curve evaluations differ from the model (1 + N backward + N forward at s0+ds*i)',
                           'first': {'line': l.request(), 'calls': ncalls, 'N': N}})
    broken += rep_t1(cases, st)
    return findings, broken


REP_EPS = 1e-8


def rep_rows(c, i, v2next):
    vmin, vmax, amin, amax = c['bounds'][0:3], c['bounds'][3:6], c['bounds'][6:9], c['bounds'][9:12]
    vel, acc = c['pts'][i][0:3], c['pts'][i][3:6]
    rows = [[1.0, 2 * c['ds'], v2next]]
    for j in range(3):
        if vel[j] > REP_EPS:
            rows.append([vel[j] * vel[j], 0.0, vmax[j] * vmax[j]])
        elif vel[j] < -REP_EPS:
            rows.append([vel[j] * vel[j], 0.0, vmin[j] * vmin[j]])
        else:
            rows.append([0.0, 0.0, 0.0])
    for j in range(3):
        rows.append([acc[j], vel[j], amax[j]])
    for j in range(3):
        rows.append([-acc[j], -vel[j], -amin[j]])
    return rows


def rep_endv2(c):
    vmin, vmax, amin, amax = c['bounds'][0:3], c['bounds'][3:6], c['bounds'][6:9], c['bounds'][9:12]
    vel = c['pts'][c['N']][0:3]
    ret = c['ev'] * c['ev']
    for j in range(3):
        if vel[j] > REP_EPS:
            ret = min(ret, math.sqrt(vmax[j] / vel[j]))
            ret = min(ret, amax[j] / vel[j])
        elif vel[j] < -REP_EPS:
            ret = min(ret, math.sqrt(vmin[j] / vel[j]))
            ret = min(ret, amin[j] / vel[j])
    return ret


def rep_backward(cases):
    """reverse pass replayed with the implementation's own lp2d::solve on the rows of the model, grid point by grid
    point (the LP results are the model's parameter)"""
    for c in cases:
        c['ds'] = (c['smax'] - 0.0) / float(c['N'])
        c['v2'] = [None] * (c['N'] + 1)
        c['v2'][c['N']] = rep_endv2(c)
        c['lp'] = [None] * c['N']
        c['rows'] = [None] * c['N']
    maxN = max(c['N'] for c in cases)
    for step in range(maxN):
        reqs, who = [], []
        for c in cases:
            i = c['N'] - 1 - step
            if i < 0:
                continue
            rows = rep_rows(c, i, c['v2'][i + 1])
            c['rows'][i] = rows
            reqs.append('lp2d 10 f64 ' + hexs([-1.0, 0.0] + [x for r in rows for x in r]))
            who.append((c, i))
        res = run_impl(reqs)
        for (c, i), r in zip(who, res):
            if r is None:
                raise vlib.MachineryError('lp2d request not served')
            y, a, stt = r.out_vals()
            c['lp'][i] = (y, int(stt))
            # v2max(i) = max(0, y) when Optimal, inf when DualInfeasible, 0 otherwise (std::max(0., y) = (0 < y) ? y : 0)
            c['v2'][i] = ((y if 0.0 < y else 0.0) if stt == 0 else (float('inf') if stt == 2 else 0.0))


def rep_model(cases):
    """the Lean model's bookkeeping (driver rep_run) with these LP results; fills c['model']"""
    reqs = []
    for c in cases:
        lpw = [x for (y, stt) in c['lp'] for x in (y, float(stt))]
        reqs.append(f"rep_run 3:{c['N']} f64 " + hexs([0.0, c['smax']] + [x for p in c['pts'] for x in p] + c['bounds'] + [c['sv'], c['ev']] + lpw))
    reps = vlib.run_driver(reqs)
    for c, rep in zip(cases, reps):
        N = c['N']
        if rep.startswith('ERR'):
            c['model'] = {'err': rep}
            continue
        m = fvals(rep.split())
        nm = int(m[1])
        segs = m[3 + N + 1 + 30 * N:]
        c['model'] = {'T': m[0], 'nseg': nm, 'v2end': m[2], 'v2max': m[3:3 + N + 1], 'rows': m[3 + N + 1:3 + N + 1 + 30 * N],
                      'dts': [segs[4 * k] for k in range(nm)]}


def rep_lp_audit(cases, st):
    """lp2d::solve against the exact rational LP (driver rep_lp); statistics only: C14 claims monotonicity, onto and
    start speed, which hold for ANY LP result"""
    areqs, awho = [], []
    for c in cases:
        for i in range(c['N']):
            if all(math.isfinite(x) for r in c['rows'][i] for x in r):
                areqs.append('rep_lp 10 f64 ' + hexs([x for r in c['rows'][i] for x in r]))
                awho.append((c, i))
    areps = vlib.run_driver(areqs)
    la = st['rep'].setdefault('lp2d_audit', {'n': 0, 'not_optimal': 0, 'worst_excess': 0.0, 'negative_optimum': 0, 'cases_affected': 0, 'sample': None})
    bad_cases = set()
    for (c, i), rep in zip(awho, areps):
        if rep.startswith('ERR'):
            continue
        ye, se = fvals(rep.split())
        y, stt = c['lp'][i]
        la['n'] += 1
        ok = (int(se) == stt) and (stt != 0 or abs(y - ye) <= 1e-6 * max(1.0, abs(ye)))
        if not ok:
            la['not_optimal'] += 1
            bad_cases.add(id(c))
            if stt == 0 and int(se) == 0:
                la['worst_excess'] = max(la['worst_excess'], y - ye)
                la['negative_optimum'] += (y < 0)
            if la['sample'] is None:
                la['sample'] = {'rows': c['rows'][i], 'lp2d': [y, stt], 'exact': [ye, int(se)]}
    la['cases_affected'] += len(bad_cases)


def rep_case_of_request(req_line, pts, smax):
    l = req_line
    _, codes, N = l.grp.split(':')
    v = l.in_vals()
    return {'line': l, 'N': int(N), 'pts': pts, 'bounds': v[-14:-2], 'sv': v[-2], 'ev': v[-1], 'smax': smax}


def rep_prescreen(reqs, st):
    """evaluate the curve at the grid points (harness `crv`), replay the reverse pass with lp2d::solve and run the model's
    forward pass: does it emit a segment of non-positive (or non-finite) duration?  That is the case in which the
    hypothesis of `reparam_monotone` fails and the implementation trips over `assert(T > 0)`.
    Returns one flag per request."""
    creqs = ['crv ' + r.split(None, 1)[1] for r in reqs]
    cl = run_impl(creqs)
    cases, idx = [], []
    for i, (r, l) in enumerate(zip(reqs, cl)):
        if l is None:
            continue
        o = l.out_vals()
        N = int(l.grp.split(':')[2])
        pts = [o[1 + 6 * k:1 + 6 * (k + 1)] for k in range(N + 1)]
        cases.append(rep_case_of_request(Line(r), pts, o[0]))
        idx.append(i)
    flags = [False] * len(reqs)
    if cases:
        rep_backward(cases)
        rep_model(cases)
        for i, c in zip(idx, cases):
            m = c['model']
            if 'err' in m or not all(math.isfinite(d) and d > 0 for d in m['dts']) or not math.isfinite(m['T']):
                flags[i] = True
    return flags


def rep_t1(cases, st):
    """the model's forward pass (LP results from the implementation's lp2d::solve on the model's rows) must reproduce the
    implementation's total time and segment count"""
    broken = []
    if not cases:
        return broken
    rep_backward(cases)
    rep_lp_audit(cases, st)
    rep_model(cases)
    for c in cases:
        l = c['line']
        N = c['N']
        st['t1']['rep_run']['n'] += 1
        m = c['model']
        if 'err' in m:
            broken.append({'what': 'correspondence', 'name': 'T1 rep_run', 'first': {'line': l.request(), 'model': m['err']}})
            continue
        rows_p = [x for i in range(N) for r in c['rows'][i] for x in r]
        same_rows = [enc(a, 'f64') for a in m['rows']] == [enc(a, 'f64') for a in rows_p]
        same_v2 = [enc(a, 'f64') for a in m['v2max']] == [enc(a, 'f64') for a in c['v2']]
        Tm = m['T']
        e = abs(Tm - c['T']) / max(1e-300, abs(c['T'])) if c['T'] != Tm else 0.0
        if math.isfinite(e):
            st['t1']['rep_run']['worst'] = max(st['t1']['rep_run']['worst'], e)
        if not (same_rows and same_v2 and m['nseg'] == c['nseg'] and e <= 1e-11):
            st['t1']['rep_run']['disagree'] = st['t1']['rep_run'].get('disagree', 0) + 1
            broken.append({'what': 'correspondence', 'name': 'T1 rep_run (reparameterize bookkeeping: implementation vs Lean model)',
                           'first': {'line': l.request(), 'impl_T': c['T'], 'model_T': Tm, 'impl_segments': c['nseg'], 'model_segments': m['nseg'],
                                     'lp_rows_equal': same_rows, 'v2max_equal': same_v2}})
    return broken


# ============================================================================ plugin object
JUDGES = {'fit_1d': judge_fit1d, 'fit_spl': judge_fitspl, 'fit_glue': judge_fitglue, 'dub': judge_dub, 'bsp': judge_bsp, 'rep': judge_rep}


def new_stats():
    return {'fit1d': {}, 'fitspl': {},
            'dub': {'n': 0, 'words': {}, 'worst_end': 0.0, 'worst_speed': 0.0, 'worst_gap': -1.0, 'independent_valid': 0,
                    'independent_total': 0, 'candidate_mismatch': 0},
            'bsp': {'n': 0, 'worst_short': -1.0, 'short_by_rounding': 0},
            'rep': {'n': 0, 'worst_decrease': 0.0, 'worst_start_excess': -1e9},
            't1': {k: {'n': 0, 'worst': 0.0} for k in ('fit_tab', 'fit_resid', 'fit_kkt', 'fit_glue', 'dub_word', 'fit_bsp', 'rep_run')}}


class C14:
    id = PID
    # SrcTieLogic: the scalar decision logic regenerated from the C++ source by tools/gen_logic.py is the model (C14All = C14 + SrcTieLogic)
    props_files = ['SmoothProps/C14.lean', 'SmoothProps/SrcTieLogic.lean', 'SmoothProps/SrcTieFitSpec.lean']
    props_module = 'SmoothProps.C14All'
    lean_targets = ['SmoothProps.C14All']
    rule = ('inputs generated from the seed: fit_spline_1d per spec (PiecewiseLinear, FixedDerCubic<1|2,1|2>, MinDerivative<5|6,3,3>) '
            'x 1..39 segments x sampling intervals 1e-2..1e2 (nearly uniform / neighbouring ratios <= 1e3 interpolating, <= 10 '
            'derivative-minimising) x data magnitudes x zero/non-zero boundary values; fit_spline on SO3, SE3, SE2, R^3 x 5 specs x '
            '2..40 points (40-point sets in both tiers; neighbouring interval ratios up to 1e3 incl. alternating extremes); dubins poses on a '
            '7x7x8 grid x 5 radii (1e-2..1e2) plus random poses with radii over four decades; fit_bspline K in {1,3,4}; '
            'reparameterize_spline on SE2 splines of 1..4 constant-velocity/fixed-cubic segments x random bound vectors x start/end speeds. '
            'distinct_nontrivial counts distinct request lines')
    assumptions = ['Eigen SparseLU (constraint system and KKT system) and lp2d::solve are parameters of the model; their results are audited '
                   '(exact constraint residuals, exact rational LP), not proved',
                   'IEEE rounding is measured (exact rational re-evaluation of every constraint), not proved',
                   'boundary derivative values of a spline specification are derivatives with respect to the normalised segment '
                   'parameter u = t/dt (no 1/dt^d factor), as the code defines them; zero values are unaffected',
                   'group-valued data: consecutive differences inside the injectivity radius (rotation angle < 2.6 rad)',
                   'dubins_curve is checked at K = 3 (ConstantVelocity for other K belongs to C12)',
                   'reparameterize_spline: `onto` is checked as s(0) = t_min and final value s(T+) = t_max (the last concat_global(t_max)); '
                   'the value at T itself is the last segment\'s own end, which the max(eps, .) guard may leave short (statistic worst_end_gap)',
                   'the velocity/acceleration bounds themselves are not part of C14; lp2d::solve is audited against an exact rational LP '
                   'and its failures are reported as statistics (coverage.reparameterize.lp2d_audit)']

    def prebuild(self):
        """compile the three harness parts against vlib.REPO (content-hash cache) — called by tools/prebuild.py at setup"""
        return vlib.build_harnesses(harness_specs())

    def budgets(self, ctx):
        q = ctx['tier'] == 'quick'
        b = ctx.get('budget', 1)
        return {'fit1d': (22 if q else 400) * b, 'kkt': 12 if q else 90, 'fitspl': (3 if q else 36) * b, 'glue': (2 if q else 20) * b,
                'dub_random': (300 if q else 20000) * b, 'dub_grid': 0.2 if q else 1.0,
                'bsp': (24 if q else 450) * b, 'rep': (30 if q else 1000) * b}

    def explore(self, ctx):
        rnd = random.Random(ctx['seed'] * 1000003 + 14)
        B = self.budgets(ctx)
        st = new_stats()
        findings, broken = [], []
        broken += check_tables(st)
        del CRASHES[:]
        rep_reqs = gen_rep(rnd, B['rep'])
        flags = rep_prescreen(rep_reqs, st)
        for r, bad in zip(rep_reqs, flags):
            REP_PREDICTED[r.split(' # ')[0].strip()] = bad
        st['rep']['generated'] = len(rep_reqs)
        st['rep']['model_predicts_nonpositive_segment_duration'] = sum(flags)
        if not FULL_DOMAIN:
            rep_reqs = [r for r, bad in zip(rep_reqs, flags) if not bad]
        reqs = (gen_fit1d(rnd, B['fit1d']) + gen_fitspl(rnd, B['fitspl']) + gen_fitspl(rnd, B['glue'], 'fit_glue')
                + gen_dub(rnd, B['dub_random'], B['dub_grid']) + gen_bsp(rnd, B['bsp']) + rep_reqs)
        lines = [l for l in run_impl(reqs) if l is not None]
        if len(lines) + len(CRASHES) != len(reqs):
            raise vlib.MachineryError(f'harness served {len(lines)} of {len(reqs)} requests')
        f, b = self.judge(lines, st)
        findings += f
        broken += b
        broken += check_kkt(rnd, B['kkt'], st)
        findings += crash_findings()
        cov = self.coverage(lines, st)
        return {'coverage': cov, 'findings': findings, 'broken': broken}

    def judge(self, lines, st):
        findings, broken = [], []
        by = {}
        for l in lines:
            by.setdefault(l.op, []).append(l)
        for op, ls in by.items():
            if op in JUDGES:
                f, b = JUDGES[op](ls, st)
                findings += f
                broken += b
        for f in findings:
            if f.get('line') and len(f['line']) > 6000:
                f['line'] = f['line'].split(' |')[0]       # the request alone replays the case
        return findings, broken

    def coverage(self, lines, st):
        ops = {}
        for l in lines:
            ops[l.op] = ops.get(l.op, 0) + 1
        samples = []
        seen = set()
        for l in lines:
            if l.op not in seen:
                seen.add(l.op)
                samples.append({'request': l.request()[:400], 'implementation_output_words': len(l.outs), 'stratum': l.tag})
        n_t1 = sum(v['n'] for v in st['t1'].values())
        return {'evaluations': len(lines) + n_t1, 'distinct_nontrivial': len(set(l.request() for l in lines)),
                'rule': self.rule, 'samples': samples, 'ops': ops,
                'fit1d_by_spec_and_dt_band': st['fit1d'], 'fit_spline_by_group_spec_band': st['fitspl'],
                'dubins': st['dub'], 'fit_bspline': st['bsp'], 'reparameterize': st['rep'], 't1_stats': st['t1'],
                'traces_validated_against_impl': len(lines), 'tolerance_relative': TOL_REL}

    def search(self, ctx, broken):
        ctx2 = dict(ctx, seed=ctx['seed'] + 7919, tier='thorough', budget=1)
        res = self.explore(ctx2)
        return {'coverage': {'evaluations': res['coverage'].get('evaluations', 0)}, 'findings': res['findings']}

    def replay(self, ctx, payload):
        reqs = []
        for c in payload.get('cases', []):
            if c.get('line'):
                reqs.append(Line(c['line']).request())
        for b in payload.get('no_longer_checks', []) + payload.get('broken', []):
            f = b.get('first')
            if isinstance(f, dict) and f.get('line'):
                r = Line(f['line']).request()
                if r.split()[0] in JUDGES:
                    reqs.append(r)
        st = new_stats()
        if not reqs:
            return {'coverage': {}, 'findings': [], 'broken': payload.get('no_longer_checks', [])}
        del CRASHES[:]
        rep_reqs = [r for r in reqs if r.split()[0] == 'rep']
        if rep_reqs:
            for r, bad in zip(rep_reqs, rep_prescreen(rep_reqs, st)):
                REP_PREDICTED[r.split(' # ')[0].strip()] = bad
        lines = [l for l in run_impl(reqs) if l is not None]
        f, b = self.judge(lines, st)
        return {'coverage': self.coverage(lines, st), 'findings': f + crash_findings(), 'broken': b}


def make():
    return C14()
