from props.lie import *
from props import apiops

TOL = {'f64': 1e-7, 'f32': 1e-2}
AUD = {'dr_exp': ('a_drexp', 'dr_exp(a) != sum_k (-1)^k ad(a)^k/(k+1)!'),
       'dl_exp': ('a_dlexp', 'dl_exp(a) != Ad(exp a) dr_exp(a)'),
       'dr_expinv': ('a_drexpinv', 'dr_expinv(a) is not the inverse of the right Jacobian'),
       'dl_expinv': ('a_dlexpinv', 'dl_expinv(a) is not the inverse of the left Jacobian'),
       'dr_rminus': ('a_drexpinv', 'dr_rminus(e) is not the inverse right Jacobian at e')}


# dr_action(v) is the right Jacobian of g*v in g: audited exactly (rationals) against M(g) hat(e_j) (v,1)
ACT_TOL = {'f64': 1e-12, 'f32': 1e-5}


def audit(lines):
    reqs = []
    thin = apiops.Thin(3)
    for l in lines:
        p = l.prec + 'a'
        op0 = apiops.CANON.get(l.op, l.op)
        if l.op in ('dr_action', 'dr_action_cmap'):
            k = dict(std_key(l, 'none'), op='dr_action')
            if l.op != 'dr_action':
                k['via'] = l.op
            reqs.append((' '.join(['a_draction', l.grp, p] + l.ins + l.outs),
                         {'key': k, 'line': l.raw, 'tol': ACT_TOL[l.prec], 'judge': simple_judge,
                          'what': f'{l.op}(v) is not the right Jacobian of g*v: column j != M(g) hat(e_j) (v,1)'}))
        elif op0 in AUD:
            # the free-function forwards are audited one line in three; the new input regions (whole-argument-tiny and zero
            # tangents) on every line of the member ops
            if l.op != op0 and not thin.keep(l):
                continue
            op, what = AUD[op0]
            reqs.append((' '.join([op, l.grp, p] + l.ins + l.outs),
                         {'key': apiops.canon_key(l), 'line': l.raw, 'tol': TOL[l.prec], 'judge': simple_judge, 'what': what}))
    return reqs


def make():
    return LieProp('C04', ['dr_exp', 'dr_expinv', 'dl_exp', 'dl_expinv', 'dr_action', 'dr_rminus', 'dr_rminus_sqn',
                           'calculate_q', 'calculate_r', 'calc_S1', 'calc_S2', 'calc_S1inv', 'cos_2', 'sin_3', 'cos_4', 'sin_5', 'cos_6']
                   + apiops.API_OPS['C04'],
                   ['SmoothProps/C04.lean'], audit, TOL,
                   rule='harness/lie.cpp: every group type of the catalogue x scalar x 9 rotation-angle strata (1e-12..pi, dense 1e-5..1e-2 '
                        'and at the eps2 switch; inverses up to pi-1.1e-3) x 5 translation strata up to 1e3; distinct_nontrivial = distinct '
                        '(op,group,scalar,stratum,input bits) with a non-zero input',
                   assumptions=['rounding audited against the defining series evaluated in 320-bit fixed point, not proved'])
