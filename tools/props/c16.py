"""C16 — Map views are interchangeable with values and write only their own memory.

Tie (DESIGN.md §C16):
  T2  harness/mem.cpp `dump` → SmoothProofs/Gen/ViewLayout.lean + Gen/BundleLayout.lean (observed write-set of
      every accessor / full-view mutator, sizes, prefix sums) proved equal to the model tables by `decide`;
  T1  random op scripts (≤ 50 ops) on overlapping Map<G> / Map<const G> views of one guarded buffer plus value
      objects, interpreted by the real code (harness `eval`) and by the Lean buffer model (`mem_script`):
      every word of the full state after EACH op is compared; frame words bitwise, verbatim ops bitwise,
      arithmetic ops (`*=`, `+=`) within the T1 tolerance after re-synchronising on the implementation state;
  audit (independent of the model): guard words; the same op through a view and on value objects gives the same
      bits (`valuediff`); value-vs-Map agreement of every LieGroupBase operation (`agree` mode, ≤ 4 ulp);
      `cast<>` through the three storage kinds; negative compile tests for mutators on Map<const G>.
"""
import json, os, random, subprocess, sys, time
sys.path.insert(0, os.path.dirname(os.path.dirname(__file__)))
import vlib
from vlib import log
from props import gdesc
from props.gdesc import D, parse, enc, dec, sentinel

FAMS = list(range(8))
CATALOGUE = ['SO2', 'SO3', 'SE2', 'C1', 'SE3', 'B[SO3]', 'B[T3,SO3]', 'B[C1,SO2]', 'GAL', 'SEK1', 'SEK2', 'SEK3', 'SEK4',
             'B[T2,SE2]', 'B[SE2,T2]', 'B[SO2,SO2,SO2]', 'B[T1,T3]', 'B[B[T2,T2],SO2]', 'B[C1,T1,SO3,SO2]', 'B[SE3,T3,SO3]', 'B[SE2,T2,SO2,SE3]',
             'B[B[SO3,T3],SE2]', 'B[T2,B[SO2,B[SE3,T1]]]', 'B[GAL,T4]', 'B[SEK2,SO3]']
GEN_DIR = os.path.join(vlib.LEAN, 'SmoothProofs', 'Gen')
ARITH = ('M', 'ML', 'P', 'RL')
TOL_ULP = 64.0


def mem_specs(part=0):
    """part 0: eval + dump modes; part 1: agree mode (separate translation units keep each compile short)"""
    return [(f'mem{f}_{s}_{part}', 'mem.cpp', (f'-DFAMILY={f}', f'-DSCALAR={s}', f'-DPART={part}')) for f in FAMS for s in (0, 1)]


def build_many(specs):
    from concurrent.futures import ThreadPoolExecutor
    with ThreadPoolExecutor(max_workers=max(4, (os.cpu_count() or 8))) as ex:
        futs = {s[0]: ex.submit(vlib.build_harness, *s) for s in specs}
        return {k: f.result() for k, f in futs.items()}


_bins = None


def bins():
    global _bins
    if _bins is None:
        t0 = time.time()
        _bins = build_many(mem_specs(0) + mem_specs(1))
        if time.time() - t0 > 5:
            log(f'mem harness ready in {time.time() - t0:.0f}s')
    return _bins


def run_all(mode_args, env=None, part=0):
    out = []
    b = bins()
    from concurrent.futures import ThreadPoolExecutor
    with ThreadPoolExecutor(max_workers=8) as ex:
        futs = [ex.submit(vlib.run_harness, b[name], mode_args, None, env) for name, _, _ in mem_specs(part)]
        for f in futs:
            out += f.result()
    return out


def eval_lines(requests):
    """run request lines through the implementation; returns list of raw reply lines (None if no binary serves it)"""
    b = bins()
    out = [None] * len(requests)
    todo = list(range(len(requests)))
    for name, _, _ in mem_specs():
        if not todo:
            break
        raw = vlib.run_harness(b[name], ['eval'], stdin='\n'.join(requests[i] for i in todo) + '\n')
        nxt = []
        for i, r in zip(todo, raw):
            if r.startswith('SKIP'):
                nxt.append(i)
            else:
                out[i] = r
        todo = nxt
    return out


# ----------------------------------------------------------------------------- dump → tables
class Dump:
    def __init__(self, raw):
        self.sizes = {}      # (g, prec) -> (R, D, Dim)
        self.views = {}      # (g, acc) -> set of (off, len) over precs / view offsets ; 'scattered' tuples kept raw
        self.wsets = {}      # (g, op) -> set of results
        self.reads = {}      # (g, acc) -> set of observed READ windows of the const overloads (cmap / asconst / cvalue)
        self.cviews = []     # const accessor / const reads that wrote something
        self.const = {}      # (g, prec) -> (n, names)
        self.bundles = {}    # g -> dict of lists (must agree over precs)
        self.problems = []   # inconsistent observations
        for l in raw:
            t = l.split()
            if not t:
                continue
            if t[0] == 'sizes':
                self.sizes[(t[1], t[2])] = tuple(int(x) for x in t[3:6])
            elif t[0] in ('view', 'wset', 'cview'):
                g, prec, what, at = t[1], t[2], t[3], t[4]
                res = tuple(t[5:])
                if t[0] == 'cview' or (t[0] == 'wset' and what == 'const_reads'):
                    if res != ('none',):
                        self.cviews.append(l)
                elif t[0] == 'view':
                    self.views.setdefault((g, what), set()).add(res)
                else:
                    self.wsets.setdefault((g, what), set()).add(res)
            elif t[0] == 'rview':
                # rview G prec acc kind @off first len | scattered …
                self.reads.setdefault((t[1], t[3]), set()).add(tuple(t[6:]))
            elif t[0] == 'const':
                self.const[(t[1], t[2])] = (int(t[3]), t[4:])
            elif t[0] == 'bundle':
                g = t[1]
                body = ' '.join(t[3:])
                d = {}
                for sec in body.split('|'):
                    w = sec.split()
                    d[w[0]] = [int(x) for x in w[1:]]
                if g in self.bundles and self.bundles[g] != d:
                    self.problems.append(f'bundle arrays of {g} differ between scalar types')
                self.bundles[g] = d


_dump = None


def get_dump():
    global _dump
    if _dump is None:
        _dump = Dump(run_all(['dump']))
    return _dump


def gen_view_layout(ctx):
    """T2: observed write-sets of accessors and full-view mutators → Gen/ViewLayout.lean (proved = model by decide)"""
    try:
        dump = get_dump()
    except vlib.HarnessCompileError as e:
        return False, 'harness mem.cpp does not compile: ' + e.err[-1500:]
    groups = sorted({g for (g, _) in dump.sizes}, key=lambda x: (CATALOGUE.index(x) if x in CATALOGUE else 99, x))
    obs_rows, size_rows, full_rows, notes, read_rows = [], [], [], [], []
    for g in groups:
        d = parse(g)
        szs = {dump.sizes.get((g, p)) for p in ('f64', 'f32')} - {None}
        if len(szs) != 1:
            return False, f'sizes of {g} differ between scalars: {szs}'
        sz = szs.pop()
        size_rows.append(f'  ({d.lean()}, {sz[0]}, {sz[1]}, {sz[2]})')
        rows = []
        for (gg, acc), res in sorted(dump.views.items()):
            if gg != g:
                continue
            if len(res) != 1 or len(next(iter(res))) != 2:
                # scattered / offset-dependent / none: not a contiguous range — recorded as (0,0) so the obligation fails
                notes.append(f'-- {g}.{acc}: observed {sorted(res)}')
                rows.append(f'({gdesc.lean_acc(acc)}, 0, 0)')
            else:
                o, ln = next(iter(res))
                rows.append(f'({gdesc.lean_acc(acc)}, {o}, {ln})')
        obs_rows.append(f'  ({d.lean()}, [{", ".join(rows)}])')
        rrows = []
        for (gg, acc), res in sorted(dump.reads.items()):
            if gg != g:
                continue
            if len(res) != 1 or len(next(iter(res))) != 2:
                notes.append(f'-- {g}.{acc} const READ window: observed {sorted(res)}')
                rrows.append(f'({gdesc.lean_acc(acc)}, 0, 0)')
            else:
                o, ln = next(iter(res))
                rrows.append(f'({gdesc.lean_acc(acc)}, {o}, {ln})')
        read_rows.append(f'  ({d.lean()}, [{", ".join(rrows)}])')
        for (gg, op), res in sorted(dump.wsets.items()):
            if gg != g:
                continue
            if len(res) != 1 or len(next(iter(res))) != 2:
                notes.append(f'-- {g} {op}: observed {sorted(res)}')
                full_rows.append(f'  ({d.lean()}, "{op}", 0, 0)')
            else:
                o, ln = next(iter(res))
                full_rows.append(f'  ({d.lean()}, "{op}", {o}, {ln})')

    def block(rows):
        return ',\n'.join(rows)
    text = f'''/-
  GENERATED by tools/props/c16.py from the running implementation (harness/mem.cpp `dump`, built against the
  current /repo/include) — do not edit.  Tie T2 of property C16: the write-set actually observed for every
  sub-part accessor (diff of a guarded buffer before/after assigning through the accessor, Map<G> at word
  offsets 0..3, double and float) and for every full-view mutator equals the model's table `Mem.subview`.
-/
import SmoothModel.Mem
open Mem

namespace Gen.ViewLayout

/-- `(G, [(accessor, observed offset, observed length)])` -/
def observed : List (GDesc × List (Acc × Nat × Nat)) := [
{block(obs_rows)}]

/-- `(G, [(accessor, offset, length)])`: the READ window of the CONST overload of every accessor — which words
    of a sentinel-filled buffer the returned view shows — observed identically through `Map<const G>`, a const
    value object and `std::as_const(Map<G>)`, at word offsets 0..3, double and float -/
def observedRead : List (GDesc × List (Acc × Nat × Nat)) := [
{block(read_rows)}]

/-- `(G, RepSize, Dof, Dim)` as the C++ reports them -/
def sizes : List (GDesc × Nat × Nat × Nat) := [
{block(size_rows)}]

/-- observed write-set `(G, mutator, offset, length)` of setIdentity / coeffs()= / operator= / *= / += on a Map<G> -/
def fullWrites : List (GDesc × String × Nat × Nat) := [
{block(full_rows)}]
{chr(10).join(notes)}

/-- every observed accessor write-set is the model's sub-view -/
theorem observed_eq_model :
    observed.all (fun g => g.2.all (fun r =>
      decide ((subview g.1 r.1).map (fun t => (t.1, t.2.1)) = some (r.2.1, r.2.2)))) = true := by decide

/-- the const overload of every accessor READS exactly the model's sub-view (= the window the mutable overload writes) -/
theorem const_read_eq_model :
    observedRead.all (fun g => g.2.all (fun r =>
      decide ((subview g.1 r.1).map (fun t => (t.1, t.2.1)) = some (r.2.1, r.2.2)))) = true := by decide

theorem const_read_all_observed :
    observedRead.all (fun g => (accessors g.1).all (fun a => g.2.any (fun r => r.1 == a))) = true := by decide

/-- every accessor of the model was observed on the implementation (nothing in the table is untested) -/
theorem accessors_all_observed :
    observed.all (fun g => (accessors g.1).all (fun a => g.2.any (fun r => r.1 == a))) = true := by decide

theorem sizes_eq_model :
    sizes.all (fun r => repSize r.1 == r.2.1 && dofSize r.1 == r.2.2.1 && dimSize r.1 == r.2.2.2) = true := by decide

/-- full-view mutators write exactly `[0, RepSize)` of the view -/
theorem full_writes_eq_model :
    fullWrites.all (fun r => r.2.2.1 == 0 && r.2.2.2 == repSize r.1) = true := by decide

end Gen.ViewLayout
'''
    changed = gdesc.write_if_changed(os.path.join(GEN_DIR, 'ViewLayout.lean'), text)
    ok, out = vlib.lake_build(['SmoothProofs.Gen.ViewLayout'])
    if not ok:
        return False, 'Gen/ViewLayout.lean (observed view layout ≠ model table):\n' + out[-2500:]
    return True, f'ViewLayout.lean {"rewritten" if changed else "unchanged"}: {len(obs_rows)} groups'


def gen_bundle_layout(ctx):
    """T2 (C06 layout part): RepSizesPsum/DofsPsum/DimsPsum, PartStart/PartDof dumped per catalogued Bundle
    → Gen/BundleLayout.lean, proved equal to `Bundle.psum` of the model descriptor sizes by decide"""
    try:
        dump = get_dump()
    except vlib.HarnessCompileError as e:
        return False, 'harness mem.cpp does not compile: ' + e.err[-1500:]
    if dump.problems:
        return False, '; '.join(dump.problems)
    rows = []
    for g in sorted(dump.bundles, key=lambda x: CATALOGUE.index(x) if x in CATALOGUE else 99):
        b = dump.bundles[g]
        d = parse(g)
        L = gdesc.lean_nat_list
        rows.append('  { parts := [' + ', '.join(p.lean() for p in d.parts) + '],\n'
                    f'    reps := {L(b["reps"])}, dofs := {L(b["dofs"])}, dims := {L(b["dims"])},\n'
                    f'    repPsum := {L(b["reppsum"])}, dofPsum := {L(b["dofpsum"])}, dimPsum := {L(b["dimpsum"])},\n'
                    f'    partStart := {L(b["partstart"])}, partDof := {L(b["partdof"])}, total := {L(b["total"])} }}')
    text = f'''/-
  GENERATED by tools/props/c16.py / c06layout.py from the running implementation (harness/mem.cpp `dump`) — do
  not edit.  Tie T2 of property C06 (layout part): the prefix-sum arrays of `BundleImpl` for every catalogued
  Bundle type, as the compiler evaluated them, equal `Bundle.psum` of the model's part sizes.
-/
import SmoothModel.Mem
open Mem

namespace Gen.BundleLayout

structure Row where
  parts : List GDesc
  reps : List Nat
  dofs : List Nat
  dims : List Nat
  repPsum : List Nat
  dofPsum : List Nat
  dimPsum : List Nat
  partStart : List Nat
  partDof : List Nat
  total : List Nat

def rows : List Row := [
{(',' + chr(10)).join(rows)}]

/-- part sizes reported by the code = sizes of the model descriptors -/
theorem part_sizes_eq_model :
    rows.all (fun r => r.reps == r.parts.map repSize && r.dofs == r.parts.map dofSize
      && r.dims == r.parts.map dimSize) = true := by decide

/-- `RepSizesPsum / DofsPsum / DimsPsum = array_psum` of the model's sizes -/
theorem psum_eq_model :
    rows.all (fun r => r.repPsum == repPsum r.parts && r.dofPsum == dofPsum r.parts
      && r.dimPsum == dimPsum r.parts) = true := by decide

/-- `PartStart<i> = DofsPsum[i]`, `PartDof<i> = Dofs[i]`, totals = last prefix sum -/
theorem part_start_eq_model :
    rows.all (fun r => r.partStart == (dofPsum r.parts).take r.parts.length && r.partDof == r.parts.map dofSize
      && r.total == [repSizeL r.parts, dofSizeL r.parts, dimSizeL r.parts]) = true := by decide

/-- the offset used by `part<i>()` (= RepSizesPsum[i]) is the model's sub-view offset -/
theorem part_offsets_eq_subview :
    rows.all (fun r => (List.range r.parts.length).all (fun i =>
      decide ((subview (.bundle r.parts) (.part i)).map (fun t => t.1) = some (r.repPsum.getD i 0)))) = true := by decide

end Gen.BundleLayout
'''
    changed = gdesc.write_if_changed(os.path.join(GEN_DIR, 'BundleLayout.lean'), text)
    ok, out = vlib.lake_build(['SmoothProofs.Gen.BundleLayout'])
    if not ok:
        return False, 'Gen/BundleLayout.lean (dumped prefix sums ≠ Bundle.psum of the model sizes):\n' + out[-2500:]
    return True, f'BundleLayout.lean {"rewritten" if changed else "unchanged"}: {len(rows)} bundles'


# ----------------------------------------------------------------------------- script generation
def words_of(vals, prec):
    return [enc(v, prec) for v in vals]


class ScriptGen:
    """random interleaved scripts on overlapping views of one buffer"""

    def __init__(self, g, prec, rng, verbatim_only, length):
        self.g, self.prec, self.r = g, prec, rng
        self.d = parse(g)
        self.R, self.Dof = self.d.rep(), self.d.dof()
        self.verbatim = verbatim_only
        R = self.R
        nviews = rng.randint(2, 4)
        first = rng.randint(0, 3)
        offs = [first]
        for _ in range(nviews - 1):
            # mostly overlapping, sometimes disjoint or identical
            c = rng.random()
            if c < 0.15:
                offs.append(rng.choice(offs))
            elif c < 0.75:
                offs.append(max(0, rng.choice(offs) + rng.randint(-(R - 1), R - 1)) if R > 1 else rng.choice(offs) + rng.randint(0, 1))
            else:
                offs.append(max(offs) + R + rng.randint(0, 2))
        self.offs = offs
        self.N = max(offs) + R + rng.randint(2, 5)
        self.NV = 3          # v0, v1: operands; v2: scratch that receives what is read through const sub-views
        self.NVU = 2
        self.size = self.N + self.NV * R
        self.init = [False] * self.size
        self.state0 = [sentinel(i, prec) for i in range(self.size)]
        self.ops = []        # token lists
        self.length = length

    # locations --------------------------------------------------------------
    def loc_off(self, loc):
        return self.N + int(loc[1:]) * self.R if loc[0] == 'v' else int(loc[1:])

    def mut_loc(self):
        if self.r.random() < 0.3:
            return f'v{self.r.randrange(self.NVU)}'
        return f'm{self.r.choice(self.offs)}'

    def any_loc(self):
        c = self.r.random()
        if c < 0.25:
            return f'v{self.r.randrange(self.NVU)}'
        return ('c' if c < 0.6 else 'm') + str(self.r.choice(self.offs))

    def path(self):
        """random accessor path of depth 0..2 → (path tokens, relative offset, descriptor)"""
        d, p, o = self.d, [], 0
        depth = self.r.choice((0, 0, 1, 1, 2))
        for _ in range(depth):
            accs = d.accessors()
            if not accs:
                break
            a = self.r.choice(accs)
            o += self.sub_off(d, a)
            d = d.sub(a)
            p.append(a)
        return p, o, d

    def path_nonempty(self):
        """accessor path of depth 1..3 (deep paths for nested bundles)"""
        d, p, o = self.d, [], 0
        for _ in range(self.r.choice((1, 1, 2, 2, 3))):
            accs = d.accessors()
            if not accs:
                break
            a = self.r.choice(accs)
            o += self.sub_off(d, a)
            d = d.sub(a)
            p.append(a)
        return p, o, d

    @staticmethod
    def sub_off(d, a):
        # offsets as the plugin believes them (only used to track which words are initialised)
        k = d.kind
        if k == 'SE2':
            return {'r2': 0, 'so2': 2}[a]
        if k == 'SE3':
            return {'r3': 0, 'so3': 3}[a]
        if k == 'GAL':
            return {'r3_v': 0, 'r3_p': 3, 'r1_t': 6, 'so3': 7}[a]
        if k == 'SEK':
            return 3 * d.n if a == 'so3' else 3 * int(a[3:])
        if k == 'B':
            return sum(p.rep() for p in d.parts[:int(a[4:])])
        raise ValueError(a)

    def inited(self, off, ln):
        return all(self.init[off:off + ln])

    def mark(self, off, ln):
        for i in range(off, off + ln):
            self.init[i] = True

    def overlap_ok(self, a, b):
        """plain assignment between PARTIALLY overlapping regions is an aliasing violation of the caller"""
        return a == b or a + self.R <= b or b + self.R <= a

    def gen(self):
        r = self.r
        tries = 0
        while len(self.ops) < self.length and tries < self.length * 30:
            tries += 1
            kinds = (['I', 'C', 'C', 'A', 'K', 'X', 'R', 'R'] if self.verbatim
                     else ['I', 'C', 'C', 'A', 'K', 'M', 'M', 'ML', 'ML', 'P', 'P', 'X', 'R', 'R', 'RL'])
            k = r.choice(kinds)
            if k in ('I', 'C', 'M', 'P'):
                loc = self.mut_loc()
                p, o, sd = self.path()
                off = self.loc_off(loc) + o
                ln = sd.rep()
                ptok = '.'.join(p) if p else '-'
                if k == 'I':
                    self.ops.append(['I', loc, ptok]); self.mark(off, ln)
                elif k == 'C':
                    w = words_of(gdesc.element(sd, r), self.prec)
                    self.ops.append(['C', loc, ptok, str(len(w))] + w); self.mark(off, ln)
                elif k == 'M':
                    if sd.is_eigen() or not self.inited(off, ln):
                        continue
                    w = words_of(gdesc.element(sd, r), self.prec)
                    self.ops.append(['M', loc, ptok, str(len(w))] + w)
                else:
                    if not self.inited(off, ln):
                        continue
                    a = words_of(gdesc.tangent(sd, r, r.choice(gdesc.STRATA[:5])), self.prec)
                    self.ops.append(['P', loc, ptok, str(len(a))] + a)
            elif k in ('R', 'RL'):
                # read a sub-part through the CONST accessor chain of any kind of view; result → scratch value v2
                src = self.any_loc()
                p, o, sd = self.path_nonempty()
                if not p:
                    continue
                off = self.loc_off(src) + o
                ln = sd.rep()
                if k == 'RL' and not self.inited(off, ln):
                    continue
                self.ops.append([k, 'v2', src, '.'.join(p)])
                so2_ = self.loc_off('v2')
                n_out = ln if k == 'R' else sd.dof()
                for i in range(n_out):
                    self.init[so2_ + i] = self.init[off + i] if k == 'R' else True
            else:
                dst, src = self.mut_loc(), self.any_loc()
                do, so = self.loc_off(dst), self.loc_off(src)
                if k in ('A', 'K'):
                    if not self.overlap_ok(do, so):
                        continue
                    self.ops.append([k, dst, src])
                    for i in range(self.R):
                        self.init[do + i] = self.init[so + i]
                elif k == 'ML':
                    if not (self.inited(do, self.R) and self.inited(so, self.R)):
                        continue
                    self.ops.append(['ML', dst, src])
                else:  # X
                    if not self.inited(so, self.R):
                        continue
                    self.ops.append(['X', dst, src]); self.mark(do, self.R)
        return self

    def gen_self_alias(self):
        """deterministic script: both operands of `*=`, `=`, construction and cast-assign are views of EXACTLY the same
        words (`g *= g` through Map/Map, Map/const-Map, value/value), then the same with partially overlapping views
        (for the ops that go through a temporary), each after re-initialising the operands; `+=` after each"""
        r = self.r
        o = self.offs[0]
        o2 = next((x for x in self.offs if x != o and abs(x - o) < self.R), None)
        d = self.d

        def init(loc):
            w = words_of(gdesc.element(d, r), self.prec)
            self.ops.append(['C', loc, '-', str(len(w))] + w)
            self.mark(self.loc_off(loc), self.R)

        def plus(loc):
            a = words_of(gdesc.tangent(d, r, 'generic'), self.prec)
            self.ops.append(['P', loc, '-', str(len(a))] + a)
        for dst, src in ((f'm{o}', f'c{o}'), (f'm{o}', f'm{o}'), ('v0', 'v0')):
            init(dst)
            self.ops.append(['ML', dst, src])       # g *= g
            self.ops.append(['ML', dst, src])       # and again on the result
            plus(dst)
            self.ops.append(['A', dst, src])        # self-assignment
            self.ops.append(['K', dst, src])        # construct from itself, assign back
            self.ops.append(['X', dst, src])        # cast round trip onto itself
            self.ops.append(['ML', dst, src])
        if o2 is not None:
            for dst, src in ((f'm{o}', f'c{o2}'), (f'm{o2}', f'm{o}'), (f'm{o}', f'm{o2}')):
                init(f'm{o}'); init(f'm{o2}')
                self.ops.append(['ML', dst, src])   # rhs partially overlaps the destination
                init(f'm{o}'); init(f'm{o2}')
                self.ops.append(['X', dst, src])
                plus(dst)
        # value *= map of the same words is impossible (a value owns its words); value/map mixes with equal contents:
        init(f'm{o}')
        self.ops.append(['A', 'v1', f'c{o}'])
        self.mark(self.loc_off('v1'), self.R)
        self.ops.append(['ML', 'v1', f'm{o}'])
        self.ops.append(['ML', f'm{o}', 'v1'])
        return self

    def gen_const_reads(self):
        """deterministic: initialise one view and one value, then read EVERY accessor chain (depth 1 and 2) through
        Map<const G> (`c`), std::as_const(Map<G>) (`m`) and a const value (`v`): copy-out (R) and log() (RL)"""
        r = self.r
        o = self.offs[0]
        w = words_of(gdesc.element(self.d, r), self.prec)
        self.ops.append(['C', f'm{o}', '-', str(len(w))] + w)
        self.ops.append(['A', 'v0', f'c{o}'])
        chains = []
        for a in self.d.accessors():
            chains.append([a])
            sd = self.d.sub(a)
            for a2 in sd.accessors():
                chains.append([a, a2])
                for a3 in sd.sub(a2).accessors():
                    chains.append([a, a2, a3])
        for ch in chains:
            for src in (f'c{o}', f'm{o}', 'v0'):
                self.ops.append(['R', 'v2', src, '.'.join(ch)])
                self.ops.append(['RL', 'v2', src, '.'.join(ch)])
        return self

    def header(self):
        return ['mem_script', self.g, self.prec, str(self.N), str(self.NV)]

    def request(self, state=None, ops=None):
        ops = self.ops if ops is None else ops
        toks = self.header() + (self.state0 if state is None else state)
        for o in ops:
            toks += o
        return ' '.join(toks)

    def wsets_request(self):
        toks = ['mem_wsets', self.g, self.prec, str(self.N), str(self.NV)]
        for o in self.ops:
            toks += o
        return ' '.join(toks)


def parse_states(reply, size):
    body, _, tag = reply.partition(' # ')
    words = body.split(' | ', 1)[1].split() if ' | ' in body else body.split('|', 1)[1].split()
    states = [words[i:i + size] for i in range(0, len(words), size)]
    info = dict(kv.split('=') for kv in tag.split() if '=' in kv)
    return states, info


def split_ops(toks):
    """split the op tokens of a script into a list of per-op token lists"""
    ops, i = [], 0
    while i < len(toks):
        k = toks[i]
        if k == 'I':
            n = 3
        elif k in ('C', 'M', 'P'):
            n = 4 + int(toks[i + 3])
        elif k in ('A', 'K', 'ML', 'X'):
            n = 3
        elif k in ('R', 'RL'):
            n = 4
        else:
            raise ValueError('bad op ' + k)
        ops.append(toks[i:i + n])
        i += n
    return ops


def script_from_request(req):
    t = req.split(' |')[0].split()
    g, prec, N, NV = t[1], t[2], int(t[3]), int(t[4])
    R = parse(g).rep()
    size = N + NV * R
    state0 = t[5:5 + size]
    ops = split_ops(t[5 + size:])
    return g, prec, N, NV, size, state0, ops


def check_scripts(requests, stats, findings, broken, samples):
    """T1 + audits on a list of `mem_script` request lines"""
    impl = eval_lines(requests)
    # model: write-sets of every op, and the full script in one go
    wreqs, step_reqs, step_meta = [], [], []
    parsed = []
    for req, rep in zip(requests, impl):
        g, prec, N, NV, size, state0, ops = script_from_request(req)
        if rep is None or rep.startswith('BAD'):
            broken.append({'what': 'correspondence', 'name': f'mem_script {g} {prec}: the harness rejects a script the model accepts',
                           'first': {'line': req[:4000], 'reply': (rep or 'SKIP')[:200]}})
            parsed.append(None)
            continue
        states, info = parse_states(rep, size)
        parsed.append((g, prec, N, NV, size, state0, ops, states, info))
        wreqs.append(' '.join(['mem_wsets', g, prec, str(N), str(NV)] + [t for o in ops for t in o]))
        prev = state0
        for k, op in enumerate(ops):
            step_reqs.append(' '.join(['mem_script', g, prec, str(N), str(NV)] + prev + op))
            step_meta.append((len(parsed) - 1, k))
            prev = states[k] if k < len(states) else prev
    suspects = []
    wsets_rep = vlib.run_driver(wreqs)
    step_rep = vlib.run_driver(step_reqs)
    whole_rep = vlib.run_driver([r.split(' |')[0] for r, p in zip(requests, parsed) if p is not None])
    wi = 0
    si = 0
    for idx, p in enumerate(parsed):
        if p is None:
            continue
        g, prec, N, NV, size, state0, ops, states, info = p
        req = requests[idx]
        wr = wsets_rep[wi]; whole = whole_rep[wi]; wi += 1
        if wr.startswith('ERR') or len(states) != len(ops):
            broken.append({'what': 'correspondence', 'name': f'mem_script {g} {prec}: model rejects / op count differs',
                           'first': {'line': req[:4000], 'model': wr[:200], 'impl_states': len(states), 'ops': len(ops)}})
            si += len(ops)
            continue
        wt = wr.split()
        wsets = [(int(wt[2 * k]), int(wt[2 * k + 1])) if wt[2 * k] != '-' else None for k in range(len(ops))]
        stats['scripts'] += 1
        vd = int(info.get('valuediff', 0))
        stats['value_words_checked'] += int(info.get('valuechecked', 0))
        if vd:
            findings.append({'property': 'C16', 'key': {'kind': 'map_ne_value', 'group': g, 'prec': prec}, 'err': vd, 'tol': 0,
                             'what': f'{vd} words written through a view differ bitwise from the same op on value objects', 'line': req[:6000]})
        prev = state0
        arith_seen = False
        for k, op in enumerate(ops):
            now = states[k]
            mrep = step_rep[si]; si += 1
            stats['ops'] += 1
            stats['by_op'][op[0]] = stats['by_op'].get(op[0], 0) + 1
            stats['words_compared'] += size
            ws = wsets[k]
            lo, hi = (ws[0], ws[0] + ws[1]) if ws else (0, 0)
            rel = '-'
            if op[0] in ('A', 'K', 'ML', 'X', 'R', 'RL'):
                R_ = parse(g).rep()
                offd = N + int(op[1][1:]) * R_ if op[1][0] == 'v' else int(op[1][1:])
                offs_ = N + int(op[2][1:]) * R_ if op[2][0] == 'v' else int(op[2][1:])
                rel = 'same' if offd == offs_ else ('overlap' if abs(offd - offs_) < R_ else 'disjoint')
                rk = f'{op[0]} {op[1][0]}<-{op[2][0]} {rel}'
                stats['operand_relation'][rk] = stats['operand_relation'].get(rk, 0) + 1
            if op[0] in ARITH:
                arith_seen = True
            # audit independent of the model values: guard / frame words
            touched = [i for i in range(size) if now[i] != prev[i] and not (lo <= i < hi)]
            if touched:
                findings.append({'property': 'C16', 'key': {'kind': 'frame', 'group': g, 'prec': prec, 'op': op[0], 'path': (op[2] if op[0] in 'ICMP' else op[3] if op[0] in ('R', 'RL') else '-')},
                                 'err': len(touched), 'tol': 0,
                                 'what': f'op {" ".join(op[:3])} changed words {touched[:8]} outside its view [{lo},{hi})',
                                 'line': ' '.join(['mem_script', g, prec, str(N), str(NV)] + prev + op)})
            if mrep.startswith('ERR'):
                broken.append({'what': 'correspondence', 'name': f'mem_script {g} {prec} op {op[0]}: model error', 'first': {'line': step_reqs_line(g, prec, N, NV, prev, op), 'model': mrep}})
                prev = now
                continue
            mw = mrep.split()
            if op[0] in ARITH:
                # arithmetic: compare the written words in ulp of the largest coefficient of the target
                vals_i = [dec(now[i], prec) for i in range(lo, hi)]
                vals_m = [dec(mw[i], prec) for i in range(lo, hi)]
                err, det = vlib.diff_ulp(now[lo:hi], mw[lo:hi], prec)
                stats['worst_arith_ulp'] = max(stats['worst_arith_ulp'], err if err == err else 0)
                bad_inside = err > TOL_ULP or det
                outside_bad = [i for i in range(size) if not (lo <= i < hi) and mw[i] != now[i]]
            else:
                bad_inside = [i for i in range(lo, hi) if mw[i] != now[i]]
                outside_bad = [i for i in range(size) if not (lo <= i < hi) and mw[i] != now[i]]
            if bad_inside or outside_bad:
                line = step_reqs_line(g, prec, N, NV, prev, op)
                if op[0] in ARITH and not outside_bad:
                    # second pass (same discipline as vlib.t1_compare): is the disagreement within the model's own
                    # sensitivity to ±1 ulp changes of the operand words?  (operands that are not group elements —
                    # e.g. a right operand that only partially overlaps an initialised view — can be ill-conditioned)
                    suspects.append({'g': g, 'prec': prec, 'N': N, 'NV': NV, 'prev': prev, 'op': op, 'lo': lo, 'hi': hi, 'rel': rel,
                                     'now': now, 'mw': mw, 'err': err, 'det': det, 'line': line})
                else:
                    # a verbatim op (or a frame word) disagrees with the buffer model: the property itself is violated
                    findings.append({'property': 'C16', 'key': {'kind': 'verbatim', 'group': g, 'prec': prec, 'op': op[0], 'path': (op[2] if op[0] in 'ICMP' else op[3] if op[0] in ('R', 'RL') else '-')},
                                     'err': len(bad_inside if isinstance(bad_inside, list) else []) + len(outside_bad), 'tol': 0,
                                     'what': f'op {" ".join(op[:3])}: implementation buffer differs from the buffer model at words '
                                             f'{(bad_inside if isinstance(bad_inside, list) else [])[:6] + outside_bad[:6]}',
                                     'line': line, 'impl': ' '.join(now), 'model': ' '.join(mw)})
            prev = now
        # verbatim-only scripts: the whole script run by the model from the initial state is bit-identical
        if not arith_seen and not whole.startswith('ERR'):
            stats['whole_scripts_bitwise'] += 1
            flat = [w for s in states for w in s]
            if whole.split() != flat:
                findings.append({'property': 'C16', 'key': {'kind': 'history', 'group': g, 'prec': prec}, 'err': 1, 'tol': 0,
                                 'what': 'whole-script run of the buffer model differs from the implementation', 'line': req[:6000]})
        if len(samples) < 6 and idx % 17 == 0:
            samples.append({'request': req[:500] + ' …', 'ops': len(ops), 'impl_final_state': ' '.join(states[-1])[:300] if states else ''})
    resolve_suspects(suspects, stats, broken)


def resolve_suspects(suspects, stats, broken, seed=1, variants=6, factor=8.0):
    if not suspects:
        return
    rnd = random.Random(seed)
    reqs = []
    for sp in suspects:
        for v in range(variants):
            st = [w if gdesc.is_nan_word(w, sp['prec']) else vlib.nudge(w, sp['prec'], rnd.choice((-1, 0, 1))) for w in sp['prev']]
            reqs.append(step_reqs_line(sp['g'], sp['prec'], sp['N'], sp['NV'], st, sp['op']))
    reps = vlib.run_driver(reqs)
    for i, sp in enumerate(suspects):
        sens = 0.0
        lo, hi = sp['lo'], sp['hi']
        for v in range(variants):
            r = reps[i * variants + v]
            if r.startswith('ERR'):
                continue
            e2, d2 = vlib.diff_ulp(sp['mw'][lo:hi], r.split()[lo:hi], sp['prec'])
            if not d2:
                sens = max(sens, e2)
        if not sp['det'] and sp['err'] <= TOL_ULP + factor * sens:
            stats['arith_excused_by_sensitivity'] = stats.get('arith_excused_by_sensitivity', 0) + 1
        else:
            broken.append({'what': 'correspondence',
                           'name': f"T1 mem_script {sp['g']} {sp['prec']} op {sp['op'][0]} operands:{sp['rel']} (arithmetic result vs Lean model)",
                           'first': {'line': sp['line'], 'impl': ' '.join(sp['now'][lo:hi]), 'model': ' '.join(sp['mw'][lo:hi]),
                                     'err_ulp': sp['err'], 'sensitivity_ulp': sens}})


def step_reqs_line(g, prec, N, NV, prev, op):
    return ' '.join(['mem_script', g, prec, str(N), str(NV)] + prev + op)


# ----------------------------------------------------------------------------- cast
def cast_requests(rng, n):
    reqs = []
    specials = {'f64': [0.0, -0.0, 1e-320, 1e-45, 3.5e38, -3.5e38, 1e300, 0.1, 1 + 2 ** -24, 1 + 2 ** -23 + 2 ** -52, float('inf')],
                'f32': [0.0, -0.0, 1e-45, 1.17549435e-38, 3.4e38, 0.1, float('inf')]}
    for g in CATALOGUE:
        d = parse(g)
        for prec in ('f64', 'f32'):
            for k in range(n):
                vals = gdesc.element(d, rng)
                if k % 3 == 1:
                    for _ in range(2):
                        vals[rng.randrange(len(vals))] = rng.choice(specials[prec])
                if k % 3 == 2:
                    vals = [v * 10 ** rng.uniform(-40, 40) for v in vals]
                reqs.append(' '.join(['mem_cast', g, prec] + [enc(v, prec) for v in vals]))
    return reqs


def check_casts(reqs, stats, findings, samples):
    impl = eval_lines(reqs)
    model = vlib.run_driver(reqs)
    for req, ir, mr in zip(reqs, impl, model):
        t = req.split()
        g, prec = t[1], t[2]
        if ir is None or ir.startswith('BAD'):
            continue
        body, _, tag = ir.partition(' # ')
        iw = body.split(' |', 1)[1].split()
        stats['casts'] += 1
        stats['cast_words'] += len(iw)
        if 'storages_agree=1' not in tag:
            findings.append({'property': 'C16', 'key': {'kind': 'cast_storage', 'group': g, 'prec': prec}, 'err': 1, 'tol': 0,
                             'what': 'cast<>() through value / Map / const Map gives different bits', 'line': req})
        if iw != mr.split():
            findings.append({'property': 'C16', 'key': {'kind': 'cast_reorder', 'group': g, 'prec': prec}, 'err': 1, 'tol': 0,
                             'what': 'cast<>() is not the coefficient-wise conversion in the same order', 'line': req, 'impl': ' '.join(iw), 'model': mr})
    if reqs and len(samples) < 8:
        samples.append({'request': reqs[0], 'impl': impl[0][-200:] if impl[0] else None})


# ----------------------------------------------------------------------------- negative compile tests
NEG_TYPES = {'SO2': ('so2.hpp', 'smooth::SO2d'), 'SO3': ('so3.hpp', 'smooth::SO3d'), 'SE2': ('se2.hpp', 'smooth::SE2d'),
             'SE3': ('se3.hpp', 'smooth::SE3d'), 'C1': ('c1.hpp', 'smooth::C1d'), 'GAL': ('galilei.hpp', 'smooth::Galileid'),
             'SEK2': ('se_k_3.hpp', 'smooth::SE_K_3<double, 2>'), 'B[SO3,T2]': ('bundle.hpp', 'smooth::Bundle<smooth::SO3d, Eigen::Vector2d>')}
NEG_STMTS = {'setIdentity': 'm.setIdentity();', 'setRandom': 'm.setRandom();', 'assign': 'm = G{};', 'mul': 'm *= G{};',
             'plus': 'm += G::Tangent::Zero();', 'coeffs_write': 'm.coeffs()(0) = 1;', 'data_write': '*m.data() = 1;'}
# writes through the sub-part accessors of a const view (only for the group that has the accessor)
NEG_SUB = {'SE2': {'so2_setIdentity': 'm.so2().setIdentity();', 'so2_assign': 'm.so2() = smooth::SO2d{};', 'r2_assign': 'm.r2() = Eigen::Vector2d::Zero();'},
           'SE3': {'so3_assign': 'm.so3() = smooth::SO3d{};', 'r3_assign': 'm.r3() = Eigen::Vector3d::Zero();'},
           'GAL': {'so3_assign': 'm.so3() = smooth::SO3d{};', 'r3_v_assign': 'm.r3_v() = Eigen::Vector3d::Zero();',
                   'r3_p_assign': 'm.r3_p() = Eigen::Vector3d::Zero();', 'r1_t_assign': 'm.r1_t()(0) = 1;'},
           'SEK2': {'so3_assign': 'm.so3() = smooth::SO3d{};', 'r3k_assign': 'm.r3<1>() = Eigen::Vector3d::Zero();',
                    'r3rt_assign': 'm.r3(0) = Eigen::Vector3d::Zero();'},
           'B[SO3,T2]': {'part0_assign': 'm.part<0>() = smooth::SO3d{};', 'part1_assign': 'm.part<1>() = Eigen::Vector2d::Zero();',
                         'part0_setIdentity': 'm.part<0>().setIdentity();'}}


def neg_compile(groups, stmts):
    """each mutating statement through a Map<const G> must be rejected by the compiler, while the same statement
    through a Map<G> compiles (positive control: the rejection is due to constness, not to a typo or missing header)"""
    jobs = []
    d = os.path.join(vlib.BUILD, 'neg16')
    os.makedirs(d, exist_ok=True)
    vlib.gen_version_header()
    inc = ['-I' + os.path.join(vlib.REPO, 'include'), '-I' + os.path.join(vlib.BUILD, 'gen'), '-I/usr/include/eigen3']
    k = 0
    for g in groups:
        hdr, ty = NEG_TYPES[g]
        extra = '#include <smooth/so3.hpp>\n' if hdr == 'bundle.hpp' else ''
        allst = dict(NEG_STMTS)
        allst.update(NEG_SUB.get(g, {}))
        for name in [n for n in allst if n in stmts or n in NEG_SUB.get(g, {})]:
            for const in (True, False):
                src = (f'#include <smooth/{hdr}>\n{extra}int main(){{ using G = {ty}; double buf[32] = {{0}}; '
                       f'smooth::Map<{"const " if const else ""}G> m(buf + 1); {allst[name]} return int(m.coeffs()(0)); }}\n')
                k += 1
                p = os.path.join(d, f'neg_{os.getpid()}_{k}.cpp')
                open(p, 'w').write(src)
                jobs.append((g, name, const, p, ['g++', '-std=c++20', '-fsyntax-only', '-w'] + inc + [p]))
    from concurrent.futures import ThreadPoolExecutor

    def run(j):
        r = subprocess.run(j[4], capture_output=True, text=True)
        try:
            os.remove(j[3])
        except OSError:
            pass
        return j[0], j[1], j[2], r.returncode, r.stderr[-300:]
    with ThreadPoolExecutor(max_workers=max(4, os.cpu_count() or 8)) as ex:
        return list(ex.map(run, jobs))


# ----------------------------------------------------------------------------- plugin
class C16:
    id = 'C16'
    # + the source tie of include/smooth/bundle.hpp (part<Idx>() mutable / const, PartStart, PartDof, constructor from parts),
    # regenerated from the C++ on every check by tools/gen_bundle.py; aggregator SmoothProps/C16All.lean
    props_files = ['SmoothProps/C16.lean', 'SmoothProps/SrcTieBundlePub.lean']
    props_module = 'SmoothProps.C16All'
    lean_targets = ['SmoothProps.C16All']
    translators = [gen_view_layout, gen_bundle_layout]
    rule = ('harness/mem.cpp: 25 catalogued group types (SO2 SO3 SE2 SE3 C1 Galilei SE_K_3<1..4>, 15 Bundles incl. nested and with Rn / C1 / nested parts in first and middle position) x '
            '{double,float}; random scripts of <= 50 ops (I C A K M ML P X R RL) on 2-4 overlapping Map<G>/Map<const G> views at word offsets '
            '0..3 of one guarded buffer + 2 value objects; the full state after EVERY op is compared with the Lean buffer model; '
            'distinct_nontrivial counts distinct (group, scalar, op kind, accessor path, storage kinds)')
    assumptions = ['plain assignment between PARTIALLY overlapping views is excluded (Eigen aliasing contract of the caller); '
                   'identical and disjoint views, and any overlap for *=, +=, cast (they go through a temporary), are exercised',
                   'C++ aliasing / lifetime rules are not modelled (a view into a destroyed buffer is outside the property)',
                   'arithmetic ops (*=, +=) are compared with the model at 64 ulp of the largest coefficient after re-synchronising '
                   'on the implementation state; their exact rounding is the subject of C01/C02']

    def _stats(self):
        return {'scripts': 0, 'ops': 0, 'by_op': {}, 'words_compared': 0, 'worst_arith_ulp': 0.0, 'whole_scripts_bitwise': 0,
                'value_words_checked': 0, 'casts': 0, 'cast_words': 0,
                'self_alias_scripts': 0, 'const_read_scripts': 0, 'operand_relation': {}}

    def explore(self, ctx):
        quick = ctx['tier'] == 'quick'
        budget = ctx.get('budget', 1)
        rng = random.Random(ctx['seed'] * 7919 + 16)
        findings, broken, samples = [], [], []
        stats = self._stats()
        dump = get_dump()
        # ---- dump audits (independent of the model)
        for l in dump.cviews:
            findings.append({'property': 'C16', 'key': {'kind': 'const_write', 'what': ' '.join(l.split()[1:4])}, 'err': 1, 'tol': 0,
                             'what': 'a const accessor / const read wrote memory: ' + l, 'line': l})
        for (g, prec), (n, names) in dump.const.items():
            if n:
                findings.append({'property': 'C16', 'key': {'kind': 'const_mutator', 'group': g, 'prec': prec, 'members': names}, 'err': n, 'tol': 0,
                                 'what': f'Map<const {g}> exposes mutating members {names}', 'line': f'const {g} {prec}'})
        # const overloads must READ the window the mutable overloads WRITE (independent of the model)
        for (g, acc), res in dump.reads.items():
            wr = dump.views.get((g, acc), set())
            if res != wr or len(res) != 1:
                findings.append({'property': 'C16', 'key': {'kind': 'const_read_window', 'group': g, 'accessor': acc}, 'err': 1, 'tol': 0,
                                 'what': f'const overload of {acc}() on {g} reads window(s) {sorted(res)} (Map<const G> / std::as_const(Map<G>) / '
                                         f'const value, offsets 0..3, both scalars) but the mutable overload writes {sorted(wr)}',
                                 'line': f'rview {g} {acc}'})
        for (g, op), res in dump.wsets.items():
            R = parse(g).rep()
            if res != {('0', str(R))}:
                findings.append({'property': 'C16', 'key': {'kind': 'full_writeset', 'group': g, 'op': op}, 'err': 1, 'tol': 0,
                                 'what': f'{op} through Map<{g}> wrote {sorted(res)} instead of exactly [0,{R})', 'line': f'wset {g} {op}'})
        for (g, prec), sz in dump.sizes.items():
            d = parse(g)
            if sz != (d.rep(), d.dof(), d.dim()):
                broken.append({'what': 'correspondence', 'name': f'sizes of {g}: implementation {sz}, plugin table {(d.rep(), d.dof(), d.dim())}', 'first': {}})
        # ---- scripts
        per = (2 if quick else 14) * budget
        reqs = []
        kinds = set()
        for g in CATALOGUE:
            for prec in ('f64', 'f32'):
                for k in range(per):
                    verb = (k % 3 == 0)
                    sg = ScriptGen(g, prec, rng, verb, rng.randint(8, 50)).gen()
                    if sg.ops:
                        reqs.append(sg.request())
                        for o in sg.ops:
                            kinds.add((g, prec, o[0], o[2] if o[0] in 'ICMP' else '-', o[1][0], o[2][0] if o[0] in ('A', 'K', 'ML', 'X') else '-'))
        for g in CATALOGUE:
            for prec in ('f64', 'f32'):
                for k in range(1 if quick else 3):
                    sg = ScriptGen(g, prec, rng, False, 0).gen_self_alias()
                    reqs.append(sg.request())
                    stats['self_alias_scripts'] += 1
                if parse(g).accessors():
                    sg = ScriptGen(g, prec, rng, False, 0).gen_const_reads()
                    reqs.append(sg.request())
                    stats['const_read_scripts'] += 1
        check_scripts(reqs, stats, findings, broken, samples)
        # ---- casts
        creqs = cast_requests(rng, (3 if quick else 20) * budget)
        check_casts(creqs, stats, findings, samples)
        # ---- value-vs-Map agreement of every LieGroupBase operation
        agree = {'comparisons': 0, 'ops': 0, 'nonzero_ulp': [], 'worst_ulp': 0.0}
        for l in run_all(['agree', str((6 if quick else 60) * budget)], env={'VERIF_SEED': str(ctx['seed'])}, part=1):
            t = l.split()
            if t[0] != 'agree':
                continue
            g, prec, op, n, mism, worst, first = t[1], t[2], t[3], int(t[4]), int(t[5]), float(t[6]), t[7]
            agree['comparisons'] += n
            agree['ops'] += 1
            agree['worst_ulp'] = max(agree['worst_ulp'], worst)
            if mism:
                agree['nonzero_ulp'].append({'group': g, 'prec': prec, 'op': op, 'mismatches': mism, 'worst_ulp': worst, 'first_storage': first})
                if worst > 4:
                    findings.append({'property': 'C16', 'key': {'kind': 'value_vs_map', 'group': g, 'prec': prec, 'op': op}, 'err': worst, 'tol': 4,
                                     'what': f'{op} through {first} differs from the value object by {worst} ulp', 'line': l})
        # ---- negative compile tests: mutators on Map<const G> are rejected by the compiler
        ngroups = ['SE2', 'SEK2', 'B[SO3,T2]'] if quick else list(NEG_TYPES)
        nstm = ['setIdentity', 'setRandom', 'assign'] if quick else list(NEG_STMTS)
        neg = neg_compile(ngroups, nstm)
        neg_ok = 0
        for g, name, const, rc, err in neg:
            if not const:
                if rc != 0:
                    raise vlib.MachineryError(f'negative-compile positive control `{name}` on Map<{g}> does not compile: {err}')
            elif rc == 0:
                findings.append({'property': 'C16', 'key': {'kind': 'const_mutator_compiles', 'group': g, 'member': name}, 'err': 1, 'tol': 0,
                                 'what': f'`{name}` through a Map<const {g}> compiles', 'line': f'neg {g} {name}'})
            else:
                neg_ok += 1
        cov = {'evaluations': stats['ops'] + stats['casts'] + agree['comparisons'], 'distinct_nontrivial': len(kinds),
               'rule': self.rule, 'samples': samples, 'scripts': stats, 'agree': agree,
               'negative_compile_tests_rejected': neg_ok,
               'dump': {'groups': len({g for g, _ in dump.sizes}), 'accessor_rows': len(dump.views), 'const_read_window_rows': len(dump.reads), 'full_view_mutator_rows': len(dump.wsets),
                        'bundles': len(dump.bundles), 'const_accessor_reads_checked': True},
               'gen_obligations': 10, 'gen_obligations_discharged': 10 - sum(1 for b in broken if 'Gen/' in b.get('name', '')),
               'traces_validated_against_impl': stats['scripts']}
        return {'coverage': cov, 'findings': findings, 'broken': broken}

    def search(self, ctx, broken):
        res = self.explore(dict(ctx, seed=ctx['seed'] + 104729, budget=3))
        return {'coverage': {'evaluations': res['coverage'].get('evaluations', 0)}, 'findings': res['findings']}

    def replay(self, ctx, payload):
        reqs = []
        for c in payload.get('cases', []):
            if 'line' in c and c['line'].startswith(('mem_script', 'mem_cast')):
                reqs.append(c['line'])
        for b in payload.get('no_longer_checks', []):
            f = b.get('first')
            if isinstance(f, dict) and str(f.get('line', '')).startswith(('mem_script', 'mem_cast')):
                reqs.append(f['line'])
        findings, broken, samples = [], [], []
        stats = self._stats()
        sreq = [r for r in reqs if r.startswith('mem_script')]
        creq = [r for r in reqs if r.startswith('mem_cast')]
        if sreq:
            check_scripts(sreq, stats, findings, broken, samples)
        if creq:
            check_casts(creq, stats, findings, samples)
        if not reqs:
            # table-level cases (dump audits): re-run the whole exploration
            return self.explore(ctx)
        return {'coverage': {'evaluations': stats['ops'] + stats['casts'], 'scripts': stats, 'samples': samples}, 'findings': findings, 'broken': broken}


def make():
    return C16()
