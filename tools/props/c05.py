from props.lie import *
from props import apiops

TOL = {'f64': 1e-5, 'f32': 1e-1}   # the property states the double-precision bound; single precision is audited at 1e-1
AUD = {'d2r_exp': ('a_d2rexp', 'd2r_exp(a) is not the derivative of dr_exp'),
       'd2l_exp': ('a_d2lexp', 'd2l_exp(a) is not the derivative of dl_exp'),
       'd2r_expinv': ('a_d2rexpinv', 'd2r_expinv(a) is not the derivative of dr_expinv'),
       'd2l_expinv': ('a_d2lexpinv', 'd2l_expinv(a) is not the derivative of dl_expinv')}
MAX_PER_KEY = {'quick': 9, 'thorough': 60}
REGION_CAP = {'quick': 1, 'thorough': 6}


def audit_factory(tier_holder):
    def audit(lines):
        reqs = []
        cnt = {}
        for l in lines:
            op0 = apiops.CANON.get(l.op, l.op)
            if op0 in AUD and l.prec == 'f64':
                # separate (small) quota for the new input regions (zero / whole-argument-tiny tangents) and for the
                # free-function forwards, so that they are audited at all without displacing the stratified samples
                region = l.tag if l.tag in apiops.NEW_REGION_TAGS else ('forward' if l.op != op0 else '')
                k = (op0, l.grp, region)
                cnt[k] = cnt.get(k, 0) + 1
                dof = len(l.ins)
                cap = MAX_PER_KEY[tier_holder['tier']] if not region else REGION_CAP[tier_holder['tier']]
                if cnt[k] > cap or dof > 9:
                    continue
                op, what = AUD[op0]
                reqs.append((' '.join([op, l.grp, l.prec + 'a'] + l.ins + l.outs),
                             {'key': apiops.canon_key(l), 'line': l.raw, 'tol': TOL[l.prec], 'judge': simple_judge, 'what': what}))
        return reqs
    return audit


class C05(LieProp):
    def prebuild(self):
        super().prebuild()
        vlib.build_harness('derivs', 'derivs.cpp')

    def gen_lines(self, ctx, n):
        lines = super().gen_lines(ctx, n)
        # generic-size helpers d_matrix_product / d2_fog (static, dynamic, sparse outer Jacobian)
        b = vlib.build_harness('derivs', 'derivs.cpp')
        reps = 2 if ctx['tier'] == 'quick' else 12
        self._derivs_crash = None
        try:
            lines += vlib.parse_lines(vlib.run_harness(b, [reps], env={'VERIF_SEED': str(ctx['seed'])}))
        except vlib.HarnessRunError as e:
            # the implementation aborted (Eigen assertion / signal) inside d_matrix_product or d2_fog:
            # keep the lines it produced before the abort and report the crash as a finding
            self._derivs_crash = e
            lines += vlib.parse_lines([l for l in e.out_lines if ' | ' in l])
        return lines

    def explore(self, ctx):
        self.tier_holder['tier'] = ctx['tier']
        res = super().explore(ctx)
        e = getattr(self, '_derivs_crash', None)
        if e is not None:
            last = e.out_lines[-1] if e.out_lines else ''
            res['findings'].append({'property': 'C05', 'key': {'kind': 'crash', 'op': 'dmp/d2fog', 'after': last.split(' f64')[0]},
                                    'err': None, 'what': f'harness derivs aborted with {e.rc} inside d_matrix_product / d2_fog '
                                    f'(Eigen assertion or signal); last completed line: {last[:60]}', 'detail': e.err[-800:]})
        return res

    def eval_lines(self, requests):
        out = super().eval_lines([r for r in requests])
        return out


def make():
    th = {'tier': 'quick'}
    p = C05('C05', ['d2r_exp', 'd2l_exp', 'd2r_expinv', 'd2l_expinv', 'd2r_rminus', 'd2r_rminus_sqn', 'dmp', 'd2fog'] + apiops.API_OPS['C05'],
            ['SmoothProps/C05.lean'], audit_factory(th), TOL,
            rule='harness/lie.cpp: groups with Hessians (SO2 SO3 SE2 SE3 C1 and Bundles of them) x scalar x 9 rotation-angle strata '
                 '(inverses up to pi-1.1e-3) x 5 translation strata; Hessian audit (double precision, dof<=9) by central differences '
                 '(h=2^-40) of the 320-bit series Jacobian; distinct_nontrivial = distinct (op,group,scalar,stratum,input bits), non-zero input',
            assumptions=['rounding audited, not proved', 'Hessian oracle = central difference of the defining series in fixed point (error << 1e-12)',
                         'd_matrix_product / d2_fog are exercised through SE3 d2r_expinv and d2r_rminus_squarednorm; their general-size spec is a theorem'])
    p.tier_holder = th
    return p
