"""c18scan.py — shared-state inventory of /repo/include/smooth, regenerated from the CURRENT source.

A small scope-aware scanner (no compiler): comments / literals / preprocessor lines are normalised
away, the token stream is parsed at namespace and class level into declarations and function
definitions, function bodies are kept as token ranges.

Cells reported (everything that can be shared between threads behind a const interface):
  mutableMember   `mutable` data member
  classStatic     non-constexpr static data member
  nsVar           non-constexpr namespace-scope variable (inline / static / plain global)
  varTemplate     the same, templated
  localStatic     non-constexpr function-local `static`
  threadLocal     `thread_local` at any scope
  pointerMember   pointer-like member (shared_ptr / unique_ptr / T* / T&) whose POINTEE is mutated through a
                  const handle (non-const method called or assigned through it)
  macro           `mutable` / `static` / `thread_local` inside a #define body (not parsed further)
and, for every function (member or free, plus variable initialisers), the syntactic writes to those
cells: `cell = …`, `cell op= …`, `cell << …`, `++cell`, `cell[i] = …`, `cell.mutator(…)`,
`cell->nonConstMethod(…)`.

Classification:
  writtenByConst     a `mutable` member assigned by a const member function (or through a const-ref
                     parameter), a static / namespace cell assigned by any function after its
                     initialisation, or a pointee mutated by a const MEMBER function of its owner
  perObject          a pointee mutated through a const-ref PARAMETER of a free function (the owner is an
                     argument object, e.g. an options struct; safe iff every call has its own object)
  onceInit           function-local static, never assigned afterwards (initialisation serialised by the language)
  readOnlyAfterInit  namespace-scope / class-static variable (dynamic or constant initialisation before
                     main), never assigned afterwards
"""
import os, re

MUTATORS = {
    'setZero', 'setOnes', 'setConstant', 'setIdentity', 'setRandom', 'setLinSpaced', 'fill', 'resize', 'conservativeResize',
    'push_back', 'emplace_back', 'pop_back', 'clear', 'insert', 'emplace', 'erase', 'swap', 'reset', 'release', 'coeffRef',
    'makeCompressed', 'reserve', 'assign', 'normalize', 'setFromTriplets', 'prune', 'uncompress', 'store', 'exchange',
    'fetch_add', 'fetch_sub', 'lock', 'unlock', 'try_lock', 'resizeNonZeros', 'setUnit', 'transposeInPlace', 'applyOnTheLeft',
    'applyOnTheRight', 'sort', 'append', 'merge', 'splice', 'shrink_to_fit'}
PASS_THROUGH = {'noalias', 'array', 'matrix', 'head', 'tail', 'segment', 'block', 'row', 'col', 'topRows', 'bottomRows',
                'leftCols', 'rightCols', 'middleRows', 'middleCols', 'topLeftCorner', 'topRightCorner', 'bottomLeftCorner',
                'bottomRightCorner', 'diagonal', 'transpose', 'coeffs', 'value', 'get', 'front', 'back', 'at', 'template',
                'real', 'imag', 'derived', 'const_cast_derived', 'valuePtr', 'data', 'begin', 'end', 'colwise', 'rowwise',
                'reshaped', 'triangularView', 'selfadjointView'}
ASSIGN = {'=', '+=', '-=', '*=', '/=', '%=', '&=', '|=', '^=', '<<=', '>>=', '++', '--', '<<'}
SPECIFIERS = {'static', 'inline', 'constexpr', 'const', 'mutable', 'thread_local', 'constinit', 'extern', 'volatile', 'typename',
              'consteval', 'virtual', 'explicit', 'friend'}
CLASS_KEYS = {'class', 'struct', 'union'}

TOKEN_RE = re.compile(r'''
    [A-Za-z_]\w*                       |
    \d[\w.']*(?:[eEpP][+-]?\w+)?       |
    <=>|<<=|>>=|->\*|\.\.\.|::|->|\+\+|--|<<|==|!=|<=|>=|&&|\|\||\+=|-=|\*=|/=|%=|&=|\|=|\^=|\[\[|\]\] |
    [{}()\[\];,<>=+\-*/%&|^!~?:.\#@$\\]
''', re.X)


class ScanError(Exception):
    pass


# ------------------------------------------------------------------ normalisation
def normalise(src):
    """returns (code, defines): `code` has comments, literals and preprocessor lines blanked (newlines kept);
    `defines` = list of (line, name, body) for every #define"""
    out = []
    i, n = 0, len(src)
    while i < n:
        c = src[i]
        if src.startswith('//', i):
            j = src.find('\n', i)
            j = n if j < 0 else j
            # a line comment ending in backslash continues
            while j < n and src[j - 1] == '\\':
                j2 = src.find('\n', j + 1)
                out.append('\n')
                j = n if j2 < 0 else j2
            i = j
        elif src.startswith('/*', i):
            j = src.find('*/', i + 2)
            j = n if j < 0 else j + 2
            out.append('\n' * src.count('\n', i, j))
            out.append(' ')
            i = j
        elif c == 'R' and src.startswith('R"', i) and (i == 0 or not (src[i - 1].isalnum() or src[i - 1] == '_')):
            m = re.match(r'R"([^()\\ ]{0,16})\(', src[i:])
            if m:
                close = ')' + m.group(1) + '"'
                j = src.find(close, i)
                j = n if j < 0 else j + len(close)
                out.append('""' + '\n' * src.count('\n', i, j))
                i = j
            else:
                out.append(c); i += 1
        elif c == '"':
            j = i + 1
            while j < n and src[j] != '"':
                j += 2 if src[j] == '\\' else 1
            out.append('""')
            i = j + 1
        elif c == "'" and not (i > 0 and src[i - 1].isalnum()):      # char literal (not a digit separator)
            j = i + 1
            while j < n and src[j] != "'":
                j += 2 if src[j] == '\\' else 1
            out.append("''")
            i = j + 1
        else:
            out.append(c); i += 1
    text = ''.join(out)
    # preprocessor lines (with continuations)
    lines = text.split('\n')
    defines = []
    k = 0
    while k < len(lines):
        if lines[k].lstrip().startswith('#'):
            start = k
            buf = lines[k]
            while buf.rstrip().endswith('\\') and k + 1 < len(lines):
                k += 1
                buf = buf.rstrip()[:-1] + ' ' + lines[k]
            m = re.match(r'\s*#\s*define\s+(\w+)(.*)', buf, re.S)
            if m:
                defines.append((start + 1, m.group(1), m.group(2)))
            for q in range(start, k + 1):
                lines[q] = ''
        k += 1
    return '\n'.join(lines), defines


def tokenize(code):
    toks = []
    line = 1
    pos = 0
    for m in TOKEN_RE.finditer(code):
        line += code.count('\n', pos, m.start())
        pos = m.start()
        t = m.group(0)
        if re.fullmatch(r'SMOOTH_(BEGIN|END)_NAMESPACE', t):
            continue
        toks.append((t, line))
    return toks


def is_ident(t):
    return bool(re.match(r'[A-Za-z_]\w*$', t))


def base_name(owner):
    """last component of a (possibly nested / specialised) class name without template arguments or requires tags"""
    if not owner:
        return None
    out, d = [], 0
    for ch in owner:
        if ch in '<[':
            d += 1
        elif ch in '>]':
            d -= 1
        elif d == 0:
            out.append(ch)
    return ''.join(out).split('::')[-1]


# ------------------------------------------------------------------ parser
class Func:
    __slots__ = ('file', 'line', 'name', 'cls', 'const', 'static', 'params', 'body', 'qual', 'is_init', 'is_ctor')

    def __init__(self, **kw):
        for k in self.__slots__:
            setattr(self, k, kw.get(k))


class Var:
    __slots__ = ('file', 'line', 'name', 'owner', 'scope', 'specs', 'is_template', 'type', 'func')

    def __init__(self, **kw):
        for k in self.__slots__:
            setattr(self, k, kw.get(k))


class Parser:
    def __init__(self, fname, toks):
        self.f = fname
        self.t = toks
        self.funcs = []        # definitions with bodies (and variable initialisers as pseudo functions)
        self.decls = {}        # method name -> set of constness over all declarations/definitions
        self.vars = []         # namespace / class / function-local variables of interest + all data members
        self.nclass = 0

    # -- helpers
    def match(self, i, open_, close):
        """index of the token closing the bracket opened at i"""
        d = 0
        n = len(self.t)
        while i < n:
            x = self.t[i][0]
            if x == open_ or (open_ == '[' and x == '[['):
                d += 2 if x == '[[' else 1
            elif x == close or (close == ']' and x == ']]'):
                d -= 2 if x == ']]' else 1
                if d == 0:
                    return i
            i += 1
        raise ScanError(f'{self.f}: unbalanced {open_} from line {self.t[min(i, n - 1)][1]}')

    def match_angle(self, toks, i):
        """toks: list of strings; i at '<'; returns index of matching '>' or None"""
        d = 0
        p = 0
        while i < len(toks):
            x = toks[i]
            if x in ('(', '[', '{'):
                p += 1
            elif x in (')', ']', '}'):
                p -= 1
                if p < 0:
                    return None
            elif p == 0:
                if x == '<':
                    d += 1
                elif x == '>':
                    d -= 1
                    if d == 0:
                        return i
                elif x in (';',):
                    return None
            i += 1
        return None

    # -- scope parsing
    def parse_scope(self, i, end, ns, cls):
        """parse declarations in token range [i, end) of a namespace (cls None) or class scope"""
        t = self.t
        while i < end:
            x = t[i][0]
            if x == ';':
                i += 1
                continue
            if x == '}':
                raise ScanError(f'{self.f}:{t[i][1]}: stray }}')
            if cls is not None and x in ('public', 'private', 'protected') and i + 1 < end and t[i + 1][0] == ':':
                i += 2
                continue
            i = self.parse_decl(i, end, ns, cls)
        return i

    def parse_decl(self, i, end, ns, cls):
        t = self.t
        start = i
        head = []          # strings, with '{}' placeholders for skipped brace groups
        depth = 0
        line = t[i][1]
        inits = []         # (start, end) token ranges of brace groups that are initialisers
        while i < end:
            x = t[i][0]
            if x in ('(', '['):
                depth += 1
            elif x == '[[':
                depth += 2
            elif x in (')', ']'):
                depth -= 1
            elif x == ']]':
                depth -= 2
            if x == ';' and depth == 0:
                self.finish_statement(head, line, ns, cls, inits)
                return i + 1
            if x == '{':
                j = self.match(i, '{', '}')
                if depth > 0:
                    inits.append((i + 1, j))
                    head.append('{}')
                    i = j + 1
                    continue
                kind = self.classify_brace(head)
                if kind == 'namespace':
                    name = [h for h in head if is_ident(h) and h not in ('namespace', 'inline')]
                    self.parse_scope(i + 1, j, ns + name, None)
                    return j + 1
                if kind == 'extern':
                    self.parse_scope(i + 1, j, ns, cls)
                    return j + 1
                if kind == 'enum':
                    head.append('{}')
                    i = j + 1
                    continue
                if kind == 'class':
                    cname = self.class_name(head)
                    self.nclass += 1
                    self.parse_scope(i + 1, j, ns, (cls + '::' if cls else '') + cname)
                    # declarators after the class body (`} x;`) are ignored up to ';'
                    head = ['class', '{}']
                    i = j + 1
                    continue
                if kind == 'function':
                    self.add_function(head, line, ns, cls, i + 1, j)
                    return j + 1
                # initialiser (brace-init of a variable / member, lambda body after '=', ctor-init-list member)
                inits.append((i + 1, j))
                head.append('{}')
                i = j + 1
                continue
            head.append(x)
            i += 1
        if any(h not in ('{}',) for h in head):
            raise ScanError(f'{self.f}:{line}: declaration without terminator: {" ".join(head[:12])}')
        return i

    def strip_prefix(self, head):
        """drop template<…> prefixes, requires-clauses that follow them, and attributes; returns (rest, is_template, req_text)"""
        h = list(head)
        is_t = False
        req = ''
        while True:
            if h and h[0] == '[[':
                d = 0
                k = 0
                while k < len(h):
                    if h[k] == '[[':
                        d += 1
                    elif h[k] == ']]':
                        d -= 1
                        if d == 0:
                            break
                    k += 1
                h = h[k + 1:]
                continue
            if len(h) >= 2 and h[0] == 'template' and h[1] == '<':
                k = self.match_angle(h, 1)
                if k is None:
                    break
                is_t = True
                h = h[k + 1:]
                continue
            if len(h) >= 2 and h[0] == 'extern' and h[1] == 'template':
                return ['using'], False, ''
            if h and h[0] == 'requires' and is_t:
                # requires-clause: parenthesised or a chain of primary expressions joined by && ||
                k = 1
                while k < len(h):
                    if h[k] == '(':
                        d = 0
                        while k < len(h):
                            if h[k] == '(':
                                d += 1
                            elif h[k] == ')':
                                d -= 1
                                if d == 0:
                                    break
                            k += 1
                        k += 1
                    else:
                        if h[k] == '!':
                            k += 1
                        while k < len(h) and (is_ident(h[k]) or h[k] == '::') and h[k] not in CLASS_KEYS:
                            k += 1
                            if k < len(h) and h[k] == '<':
                                q = self.match_angle(h, k)
                                if q is None:
                                    break
                                k = q + 1
                                if k < len(h) and h[k] != '::':
                                    break
                    if k < len(h) and h[k] in ('&&', '||'):
                        k += 1
                        continue
                    break
                req = ''.join(h[1:k])
                h = h[k:]
                continue
            break
        return h, is_t, req

    def classify_brace(self, head):
        h, _, _ = self.strip_prefix(head)
        if not h:
            return 'init'
        first = [x for x in h if x not in ('inline', 'static', 'constexpr', 'typedef', 'friend', 'const')]
        f0 = first[0] if first else ''
        if f0 == 'namespace':
            return 'namespace'
        if f0 == 'extern' and len(h) <= 2:
            return 'extern'
        if f0 == 'enum':
            return 'enum'
        d0 = self.depth0(h)
        has_eq = any(x == '=' and d == 0 and (k == 0 or h[k - 1] != 'operator') for k, (x, d) in enumerate(zip(h, d0)))
        if has_eq:
            return 'init'
        paren = [k for k, (x, d) in enumerate(zip(h, d0)) if x == '(' and d == 0]
        if f0 in CLASS_KEYS and not paren:
            return 'class'
        if paren:
            # function head; inside a ctor-initialiser list a brace directly after a name / template-id is a member init
            k = self.close_paren(h, self.param_open(h, d0))
            colon = [q for q in range(k + 1, len(h)) if h[q] == ':' and d0[q] == 0]
            if colon and (is_ident(h[-1]) or h[-1] == '>'):
                return 'init'
            return 'function'
        return 'init'

    @staticmethod
    def depth0(h):
        d, out = 0, []
        for x in h:
            if x in (')', ']'):
                d -= 1
            elif x == ']]':
                d -= 2
            out.append(d)
            if x in ('(', '['):
                d += 1
            elif x == '[[':
                d += 2
        return out

    @staticmethod
    def close_paren(h, k):
        d = 0
        while k < len(h):
            if h[k] == '(':
                d += 1
            elif h[k] == ')':
                d -= 1
                if d == 0:
                    return k
            k += 1
        return len(h) - 1

    @staticmethod
    def param_open(h, d0):
        """index of the '(' that opens the parameter list"""
        for k, x in enumerate(h):
            if x == 'operator' and d0[k] == 0:
                if k + 2 < len(h) and h[k + 1] == '(' and h[k + 2] == ')':
                    return k + 3 if k + 3 < len(h) and h[k + 3] == '(' else k + 1
                q = k + 1
                while q < len(h) and h[q] != '(':
                    q += 1
                return q
        skip = 0
        for k, x in enumerate(h):
            if x == '(' and d0[k] == 0:
                # skip noexcept(...) / requires(...) / alignas(...) / decltype(...) that precede the declarator
                if k > 0 and h[k - 1] in ('requires', 'alignas', 'decltype', 'noexcept', 'explicit'):
                    continue
                return k
        return len(h)

    def class_name(self, head):
        h, _, req = self.strip_prefix(head)
        k = 0
        while k < len(h) and h[k] not in CLASS_KEYS:
            k += 1
        k += 1
        while k < len(h) and (h[k] in ('[[', 'alignas', 'final') or not is_ident(h[k])):
            if h[k] == '[[':
                while k < len(h) and h[k] != ']]':
                    k += 1
            k += 1
        name = h[k] if k < len(h) else f'<anon{self.nclass}>'
        # explicit / partial specialisation arguments are part of the identity
        if k + 1 < len(h) and h[k + 1] == '<':
            q = self.match_angle(h, k + 1)
            if q is not None:
                name += ''.join(h[k + 1:q + 1])
        if req:
            name += '[' + req + ']'
        return name

    # -- functions
    def function_sig(self, head, cls):
        h, is_t, _ = self.strip_prefix(head)
        d0 = self.depth0(h)
        po = self.param_open(h, d0)
        if po >= len(h):
            return None
        pc = self.close_paren(h, po)
        # name
        if 'operator' in h[:po]:
            k = h.index('operator')
            name = 'operator' + ''.join(h[k + 1:po])
            nk = k
        else:
            nk = po - 1
            if nk >= 0 and h[nk] == '>':       # explicit template args on the declarator: f<int>(…)
                dd = 0
                while nk >= 0:
                    if h[nk] == '>':
                        dd += 1
                    elif h[nk] == '<':
                        dd -= 1
                        if dd == 0:
                            break
                    nk -= 1
                nk -= 1
            name = h[nk] if nk >= 0 else '?'
            if nk >= 1 and h[nk - 1] == '~':
                name = '~' + name
        qual = None
        q = nk - 1
        if q >= 1 and h[q] == '~':
            q -= 1
        if q >= 1 and h[q] == '::':
            q -= 1
            if h[q] == '>':
                dd = 0
                while q >= 0:
                    if h[q] == '>':
                        dd += 1
                    elif h[q] == '<':
                        dd -= 1
                        if dd == 0:
                            break
                    q -= 1
                q -= 1
            if q >= 0 and is_ident(h[q]):
                qual = h[q]
        trail = h[pc + 1:]
        arrow = trail.index('->') if '->' in trail else len(trail)
        colon = trail.index(':') if ':' in trail else len(trail)
        is_const = 'const' in trail[:min(arrow, colon)]
        is_static = 'static' in h[:nk] or 'friend' in h[:nk]
        owner = qual if qual else cls
        base_owner = base_name(owner)
        is_ctor = owner is not None and (name == base_owner or name == '~' + str(base_owner))
        return {'name': name, 'qual': qual, 'const': is_const and not is_static, 'static': is_static,
                'params': h[po + 1:pc], 'is_ctor': is_ctor, 'free': (qual is None and cls is None) or 'friend' in h[:nk]}

    def add_function(self, head, line, ns, cls, b0, b1):
        sig = self.function_sig(head, cls)
        if sig is None:
            return
        owner = sig['qual'] if sig['qual'] else (None if sig['free'] else cls)
        fn = Func(file=self.f, line=line, name=sig['name'], cls=owner, const=sig['const'], static=sig['static'],
                  params=sig['params'], body=(b0, b1), qual=sig['qual'], is_init=False, is_ctor=sig['is_ctor'])
        self.funcs.append(fn)
        if owner is not None and not sig['static'] and not sig['is_ctor']:
            self.decls.setdefault(sig['name'], set()).add(sig['const'])
        self.scan_locals(fn)

    # -- statements ending in ';'
    def finish_statement(self, head, line, ns, cls, inits):
        h, is_t, _ = self.strip_prefix(head)
        if len(h) < 2:
            return
        core = [x for x in h if x != '{}']
        f0 = h[0]
        if f0 in ('using', 'typedef', 'static_assert', 'concept', 'namespace', 'enum', 'friend', 'class') or \
           (f0 in CLASS_KEYS and '=' not in h and '{}' not in h[1:] and len([x for x in core if is_ident(x)]) <= 2) or \
           f0 in CLASS_KEYS and h[1:2] == ['{}']:
            return
        if f0 == 'enum' or (len(h) > 1 and h[0] in ('static', 'inline') and h[1] == 'enum'):
            return
        d0 = self.depth0(h)
        eq = [k for k, (x, d) in enumerate(zip(h, d0)) if x == '=' and d == 0 and (k == 0 or h[k - 1] != 'operator')]
        paren = [k for k, (x, d) in enumerate(zip(h, d0)) if x == '(' and d == 0 and (k == 0 or h[k - 1] not in ('alignas', 'decltype'))]
        is_func = bool(paren) and (not eq or paren[0] < eq[0])
        if is_func and not (eq and h[eq[0] + 1:eq[0] + 2] and h[eq[0] + 1] not in ('default', 'delete', '0')):
            sig = self.function_sig(head, cls)
            if sig and cls is not None and not sig['static'] and not sig['is_ctor'] and not sig['free']:
                self.decls.setdefault(sig['name'], set()).add(sig['const'])
            return
        if is_func:
            return
        self.add_variable(h, is_t, line, ns, cls, 'class' if cls else 'namespace', None, inits)

    def add_variable(self, h, is_t, line, ns, cls, scope, func, inits):
        d0 = self.depth0(h)
        stop = len(h)
        for k, x in enumerate(h):
            if d0[k] == 0 and x in ('=', '{}'):
                stop = k
                break
            if d0[k] == 0 and x == '(' and scope == 'function':
                stop = k
                break
            if d0[k] == 0 and x == ':' and scope == 'class':      # bit-field
                stop = k
                break
        decl = h[:stop]
        # strip trailing array extents
        while decl and decl[-1] == ']':
            k = len(decl) - 1
            dd = 0
            while k >= 0:
                if decl[k] == ']':
                    dd += 1
                elif decl[k] == '[':
                    dd -= 1
                    if dd == 0:
                        break
                k -= 1
            decl = decl[:k]
        if not decl or not is_ident(decl[-1]):
            return
        name = decl[-1]
        specs = {x for x in decl[:-1] if x in SPECIFIERS}
        typ = [x for x in decl[:-1] if x not in SPECIFIERS or x == 'const']
        if not typ and not specs:
            return
        nsp = '::'.join(n for n in ns if n in ('traits', 'detail', 'utils', 'diff', 'lp2d'))
        owner = ((nsp + '::' if nsp else '') + cls) if scope == 'class' else (nsp or None)
        v = Var(file=self.f, line=line, name=name, owner=owner, scope=scope, specs=specs, is_template=is_t, type=typ, func=func)
        self.vars.append(v)
        for (a, b) in inits:
            self.funcs.append(Func(file=self.f, line=line, name=f'<initializer of {name}>', cls=cls, const=False, static=True,
                                   params=[], body=(a, b), qual=None, is_init=name, is_ctor=False))

    # -- function-local statics / thread_locals
    def scan_locals(self, fn):
        t = self.t
        a, b = fn.body
        i = a
        while i < b:
            x = t[i][0]
            if x in ('static', 'thread_local') and (i == a or t[i - 1][0] in ('{', '}', ';', ')', 'else')):
                j = i
                depth = 0
                h = []
                inits = []
                while j < b:
                    y = t[j][0]
                    if y in ('(', '['):
                        depth += 1
                    elif y in (')', ']'):
                        depth -= 1
                    elif y == '{':
                        q = self.match(j, '{', '}')
                        inits.append((j + 1, q))
                        h.append('{}')
                        j = q + 1
                        continue
                    elif y == ';' and depth == 0:
                        break
                    h.append(y)
                    j += 1
                self.add_variable(h, False, t[i][1], [], fn.cls, 'function', fn, [])
                i = j
            i += 1


# ------------------------------------------------------------------ write detection
def chain_after(t, k, end, is_template_cell):
    """follow an access chain starting after the name token at k.  Returns (index after chain, methods called, deref)"""
    i = k + 1
    methods = []
    deref = False
    if is_template_cell and i < end and t[i][0] == '<':
        d = 0
        q = i
        while q < end:
            if t[q][0] == '<':
                d += 1
            elif t[q][0] == '>':
                d -= 1
                if d == 0:
                    break
            elif t[q][0] in (';', '{'):
                q = None
                break
            q += 1
        if q is not None and q < end:
            i = q + 1
    while i < end:
        x = t[i][0]
        if x in ('[', '('):
            close = ']' if x == '[' else ')'
            d = 0
            while i < end:
                if t[i][0] == x:
                    d += 1
                elif t[i][0] == close:
                    d -= 1
                    if d == 0:
                        break
                i += 1
            i += 1
        elif x in ('.', '->') and i + 1 < end:
            if x == '->':
                deref = True
            i += 1
            if t[i][0] == 'template':
                i += 1
            if is_ident(t[i][0]):
                called = i + 1 < end and t[i + 1][0] in ('(', '<')
                methods.append((t[i][0], called, x == '->' or deref))
                i += 1
                if i < end and t[i][0] == '<' and i + 1 < end:
                    # template arguments of a member template call: skip a balanced <...> if it is followed by '('
                    d = 0
                    q = i
                    while q < end and t[q][0] not in (';', '{'):
                        if t[q][0] == '<':
                            d += 1
                        elif t[q][0] == '>':
                            d -= 1
                            if d == 0:
                                break
                        q += 1
                    if q < end and t[q][0] == '>' and q + 1 < end and t[q + 1][0] == '(':
                        i = q + 1
            else:
                break
        else:
            break
    return i, methods, deref


NOT_TYPES = {'return', 'else', 'do', 'case', 'goto', 'new', 'delete', 'throw', 'co_return', 'co_yield', 'operator', 'typename',
             'template', 'this', 'sizeof', 'not', 'and', 'or', 'using', 'namespace'}


def declared_locally(t, fn, name):
    """does function `fn` declare a parameter / local variable / structured binding called `name`?"""
    ps = fn.params or []
    for k, x in enumerate(ps):
        if x == name and k > 0 and (is_ident(ps[k - 1]) or ps[k - 1] in ('>', '&', '*', '&&', '...')) and \
           (k + 1 == len(ps) or ps[k + 1] in (',', '=', ')')):
            return True
    a, b = fn.body
    for k in range(a + 1, b - 1):
        if t[k][0] != name:
            continue
        prev, nxt = t[k - 1][0], t[k + 1][0]
        if nxt not in ('=', ';', ',', ')', '{', '(', ':', ']', '['):
            continue
        if is_ident(prev) and prev not in NOT_TYPES:
            return True                                   # `auto M`, `double M`, `Matrix M`
        if prev == '>' and nxt in ('=', ';', '{', '(', ':'):
            # `Eigen::Matrix<…> M` — the token before the matching '<' must be a name
            d, q = 0, k - 1
            while q > a:
                if t[q][0] == '>':
                    d += 1
                elif t[q][0] == '<':
                    d -= 1
                    if d == 0:
                        break
                elif t[q][0] in (';', '{', '}'):
                    break
                q -= 1
            if t[q][0] == '<' and is_ident(t[q - 1][0]):
                return True
        if prev in ('&', '*', '&&') and k - 2 > a and (t[k - 2][0] in ('auto', 'const', '>') or
                                                        (is_ident(t[k - 2][0]) and t[k - 3][0] in (';', '{', '}', '(', ',', 'const', '::'))):
            return True                                   # `const auto & M`, `T * M`
        if prev in ('[', ',') and nxt in (',', ']'):
            # structured binding  auto [a, M, c] = …
            q = k
            while q > a and t[q][0] != '[':
                q -= 1
            if t[q - 1][0] in ('auto', '&', '&&'):
                return True
    return False


def qualified_by(t, k, a, cls_base):
    """is the name at k written as  cls_base<…>::name ?"""
    q = k - 2
    if q < a:
        return False
    if t[q][0] == '>':
        d = 0
        while q > a:
            if t[q][0] == '>':
                d += 1
            elif t[q][0] == '<':
                d -= 1
                if d == 0:
                    break
            q -= 1
        q -= 1
    return t[q][0] == cls_base


def find_writes(t, fn, cell, nonconst_methods):
    """list of (line, description) of syntactic writes to `cell` inside function `fn`"""
    a, b = fn.body
    name = cell['short']
    res = []
    if cell['scope'] != 'local' and declared_locally(t, fn, name):
        return res                 # a parameter / local variable of that name shadows the cell in this function
    same_class = cell.get('cls_owner') is not None and base_name(fn.cls) == base_name(cell['cls_owner'])
    for k in range(a, b):
        if t[k][0] != name:
            continue
        prev = t[k - 1][0] if k > a else ''
        if cell['kind'] == 'classStatic' and not same_class:
            # outside its class a static member is only reachable as Class<…>::name
            if prev != '::' or not qualified_by(t, k, a, base_name(cell['cls_owner'])):
                continue
        if prev == '::' and cell['scope'] in ('class-member', 'local'):
            # Foo::m_x — a qualified name is not the member of *this object (pointer-to-member etc.)
            pass
        if cell['scope'] == 'local' and (fn is not cell['func']):
            continue
        if cell['scope'] == 'local' and t[k][1] < cell['line']:
            continue
        if prev in ('.', '->') and cell['scope'] in ('ns', 'local'):
            continue      # a member of something else with the same name
        # the declaration itself is not a write
        if cell['scope'] == 'local' and t[k][1] == cell['line'] and cell.get('decl_seen') is not k and not cell.get('decl_done'):
            cell['decl_done'] = True
            continue
        i, methods, deref = chain_after(t, k, b, cell['template'])
        nxt = t[i][0] if i < b else ''
        pointee = cell['kind'] == 'pointerMember'
        if pointee:
            # only writes THROUGH the pointer count (re-seating the pointer itself needs a non-const owner)
            through = [m for m in methods if m[2]]
            if prev == '*' and nxt in ASSIGN and not methods:
                res.append((t[k][1], f'*{name} {nxt}'))
            elif through:
                last = through[-1]
                if last[1] and last[0] in nonconst_methods:
                    res.append((t[k][1], f'{name}->{last[0]}() [non-const method]'))
                elif (not last[1]) and nxt in ASSIGN and nxt != '<<':
                    res.append((t[k][1], f'{name}->{last[0]} {nxt}'))
            continue
        if prev in ('++', '--'):
            res.append((t[k][1], f'{prev}{name}'))
            continue
        if nxt in ASSIGN:
            # `==` is its own token, so '=' here is an assignment; `a << b` counts as Eigen comma-initialisation
            if nxt == '<<' and prev in ('<<',):
                continue
            if nxt == '=' and prev in ('&', '*') and False:
                continue
            # a declaration `T name = …` of a DIFFERENT local variable with the same name: previous token is a type
            if cell['scope'] != 'local' and (is_ident(prev) and prev not in ('return', 'else', 'do') or prev in ('>', '&', '*')) and not methods and prev != 'this':
                if prev in ('&', '*') or is_ident(prev) or prev == '>':
                    # looks like a declaration shadowing the cell
                    continue
            res.append((t[k][1], f'{name}{"".join("." + m[0] for m in methods)} {nxt}'))
            continue
        muts = [m[0] for m in methods if m[1] and m[0] in MUTATORS]
        if muts:
            res.append((t[k][1], f'{name}.{muts[0]}()'))
            continue
        ncm = [m[0] for m in methods if m[1] and m[0] in nonconst_methods and m[0] not in PASS_THROUGH]
        if ncm:
            res.append((t[k][1], f'{name}.{ncm[0]}() [non-const method]'))
    return res


# ------------------------------------------------------------------ driver
def pointer_like(typ):
    s = ' '.join(typ)
    if re.search(r'\b(shared_ptr|unique_ptr|weak_ptr)\b', s):
        return True
    if typ and typ[-1] == '*':
        return True
    if typ and typ[-1] == '&' and 'const' not in typ:
        return True
    return False


def scan(repo_include):
    """returns dict(inventory=[…], stats={…}).  Raises ScanError when the source cannot be parsed."""
    base = os.path.join(repo_include, 'smooth')
    files = []
    for dp, dn, fn in os.walk(base):
        dn.sort()
        for f in sorted(fn):
            if f.endswith(('.hpp', '.h', '.hh', '.ipp', '.hxx', '.inl', '.tpp', '.cpp')):
                files.append(os.path.join(dp, f))
    files.sort()
    parsers = []
    macro_cells = []
    for p in files:
        rel = os.path.relpath(p, base)
        code, defines = normalise(open(p, encoding='utf-8', errors='replace').read())
        if code.count('{') != code.count('}'):
            raise ScanError(f'{rel}: unbalanced braces after normalisation')
        for (ln, name, body) in defines:
            for kw in ('mutable', 'thread_local'):
                if re.search(r'\b' + kw + r'\b', body):
                    macro_cells.append({'name': f'macro {name}: {kw}', 'file': rel, 'line': ln, 'kind': 'macro', 'const': False})
            for m in re.finditer(r'\bstatic\b(?!\s*(?:inline\s+)?constexpr)([^;(){}]*)[;={]', body):
                if not re.search(r'\bconstexpr\b', m.group(1)):
                    macro_cells.append({'name': f'macro {name}: static {m.group(1).split()[-1] if m.group(1).split() else "?"}',
                                        'file': rel, 'line': ln, 'kind': 'macro', 'const': 'const' in m.group(1).split()})
        ps = Parser(rel, tokenize(code))
        ps.parse_scope(0, len(ps.t), [], None)
        parsers.append(ps)

    # method constness table over the whole library
    decls = {}
    for ps in parsers:
        for k, v in ps.decls.items():
            decls.setdefault(k, set()).update(v)
    nonconst_methods = {k for k, v in decls.items() if v == {False}}

    cells = []
    nvars = {'constexpr_skipped': 0, 'plain_members': 0, 'pointer_members_examined': []}
    for ps in parsers:
        for v in ps.vars:
            cx = 'constexpr' in v.specs or 'consteval' in v.specs
            is_static = 'static' in v.specs or 'inline' in v.specs
            tl = 'thread_local' in v.specs
            const = 'const' in v.type or 'constexpr' in v.specs
            kind = None
            if tl:
                kind = 'threadLocal'
            elif v.scope == 'function':
                kind = None if cx else 'localStatic'
            elif v.scope == 'class':
                if 'mutable' in v.specs:
                    kind = 'mutableMember'
                elif is_static:
                    kind = None if cx else 'classStatic'
                elif pointer_like(v.type):
                    kind = 'pointerMember'
                else:
                    nvars['plain_members'] += 1
            else:
                kind = None if cx else ('varTemplate' if v.is_template else 'nsVar')
            if cx and kind is None:
                nvars['constexpr_skipped'] += 1
            if kind is None:
                continue
            if v.scope == 'function':
                fn = v.func
                owner = (base_name(fn.cls) + '::' if fn.cls else '') + fn.name
            else:
                owner = v.owner
            # class names keep their specialisation arguments / requires clause so that distinct
            # specialisations stay distinct cells
            qname = (owner + '::' if owner else '') + v.name
            cells.append({'name': qname, 'short': v.name, 'file': v.file, 'line': v.line, 'kind': kind, 'const': const,
                          'cls_owner': v.owner if v.scope == 'class' else None,
                          'scope': {'function': 'local', 'class': 'class-member' if kind in ('mutableMember', 'pointerMember') else 'ns',
                                    'namespace': 'ns'}[v.scope],
                          'template': v.is_template, 'func': v.func, 'parser': ps, 'type': ' '.join(v.type)})

    # writes
    inventory = []
    nfuncs = nconst = 0
    for ps in parsers:
        for fn in ps.funcs:
            if not fn.is_init:
                nfuncs += 1
                nconst += 1 if fn.const else 0
    for c in cells:
        writers = []
        detail = []
        for ps in parsers:
            for fn in ps.funcs:
                if fn.is_init and fn.is_init == c['short'] and ps is c['parser']:
                    continue           # the cell's own initialiser
                if c['scope'] == 'local' and (ps is not c['parser'] or fn is not c['func']):
                    continue
                through_const = None
                if c['scope'] == 'class-member':
                    base_owner = base_name(c['cls_owner'])
                    fn_owner = base_name(fn.cls)
                    ptxt = ' '.join(fn.params)
                    const_param = re.search(r'\bconst\s+(?:\w+\s*::\s*)*' + re.escape(base_owner) + r'\b[^,]*&', ptxt) is not None
                    if fn_owner == base_owner and not fn.is_init:
                        if fn.const:
                            through_const = 'member'
                        elif const_param:
                            through_const = 'param'
                        else:
                            continue          # non-const member / ctor: a mutating operation by contract
                    elif const_param:
                        through_const = 'param'
                    else:
                        # nested helper classes (e.g. AnyManifold::wrapper) are different objects
                        continue
                ws = find_writes(ps.t, fn, c, nonconst_methods)
                if ws:
                    fname = (base_name(fn.cls) + '::' if fn.cls else '') + fn.name
                    if fname not in writers:
                        writers.append(fname)
                    detail.append({'function': fname, 'file': fn.file, 'line': ws[0][0], 'how': ws[0][1],
                                   'const_member': bool(fn.const), 'via': through_const})
        if c['kind'] == 'pointerMember':
            nvars['pointer_members_examined'].append(c['name'])
            if not writers:
                continue               # pointee never mutated through a const handle: not shared mutable state
            cls = 'writtenByConst' if any(d['via'] == 'member' for d in detail) else 'perObject'
        elif writers:
            cls = 'writtenByConst'
        elif c['kind'] == 'localStatic':
            cls = 'onceInit'
        elif c['kind'] in ('mutableMember', 'threadLocal', 'macro'):
            cls = 'perObject' if c['kind'] != 'macro' else 'writtenByConst'
        else:
            cls = 'readOnlyAfterInit'
        inventory.append({'name': c['name'], 'kind': c['kind'], 'const': bool(c['const']), 'cls': cls, 'writers': writers,
                          'file': c['file'], 'line': c['line'], 'type': c['type'], 'writes': detail})
    for m in macro_cells:
        inventory.append({'name': m['name'], 'kind': 'macro', 'const': bool(m['const']), 'cls': 'writtenByConst', 'writers': [],
                          'file': m['file'], 'line': m['line'], 'type': '', 'writes': []})
    # stable order, unique names
    inventory.sort(key=lambda e: (e['name'], e['file'], e['line']))
    seen = {}
    for e in inventory:
        n = seen.get(e['name'], 0)
        seen[e['name']] = n + 1
        if n:
            e['name'] += f'#{n + 1}'
    stats = {'files': len(files), 'functions_parsed': nfuncs, 'const_member_functions': nconst,
             'classes': sum(p.nclass for p in parsers), 'method_names': len(decls), **nvars}
    return {'inventory': inventory, 'stats': stats}


def lean_string(s):
    return '"' + s.replace('\\', '\\\\').replace('"', '\\"') + '"'


def to_lean(inv):
    out = ['/-',
           '  SmoothProofs/Gen/SharedState.lean — GENERATED on every run by tools/props/c18.py (c18scan.py) from',
           '  the current /repo/include/smooth.  Do not edit.  Compared with C18.expectedInventory by `decide`.',
           '-/',
           'import SmoothProofs.C18Inventory',
           '',
           'namespace C18.Gen',
           'open C18',
           '',
           'def inventory : List Entry := [']
    rows = []
    for e in inv:
        ws = ', '.join(lean_string(w) for w in e['writers'])
        kind = 'macroBody' if e['kind'] == 'macro' else e['kind']
        rows.append(f'  ⟨{lean_string(e["name"])}, .{kind}, {"true" if e["const"] else "false"}, .{e["cls"]}, [{ws}]⟩')
    out.append(',\n'.join(rows))
    out += [']', '', 'end C18.Gen', '']
    return '\n'.join(out)


if __name__ == '__main__':
    import json, sys
    r = scan(sys.argv[1] if len(sys.argv) > 1 else os.path.join(os.environ.get('VERIF_REPO', '/repo'), 'include'))
    for e in r['inventory']:
        print(f"{e['cls']:18s} {e['kind']:14s} {'const' if e['const'] else '     '} {e['name']}   [{e['file']}:{e['line']}]  writers={e['writers']}")
        for w in e['writes']:
            print('      ', w)
    print(json.dumps(r['stats'], indent=1))
