"""C11 — cumulative spline evaluation (cspline_eval_vs/gs, cspline_eval_dg_dvs/dgs).

harness/cspline.cpp (one binary per degree K = 1..6) → T1 against the Lean model (SmoothModel/CSpline.lean,
CSplineJac.lean) → audit with the independent oracle of Driver/OpsSpline.lean (product of fixed-point matrix
exponentials; u-derivatives by Leibniz in jet form; Jacobians by central differences of the oracle).

This module also holds the machinery shared with c13.py (harness build, generation, eval mode, parallel driver).
"""
import math, os, random, sys
from concurrent.futures import ThreadPoolExecutor
sys.path.insert(0, os.path.dirname(os.path.dirname(__file__)))
import vlib
from vlib import Line, dec, enc

KS = [1, 2, 3, 4, 5, 6]
GROUPS = ['SO3', 'SE2', 'SE3', 'B[SO3,T3]', 'T3']
DOF = {'SO3': 3, 'SE2': 3, 'SE3': 6, 'B[SO3,T3]': 6, 'T3': 3}
REP = {'SO3': 4, 'SE2': 4, 'SE3': 7, 'B[SO3,T3]': 7, 'T3': 3}
# tangent indices of the rotation part(s)
ROT = {'SO3': [0, 1, 2], 'SE2': [2], 'SE3': [3, 4, 5], 'B[SO3,T3]': [0, 1, 2], 'T3': []}


def specs():
    return [(f'cspline{k}', 'cspline.cpp', (f'-DKSEL={k}',)) for k in KS]


def gen_lines(ctx, n, nconf):
    """run the six binaries (parallel) and return all protocol lines"""
    bins = vlib.build_harnesses(specs())

    def one(k):
        return vlib.run_harness(bins[f'cspline{k}'], [n, nconf], env={'VERIF_SEED': str(ctx['seed'])})
    with ThreadPoolExecutor(max_workers=6) as ex:
        raws = list(ex.map(one, KS))
    lines = []
    for raw in raws:
        lines += vlib.parse_lines(raw)
    return lines


def line_K(req_or_line):
    w = req_or_line.ins[0] if isinstance(req_or_line, Line) else req_or_line.split()[3]
    return int(round(dec(w, 'f64')))


def eval_requests(requests):
    """evaluate request lines with the IMPLEMENTATION (eval mode of the binary of their degree)"""
    bins = vlib.build_harnesses(specs())
    out = [None] * len(requests)
    byk = {}
    for i, r in enumerate(requests):
        try:
            k = line_K(r)
        except Exception:
            k = 0
        byk.setdefault(k, []).append(i)

    def one(k):
        if k not in KS:
            return k, ['SKIP'] * len(byk[k])
        return k, vlib.run_harness(bins[f'cspline{k}'], ['eval'], stdin='\n'.join(requests[i] for i in byk[k]) + '\n')
    with ThreadPoolExecutor(max_workers=6) as ex:
        for k, raw in ex.map(one, list(byk)):
            for i, r in zip(byk[k], raw):
                out[i] = None if r.startswith('SKIP') else Line(r)
    return out


def run_driver_par(reqs, workers=8, chunk=40):
    """vlib.run_driver on chunks in parallel processes (audit ops are CPU-heavy)"""
    if not reqs:
        return []
    chunks = [reqs[i:i + chunk] for i in range(0, len(reqs), chunk)]
    with ThreadPoolExecutor(max_workers=workers) as ex:
        res = list(ex.map(vlib.run_driver, chunks))
    return [r for c in res for r in c]


def t1(lines, ctx, exact_ops=()):
    """T1 in parallel chunks; merges stats"""
    if not lines:
        return {'stats': {}, 'breaks': []}
    chunk = max(50, (len(lines) + 7) // 8)
    parts = [lines[i:i + chunk] for i in range(0, len(lines), chunk)]
    with ThreadPoolExecutor(max_workers=8) as ex:
        res = list(ex.map(lambda p: vlib.t1_compare(p, tol_ulp=64.0, exact_ops=exact_ops, rng_seed=ctx['seed']), parts))
    stats, breaks = {}, []
    for r in res:
        breaks += r['breaks']
        for k, s in r['stats'].items():
            d = stats.setdefault(k, {'n': 0, 'worst_ulp': 0.0, 'excused_by_sensitivity': 0})
            d['n'] += s['n']
            d['worst_ulp'] = max(d['worst_ulp'], s['worst_ulp'])
            d['excused_by_sensitivity'] += s['excused_by_sensitivity']
    return {'stats': stats, 'breaks': breaks}


def broken_from_t1(t1res):
    broken = []
    by = {}
    for b in t1res['breaks']:
        l = Line(b['line'])
        by.setdefault(f'{l.op}|{l.grp}|K={line_K(l)}', []).append(b)
    for k, bs in by.items():
        broken.append({'what': 'correspondence', 'name': f'T1 {k} (implementation vs Lean model)', 'count': len(bs), 'first': bs[0]})
    return broken


def summarize_t1(stats):
    """per op|group: n, worst ulp"""
    return {k: {'n': v['n'], 'worst_ulp': round(v['worst_ulp'], 3), 'excused_by_sensitivity': v['excused_by_sensitivity']}
            for k, v in sorted(stats.items())}


# ----------------------------------------------------------------------------- C11 specifics
TOL_VALUE = 1e-12      # matrix of the value, relative to max(1, |entries|)
TOL_VALUE_GS = 1e-11   # control-point variant: differences reach pi - 1.1e-3, log amplifies rounding by <= ~1e3
TOL_DERIV = 1e-9       # velocity, acceleration, jerk and all Jacobians
SWITCH_LO, SWITCH_HI = 0.5e-4, 1.0e-2   # rotation increments |B_j w_j| in the strata "switch" and "above_switch" (sqrt(eps2) = 1e-4)


def basis_vals(K, Bw, u):
    """B~_j(u), j = 1..K from the row-major (K+1)x(K+1) matrix words"""
    B = [dec(w, 'f64') for w in Bw]
    return [sum((u ** r) * B[r * (K + 1) + j] for r in range(K + 1)) for j in range(1, K + 1)]


def region_of(l):
    """'eps2-switch' when some rotation increment B_j|w_j| (or |w_j| itself for the control-point ops, whose
    dr_expinv is evaluated at w_j) lies in the decade around sqrt(eps2) where the closed forms lose accuracy"""
    K = line_K(l)
    nb = (K + 1) ** 2
    u = dec(l.ins[1 + nb], 'f64')
    dof = DOF[l.grp]
    if l.op in ('cs_eval_vs', 'cs_dg_dvs'):
        vs = [dec(w, 'f64') for w in l.ins[2 + nb:]]
    else:
        # differences are the last K*dof outputs of cs_eval_gs; for cs_dg_dgs use the stratum tag
        if l.op == 'cs_eval_gs':
            vs = [dec(w, 'f64') for w in l.outs[-K * dof:]]
        else:
            return 'eps2-switch' if ('switch' in l.tag) else 'generic'
    bj = basis_vals(K, l.ins[1:1 + nb], u)
    for j in range(K):
        w = math.sqrt(sum(vs[j * dof + i] ** 2 for i in ROT[l.grp]))
        for a in (abs(bj[j]) * w, w):
            if SWITCH_LO <= a <= SWITCH_HI:
                return 'eps2-switch'
    return 'generic'


AUDIT_OF = {'cs_eval_vs': ('a_cs_vs', ['value', 'vel', 'acc', 'jer']),
            'cs_eval_gs': ('a_cs_gs', ['value', 'vel', 'acc', 'jer']),
            'cs_dg_dvs': ('a_cs_dvs', ['dg_dvs', 'dvel_dvs', 'dacc_dvs']),
            'cs_dg_dgs': ('a_cs_dgs', ['dg_dgs', 'dvel_dgs', 'dacc_dgs'])}


def audit_cost(l):
    K = line_K(l)
    d = DOF[l.grp]
    return {'cs_eval_vs': K, 'cs_eval_gs': 6 * K, 'cs_dg_dvs': 3 * K * K * d, 'cs_dg_dgs': 30 * K * d}[l.op] * (2 if d == 6 else 1)


class C11:
    id = 'C11'
    props_files = ['SmoothProps/C11.lean', 'SmoothProps/SrcTieLogicC11.lean']
    props_module = 'SmoothProps.C11All'
    lean_targets = ['SmoothProps.C11All']
    ops = ('cs_eval_vs', 'cs_eval_gs', 'cs_dg_dvs', 'cs_dg_dgs')
    rule = ('harness/cspline.cpp: 4 functions (all optional outputs) x K=1..6 x {SO3,SE2,SE3,Bundle<SO3,V3>,V3} x '
            '{Bernstein,Bspline} cumulative basis x u in {0,1,2^-52,1-2^-53,1/2,random} x per-difference rotation strata '
            '(zero..near_pi, 9 strata) x 5 translation strata; distinct_nontrivial = distinct (op,group,K,input bits) with a '
            'non-zero difference')
    assumptions = ['IEEE rounding is audited against the fixed-point oracle, not proved',
                   'Jacobian-of-velocity/acceleration recursions rest on T1 + audit (no theorem yet)',
                   'the basis matrix is a parameter; facts about the tables are C20']

    def prebuild(self):
        vlib.build_harnesses(specs())

    def budget(self, ctx):
        # (n per (K,G,basis), audit cost budget)
        if ctx['tier'] == 'quick':
            return 12, 150000 * ctx.get('budget', 1)
        return 60, 2000000 * ctx.get('budget', 1)

    def check_lines(self, ctx, lines, audit_budget):
        res_t1 = t1(lines, ctx)
        broken = broken_from_t1(res_t1)
        findings, astats, samples, n_aud = self.audit(ctx, lines, audit_budget)
        strata, sig = {}, set()
        for l in lines:
            for part in l.tag.split(','):
                if part.startswith('u=') or part in ('bernstein', 'bspline'):
                    strata[part] = strata.get(part, 0) + 1
            K = line_K(l)
            nb = (K + 1) ** 2
            if any(dec(w, 'f64') != 0 for w in l.ins[2 + nb:]):
                sig.add((l.op, l.grp, tuple(l.ins)))
        perK = {}
        for l in lines:
            k = f'{l.op}|K={line_K(l)}'
            perK[k] = perK.get(k, 0) + 1
        cov = {'evaluations': len(lines), 'distinct_nontrivial': len(sig), 'rule': self.rule, 'samples': samples,
               'strata_hits': strata, 'per_op_K': perK, 't1_stats': summarize_t1(res_t1['stats']),
               't1_worst_ulp': max([v['worst_ulp'] for v in res_t1['stats'].values()] or [0.0]),
               't1_breaks': len(res_t1['breaks']), 'audit_samples': n_aud, 'audit_worst': astats,
               'tolerances': {'value': TOL_VALUE, 'value_gs': TOL_VALUE_GS, 'derivatives_and_jacobians': TOL_DERIV},
               'traces_validated_against_impl': len(lines)}
        return {'coverage': cov, 'findings': findings, 'broken': broken}

    def audit(self, ctx, lines, budget):
        rnd = random.Random(ctx['seed'] * 7 + 1)
        cand = [l for l in lines if l.op in AUDIT_OF]
        # spend the budget evenly over the four ops, cheapest first inside an op
        chosen = []
        for op in self.ops:
            ls = [l for l in cand if l.op == op]
            rnd.shuffle(ls)
            b = budget / 4.0
            for l in ls:
                c = audit_cost(l)
                if b - c < 0 and op != 'cs_eval_vs':
                    continue
                b -= c
                chosen.append(l)
        reqs = [' '.join([AUDIT_OF[l.op][0], l.grp, 'f64a'] + l.ins + l.outs) for l in chosen]
        reps = run_driver_par(reqs)
        findings, worst, samples = [], {}, []
        n = 0
        for l, rep, rq in zip(chosen, reps, reqs):
            if rep.startswith('ERR'):
                raise vlib.MachineryError(f'audit op failed: {rq[:80]} -> {rep}')
            K = line_K(l)
            if rep.startswith('NONFINITE'):
                findings.append({'property': 'C11', 'key': {'op': l.op, 'group': l.grp, 'kind': 'nonfinite'}, 'err': None,
                                 'what': 'non-finite output', 'line': l.raw})
                continue
            n += 1
            errs = [dec(w, 'f64') for w in rep.split()]
            names = AUDIT_OF[l.op][1]
            reg = None
            for i, nm in enumerate(names):
                tol = (TOL_VALUE_GS if l.op == 'cs_eval_gs' else TOL_VALUE) if nm == 'value' else TOL_DERIV
                k = f'{l.op}|{l.grp}|{nm}'
                worst[k] = max(worst.get(k, 0.0), errs[i])
                if not (errs[i] <= tol):
                    if reg is None:
                        reg = region_of(l)
                    findings.append({'property': 'C11', 'key': {'op': l.op, 'group': l.grp, 'output': nm, 'region': reg},
                                     'err': errs[i], 'tol': tol, 'K': K, 'stratum': l.tag,
                                     'what': f'{l.op} output {nm} differs from the independent oracle (product of matrix '
                                             f'exponentials, Leibniz / finite differences in fixed point)',
                                     'line': l.raw, 'audit_request': rq[:200]})
            if l.op == 'cs_eval_gs' and len(errs) > 4:
                worst['max_rotation_angle_of_differences'] = max(worst.get('max_rotation_angle_of_differences', 0.0), math.sqrt(errs[4]))
            if len(samples) < 8 and n % 53 == 1:
                samples.append({'op': l.op, 'group': l.grp, 'K': K, 'stratum': l.tag, 'request': l.request()[:240],
                                'oracle_errors': dict(zip(names, errs))})
        return findings, {k: float(f'{v:.3e}') for k, v in sorted(worst.items())}, samples, n

    def explore(self, ctx):
        n, ab = self.budget(ctx)
        lines = [l for l in gen_lines(ctx, n, 0) if l.op in self.ops]
        return self.check_lines(ctx, lines, ab)

    def search(self, ctx, broken):
        n, ab = self.budget(dict(ctx, tier='thorough'))
        lines = [l for l in gen_lines(dict(ctx, seed=ctx['seed'] + 7919), n, 0) if l.op in self.ops]
        res = self.check_lines(ctx, lines, ab)
        return {'coverage': {'evaluations': len(lines)}, 'findings': res['findings']}

    def replay(self, ctx, payload):
        reqs = []
        for c in payload.get('cases', []):
            if 'line' in c:
                reqs.append(Line(c['line']).request())
        for b in payload.get('no_longer_checks', []) + payload.get('broken', []):
            if isinstance(b.get('first'), dict) and 'line' in b['first']:
                reqs.append(Line(b['first']['line']).request())
        if not reqs:
            return {'coverage': {}, 'findings': [], 'broken': payload.get('no_longer_checks', [])}
        lines = [l for l in eval_requests(reqs) if l is not None]
        return self.check_lines(ctx, lines, 1e12)


def make():
    return C11()
