#!/bin/bash
# integrator's own confirmation of seeded changes: existing tests (agent's build dir, change applied), demo with/without
for p in "$@"; do
  echo "=== $p"
  if [ -d /tmp/seed/$p/_build ]; then
    (cd /tmp/seed/$p && git diff --stat | tail -1)
    cmake --build /tmp/seed/$p/_build -j4 > /tmp/seed/$p-work/confirm_build.log 2>&1; echo "build rc=$?"
    ctest --test-dir /tmp/seed/$p/_build -j4 --timeout 900 2>&1 | tail -3
  fi
  for v in with without; do
    if [ $v = with ]; then inc=/tmp/sv/$p/include; else inc=/repo/include; fi
    g++ -std=c++20 -O1 -w -I$inc -I/verif/build/gen -I/usr/include/eigen3 /verif/seeded/$p/demo.cpp -o /tmp/seed/$p-work/demo_$v 2> /tmp/seed/$p-work/demo_$v.err
    /tmp/seed/$p-work/demo_$v > /tmp/seed/$p-work/demo_$v.out 2>&1; echo "demo $v change: exit $? : $(tail -1 /tmp/seed/$p-work/demo_$v.out | cut -c1-160)"
  done
done
