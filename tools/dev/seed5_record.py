#!/usr/bin/env python3
"""seed5_record.py <id> : add what I (the verifier) ran and saw to seeded/<id>e/meta.json from build/seed5_<id>.log"""
import json, re, sys
for p in sys.argv[1:]:
    log = open(f'/verif/build/seed5_{p}.log').read()
    mp = f'/verif/seeded/{p}e/meta.json'
    m = json.load(open(mp))
    m['confirmed_by_verifier'] = {
        'ran': f'tools/dev/seed5_verify.sh {p}: scratch worktree of /repo HEAD + patch.diff; cmake --build + ctest of the complete suite in the '
               'agent\'s build tree with the change applied; demo.cpp compiled against the changed and against the unchanged headers; then the FULL '
               f'check `VERIF_REPO=<scratch tree> python3 tools/check.py {p}` (translators, lake build, axiom audit, harness, search)',
        'tests': (re.search(r'\d+% tests passed.*', log) or [''])[0] if re.search(r'\d+% tests passed.*', log) else '',
        'demo_with_change': (re.search(r'demo with change: (.*)', log) or ['', ''])[1],
        'demo_without_change': (re.search(r'demo without change: (.*)', log) or ['', ''])[1],
        'check_rc': (re.search(r'check rc=(\d+)', log) or ['', ''])[1],
        'check_lines': [l[:300] for l in log.splitlines() if l.startswith('VIOLATION')],
    }
    json.dump(m, open(mp, 'w'), indent=1)
    print(p, m['confirmed_by_verifier']['tests'], '| rc', m['confirmed_by_verifier']['check_rc'])
