#!/usr/bin/env python3
"""Sensitivity sweep of the source tie tools/gen_logic.py + gen_logic2.py (DESIGN.md §8.1).

  git -C /repo worktree add --detach /tmp/srclogic2_scratch HEAD
  python3 tools/dev/srclogic_sweep.py /tmp/srclogic2_scratch /tmp/srclogic2_work [name-filter]
  git -C /repo worktree remove --force /tmp/srclogic2_scratch

For every mutation the scratch tree is reset, the mutation applied, the translators run into a PRIVATE directory
(<work>/ov/SweepGen/*.lean) and the tie files are checked against private copies (import line redirected) — the shared
lake tree is only read.  Verdict per mutation:
  translator: <message>         hard error of the translator
  tie: <theorem names>          named tie theorems that no longer check
  generated file ill-typed      (counts as detected, reported separately)
  IDENTICAL                     regenerated output byte-identical (expected for comment / whitespace edits)
"""
import os, re, subprocess, sys, time

ROOT = os.path.dirname(os.path.dirname(os.path.dirname(os.path.abspath(__file__))))
LEAN = os.path.join(ROOT, 'lean')
GEN2TIE = {'LogicSrc.lean': 'SrcTieLogic.lean', 'LogicSrcC08.lean': 'SrcTieLogicC08.lean', 'LogicSrcC10.lean': 'SrcTieLogicC10.lean',
           'LogicSrcC11.lean': 'SrcTieLogicC11.lean', 'LogicSrcC12.lean': 'SrcTieLogicC12.lean',
           'LogicSrcC19.lean': 'SrcTieLogicC19.lean', 'LogicSrcC07.lean': 'SrcTieLogicC07.lean'}

D = 'include/smooth/detail/diff_impl.hpp'
T = 'include/smooth/optim/tr_solver.hpp'
C = 'include/smooth/spline/detail/cumulative_spline_impl.hpp'
S = 'include/smooth/spline/detail/spline_impl.hpp'
L = 'include/smooth/detail/lie_group_sparse_impl.hpp'

# (name, file, old, new [, occurrence index (0-based), default: must be unique])  |  (name, 'patch', path)
MUT = [
    ('seed C08', 'patch', 'seeded/C08/patch.diff'),
    ('seed C08b', 'patch', 'seeded/C08b/patch.diff'),
    ('seed C08c', 'patch', 'seeded/C08c/patch.diff'),
    ('seed C10', 'patch', 'seeded/C10/patch.diff'),
    ('seed C10b', 'patch', 'seeded/C10b/patch.diff'),
    ('seed C11', 'patch', 'seeded/C11/patch.diff'),
    ('seed C11b', 'patch', 'seeded/C11b/patch.diff'),
    ('seed C12', 'patch', 'seeded/C12/patch.diff'),
    ('seed C12b', 'patch', 'seeded/C12b/patch.diff'),
    ('seed C12c', 'patch', 'seeded/C12c/patch.diff'),
    ('seed C19', 'patch', 'seeded/C19/patch.diff'),
    ('seed C19b', 'patch', 'seeded/C19b/patch.diff'),
    # ---- tr_solver.hpp
    ('trsolver: diagonal lambda * d(i)', T, 'H.coeffRef(i, i) += lambda * d(i) * d(i);', 'H.coeffRef(i, i) += lambda * d(i);'),
    ('trsolver: diagonal d(i) * lambda * d(i)', T, 'H.coeffRef(i, i) += lambda * d(i) * d(i);', 'H.coeffRef(i, i) += d(i) * lambda * d(i);'),
    ('trsolver: diagonal assigned not added', T, 'H.coeffRef(i, i) += lambda * d(i) * d(i);', 'H.coeffRef(i, i) = lambda * d(i) * d(i);'),
    ('trsolver: diagonal loop skips last row', T, 'for (auto i = 0u; i < H.rows(); ++i)', 'for (auto i = 0u; i + 1 < H.rows(); ++i)'),
    ('trsolver: H = J J^T', T, 'Ht H = J.transpose() * J;', 'Ht H = J * J.transpose();'),
    ('trsolver: rhs sign', T, 'ldlt.solve(-J.transpose() * r);', 'ldlt.solve(J.transpose() * r);'),
    ('trsolver: Dx sign', T, 'Dx  = -d.cwiseProduct(x);', 'Dx  = d.cwiseProduct(x);'),
    ('trsolver: d_q = Dx', T, 'd_q = d.cwiseProduct(Dx);', 'd_q = Dx;'),
    ('trsolver: second solve on Dx', T, 'y   = ldlt.solve(d_q);', 'y   = ldlt.solve(Dx);'),
    ('trsolver: dphi without normalisation', T, '-d.cwiseProduct(Dx.normalized()).dot(y);', '-d.cwiseProduct(Dx).dot(y);'),
    ('trsolver: dphi sign', T, '= -d.cwiseProduct(Dx.normalized()).dot(y);', '= d.cwiseProduct(Dx.normalized()).dot(y);'),
    ('trsolver: lambda = Delta', T, 'const double lambda = 1. / Delta;', 'const double lambda = Delta;'),
    ('trsolver: lambda = 2/Delta', T, 'const double lambda = 1. / Delta;', 'const double lambda = 2. / Delta;'),
    ('trsolver: solve with Delta instead of lambda', T, 'solve_linear_ldlt(J, d, r, lambda);', 'solve_linear_ldlt(J, d, r, Delta);'),
    ('trsolver: returns Delta', T, 'return {dx, lambda};', 'return {dx, Delta};'),
    ('trsolver: comment edit', T, '// num variables', '// number of variables'),
    # ---- cumulative_spline_impl.hpp
    ('cspline: vel -= dBj vj', C, 'vel.value().noalias() += dBj * vj;', 'vel.value().noalias() -= dBj * vj;'),
    ('cspline: acc update order swapped', C, '        acc.value().noalias() += dBj * vel_bracket_vj;\n        acc.value().noalias() += d2Bj * vj;', '        acc.value().noalias() += d2Bj * vj;\n        acc.value().noalias() += dBj * vel_bracket_vj;'),
    ('cspline: bracket operands swapped', C, 'const Tangent<G> vel_bracket_vj = ad<G>(vel.value()) * vj;', 'const Tangent<G> vel_bracket_vj = ad<G>(vj) * vel.value();'),
    ('cspline: bracket before vel update', C, '      vel.value().applyOnTheLeft(Adj);\n      vel.value().noalias() += dBj * vj;\n', '      vel.value().noalias() += dBj * vj;\n      vel.value().applyOnTheLeft(Adj);\n'),
    ('cspline: jerk coefficient 2 -> 3', C, 'jer.value().noalias() += 2 * dBj * ad<G>(acc.value()) * vj;', 'jer.value().noalias() += 3 * dBj * ad<G>(acc.value()) * vj;'),
    ('cspline: jerk association 2*(dBj*ad)', C, 'jer.value().noalias() += 2 * dBj * ad<G>(acc.value()) * vj;', 'jer.value().noalias() += 2 * (dBj * ad<G>(acc.value())) * vj;'),
    ('cspline: jerk second term sign', C, 'jer.value().noalias() -= dBj * dBj * ad<G>(vel_bracket_vj) * vj;', 'jer.value().noalias() += dBj * dBj * ad<G>(vel_bracket_vj) * vj;'),
    ('cspline: Adj without inverse', C, 'const auto Adj      = Ad(inverse(exp_Bt_v));', 'const auto Adj      = Ad(exp_Bt_v);'),
    ('cspline: composition order', C, 'g                  = composition(g, exp_Bt_v);', 'g                  = composition(exp_Bt_v, g);'),
    ('cspline: eval_vs loop from column 0', C, 'for (const auto & [j, vj] : utils::zip(std::views::iota(1u), vs)) {\n    const Scalar<G> Bj = uvec.dot(Bcum.col(j));\n    const G exp_Bt_v', 'for (const auto & [j, vj] : utils::zip(std::views::iota(0u), vs)) {\n    const Scalar<G> Bj = uvec.dot(Bcum.col(j));\n    const G exp_Bt_v'),
    ('cspline: d3uvec maps row 2', C, 'd3uvec(U[3].data());', 'd3uvec(U[2].data());'),
    ('cspline: d2Bj from duvec', C, 'const Scalar<G> d2Bj            = d2uvec.dot(Bcum.col(j));', 'const Scalar<G> d2Bj            = duvec.dot(Bcum.col(j));'),
    ('cspline: dg_dvs new block without Bj', C, '+= Bj * dr_exp<G>(Bj * vj);', '+= dr_exp<G>(Bj * vj);'),
    ('cspline: dg_dvs Adj of +Bj vj', C, 'const TangentMap<G> Adj   = Ad(::smooth::exp<G>(-Bj * vj));', 'const TangentMap<G> Adj   = Ad(::smooth::exp<G>(Bj * vj));'),
    ('cspline: dg_dvs leftCols(j * Dof)', C, 'dg_dvs.leftCols((j - 1) * Dof<G>).applyOnTheLeft(Adj);', 'dg_dvs.leftCols(j * Dof<G>).applyOnTheLeft(Adj);'),
    ('cspline: dvel_dvs identity coefficient d2Bj', C, 'dvel_dvs->template middleCols<Dof<G>>((j - 1) * Dof<G>) += dBj * TangentMap<G>::Identity();', 'dvel_dvs->template middleCols<Dof<G>>((j - 1) * Dof<G>) += d2Bj * TangentMap<G>::Identity();'),
    ('cspline: dg_dvs vel updated before dvel', C, '      dvel_dvs->template middleCols<Dof<G>>((j - 1) * Dof<G>) += Bj * Adj * ad<G>(vel) * DrExp;\n', '      vel.applyOnTheLeft(Adj);\n      dvel_dvs->template middleCols<Dof<G>>((j - 1) * Dof<G>) += Bj * Adj * ad<G>(vel) * DrExp;\n'),
    ('cspline: dg_dvs acc sum order', C, 'acc += dBj * ad<G>(vel) * vj + d2Bj * vj;', 'acc += d2Bj * vj + dBj * ad<G>(vel) * vj;'),
    ('cspline: dacc_dvs minus -> plus', C, 'dacc_dvs->leftCols(j * Dof<G>) -= dBj * ad<G>(vj) * dvel_dvs->leftCols(j * Dof<G>);', 'dacc_dvs->leftCols(j * Dof<G>) += dBj * ad<G>(vj) * dvel_dvs->leftCols(j * Dof<G>);'),
    ('cspline: dg_dgs next block index j', C, 'dg_dgs.template middleCols<Dof<G>>((j + 1) * Dof<G>) += dg_dvs', 'dg_dgs.template middleCols<Dof<G>>(j * Dof<G>) += dg_dvs'),
    ('cspline: dg_dgs Dr/Dl swapped', C, 'dg_dgs.template middleCols<Dof<G>>(j * Dof<G>) -= dg_dvs.template middleCols<Dof<G>>(j * Dof<G>) * DlExpinv;', 'dg_dgs.template middleCols<Dof<G>>(j * Dof<G>) -= dg_dvs.template middleCols<Dof<G>>(j * Dof<G>) * DrExpinv;'),
    ('cspline: dvel_dgs reads dg_dvs', C, 'dvel_dgs->template middleCols<Dof<G>>(j * Dof<G>) -= dvel_dvs.template middleCols<Dof<G>>(j * Dof<G>) * DlExpinv;', 'dvel_dgs->template middleCols<Dof<G>>(j * Dof<G>) -= dg_dvs.template middleCols<Dof<G>>(j * Dof<G>) * DlExpinv;'),
    ('cspline: dg_dgs exp_series column j', C, 'const Scalar<G> Bj = uvec.dot(Bcum.col(1 + j));', 'const Scalar<G> Bj = uvec.dot(Bcum.col(j));'),
    ('cspline: dg_dgs first block Ad(exp_series)', C, 'dg_dgs.template leftCols<Dof<G>>() += Ad(inverse(exp_series));', 'dg_dgs.template leftCols<Dof<G>>() += Ad(exp_series);'),
    ('cspline: eval_gs difference reversed', C, 'static constexpr auto sub = [](const auto & x1, const auto & x2) { return rminus(x2, x1); };\n  const auto vs             = gs | utils::views::pairwise_transform(sub);\n\n  return', 'static constexpr auto sub = [](const auto & x1, const auto & x2) { return rminus(x1, x2); };\n  const auto vs             = gs | utils::views::pairwise_transform(sub);\n\n  return'),
    ('cspline: eval_gs composition on the right', C, 'return composition(*std::ranges::begin(gs), cspline_eval_vs<K, G>(vs, Bcum, u, vel, acc, jer));', 'return composition(cspline_eval_vs<K, G>(vs, Bcum, u, vel, acc, jer), *std::ranges::begin(gs));'),
    ('cspline: comment edit', C, '// need vel for computation', '// velocity is needed', 0),
    # ---- spline_impl.hpp
    ('spline: concat_global end times not shifted', S, 'm_end_t[N1 + i]   = tend + other.m_end_t[i];\n    m_end_g[N1 + i]   = other.m_end_g[i];', 'm_end_t[N1 + i]   = other.m_end_t[i];\n    m_end_g[N1 + i]   = other.m_end_g[i];'),
    ('spline: concat_global overwrites m_end_g[N1]', S, 'm_end_g[N1 - 1] = other.m_g0;', 'm_end_g[N1] = other.m_g0;'),
    ('spline: concat_global tend after resize', S, '  const double tend = t_max();\n\n  if (empty()) {\n    m_g0 = other.m_g0;', '  if (empty()) {\n    m_g0 = other.m_g0;'),
    ('spline: concat_global fill loop over N1', S, 'for (auto i = 0u; i < N2; ++i) {\n    m_end_t[N1 + i]   = tend + other.m_end_t[i];\n    m_end_g[N1 + i]   = other.m_end_g[i];', 'for (auto i = 0u; i < N1; ++i) {\n    m_end_t[N1 + i]   = tend + other.m_end_t[i];\n    m_end_g[N1 + i]   = other.m_end_g[i];'),
    ('spline: concat_local composition order', S, 'm_end_g[N1 + i]   = composition(gend, other.m_end_g[i]);', 'm_end_g[N1 + i]   = composition(other.m_end_g[i], gend);'),
    ('spline: concat_local empty case copies g0', S, 'm_g0 = composition(m_g0, other.m_g0);', 'm_g0 = other.m_g0;'),
    ('spline: concat_local back() not composed', S, 'm_end_g.back() = composition(m_end_g.back(), other.m_g0);', 'm_end_g.back() = other.m_g0;'),
    ('spline: concat_local T0 from Del', S, 'm_seg_T0[N1 + i]  = other.m_seg_T0[i];\n    m_seg_Del[N1 + i] = other.m_seg_Del[i];\n  }\n\n  return *this;\n}\n\ntemplate<int K, LieGroup G>\nSpline<K, G> & Spline<K, G>::operator+=', 'm_seg_T0[N1 + i]  = other.m_seg_Del[i];\n    m_seg_Del[N1 + i] = other.m_seg_Del[i];\n  }\n\n  return *this;\n}\n\ntemplate<int K, LieGroup G>\nSpline<K, G> & Spline<K, G>::operator+='),
    ('spline: make_local inverts', S, 'm_g0 = Identity<G>();', 'm_g0 = inverse(m_g0);'),
    ('spline: t_max of empty is 1', S, 'if (empty()) { return 0; }', 'if (empty()) { return 1; }'),
    ('spline: operator() t <= 0 is outside', S, 'if (empty() || t < S(0)) {', 'if (empty() || t <= S(0)) {'),
    ('spline: operator() t >= t_max is outside', S, '} else if (t > S(t_max())) {', '} else if (t >= S(t_max())) {'),
    ('spline: operator() ta from m_end_t[istar]', S, 'const double ta = istar == 0 ? 0 : m_end_t[istar - 1];', 'const double ta = istar == 0 ? 0 : m_end_t[istar];'),
    ('spline: operator() u association', S, 'S(m_seg_T0[istar]) + S(Del) * (t - S(ta)) / S(T)', 'S(m_seg_T0[istar]) + S(Del) * ((t - S(ta)) / S(T))'),
    ('spline: operator() clamp to [0,2]', S, ', S(0.), S(1.));', ', S(0.), S(2.));'),
    ('spline: operator() compensation for T0 >= 0', S, 'if (m_seg_T0[istar] > 0) {', 'if (m_seg_T0[istar] >= 0) {'),
    ('spline: operator() vel scaling inverted', S, 'vel.value() *= S(Del / T);', 'vel.value() *= S(T / Del);'),
    ('spline: operator() acc scaling Del/T', S, 'acc.value() *= S(Del * Del / (T * T));', 'acc.value() *= S(Del / T);'),
    ('spline: operator() result composition order', S, 'return composition(cast<S>(g0), add);', 'return composition(add, cast<S>(g0));'),
    ('spline: operator() g0 of first segment', S, 'G g0 = istar == 0 ? m_g0 : m_end_g[istar - 1];', 'G g0 = istar == 0 ? m_end_g[istar - 1] : m_g0;'),
    ('spline: find_idx without + 1', S, 'std::distance(m_end_t.begin(), it)) + 1, m_end_t.size() - 1);', 'std::distance(m_end_t.begin(), it)), m_end_t.size() - 1);'),
    ('spline: find_idx clamp to size', S, 'std::distance(m_end_t.begin(), it)) + 1, m_end_t.size() - 1);', 'std::distance(m_end_t.begin(), it)) + 1, m_end_t.size());'),
    ('spline: arclength break on t < end', S, 'if (i > 0 && t <= m_end_t[i - 1]) { break; }', 'if (i > 0 && t < m_end_t[i - 1]) { break; }'),
    ('spline: arclength without min(t, tb)', S, '(std::min<double>(t, tb) - ta) / (tb - ta);', '(t - ta) / (tb - ta);'),
    ('spline: arclength t not clamped', S, '  t              = std::max<double>(t, 0);\n', ''),
    ('spline: arclength integrand coefficient', S, '3 * coefs(3, k), 2 * coefs(2, k), coefs(1, k)', '3 * coefs(3, k), coefs(2, k), coefs(1, k)'),
    ('spline: crop empty interval test strict', S, 'if (tb <= ta) { return Spline(); }', 'if (tb < ta) { return Spline(); }'),
    ('spline: crop Nseg without + 1', S, 'std::size_t Nseg     = find_idx(tb) + 1 - i0;', 'std::size_t Nseg     = find_idx(tb) - i0;'),
    ('spline: crop decrement for Nseg >= 1', S, 'if (Nseg >= 2 && m_end_t[i0 + Nseg - 2] == tb) { --Nseg; }', 'if (Nseg >= 1 && m_end_t[i0 + Nseg - 2] == tb) { --Nseg; }'),
    ('spline: crop decrement test index', S, 'if (Nseg >= 2 && m_end_t[i0 + Nseg - 2] == tb) { --Nseg; }', 'if (Nseg >= 2 && m_end_t[i0 + Nseg - 1] == tb) { --Nseg; }'),
    ('spline: crop last element test i == Nseg', S, 'if (i == Nseg - 1) {', 'if (i == Nseg) {'),
    ('spline: crop last end time not shifted', S, 'end_t[i] = tb - ta;', 'end_t[i] = tb;'),
    ('spline: crop inner end time not shifted', S, 'end_t[i] = m_end_t[i0 + i] - ta;', 'end_t[i] = m_end_t[i0 + i];'),
    ('spline: crop localize composes on the right', S, 'end_g[i] = localize ? composition(inverse(ga), m_end_g[i0 + i]) : m_end_g[i0 + i];', 'end_g[i] = localize ? composition(m_end_g[i0 + i], inverse(ga)) : m_end_g[i0 + i];'),
    ('spline: crop first block Del before T0', S, '    seg_T0[0] += seg_Del[0] * (sa - tta) / (ttb - tta);\n    seg_Del[0] *= (sb - sa) / (ttb - tta);', '    seg_Del[0] *= (sb - sa) / (ttb - tta);\n    seg_T0[0] += seg_Del[0] * (sa - tta) / (ttb - tta);'),
    ('spline: crop first block sb = tb', S, '    const double sa  = ta;\n    const double sb  = ttb;', '    const double sa  = ta;\n    const double sb  = tb;'),
    ('spline: crop last block tta index', S, 'const double tta = Nseg == 1 ? ta : m_end_t[i0 + Nseg - 2];', 'const double tta = Nseg == 1 ? ta : m_end_t[i0 + Nseg - 1];'),
    ('spline: crop last block writes element 0', S, 'seg_Del[Nseg - 1] *= (sb - sa) / (ttb - tta);', 'seg_Del[0] *= (sb - sa) / (ttb - tta);'),
    ('spline: crop g0 swapped', S, 'ret.m_g0      = localize ? Identity<G>() : std::move(ga);', 'ret.m_g0      = localize ? std::move(ga) : Identity<G>();'),
    ('spline: comment edit', S, '// crop first segment', '// re-parameterise the first segment'),
    # ---- lie_group_sparse_impl.hpp
    ('sparse: identity write off-diagonal', L, 'sp.coeffRef(i0 + i, i0 + i) = 1;', 'sp.coeffRef(i0 + i, i) = 1;'),
    ('sparse: identity writes 0', L, 'sp.coeffRef(i0 + i, i0 + i) = 1;', 'sp.coeffRef(i0 + i, i0 + i) = 0;'),
    ('sparse: dense write transposed', L, 'sp.coeffRef(i0 + it.row(), i0 + it.col()) = D(it.row(), it.col());', 'sp.coeffRef(i0 + it.row(), i0 + it.col()) = D(it.col(), it.row());'),
    ('sparse: dense write without row offset', L, 'sp.coeffRef(i0 + it.row(), i0 + it.col()) = D(it.row(), it.col());', 'sp.coeffRef(it.row(), i0 + it.col()) = D(it.row(), it.col());'),
    ('sparse: Inv selects dr_exp', L, 'if constexpr (Inv)\n        return dr_expinv<G>(a);\n      else\n        return dr_exp<G>(a);', 'if constexpr (Inv)\n        return dr_exp<G>(a);\n      else\n        return dr_expinv<G>(a);'),
    ('sparse: dispatch commutative test negated', L, 'if constexpr (IsCommutative<G>) {\n    // identity matrix', 'if constexpr (!IsCommutative<G>) {\n    // identity matrix'),
    ('sparse: dispatch specialised method for Inv swapped', L, '} else if constexpr (!Inv && requires { T::dr_exp_sparse(sp, a, i0); }) {', '} else if constexpr (Inv && requires { T::dr_exp_sparse(sp, a, i0); }) {'),
    ('sparse: hessian block uses %', L, 'const auto block = i0 + (it.col() / Dof<G>);', 'const auto block = i0 + (it.col() % Dof<G>);'),
    ('sparse: hessian col without offset', L, 'const auto col   = i0 + (it.col() % Dof<G>);', 'const auto col   = (it.col() % Dof<G>);'),
    ('sparse: hessian column stride cols()', L, 'sp.coeffRef(row, sp.rows() * block + col) = D(it.row(), it.col());', 'sp.coeffRef(row, sp.cols() * block + col) = D(it.row(), it.col());'),
    ('sparse: hessian sweep over Dof columns only', L, 'for (auto i = 0u; i < Dof<G> * Dof<G>; ++i) {', 'for (auto i = 0u; i < Dof<G>; ++i) {\n      // half', 0),
    ('sparse: d2 commutative branch writes', L, '    // zero matrix--do nothing\n', '    sp.coeffs().setZero();\n'),
    ('sparse: comment edit', L, '// fall back on dense method+pattern', '// dense fallback'),
    # ---- regression of the first-generation ties (LogicSrc.lean / SrcTieLogic.lean)
    ('old: CeresStrategy initial delta', 'include/smooth/optim/tr_strategy.hpp', 'double m_delta{10000};', 'double m_delta{1000};'),
    ('old: binary search loop guard', 'include/smooth/detail/utils.hpp', 'while (left + 1 < rght)', 'while (left + 2 < rght)'),
    # ---- diff_impl.hpp
    ('diff: eps = cbrt-like (sqrt dropped)', D, 'const Scalar eps = std::sqrt(Eigen::NumTraits<Scalar>::epsilon());', 'const Scalar eps = Eigen::NumTraits<Scalar>::epsilon();'),
    ('diff: sqrteps = eps', D, 'const auto sqrteps = std::sqrt(eps);', 'const auto sqrteps = eps;'),
    ('diff: K=1 fallback 2*eps', D, 'if (eps_j == Scalar(0.)) { eps_j = eps; }', 'if (eps_j == Scalar(0.)) { eps_j = 2 * eps; }'),
    ('diff: K=1 no abs', D, 'eps_j *= abs(w[j]);', 'eps_j *= w[j];'),
    ('diff: K=1 restore sign', D, 'w             = rplus<W>(w, (-eps_j * Eigen::Vector<Scalar, Nx_j>::Unit(nx_j, j)).eval());', 'w             = rplus<W>(w, (eps_j * Eigen::Vector<Scalar, Nx_j>::Unit(nx_j, j)).eval());'),
    ('diff: K=1 restore dropped', D, '        w             = rplus<W>(w, (-eps_j * Eigen::Vector<Scalar, Nx_j>::Unit(nx_j, j)).eval());\n', ''),
    ('diff: K=1 column I0 + j -> j', D, 'J.col(I0 + j) = rminus<Result>', 'J.col(j) = rminus<Result>'),
    ('diff: K=1 rminus operands swapped', D, 'rminus<Result>(std::apply(f, x_nc), fval) / eps_j', 'rminus<Result>(fval, std::apply(f, x_nc)) / eps_j'),
    ('diff: K=1 quotient by eps', D, 'rminus<Result>(std::apply(f, x_nc), fval) / eps_j', 'rminus<Result>(std::apply(f, x_nc), fval) / eps'),
    ('diff: K=1 I0 += dropped', D, '      I0 += nx_j;\n', ''),
    ('diff: K=1 unit index', D, 'w             = rplus<W>(w, (eps_j * Eigen::Vector<Scalar, Nx_j>::Unit(nx_j, j)).eval());', 'w             = rplus<W>(w, (eps_j * Eigen::Vector<Scalar, Nx_j>::Unit(nx_j, 0)).eval());'),
    ('diff: K=2 eps1 type test on W0', D, 'if constexpr (std::is_base_of_v<Eigen::MatrixBase<W1>, W1>) {', 'if constexpr (std::is_base_of_v<Eigen::MatrixBase<W0>, W0>) {'),
    ('diff: K=2 eps1 from w1[k0]', D, 'eps1 *= abs(w1[k1]);', 'eps1 *= abs(w1[k0]);'),
    ('diff: K=2 schedule w0 restored after w1', D,
     '            w0               = rplus<W0>(w0, -eps0 * Eigen::Vector<Scalar, Nx_i0>::Unit(nx_i0, k0));\n            w1               = rplus<W1>(w1, -eps1 * Eigen::Vector<Scalar, Nx_i1>::Unit(nx_i1, k1));',
     '            w1               = rplus<W1>(w1, -eps1 * Eigen::Vector<Scalar, Nx_i1>::Unit(nx_i1, k1));\n            w0               = rplus<W0>(w0, -eps0 * Eigen::Vector<Scalar, Nx_i0>::Unit(nx_i0, k0));'),
    ('diff: K=2 d2 without d1', D, '(rminus(F11, F01) - d1) / eps0 / eps1', 'rminus(F11, F01) / eps0 / eps1'),
    ('diff: K=2 d2 F11-F10 mix', D, '(rminus(F11, F01) - d1) / eps0 / eps1', '(rminus(F11, F10) - d1) / eps0 / eps1'),
    ('diff: K=2 d2 divided twice by eps0', D, '(rminus(F11, F01) - d1) / eps0 / eps1', '(rminus(F11, F01) - d1) / eps0 / eps0'),
    ('diff: K=2 H row I1 + k0', D, 'H(I0 + k0, j * nx + I1 + k1) = d2(j);', 'H(I1 + k0, j * nx + I1 + k1) = d2(j);'),
    ('diff: K=2 H col (j + I1) * nx', D, 'H(I0 + k0, j * nx + I1 + k1) = d2(j);', 'H(I0 + k0, (j + I1) * nx + k1) = d2(j);'),
    ('diff: K=2 k1 loop bound nx_i0', D, 'for (auto k1 = 0; k1 < nx_i1; ++k1) {', 'for (auto k1 = 0; k1 < nx_i0; ++k1) {'),
    ('diff: K=2 I1 += nx_i0', D, 'I1 += nx_i1;', 'I1 += nx_i0;'),
    ('diff: K=2 J column from k1 loop var', D, 'J.col(I0 + k0) = d1 / eps0;', 'J.col(I0 + k0) = d1 / sqrteps;'),
    ('diff: dispatch K == 0u -> K == 1u', D, 'if constexpr (K == 0u) {', 'if constexpr (K == 1u) {'),
    ('diff: dispatch Default K==2 uses order1', D, '} else if constexpr (K == 2 && detail::diffable_order2<F, Wrt>) {', '} else if constexpr (K == 2 && detail::diffable_order1<F, Wrt>) {'),
    ('diff: dispatch Default falls to Analytic', D, '        Type::Numerical;\n#endif', '        Type::Analytic;\n#endif'),
    ('diff: dispatch Analytic K==2 returns jacobian only', D, '    } else if constexpr (K == 2) {\n      return std::make_tuple(\n        std::apply(f, x),', '    } else if constexpr (K == 3) {\n      return std::make_tuple(\n        std::apply(f, x),'),
    ('diff: concept order2 drops order1', D, 'concept diffable_order2 = diffable_order1<F, Wrt> && requires', 'concept diffable_order2 = requires'),
    ('diff: dr<K> forwards to Numerical', D, 'return dr<K, Type::Default>(std::forward<decltype(f)>(f), std::forward<decltype(x)>(x));', 'return dr<K, Type::Numerical>(std::forward<decltype(f)>(f), std::forward<decltype(x)>(x));'),
    ('diff: new statement in coordinate loop', D, '        Scalar eps_j = eps;\n', '        Scalar eps_j = eps;\n        fval = std::apply(f, x_nc);\n'),
    ('diff: unsupported construct (while)', D, '      I0 += nx_j;\n', '      while (I0 < 0) { ++I0; }\n      I0 += nx_j;\n'),
    ('diff: comment edit', D, '// scale step size if we are in Rn', '// scale the step size for vector arguments'),
    ('diff: whitespace edit', D, 'Scalar eps_j = eps;', 'Scalar   eps_j   =   eps ;'),
]


def sh(cmd, **kw):
    for attempt in range(30):
        r = subprocess.run(cmd, capture_output=True, text=True, **kw)
        if cmd[0] == 'lean' and re.search(r"object file '[^']*' of module \S+ does not exist|failed to read file", r.stdout + r.stderr):
            time.sleep(20)      # another builder is rebuilding the shared tree: wait and retry
            continue
        return r
    return r


def theorems_at(path):
    res = []
    for ln, line in enumerate(open(path).read().split('\n'), 1):
        m = re.match(r'\s*theorem\s+(\S+)', line)
        if m:
            res.append((ln, m.group(1)))
    return res


def main():
    scratch, work = sys.argv[1], sys.argv[2]
    flt = sys.argv[3] if len(sys.argv) > 3 else ''
    gen, ov = os.path.join(work, 'gen'), os.path.join(work, 'ov', 'SweepGen')
    base = os.path.join(work, 'base')
    for d in (gen, ov, base):
        os.makedirs(d, exist_ok=True)
    lp = sh(['lake', 'env', 'printenv', 'LEAN_PATH'], cwd=LEAN).stdout.strip()
    env = dict(os.environ, LEAN_PATH=os.path.join(work, 'ov') + ':' + lp)
    sh(['git', 'checkout', '--', '.'], cwd=scratch)
    r = sh([sys.executable, os.path.join(ROOT, 'tools', 'gen_logic.py'), scratch, os.path.join(base, 'LogicSrc.lean')])
    if r.returncode != 0:
        print('baseline does not translate:', r.stdout)
        sys.exit(1)
    for f in os.listdir(base):
        if open(os.path.join(base, f)).read() != open(os.path.join(LEAN, 'SmoothModel', 'Gen', f)).read():
            print('WARNING: baseline', f, 'differs from the shared generated file')
    counts = {'translator': 0, 'tie': 0, 'illtyped': 0, 'identical': 0, 'UNDETECTED': 0}
    for mut in MUT:
        name = mut[0]
        if flt and flt not in name:
            continue
        sh(['git', 'checkout', '--', '.'], cwd=scratch)
        if mut[1] == 'patch':
            r = sh(['git', 'apply', os.path.join(ROOT, mut[2])], cwd=scratch)
            if r.returncode != 0:
                print(f'{name:55s} PATCH DOES NOT APPLY: {r.stderr.strip()[:200]}')
                continue
        else:
            p = os.path.join(scratch, mut[1])
            s = open(p).read()
            n = s.count(mut[2])
            idx = mut[4] if len(mut) > 4 else None
            if n == 0 or (n > 1 and idx is None):
                print(f'{name:55s} MUTATION TEXT found {n} times')
                continue
            if idx is None:
                s = s.replace(mut[2], mut[3])
            else:
                parts = s.split(mut[2])
                s = mut[2].join(parts[:idx + 1]) + mut[3] + mut[2].join(parts[idx + 1:])
            open(p, 'w').write(s)
        for f in os.listdir(gen):
            os.remove(os.path.join(gen, f))
        t0 = time.time()
        r = sh([sys.executable, os.path.join(ROOT, 'tools', 'gen_logic.py'), scratch, os.path.join(gen, 'LogicSrc.lean')])
        if r.returncode != 0:
            counts['translator'] += 1
            print(f'{name:55s} translator: {r.stdout.strip()[-230:]}')
            continue
        changed = [f for f in sorted(os.listdir(gen)) if open(os.path.join(gen, f)).read() != open(os.path.join(base, f)).read()]
        if not changed:
            counts['identical'] += 1
            print(f'{name:55s} IDENTICAL')
            continue
        verdicts = []
        for f in changed:
            for o in os.listdir(ov):
                os.remove(os.path.join(ov, o))
            dst = os.path.join(ov, f)
            open(dst, 'w').write(open(os.path.join(gen, f)).read())
            r = sh(['lean', '-o', dst[:-5] + '.olean', dst], cwd=os.path.join(work, 'ov'), env=env)
            if r.returncode != 0:
                first = [l for l in (r.stdout + r.stderr).split('\n') if 'error' in l][:1]
                verdicts.append(f'{f}: generated file ill-typed: {first[0][:160] if first else ""}')
                continue
            tie = GEN2TIE[f]
            src = open(os.path.join(LEAN, 'SmoothProps', tie)).read().replace('import SmoothModel.Gen.' + f[:-5] + '\n', 'import SweepGen.' + f[:-5] + '\n')
            if tie == 'SrcTieLogic.lean':
                # `import SmoothModel` pulls in the SHARED Gen/LogicSrc.lean (same declaration names): import the models directly
                src = src.replace('import SmoothModel\n', ''.join(f'import SmoothModel.{m}\n' for m in (
                    'Scalar', 'Lin', 'Group', 'Optim', 'Search', 'BSpline', 'CSpline', 'Poly', 'Dubins', 'Reparam')), 1)
            tp = os.path.join(work, 'Tie_' + tie)
            open(tp, 'w').write(src)
            r = sh(['lean', tp], cwd=work, env=env)
            errs = sorted({int(m.group(1)) for m in re.finditer(r':(\d+):\d+: error', r.stdout + r.stderr)})
            th = theorems_at(tp)
            broken = []
            for ln in errs:
                c = [n for l, n in th if l <= ln]
                nm = c[-1] if c else '?'
                if nm not in broken:
                    broken.append(nm)
            if broken:
                verdicts.append('tie: ' + ', '.join(broken))
            else:
                verdicts.append(f'{f} CHANGED BUT {tie} STILL CHECKS')
        v = ' | '.join(verdicts)
        if 'STILL CHECKS' in v and 'tie:' not in v and 'ill-typed' not in v:
            counts['UNDETECTED'] += 1
        elif 'tie:' in v:
            counts['tie'] += 1
        else:
            counts['illtyped'] += 1
        print(f'{name:55s} {v}   [{time.time() - t0:.1f}s]')
    sh(['git', 'checkout', '--', '.'], cwd=scratch)
    print(counts)


if __name__ == '__main__':
    main()
