#!/usr/bin/env python3
"""Sensitivity sweep of the source tie tools/gen_bundle.py (DESIGN.md §8.1).

  git -C /repo worktree add --detach /tmp/srcbundle_scratch HEAD
  python3 tools/dev/srcbundle_sweep.py /tmp/srcbundle_scratch /tmp/srcbundle_work [name-filter]
  git -C /repo worktree remove --force /tmp/srcbundle_scratch

For every mutation the scratch tree is reset, the mutation applied, the translator run into a PRIVATE directory and the tie
files are checked against private copies (`SweepGen.*` for the generated modules, `SweepTie.SrcTieBundle` where a tie file
imports another one) — the shared lake tree is only read.  Verdict per mutation:
  translator: <message>         hard error of the translator
  tie: <theorem names>          named tie theorems that no longer check
  generated file ill-typed      (counts as detected, reported separately)
  IDENTICAL                     regenerated output byte-identical (expected for comment / whitespace edits)
"""
import os, re, shutil, subprocess, sys, time

ROOT = os.path.dirname(os.path.dirname(os.path.dirname(os.path.abspath(__file__))))
LEAN = os.path.join(ROOT, 'lean')
GENS = ['BundleSrc.lean', 'BundlePubSrc.lean', 'RnSrc.lean', 'ManifSrc.lean']          # dependency order
TIES = {'BundleSrc.lean': ['SrcTieBundle.lean', 'SrcTieBundlePub.lean'], 'BundlePubSrc.lean': ['SrcTieBundlePub.lean'],
        'RnSrc.lean': ['SrcTieRn.lean'], 'ManifSrc.lean': ['SrcTieManif.lean']}

B = 'include/smooth/detail/bundle.hpp'
U = 'include/smooth/detail/utils.hpp'
C = 'include/smooth/detail/common.hpp'
P = 'include/smooth/bundle.hpp'
R = 'include/smooth/lie_groups/rn.hpp'
S = 'include/smooth/lie_groups/scalar.hpp'
N = 'include/smooth/lie_groups/native.hpp'
L = 'include/smooth/concepts/lie_group.hpp'
F = 'include/smooth/concepts/manifold.hpp'
V = 'include/smooth/manifolds/vector.hpp'
M = 'include/smooth/manifolds/submanifold.hpp'
W = 'include/smooth/manifolds/variant.hpp'
Y = 'include/smooth/manifolds/any.hpp'

SEG_REP = 'template segment<get<i>(RepSizes)>(get<i>(RepSizesPsum))'
BLK_DOF = 'template block<get<i>(Dofs), get<i>(Dofs)>(get<i>(DofsPsum), get<i>(DofsPsum))'
BLK_DIM = 'template block<get<i>(Dims), get<i>(Dims)>(get<i>(DimsPsum), get<i>(DimsPsum))'

# (name, file, old, new [, occurrence index (0-based), default: must be unique])  |  (name, 'patch', path)
MUT = [
    ('seed C02b', 'patch', 'seeded/C02b/patch.diff'),
    ('seed C06b', 'patch', 'seeded/C06b/patch.diff'),
    ('seed C05c', 'patch', 'seeded/C05c/patch.diff'),
    ('seed C16b', 'patch', 'seeded/C16b/patch.diff'),
    ('seed C07', 'patch', 'seeded/C07/patch.diff'),
    ('seed C07b', 'patch', 'seeded/C07b/patch.diff'),
    ('seed C07c', 'patch', 'seeded/C07c/patch.diff'),
    ('seed C06', 'patch', 'seeded/C06/patch.diff'),
    ('seed C06c', 'patch', 'seeded/C06c/patch.diff'),
    # ---- detail/bundle.hpp
    ('bundle: composition reads g_in2 at DofsPsum', B, 'g_in2.' + SEG_REP, 'g_in2.template segment<get<i>(RepSizes)>(get<i>(DofsPsum))'),
    ('bundle: composition reads g_in1 twice', B, 'g_in2.' + SEG_REP, 'g_in1.' + SEG_REP),
    ('bundle: inverse output segment size Dofs', B, 'g_in.' + SEG_REP + ',\n        g_out.' + SEG_REP,
     'g_in.' + SEG_REP + ',\n        g_out.template segment<get<i>(Dofs)>(get<i>(RepSizesPsum))'),
    ('bundle: matrix without setZero', B, '    m_out.setZero();\n', ''),
    ('bundle: matrix block column offset DofsPsum', B, 'm_out.' + BLK_DIM,
     'm_out.template block<get<i>(Dims), get<i>(Dims)>(get<i>(DimsPsum), get<i>(DofsPsum))'),
    ('bundle: log writes the coefficient segment', B, 'a_out.template segment<get<i>(Dofs)>(get<i>(DofsPsum))\n      ); //NOLINT\n    });\n  }\n\n  static void Ad',
     'a_out.' + SEG_REP + '\n      ); //NOLINT\n    });\n  }\n\n  static void Ad'),
    ('bundle: Ad commutativity test negated', B, 'if constexpr (!PartImpl<i>::IsCommutative) {\n        PartImpl<i>::Ad(',
     'if constexpr (PartImpl<i>::IsCommutative) {\n        PartImpl<i>::Ad('),
    ('bundle: Ad commutative part left zero', B, '      } else {\n        A_out.' + BLK_DOF + '.setIdentity();\n      }\n    });\n  }\n\n  static void exp',
     '      }\n    });\n  }\n\n  static void exp'),
    ('bundle: ad commutative part gets identity', B, '          A_out.' + BLK_DOF + '\n        ); //NOLINT\n      }\n    });\n  }\n\n  static void dr_exp',
     '          A_out.' + BLK_DOF + '\n        ); //NOLINT\n      } else {\n        A_out.' + BLK_DOF + '.setIdentity();\n      }\n    });\n  }\n\n  static void dr_exp'),
    ('bundle: exp reads the segment of part 0', B, 'PartImpl<i>::exp(\n        a_in.template segment<get<i>(Dofs)>(get<i>(DofsPsum))',
     'PartImpl<i>::exp(\n        a_in.template segment<get<i>(Dofs)>(get<0>(DofsPsum))'),
    ('bundle: hat block size Dofs', B, 'A_out.' + BLK_DIM, 'A_out.template block<get<i>(Dofs), get<i>(Dofs)>(get<i>(DimsPsum), get<i>(DimsPsum))'),
    ('bundle: vee reads block column 0', B, 'A_in.' + BLK_DIM, 'A_in.template block<get<i>(Dims), get<i>(Dims)>(get<i>(DimsPsum), 0)'),
    ('bundle: dr_exp calls dr_expinv', B, 'PartImpl<i>::dr_exp(', 'PartImpl<i>::dr_expinv('),
    ('bundle: dr_expinv without setZero', B, 'static void dr_expinv(TRefIn a_in, TMapRefOut A_out) {\n    A_out.setZero();', 'static void dr_expinv(TRefIn a_in, TMapRefOut A_out) {'),
    ('bundle: d2r_exp column without inner offset', B, 'Dof * (Bi + j) + Bi) = Hi', 'Dof * (Bi + j)) = Hi', 0),
    ('bundle: d2r_exp column stride Di', B, 'Dof * (Bi + j) + Bi) = Hi', 'Di * (Bi + j) + Bi) = Hi', 0),
    ('bundle: d2r_exp source columns j', B, 'Hi.template middleCols<Di>(Di * j)', 'Hi.template middleCols<Di>(j)', 0),
    ('bundle: d2r_expinv loop bound Dof', B, 'for (auto j = 0u; j < Di; ++j)', 'for (auto j = 0u; j < Dof; ++j)', 1),
    ('bundle: d2r_expinv loop bound <=', B, 'for (auto j = 0u; j < Di; ++j)', 'for (auto j = 0u; j <= Di; ++j)', 1),
    ('bundle: d2r_expinv without setZero', B, 'static void d2r_expinv(TRefIn a_in, THessRefOut H_out) {\n    H_out.setZero();', 'static void d2r_expinv(TRefIn a_in, THessRefOut H_out) {'),
    ('bundle: d2r_exp block start Dofs', B, 'static constexpr auto Bi = get<i>(DofsPsum);', 'static constexpr auto Bi = get<i>(Dofs);', 0),
    ('bundle: d2r_expinv calls d2r_exp', B, 'PartImpl<i>::d2r_expinv(', 'PartImpl<i>::d2r_exp('),
    ('bundle: d2r_exp temporary too narrow', B, 'Eigen::Matrix<Scalar, Di, Di * Di> Hi;', 'Eigen::Matrix<Scalar, Di, Di> Hi;', 0),
    ('bundle: RepSizesPsum from Dofs', B, 'RepSizesPsum = smooth::utils::array_psum(RepSizes)', 'RepSizesPsum = smooth::utils::array_psum(Dofs)'),
    ('bundle: Dof from DimsPsum', B, 'Dof           = DofsPsum.back()', 'Dof           = DimsPsum.back()'),
    ('bundle: Dims lists Dof', B, 'Dims{GsImpl::Dim...}', 'Dims{GsImpl::Dof...}'),
    ('bundle: IsCommutative or-fold', B, '(GsImpl::IsCommutative && ...)', '(GsImpl::IsCommutative || ...)'),
    ('bundle: setIdentity drops the last part', B, 'static void setIdentity(GRefOut g_out)\n  {\n    smooth::utils::static_for<sizeof...(GsImpl)>',
     'static void setIdentity(GRefOut g_out)\n  {\n    smooth::utils::static_for<sizeof...(GsImpl) - 1>'),
    ('bundle: setRandom segment (pinned)', B, 'PartImpl<i>::setRandom(\n        g_out.' + SEG_REP, 'PartImpl<i>::setRandom(\n        g_out.template segment<get<i>(RepSizes)>(get<i>(DofsPsum))'),
    ('bundle: new function', B, '  static void inverse(GRefIn g_in, GRefOut g_out)', '  static void inverse2(GRefIn g_in, GRefOut g_out)\n  {\n    smooth::utils::static_for<sizeof...(GsImpl)>([&](auto i) {\n      PartImpl<i>::inverse(\n        g_in.' + SEG_REP + ',\n        g_out.' + SEG_REP + '\n      );\n    });\n  }\n\n  static void inverse(GRefIn g_in, GRefOut g_out)'),
    ('bundle: comment edit', B, '// block start', '// start of the block', 0),
    ('bundle: whitespace edit', B, 'm_out.setZero();', 'm_out . setZero( ) ;'),
    # ---- detail/utils.hpp, detail/common.hpp
    ('utils: array_psum starts at 1', U, 'ret[0] = _T(0);', 'ret[0] = _T(1);'),
    ('utils: array_psum writes from ret.begin()', U, 'std::next(ret.begin(), 1)', 'std::next(ret.begin(), 0)'),
    ('utils: array_psum array one longer', U, '  std::array<_T, _L + 1> ret;', '  std::array<_T, _L + 2> ret;'),
    ('utils: static_for fold reversed (pinned)', U, 'return (std::invoke(f, std::integral_constant<std::size_t, _Idx>()), ...);',
     'return (..., std::invoke(f, std::integral_constant<std::size_t, _Idx>()));'),
    ('utils: comment edit', U, '// STATIC FOR LOOP //', '// static for loop //'),
    ('common: THessRefOut Dof x Dof', C, 'Eigen::Matrix<Scalar, Dof, Dof * Dof>>;        \\', 'Eigen::Matrix<Scalar, Dof, Dof>>;              \\'),
    # ---- bundle.hpp (public)
    ('pub: mutable part offset DofsPsum', P, 'static_cast<_Derived &>(*this).data() + std::get<Idx>(Impl::RepSizesPsum)', 'static_cast<_Derived &>(*this).data() + std::get<Idx>(Impl::DofsPsum)'),
    ('pub: const part offset + 1', P, 'static_cast<const _Derived &>(*this).data() + std::get<Idx>(Impl::RepSizesPsum)', 'static_cast<const _Derived &>(*this).data() + std::get<Idx>(Impl::RepSizesPsum) + 1'),
    ('pub: PartStart from RepSizesPsum', P, 'PartStart = Impl::DofsPsum[Idx]', 'PartStart = Impl::RepSizesPsum[Idx]'),
    ('pub: PartDof from Dims', P, 'PartDof = Impl::Dofs[Idx]', 'PartDof = Impl::Dims[Idx]'),
    ('pub: constructor copies part 0 everywhere', P, 'Base::template part<i>() = std::get<i>(tpl);', 'Base::template part<i>() = std::get<0>(tpl);'),
    ('pub: constructor writes part 0 only', P, 'Base::template part<i>() = std::get<i>(tpl);', 'Base::template part<0>() = std::get<i>(tpl);'),
    ('pub: PartType of the next part', P, 'template PartPlainObject<Idx>;', 'template PartPlainObject<Idx + 1>;'),
    ('pub: Impl pack reversed (pinned)', P, 'using Impl   = BundleImpl<typename liebase_info<_Gs>::Impl...>;', 'using Impl   = BundleImpl<typename liebase_info<_Gs>::Impl..., typename liebase_info<_Gs>::Impl...>;'),
    ('pub: comment edit', P, '@brief Access part no Idx of Bundle.', '@brief Access part number Idx of Bundle.'),
    # ---- lie_groups
    ('rn: composition operands swapped', R, 'return g1 + g2;', 'return g2 + g1;'),
    ('rn: inverse without minus', R, 'static inline PlainObject inverse(const G & g) { return -g; }', 'static inline PlainObject inverse(const G & g) { return g; }'),
    ('rn: Ad zero', R, 'return Eigen::Matrix<Scalar, Dof, Dof>::Identity(g.size(), g.size());', 'return Eigen::Matrix<Scalar, Dof, Dof>::Zero(g.size(), g.size());'),
    ('rn: ad identity', R, 'return Eigen::Matrix<Scalar, Dof, Dof>::Zero(a.size(), a.size());', 'return Eigen::Matrix<Scalar, Dof, Dof>::Identity(a.size(), a.size());'),
    ('rn: d2r_exp n x n', R, '::Zero(a.size(), a.size() * a.size());', '::Zero(a.size(), a.size());', 0),
    ('rn: not commutative', R, 'static constexpr bool IsCommutative = true;', 'static constexpr bool IsCommutative = false;'),
    ('rn: exp negates', R, 'static inline PlainObject exp(const Eigen::MatrixBase<Derived> & a)\n  {\n    return a;', 'static inline PlainObject exp(const Eigen::MatrixBase<Derived> & a)\n  {\n    return -a;'),
    ('scalar: exp negates', S, 'return a(0);', 'return -a(0);'),
    ('scalar: log negates', S, 'return Eigen::Matrix<Scalar, 1, 1>{g};', 'return Eigen::Matrix<Scalar, 1, 1>{-g};'),
    ('scalar: Ad zero', S, 'return Eigen::Matrix<Scalar, 1, 1>{1};', 'return Eigen::Matrix<Scalar, 1, 1>{0};'),
    ('scalar: composition minus', S, 'return g1 + g2;', 'return g1 - g2;'),
    ('scalar: dr_exp zero', S, 'static inline Eigen::Matrix<Scalar, 1, 1> dr_exp(const Eigen::MatrixBase<Derived> &)\n  {\n    return Eigen::Matrix<Scalar, 1, 1>::Identity();',
     'static inline Eigen::Matrix<Scalar, 1, 1> dr_exp(const Eigen::MatrixBase<Derived> &)\n  {\n    return Eigen::Matrix<Scalar, 1, 1>::Zero();'),
    ('native: composition operands swapped', N, 'return g1.operator*(g2);', 'return g2.operator*(g1);'),
    ('native: dr_exp forwards to dr_expinv', N, 'return G::dr_exp(a);', 'return G::dr_expinv(a);'),
    ('native: log of the inverse', N, 'return g.log();', 'return g.inverse().log();'),
    ('rn: comment edit', R, '// group interface', '// the group interface'),
    # ---- concepts
    ('man<Lie>: rplus composes on the left', L, 'return traits::lie<G>::composition(g, traits::lie<G>::exp(a));', 'return traits::lie<G>::composition(traits::lie<G>::exp(a), g);'),
    ('man<Lie>: rminus left difference', L, 'traits::lie<Go>::composition(traits::lie<Go>::inverse(g2), g1)', 'traits::lie<Go>::composition(g1, traits::lie<Go>::inverse(g2))'),
    ('man<Lie>: rminus arguments swapped', L, 'traits::lie<Go>::composition(traits::lie<Go>::inverse(g2), g1)', 'traits::lie<Go>::composition(traits::lie<Go>::inverse(g1), g2)'),
    ('free rminus swaps its arguments (pinned)', F, 'return traits::man<M>::rminus(g1, g2);', 'return traits::man<M>::rminus(g2, g1);'),
    # ---- manifolds/vector.hpp
    ('vector: rplus counter not advanced', V, '      dof_cntr += dof_i;\n', ''),
    ('vector: rplus segment from 0', V, 'Dof>(dof_cntr, dof_i)', 'Dof>(0, dof_i)'),
    ('vector: rplus segment length of the counter', V, 'Dof>(dof_cntr, dof_i)', 'Dof>(dof_cntr, dof_cntr)'),
    ('vector: rminus index advanced by 1', V, 'idx += size_i;', 'idx += 1;'),
    ('vector: rminus operands swapped', V, 'traits::man<M>::rminus(m1i, m2i)', 'traits::man<M>::rminus(m2i, m1i)'),
    ('vector: rminus zip order', V, 'utils::zip(m1, m2)', 'utils::zip(m2, m1)'),
    ('vector: rminus size from m2', V, 'for (auto i = 0u; i != m1.size(); ++i) { dof_cnts += ::smooth::dof<M>(m1[i]); }', 'for (auto i = 0u; i != m2.size(); ++i) { dof_cnts += ::smooth::dof<M>(m2[i]); }'),
    ('vector: dof ignores Dof', V, 'return static_cast<Eigen::Index>(m.size()) * traits::man<M>::Dof;', 'return static_cast<Eigen::Index>(m.size());'),
    ('vector: Default size dof', V, 'static_cast<std::size_t>(dof / mdof)', 'static_cast<std::size_t>(dof)'),
    ('vector: Default element of size dof', V, 'traits::man<M>::Default(mdof)', 'traits::man<M>::Default(dof)'),
    ('vector: comment edit', V, '/// @note If underlying M has dynamic size, mdof not uniquely defined', '/// @note mdof is not unique for dynamic M'),
    # ---- manifolds/submanifold.hpp
    ('sub: rplus free test negated', M, 'if (k >= m_fixed_dims.size() || i != m_fixed_dims(k)) {\n        m_calc(i) = a(j++);', 'if (k >= m_fixed_dims.size() || i == m_fixed_dims(k)) {\n        m_calc(i) = a(j++);'),
    ('sub: rplus bound k > size', M, 'if (k >= m_fixed_dims.size() || i != m_fixed_dims(k)) {\n        m_calc(i) = a(j++);', 'if (k > m_fixed_dims.size() || i != m_fixed_dims(k)) {\n        m_calc(i) = a(j++);'),
    ('sub: rplus reads a(j) without advancing', M, 'm_calc(i) = a(j++);', 'm_calc(i) = a(j);'),
    ('sub: rplus k not advanced', M, '        m_calc(i) = a(j++);\n      } else {\n        ++k;\n      }', '        m_calc(i) = a(j++);\n      } else {\n        ++j;\n      }'),
    ('sub: rminus gathers m_calc(j)', M, 'ret(j++) = m_calc(i);', 'ret(j++) = m_calc(j);'),
    ('sub: rminus difference reversed', M, 'traits::man<M>::rminus(m_m, other.m())', 'traits::man<M>::rminus(other.m(), m_m)'),
    ('sub: rminus from the origin', M, 'traits::man<M>::rminus(m_m, other.m())', 'traits::man<M>::rminus(m_m0, other.m())'),
    ('sub: dof adds the fixed dims', M, 'return ::smooth::dof(m_m0) - m_fixed_dims.size();', 'return ::smooth::dof(m_m0) + m_fixed_dims.size();'),
    ('sub: constructor does not sort', M, '    std::sort(m_fixed_dims.begin(), m_fixed_dims.end());\n', ''),
    ('sub: constructor swaps m0 and m', M, ': m_m0(m0), m_m(m), m_fixed_dims(fixed_dims)', ': m_m0(m), m_m(m0), m_fixed_dims(fixed_dims)'),
    ('sub: cast swaps origin and value', M, 'man<M>::template cast<NewScalar>(m.m0()), man<M>::template cast<NewScalar>(m.m())', 'man<M>::template cast<NewScalar>(m.m()), man<M>::template cast<NewScalar>(m.m0())'),
    ('sub: rplus zero vector of size dof()', M, 'm_calc.setZero(::smooth::dof(m_m0));', 'm_calc.setZero(dof());'),
    ('sub: whitespace edit', M, 'm_calc(i) = a(j++);', 'm_calc( i )  =  a( j++ ) ;'),
    # ---- manifolds/variant.hpp, any.hpp
    ('variant: rminus against itself', W, 'return traits::man<Mi>::rminus(x, std::get<Mi>(m2));', 'return traits::man<Mi>::rminus(x, x);'),
    ('variant: rminus operands swapped', W, 'return traits::man<Mi>::rminus(x, std::get<Mi>(m2));', 'return traits::man<Mi>::rminus(std::get<Mi>(m2), x);'),
    ('variant: Default of alternative 1', W, 'std::tuple_element_t<0, std::tuple<Ms...>>', 'std::tuple_element_t<1, std::tuple<Ms...>>'),
    ('variant: dof visits rplus', W, 'return traits::man<Mi>::dof(x); };', 'return traits::man<Mi>::Dof; };'),
    ('any: rminus operands swapped', Y, 'return ::smooth::rminus(m_val, static_cast<const wrapper<M> *>(o.get())->m_val);', 'return ::smooth::rminus(static_cast<const wrapper<M> *>(o.get())->m_val, m_val);'),
    ('any: copy assignment moves (pinned)', Y, 'm_val = m.m_val->clone();', 'm_val = std::move(const_cast<AnyManifold &>(m).m_val);'),
    ('any: Default message', Y, '"AnyManifold: default not supported"', '"AnyManifold: Default not supported"'),
    ('any: rplus on the wrapper forwards dof', Y, 'return AnyManifold(m_val->rplus(a));', 'return AnyManifold(m_val->clone());'),
    ('any: comment edit', Y, '/// @brief Degrees of freedom.', '/// @brief Number of degrees of freedom.'),
]


def sh(cmd, **kw):
    for attempt in range(30):
        r = subprocess.run(cmd, capture_output=True, text=True, **kw)
        if cmd[0] == 'lean' and re.search(r"object file '[^']*' of module \S+ does not exist|failed to read file", r.stdout + r.stderr):
            time.sleep(20)      # another builder is rebuilding the shared tree: wait and retry
            continue
        return r
    return r


def theorems_at(path):
    res = []
    for ln, line in enumerate(open(path).read().split('\n'), 1):
        m = re.match(r'\s*(?:theorem|example)\s*(\S*)', line)
        if m:
            res.append((ln, m.group(1) if line.lstrip().startswith('theorem') else 'example'))
    return res


def redirect(src):
    src = re.sub(r'^import SmoothModel\.Gen\.(BundleSrc|BundlePubSrc|RnSrc|ManifSrc)$', r'import SweepGen.\1', src, flags=re.M)
    return re.sub(r'^import SmoothProps\.SrcTieBundle$', 'import SweepTie.SrcTieBundle', src, flags=re.M)


def main():
    scratch, work = sys.argv[1], sys.argv[2]
    flt = sys.argv[3] if len(sys.argv) > 3 else ''
    gen, ov, base = os.path.join(work, 'gen'), os.path.join(work, 'ov'), os.path.join(work, 'base')
    for d in (gen, os.path.join(ov, 'SweepGen'), os.path.join(ov, 'SweepTie'), base):
        os.makedirs(d, exist_ok=True)
    lp = sh(['lake', 'env', 'printenv', 'LEAN_PATH'], cwd=LEAN).stdout.strip()
    env = dict(os.environ, LEAN_PATH=ov + ':' + lp)
    tool = os.path.join(ROOT, 'tools', 'gen_bundle.py')
    sh(['git', 'checkout', '--', '.'], cwd=scratch)
    r = sh([sys.executable, tool, scratch, base])
    if r.returncode != 0:
        print('baseline does not translate:', r.stdout)
        sys.exit(1)
    for f in GENS:
        if open(os.path.join(base, f)).read() != open(os.path.join(LEAN, 'SmoothModel', 'Gen', f)).read():
            print('WARNING: baseline', f, 'differs from the shared generated file')
    counts = {'translator': 0, 'tie': 0, 'illtyped': 0, 'identical': 0, 'UNDETECTED': 0}
    for mut in MUT:
        name = mut[0]
        if flt and flt not in name:
            continue
        sh(['git', 'checkout', '--', '.'], cwd=scratch)
        if mut[1] == 'patch':
            r = sh(['git', 'apply', os.path.join(ROOT, mut[2])], cwd=scratch)
            if r.returncode != 0:
                print(f'{name:52s} PATCH DOES NOT APPLY: {r.stderr.strip()[:200]}')
                continue
        else:
            p = os.path.join(scratch, mut[1])
            s = open(p).read()
            n = s.count(mut[2])
            idx = mut[4] if len(mut) > 4 else None
            if n == 0 or (n > 1 and idx is None):
                print(f'{name:52s} MUTATION TEXT found {n} times')
                continue
            if idx is None:
                s = s.replace(mut[2], mut[3])
            else:
                parts = s.split(mut[2])
                s = mut[2].join(parts[:idx + 1]) + mut[3] + mut[2].join(parts[idx + 1:])
            open(p, 'w').write(s)
        for f in os.listdir(gen):
            os.remove(os.path.join(gen, f))
        t0 = time.time()
        r = sh([sys.executable, tool, scratch, gen])
        if r.returncode != 0:
            counts['translator'] += 1
            print(f'{name:52s} translator: {r.stdout.strip()[:260]}')
            continue
        changed = [f for f in GENS if open(os.path.join(gen, f)).read() != open(os.path.join(base, f)).read()]
        if not changed:
            counts['identical'] += 1
            print(f'{name:52s} IDENTICAL')
            continue
        # private copies of ALL generated modules (current state), compiled in dependency order
        for d in ('SweepGen', 'SweepTie'):
            for o in os.listdir(os.path.join(ov, d)):
                os.remove(os.path.join(ov, d, o))
        verdicts, ok_gen = [], True
        for f in GENS:
            dst = os.path.join(ov, 'SweepGen', f)
            open(dst, 'w').write(redirect(open(os.path.join(gen, f)).read()))
            r = sh(['lean', '-o', dst[:-5] + '.olean', dst], cwd=ov, env=env)
            if r.returncode != 0:
                first = [l for l in (r.stdout + r.stderr).split('\n') if 'error' in l][:1]
                verdicts.append(f'{f}: generated file ill-typed: {first[0][:160] if first else ""}')
                ok_gen = False
                break
        ties = []
        for f in changed:
            for t in TIES[f]:
                if t not in ties:
                    ties.append(t)
        if ok_gen:
            bundle_tie_ok = True
            for tie in ties:
                src = redirect(open(os.path.join(LEAN, 'SmoothProps', tie)).read())
                if tie == 'SrcTieBundlePub.lean' and not bundle_tie_ok:
                    continue
                if tie == 'SrcTieBundlePub.lean' and 'SrcTieBundle.lean' not in ties:
                    # needs a private compiled copy of SrcTieBundle against the private BundleSrc
                    tp0 = os.path.join(ov, 'SweepTie', 'SrcTieBundle.lean')
                    open(tp0, 'w').write(redirect(open(os.path.join(LEAN, 'SmoothProps', 'SrcTieBundle.lean')).read()))
                    sh(['lean', '-o', tp0[:-5] + '.olean', tp0], cwd=ov, env=env)
                tp = os.path.join(ov, 'SweepTie', tie)
                open(tp, 'w').write(src)
                r = sh(['lean', '-o', tp[:-5] + '.olean', tp], cwd=ov, env=env)
                errs = sorted({int(m.group(1)) for m in re.finditer(r':(\d+):\d+: error', r.stdout + r.stderr)})
                th = theorems_at(tp)
                broken = []
                for ln in errs:
                    c = [n for l, n in th if l <= ln]
                    nm = c[-1] if c else '?'
                    if nm not in broken:
                        broken.append(nm)
                if broken:
                    verdicts.append(f'tie {tie[:-5]}: ' + ', '.join(broken))
                    if tie == 'SrcTieBundle.lean':
                        bundle_tie_ok = False
                elif r.returncode != 0:
                    verdicts.append(f'tie {tie[:-5]}: does not compile: ' + (r.stdout + r.stderr).strip()[:160])
                else:
                    verdicts.append(f'{tie} still checks')
        v = ' | '.join(verdicts)
        if 'tie ' in v:
            counts['tie'] += 1
        elif 'ill-typed' in v:
            counts['illtyped'] += 1
        else:
            counts['UNDETECTED'] += 1
            v = 'UNDETECTED: ' + ', '.join(changed) + ' changed but ' + v
        print(f'{name:52s} {v}   [{time.time() - t0:.1f}s]')
    sh(['git', 'checkout', '--', '.'], cwd=scratch)
    print(counts)


if __name__ == '__main__':
    main()
