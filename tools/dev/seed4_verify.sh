#!/bin/bash
# usage: seed4_verify.sh <id>...  : verify round-4 seeded changes with the FULL check (translators, proofs, harness, search)
for p in "$@"; do
  echo "=== $p"
  mkdir -p /verif/seeded/${p}d
  cp /tmp/seed4/$p-out/patch.diff /tmp/seed4/$p-out/demo.cpp /tmp/seed4/$p-out/meta.json /verif/seeded/${p}d/
  git -C /repo worktree add -q --detach /tmp/sv4_$p HEAD && git -C /tmp/sv4_$p apply /verif/seeded/${p}d/patch.diff && echo "tree ok"
  cmake --build /tmp/seed4/$p/_build -j6 > /tmp/seed4/$p-work/confirm_build.log 2>&1; echo "build rc=$?"
  ctest --test-dir /tmp/seed4/$p/_build -j6 --timeout 900 2>&1 | grep "tests passed"
  for v in with without; do
    if [ $v = with ]; then inc=/tmp/sv4_$p/include; else inc=/repo/include; fi
    g++ -std=c++20 -O1 -w -I$inc -I/verif/build/gen -I/usr/include/eigen3 /verif/seeded/${p}d/demo.cpp -o /tmp/seed4/$p-work/demo_$v -lpthread 2> /tmp/seed4/$p-work/demo_$v.err
    /tmp/seed4/$p-work/demo_$v > /tmp/seed4/$p-work/demo_$v.out 2>&1; echo "demo $v change: exit $? : $(tail -1 /tmp/seed4/$p-work/demo_$v.out | cut -c1-140)"
  done
  cd /verif; cp evidence/$p.json build/evidence_keep_$p.json
  VERIF_REPO=/tmp/sv4_$p python3 tools/check.py $p > build/sv4_$p.log 2>&1; echo "check rc=$?"
  cp build/evidence_keep_$p.json evidence/$p.json
  grep -E "^VIOLATION|^KNOWN" build/sv4_$p.log | cut -c1-200
  # restore generated files for /repo
  python3 -c "
import sys; sys.path.insert(0,'/verif/tools'); import vlib
with vlib.build_lock(): print('regen', vlib.run_translators()[0])"
done
