#!/bin/bash
# usage: seed2_verify.sh <id>...   : verify round-2 seeded changes (tests, demo, checks)
for p in "$@"; do
  echo "=== $p"
  mkdir -p /verif/seeded/${p}c
  cp /tmp/seed3/$p-out/patch.diff /tmp/seed3/$p-out/demo.cpp /tmp/seed3/$p-out/meta.json /verif/seeded/${p}c/
  git -C /repo worktree add -q --detach /tmp/sv3_$p HEAD && git -C /tmp/sv3_$p apply /verif/seeded/${p}c/patch.diff && echo "tree ok"
  # existing tests in the agent's build dir (change applied)
  cmake --build /tmp/seed3/$p/_build -j4 > /tmp/seed3/$p-work/confirm_build.log 2>&1; echo "build rc=$?"
  ctest --test-dir /tmp/seed3/$p/_build -j4 --timeout 900 2>&1 | grep "tests passed"
  for v in with without; do
    if [ $v = with ]; then inc=/tmp/sv3_$p/include; else inc=/repo/include; fi
    g++ -std=c++20 -O1 -w -I$inc -I/verif/build/gen -I/usr/include/eigen3 /verif/seeded/${p}c/demo.cpp -o /tmp/seed3/$p-work/demo_$v -lpthread 2> /tmp/seed3/$p-work/demo_$v.err
    /tmp/seed3/$p-work/demo_$v > /tmp/seed3/$p-work/demo_$v.out 2>&1; echo "demo $v change: exit $? : $(tail -1 /tmp/seed3/$p-work/demo_$v.out | cut -c1-140)"
  done
  cd /verif; VERIF_REPO=/tmp/sv3_$p python3 tools/explore.py $p > build/sv3_$p.log 2>&1
  grep -c "^BROKEN" build/sv3_$p.log; tail -2 build/sv3_$p.log | cut -c1-200
done
