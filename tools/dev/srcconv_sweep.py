#!/usr/bin/env python3
"""single-token mutation sweep of the members translated by tools/gen_conv.py: for every mutation inside a translated or
pinned member body, the generated Lean text must change (otherwise the tie cannot see it).  usage: srcconv_sweep.py <scratch dir>"""
import os, re, shutil, subprocess, sys
sys.path.insert(0, os.path.join(os.path.dirname(__file__), '..'))
import gen_conv
work = sys.argv[1]
inc = os.path.join(work, 'include', 'smooth')
os.makedirs(inc, exist_ok=True)
hdrs = ['so2.hpp', 'so3.hpp', 'c1.hpp', 'se2.hpp', 'se3.hpp', 'galilei.hpp', 'se_k_3.hpp']
orig = {h: open('/repo/include/smooth/' + h).read() for h in hdrs}
def gen():
    out = os.path.join(work, 'out.lean')
    subprocess.run([sys.executable, gen_conv.__file__, work, out], capture_output=True, check=True)
    return open(out).read()
for h in hdrs: open(os.path.join(inc, h), 'w').write(orig[h])
base = gen()
SWAPS = [(r'\.x\(\)', '.y()'), (r'\.y\(\)', '.x()'), (r'\.z\(\)', '.w()'), (r'\.w\(\)', '.z()'), (r'\bsin\(', 'cos('), (r'\bcos\(', 'sin('),
         (r' \+ ', ' - '), (r' - ', ' + '), (r' \* ', ' / '), (r' / ', ' * '), (r' < ', ' > '), (r' > ', ' < '), (r'\b2\b', '3'), (r'\b0\b', '1'), (r'\b1\b', '2'),
         (r'\bimag\(\)', 'real()'), (r'\breal\(\)', 'imag()'), (r'\bqz\b', 'qw'), (r'\bqw\b', 'qz'), (r'data\(\) \+ 2', 'data() + 1'), (r'data\(\) \+ 3', 'data() + 4'),
         (r'\bso2\(\)', 'so3()'), (r'\br2\(\)', 'r3()'), (r'\batan2\(', 'atan2(-'), (r'M_PI', 'M_PI_2'), (r'\*= Scalar\(-1\)', '*= Scalar(1)')]
n = und = 0
members = [(m[1], m[3]) for m in gen_conv.MEMBERS] + [(p[1], p[2]) for p in gen_conv.PINS]
for hdr, sig in members:
    txt = orig[hdr]
    ms = list(re.finditer(sig, txt))
    if len(ms) != 1:   # signature occurs also inside comments: locate through the comment-stripped text is not needed here
        ms = ms[-1:]
    a = ms[0].start(); k = txt.index('{', a); d = 0; e = k
    while True:
        d += txt[e] == '{'; d -= txt[e] == '}'
        if d == 0: break
        e += 1
    body = txt[a:e + 1]
    for pat, rep in SWAPS:
        for m in re.finditer(pat, body):
            line_start = body.rfind('\n', 0, m.start())
            if '//' in body[line_start:m.start()]:
                continue
            mut = txt[:a] + body[:m.start()] + rep + body[m.end():] + txt[e + 1:]
            open(os.path.join(inc, hdr), 'w').write(mut)
            n += 1
            if gen() == base:
                und += 1
                print('UNDETECTED', hdr, sig[:40], pat, '->', rep, '@', body[max(0, m.start() - 30):m.end() + 10].replace('\n', ' '))
    open(os.path.join(inc, hdr), 'w').write(orig[hdr])
print(f'{n} mutations, {und} undetected')
