#!/usr/bin/env python3
"""api_inventory.py — inventory of the PUBLIC API of pettni/smooth versus what the correspondence harnesses drive.

    python3 tools/dev/api_inventory.py            # writes /verif/API_COVERAGE.md, prints the summary
    python3 tools/dev/api_inventory.py --json F   # also dumps the raw table
    python3 tools/dev/api_inventory.py --baseline <git-rev>   # harness sources taken from that revision (before/after counts)

Method (no compiler involved — clang AST dumps of these Eigen-heavy templates are slow and unreliable here):

1.  EXTRACTION.  Every header of PUBLIC_HEADERS (vlib.REPO/include/smooth) is stripped of comments and preprocessor
    lines, the four API macros of detail/macro.hpp are expanded textually, and a brace/paren-matching scanner walks the
    scopes (namespace / class / struct, access labels).  It records every function, constructor, conversion operator,
    operator, public data member and public static constant declared at namespace scope (outside `detail`) or with
    public access in a class, with its template header, requires-clause, qualifiers (static / const / explicit /
    noexcept).  Members of the CRTP bases (`LieGroupBase`, `SO3Base`, `BundleBase`, …) are listed once, under the base;
    the storage variants (value `G`, `Map<G>`, `Map<const G>`) appear as the RECEIVER column of the call sites.
    What the scanner cannot see is listed at the end of the report (section "Blind spots").

2.  CALL SITES.  The harness sources (/verif/harness/*.cpp, *.hpp) are stripped of comments; for every API entry a
    call-syntax pattern is derived from its kind:
        member           `x.name(`  `x.template name<`  `p->name(`
        static member    `T::name(` `T::template name<`
        free function    `name(` / `name<…>(` not preceded by `.`/`::` of a foreign scope, or `smooth::name`
        constructor      `Class(`, `Class<…>(`, `Class<…> x(`, `Class<…> x{`, `Class<…>{`
        operators        typed patterns: the identifiers of each harness file are classified by their declared type
                         (group value / Map / Map<const> / tangent / spline / …), and `a * b`, `a *= b`, `a + v`,
                         `a += v`, `a - b`, `x(t)` are matched with the operand classes the operator needs
        data member      `.name` not followed by `(`
    Each hit is attributed to (harness file, protocol op) — the op is the string literal of the nearest enclosing
    `op == "…"` / `go("…"` / `Line<S>(f, "…"` / `emit…("…"`, and to the property checks that consume that harness
    (tools/props/*.py: the harness file named in the plugin; for lie.cpp the plugin whose op list contains the op).

3.  OBSERVED vs CALLED.  A hit is OBSERVED when the value of the call expression flows into a protocol line: the
    enclosing statement is an output sink (`put(out, …)`, `out.push_back(…)`, `Line…v(…)/.s(…)`, `W(…)`, `emit…`,
    `fprintf`/`printf`, `rec(…)`, …) or assigns a variable that the same function later hands to a sink (one level of
    data flow, by identifier).  Otherwise it is CALLED ONLY (used to build inputs, or its result is dropped) — exactly
    the situation of `lift_so3` before C15b.  Entries without any hit are NOT DRIVEN; entries whose only hits are
    inside other library functions are invisible to this tool by construction (it reads harness text only) and are
    reported as NOT DRIVEN (= "driven at most indirectly").

The report is deterministic (sorted) so that a diff of API_COVERAGE.md shows what a change to a harness or to the
library's public surface did to the coverage.
"""
import json, os, re, subprocess, sys
sys.path.insert(0, os.path.dirname(os.path.dirname(os.path.abspath(__file__))))
import vlib

ROOT = os.path.dirname(os.path.dirname(os.path.dirname(os.path.abspath(__file__))))
INC = os.path.join(vlib.REPO, 'include', 'smooth')
HARNESS = os.path.join(ROOT, 'harness')

PUBLIC_HEADERS = [
    'lie_group_base.hpp', 'so2.hpp', 'so3.hpp', 'se2.hpp', 'se3.hpp', 'c1.hpp', 'galilei.hpp', 'se_k_3.hpp', 'bundle.hpp',
    'concepts/lie_group.hpp', 'concepts/manifold.hpp',
    'lie_groups/native.hpp', 'lie_groups/rn.hpp', 'lie_groups/scalar.hpp',
    'manifolds/vector.hpp', 'manifolds/submanifold.hpp', 'manifolds/variant.hpp', 'manifolds/any.hpp',
    'derivatives.hpp', 'diff.hpp', 'wrt.hpp', 'optim.hpp', 'optim/tr_solver.hpp', 'optim/tr_strategy.hpp', 'lie_sparse.hpp',
    'spline/common.hpp', 'spline/spline.hpp', 'spline/bspline.hpp', 'spline/cumulative_spline.hpp', 'spline/dubins.hpp',
    'spline/fit.hpp', 'spline/reparameterize.hpp',
    'polynomial/basis.hpp', 'polynomial/quadrature.hpp', 'polynomial/static_matrix.hpp',
    'compat/odeint.hpp',
]
NOT_INVENTORIED = {
    'detail/*.hpp, spline/detail/*.hpp': 'implementation namespaces (`detail`, `*Impl` classes): not public API; tied by the source translators (DESIGN 8.1)',
    'external/lp2d.hpp': 'vendored solver, used through reparameterize_spline only',
    'compat/autodiff.hpp, compat/ceres.hpp, compat/ros.hpp': 'optional back-ends whose third-party dependencies are not installed in this image (cannot be compiled, hence cannot be driven)',
    'lie_groups.hpp, manifolds.hpp, version.hpp': 'include-only umbrella headers',
}

# property that owns an entry (by header / class / name), used for the "belongs to" column and the gap list
def owner_property(e):
    h, c, n = e['header'], e['scope'], e['name']
    if c.startswith('std::formatter'): return '—'
    if h.startswith('spline/bspline'): return 'C13'
    if h.startswith('spline/cumulative'): return 'C11'
    if h.startswith('spline/spline') or h == 'spline/common.hpp': return 'C12'
    if h.startswith('spline/'): return 'C14'
    if h.startswith('polynomial/'): return 'C20'
    if h.startswith('optim/tr_solver'): return 'C10'
    if h.startswith('optim'): return 'C09'
    if h in ('diff.hpp', 'wrt.hpp'): return 'C08'
    if h == 'lie_sparse.hpp': return 'C19'
    if h == 'compat/odeint.hpp': return 'C15'
    if h.startswith('manifolds/') or h == 'concepts/manifold.hpp': return 'C07'
    if h == 'derivatives.hpp': return 'C05' if n.startswith('d2') or n == 'd_matrix_product' else 'C04'
    if h in ('lie_groups/rn.hpp', 'lie_groups/scalar.hpp', 'lie_groups/native.hpp'): return 'C06'
    if h == 'bundle.hpp': return 'C16' if n in ('part', 'coeffs', 'data') or 'Map' in c else 'C06'
    if n in ('coeffs', 'data', 'so2', 'so3', 'r2', 'r3', 'r3_v', 'r3_p', 'r1_t', 'quat') or (c.startswith('Map<') and e['kind'] == 'constructor') \
            or n == 'operator=':
        return 'C16'
    if n in ('exp', 'log', 'lplus', 'lminus', 'rplus', 'rminus', 'operator+', 'operator+=', 'operator-'): return 'C02'
    if n in ('Ad', 'ad', 'hat', 'vee', 'lie_bracket'): return 'C03'
    if n.startswith('d2'): return 'C05'
    if n.startswith(('dr_', 'dl_')): return 'C04'
    if n in ('cast', 'isApprox', 'dof', 'Dof', 'Default', 'Random', 'setRandom'): return 'C07'
    if h in ('so2.hpp', 'so3.hpp', 'se2.hpp', 'se3.hpp', 'c1.hpp', 'galilei.hpp', 'se_k_3.hpp') and \
            (e['kind'] in ('constructor', 'conversion') or n in ('angle', 'angle_cw', 'angle_ccw', 'unit_complex', 'u1', 'c1', 'scaling', 'lift_so3', 'lift_se3',
                   'project_so2', 'project_se2', 'eulerAngles', 'isometry', 'rot_x', 'rot_y', 'rot_z')):
        return 'C17'
    if n in ('operator*', 'operator*=', 'inverse', 'composition', 'Identity', 'setIdentity', 'matrix', 'IsCommutative',
             'RepSize', 'Dim', 'operator<<'): return 'C01'
    return 'C01'


# ======================================================================================= C++ text utilities
def strip_comments(s, keep_strings=True):
    out, i, n = [], 0, len(s)
    while i < n:
        c = s[i]
        if s.startswith('//', i):
            j = s.find('\n', i)
            j = n if j < 0 else j
            i = j
        elif s.startswith('/*', i):
            j = s.find('*/', i + 2)
            j = n - 2 if j < 0 else j
            out.append(' ' + '\n' * s.count('\n', i, j + 2))
            i = j + 2
        elif c == '"' or (c == "'" and not (i > 0 and s[i - 1].isalnum())):
            q = c
            j = i + 1
            while j < n and s[j] != q:
                j += 2 if s[j] == '\\' else 1
            out.append(s[i:j + 1])
            i = j + 1
        else:
            out.append(c)
            i += 1
    return ''.join(out)


def read_macros():
    """the API macros of detail/macro.hpp: name -> (params, body)"""
    txt = open(os.path.join(INC, 'detail', 'macro.hpp')).read()
    txt = strip_comments(txt)
    macros = {}
    for m in re.finditer(r'#define\s+(\w+)(\(([^)]*)\))?((?:[^\n]*\\\n)*[^\n]*)', txt):
        body = m.group(4).replace('\\\n', '\n')
        params = [p.strip() for p in (m.group(3) or '').split(',') if p.strip()]
        macros[m.group(1)] = (params, body)
    return macros


def expand_macros(s, macros):
    for _ in range(3):
        changed = False
        for name, (params, body) in macros.items():
            def rep(m):
                nonlocal changed
                changed = True
                b = body
                args = [a.strip() for a in (m.group(2) or '').split(',')] if m.group(1) else []
                for p, a in zip(params, args):
                    b = re.sub(r'\b' + p + r'\s*##\s*', a, b)
                    b = re.sub(r'\b' + p + r'\b', a, b)
                return b.replace('static_assert(true, "")', '')
            s = re.sub(r'\b' + name + r'\b(\(([^()]*)\))?\s*;?', rep, s)
        if not changed:
            break
    return s


def strip_preprocessor(s):
    out = []
    cont = False
    for line in s.split('\n'):
        if cont or line.lstrip().startswith('#'):
            cont = line.rstrip().endswith('\\')
            out.append('')
        else:
            out.append(line)
    return '\n'.join(out)


def match_close(s, i, open_c, close_c):
    """s[i] == open_c; index of the matching closer (strings skipped)"""
    d, n = 0, len(s)
    while i < n:
        c = s[i]
        if c == '"':
            j = i + 1
            while j < n and s[j] != '"':
                j += 2 if s[j] == '\\' else 1
            i = j
        elif c == "'" and i + 2 < n and (s[i + 2] == "'" or (s[i + 1] == '\\' and i + 3 < n and s[i + 3] == "'")):
            i += 3 if s[i + 1] == '\\' else 2
        elif c == open_c:
            d += 1
        elif c == close_c:
            d -= 1
            if d == 0:
                return i
        i += 1
    return n - 1


def match_angle(s, i):
    """s[i] == '<' of a template argument list; index of the matching '>' (parentheses inside are skipped)"""
    d, n = 0, len(s)
    while i < n:
        c = s[i]
        if c == '(':
            i = match_close(s, i, '(', ')')
        elif c == '<':
            d += 1
        elif c == '>':
            d -= 1
            if d == 0:
                return i
        elif c in ';{':
            return -1
        i += 1
    return -1


def norm(s):
    s = re.sub(r'\s+', ' ', s).strip()
    s = re.sub(r'\s*([<>,()&*:])\s*', r'\1', s)
    s = s.replace(',', ', ').replace('&', ' &').replace('const &', 'const&').replace('  ', ' ')
    return s.strip()


# ======================================================================================= header scanner
class Scanner:
    def __init__(self, header, text):
        self.header = header
        self.s = text
        self.entries = []
        self.blind = []

    def run(self):
        self.scope(0, len(self.s), [], None, 'public')
        return self.entries

    # -------------------------------------------------------------- one scope
    def scope(self, i, end, ns, cls, access):
        s = self.s
        while i < end:
            # skip whitespace / stray semicolons
            while i < end and (s[i].isspace() or s[i] == ';'):
                i += 1
            if i >= end:
                break
            m = re.compile(r'(public|private|protected)\s*:(?!:)').match(s, i)
            if m and cls is not None:
                access = m.group(1)
                i = m.end()
                continue
            # declaration head: up to the first ';' or '{' at paren depth 0 (angle-bracket aware for '(' only)
            j = i
            while j < end:
                c = s[j]
                if c == '(':
                    j = match_close(s, j, '(', ')')
                elif c == '[':
                    j = match_close(s, j, '[', ']')
                elif c == '"':
                    k = j + 1
                    while k < end and s[k] != '"':
                        k += 2 if s[k] == '\\' else 1
                    j = k
                elif c in ';{':
                    break
                j += 1
            head = s[i:j]
            term = s[j] if j < end else ';'
            body_end = j
            if term == '{':
                body_end = match_close(s, j, '{', '}')
            i = self.decl(head, term, j, body_end, ns, cls, access)
        return i

    # -------------------------------------------------------------- one declaration
    def decl(self, head, term, j, body_end, ns, cls, access):
        s = self.s
        h = head.strip()
        nxt = body_end + 1
        # template header(s) and leading requires-clauses
        tmpl = []
        req = []
        while True:
            m = re.match(r'template\s*<', h)
            if m:
                k = match_angle(h, m.end() - 1)
                if k < 0:
                    break
                tmpl.append(norm(h[:k + 1]))
                h = h[k + 1:].strip()
                continue
            m = re.match(r'requires\s*\(', h)
            if m:
                k = match_close(h, m.end() - 1, '(', ')')
                req.append(norm(h[m.end():k]))
                h = h[k + 1:].strip()
                continue
            break
        h = re.sub(r'\[\[\w+\]\]\s*', '', h)
        if not h:
            return nxt
        # ---- namespaces
        m = re.match(r'(inline\s+)?namespace\s*([\w:]*)\s*$', h)
        if m and term == '{':
            self.scope(j + 1, body_end, ns + [m.group(2) or '<anon>'], cls, 'public')
            return nxt
        if re.match(r'(using|typedef|static_assert|friend|extern)\b', h):
            if term == '{':   # e.g. using X = decltype([]{...})
                k = s.find(';', body_end)
                return k + 1
            return nxt
        # ---- concepts
        m = re.match(r'concept\s+(\w+)\s*=', h)
        if m:
            # the body may contain braces (requires-expressions): skip to the ';' at brace depth 0
            k = j
            while k < len(s):
                if s[k] == '{':
                    k = match_close(s, k, '{', '}')
                elif s[k] == '(':
                    k = match_close(s, k, '(', ')')
                elif s[k] == ';':
                    break
                k += 1
            self.add('concept', m.group(1), '', '', tmpl, req, ns, cls, access, quals=[])
            return k + 1
        # ---- enums
        m = re.match(r'enum\s+(class\s+|struct\s+)?(\w+)', h)
        if m:
            vals = norm(s[j + 1:body_end]) if term == '{' else ''
            self.add('enum', m.group(2), vals, '', tmpl, req, ns, cls, access, quals=[])
            k = s.find(';', body_end)
            decl = s[body_end + 1:k].strip()
            if re.match(r'[A-Za-z_]\w*$', decl) and cls is not None:
                self.add('data member', decl, '', m.group(2), [], [], ns, cls, access, quals=[])
            return k + 1
        # ---- classes
        m = re.match(r'(class|struct|union)\s+([\w:]+)\s*', h)
        if m:
            rest = h[m.end():]
            nm = m.group(2)
            if rest.startswith('<'):
                k = match_angle(rest, 0)
                nm += rest[:k + 1]
                rest = rest[k + 1:]
            rest = re.sub(r'^\s*final\b', '', rest).strip()
            m = re.match(r'(class|struct|union)', h) if (rest == '' or rest.startswith(':')) else None
        if m and term == '{':
            name = norm(nm)
            bases = norm(rest[1:]) if rest.startswith(':') else ''
            default = 'private' if m.group(1) == 'class' else 'public'
            newcls = {'name': name, 'bases': bases, 'tmpl': tmpl, 'outer': cls, 'access': access}
            if cls is None or access == 'public':
                self.add('class', name, '', bases, tmpl, req, ns, cls, access, quals=[])
            self.scope(j + 1, body_end, ns, newcls, default)
            k = s.find(';', body_end)
            return k + 1
        if m and term == ';':
            return nxt            # forward declaration
        # ---- functions: find the parameter list = first '(' at angle depth 0 whose left neighbour is a name
        fn = self.find_function(h)
        if fn is not None:
            name, pre, params, post = fn
            kind = 'function'
            quals = []
            pre_words = re.findall(r'[\w:]+', pre)
            for q in ('static', 'explicit', 'virtual', 'constexpr', 'inline', 'friend'):
                if q in pre_words:
                    quals.append(q)
            ret = norm(re.sub(r'\b(static|explicit|virtual|constexpr|inline|friend)\b', '', pre))
            after = post
            init = ''
            # trailing: const noexcept override requires … -> … = default/delete/0 : init-list
            mm = re.match(r'\s*((?:const|noexcept|override|final|volatile|&&?|\s)*)', after)
            tail_q = mm.group(1).split()
            rest = after[mm.end():]
            for q in tail_q:
                if q in ('const', 'noexcept', 'override'):
                    quals.append(q)
            mreq = re.match(r'requires\s*(\(.*\)|[\w:<>!&| ]+)', rest.strip(), re.S)
            if mreq:
                req.append(norm(mreq.group(1)))
            mdef = re.search(r'=\s*(default|delete|0)\s*$', rest)
            if mdef:
                quals.append('=' + mdef.group(1))
            clsname = cls['name'] if cls else ''
            base_cls = re.sub(r'<.*', '', clsname)
            if cls and name == base_cls and ret == '':
                kind = 'constructor'
            elif cls and name == '~' + base_cls:
                kind = 'destructor'
            elif name.startswith('operator') and ret == '' and cls:
                kind = 'conversion'
            elif name.startswith('operator'):
                kind = 'operator'
            elif cls is None:
                kind = 'free function'
            elif 'static' in quals:
                kind = 'static member'
            else:
                kind = 'member'
            self.add(kind, name, norm(params), ret, tmpl, req, ns, cls, access, quals)
            if term == '{':
                return nxt
            if term == ';':
                return nxt
        # ---- variables / data members / constants
        m = re.match(r'(.*?)([A-Za-z_]\w*)\s*(=.*|\{.*)?$', h, re.S)
        if m and '(' not in (m.group(1) or '') or (m and m.group(3)):
            pre = m.group(1).strip()
            if pre and not re.match(r'(return|if|for|while|else|case)\b', pre):
                quals = [q for q in ('static', 'constexpr', 'inline', 'mutable') if re.search(r'\b' + q + r'\b', pre)]
                kind = 'constant' if ('constexpr' in quals or cls is None) else 'data member'
                typ = norm(re.sub(r'\b(static|constexpr|inline|mutable)\b', '', pre))
                default = ''
                if m.group(3):
                    default = norm(m.group(3).lstrip('=').strip())
                if term == '{' and not m.group(3):
                    default = '{' + norm(s[j + 1:body_end]) + '}'
                self.add(kind, m.group(2), default, typ, tmpl, req, ns, cls, access, quals)
                if term == '{':
                    k = s.find(';', body_end)
                    return k + 1
                return nxt
        self.blind.append((self.header, norm(h)[:100]))
        if term == '{':
            return nxt
        return nxt

    def find_function(self, h):
        """(name, text before the name, parameter text, text after the parameter list) or None"""
        i, n = 0, len(h)
        while i < n:
            c = h[i]
            if c == '<':
                # template argument list if the previous token is an identifier and not `operator<`
                prev = h[:i].rstrip()
                if prev.endswith('operator') or prev.endswith('operator<'):
                    i += 1
                    continue
                if re.search(r'[\w>]$', prev):
                    k = match_angle(h, i)
                    if k > 0:
                        i = k + 1
                        continue
                i += 1
            elif c == '=':
                if not re.search(r'operator\s*[=!<>+\-*/]?$', h[:i]):
                    return None               # initialiser before any parameter list: a variable
                i += 1
            elif c == '(':
                prev = h[:i].rstrip()
                m = re.search(r'(operator\s*(?:\(\s*\)|\[\s*\]|<<|>>|[-+*/=<>!&|^%~]+|[\w:<>, ]+?)|~?[A-Za-z_]\w*)$', prev)
                if prev.endswith('operator'):   # operator()
                    k = match_close(h, i, '(', ')')
                    j2 = h.find('(', k + 1)
                    if j2 < 0:
                        return None
                    name = 'operator()'
                    pre = prev[:-len('operator')]
                    k2 = match_close(h, j2, '(', ')')
                    return name, pre, h[j2 + 1:k2], h[k2 + 1:]
                if not m:
                    return None
                name = re.sub(r'\s+', '', m.group(1)) if m.group(1).startswith('operator') and not re.match(r'operator\s+\w', m.group(1)) \
                    else re.sub(r'\s+', ' ', m.group(1))
                if name in ('requires', 'decltype', 'noexcept', 'sizeof', 'alignas', 'if', 'while', 'for', 'switch', 'return', 'static_assert'):
                    if name == 'decltype':
                        i = match_close(h, i, '(', ')') + 1
                        continue
                    return None
                pre = prev[:m.start()]
                k = match_close(h, i, '(', ')')
                return name, pre, h[i + 1:k], h[k + 1:]
            else:
                i += 1
        return None

    def add(self, kind, name, params, ret, tmpl, req, ns, cls, access, quals):
        in_detail = any(x in ('detail', 'utils') or x.endswith('::detail') for x in ns) and self.header != 'compat/odeint.hpp'
        public = access == 'public'
        c = cls
        while c is not None and public:
            if c['outer'] is not None and c['access'] != 'public':
                public = False
            c = c['outer']
        scope = cls['name'] if cls else ''
        o = cls['outer'] if cls else None
        while o is not None:
            scope = o['name'] + '::' + scope
            o = o['outer']
        self.entries.append({
            'header': self.header, 'namespace': '::'.join(x for x in ns if x), 'scope': scope,
            'scope_bases': cls['bases'] if cls else '', 'kind': kind, 'name': name, 'params': params, 'ret': ret,
            'template': ' '.join(tmpl), 'requires': ' && '.join(req), 'quals': quals,
            'public': public and not in_detail, 'why_not_public': ('namespace detail/utils' if in_detail else ('' if public else access)),
        })


def signature(e):
    q = e['quals']
    pre = ' '.join(x for x in ('static', 'explicit', 'virtual', 'constexpr') if x in q and not (x == 'constexpr' and e['kind'] in ('constant',)))
    post = ' '.join(x for x in ('const', 'noexcept', 'override', '=default', '=delete', '=0') if x in q)
    scope = (e['scope'] + '::') if e['scope'] else ''
    if e['kind'] in ('constant', 'data member'):
        body = f"{e['ret']} {scope}{e['name']}" + (f" = {e['params']}" if e['params'] else '')
    elif e['kind'] in ('class', 'concept', 'enum'):
        body = f"{e['kind']} {scope}{e['name']}" + (f" : {e['ret']}" if e['ret'] else '') + (f" {{{e['params']}}}" if e['kind'] == 'enum' else '')
    else:
        body = f"{e['ret']} {scope}{e['name']}({e['params']})".strip()
    sig = ' '.join(x for x in (e['template'], pre, body, post) if x)
    if e['requires']:
        sig += ' requires ' + e['requires']
    return re.sub(r'\s+', ' ', sig)


def extract_api():
    macros = {k: v for k, v in read_macros().items() if k.startswith('SMOOTH_') and k != 'SMOOTH_DEFINE_REFS'}
    entries, blind = [], []
    for h in PUBLIC_HEADERS:
        p = os.path.join(INC, h)
        if not os.path.exists(p):
            blind.append((h, 'header missing in this tree'))
            continue
        txt = strip_comments(open(p).read())
        txt = strip_preprocessor(txt)
        txt = re.sub(r'\bSMOOTH_(BEGIN|END)_NAMESPACE\b', lambda m: 'namespace smooth {' if m.group(1) == 'BEGIN' else '}', txt)
        txt = expand_macros(txt, macros)
        sc = Scanner(h, txt)
        entries += sc.run()
        blind += sc.blind
    return entries, blind


# ======================================================================================= harness side
GROUP_CLASSES = ['SO2', 'SO3', 'SE2', 'SE3', 'C1', 'Galilei', 'SE_K_3', 'Bundle']
BASE_OF = {g: g + 'Base' for g in GROUP_CLASSES}
SINK = re.compile(r'\b(go|put\w*|emit\w*|out\w*\.push_back|res\w*\.push_back|Line<\w+>|std::f?printf|f?printf|word\w*|record|rec|cmpb?|hit|W|os\s*<<|std::cout|ok\s*&=|same\s*&=|check\w*|expect\w*|dump\w*|reply|write_all|say|add_words|push)\b|\bo\.[smvw]\w*\(|\bos\s*<<')
RETURN = re.compile(r'^\s*return\b')


def plugin_map(read):
    """harness file -> [property], and for lie.cpp op -> [property]"""
    pdir = 'tools/props'
    file_props, lie_ops = {}, {}
    names = [n for n in read.listdir(pdir) if re.match(r'c\d\d\w*\.py$', n)]
    for n in sorted(names):
        txt = read(os.path.join(pdir, n))
        pid = 'C' + n[1:3]
        for m in re.finditer(r"'(\w+)\.cpp'", txt):
            file_props.setdefault(m.group(1) + '.cpp', set()).add(pid)
        m = re.search(r"(?:LieProp|C05)\(\s*'(C\d\d)'\s*,\s*\[([^\]]*)\]", txt)
        if m:
            for op in re.findall(r"'(\w+)'", m.group(2)):
                lie_ops.setdefault(op, set()).add(m.group(1))
            if 'apiops.API_OPS' in txt and 'apiops.py' in read.listdir(pdir):
                import ast
                am = re.search(r'API_OPS\s*=\s*(\{.*?\n\})', read(os.path.join(pdir, 'apiops.py')), re.S)
                if am:
                    for op in ast.literal_eval(am.group(1)).get(m.group(1), []):
                        lie_ops.setdefault(op, set()).add(m.group(1))
        if n == 'c06.py':
            m = re.search(r'T1_OPS\s*=\s*\{([^}]*)\}', txt)
            if m:
                for op in re.findall(r"'(\w+)'", m.group(1)):
                    lie_ops.setdefault(op, set()).add('C06')
        if 'lie_specs' in txt and n not in ('c06.py',) and 'from props.lie import *' in txt:
            file_props.setdefault('lie.cpp', set())
    file_props.setdefault('optim_families.hpp', set()).update(file_props.get('optim.cpp', set()) | {'C09'})
    file_props.setdefault('optim.cpp', set()).add('C09')
    return file_props, lie_ops


class Reader:
    """working tree or a git revision of /verif"""
    def __init__(self, rev=None):
        self.rev = rev

    def __call__(self, rel):
        if self.rev is None:
            return open(os.path.join(ROOT, rel)).read()
        return subprocess.run(['git', '-C', ROOT, 'show', f'{self.rev}:{rel}'], capture_output=True, text=True, check=True).stdout

    def listdir(self, rel):
        if self.rev is None:
            return os.listdir(os.path.join(ROOT, rel))
        out = subprocess.run(['git', '-C', ROOT, 'ls-tree', '--name-only', f'{self.rev}', rel + '/'], capture_output=True, text=True, check=True).stdout
        return [os.path.basename(x) for x in out.split()]


TYPE_RX = r'(?:typename\s+)?(?:smooth::)?(?:Map\s*<[^;(){}=]*?>+|(?:SO2|SO3|SE2|SE3|C1|Galilei|SE_K_3|Bundle|Spline|BSpline|CubicSpline|SubManifold|PlainObject|CastT)\s*<[^;(){}=]*?>+|SO[23][df]|SE[23][df]|C1[df]|Galileid|AnyManifold|G\d?|Go|GG|H|M\d?|MG|CG|CM|X|Spl|BS|Tangent|(?:G|M)::Tangent|T(?:an)?\d?|V\d|VX|Vec\w*|Eigen::(?:Vector|Matrix|RowVector)\w*(?:<[^;(){}=]*?>)?|auto|P)'
DECL_RX = re.compile(r'(?<![\w:.>])(?:static\s+)?(?:const\s+)?(' + TYPE_RX + r')\s*(?:const\s*)?&{0,2}\s*([A-Za-z_]\w*)\s*(?=[=({;,)])')


def type_class(t):
    t = re.sub(r'\s+', '', t)
    if re.match(r'(typename)?(smooth::)?Map<const', t): return 'cmap'
    if re.match(r'(typename)?(smooth::)?Map<', t) or t == 'MG': return 'map'
    if t in ('CG', 'CM'): return 'cmap'
    if re.match(r'(typename)?(smooth::)?(SO2|SO3|SE2|SE3|C1|Galilei|SE_K_3|Bundle|PlainObject|CastT)<', t) or re.match(r'(SO[23]|SE[23]|C1|Galilei)[df]$', t) \
            or re.match(r'(G\d?|Go|GG|H|X|P)$', t): return 'value'
    if re.match(r'(typename)?((G|M)::)?Tangent', t) or re.match(r'T(an)?\d?$', t) or re.match(r'V\d$|VX$|Vec|Eigen::', t): return 'vector'
    if re.match(r'(smooth::)?(Spline|CubicSpline|Spl)', t): return 'spline'
    if re.match(r'(smooth::)?(BSpline|BS)', t): return 'bspline'
    if re.match(r'(smooth::)?(SubManifold|AnyManifold)|M\d?$', t): return 'manifold'
    return 'auto'


def concrete_class(t):
    m = re.search(r'\b(SO2|SO3|SE2|SE3|C1|Galilei|SE_K_3|Bundle)\b', t)
    return m.group(1) if m else None


class Harness:
    def __init__(self, name, text):
        self.name = name
        self.raw = text
        s = strip_comments(text)
        s = strip_preprocessor(s)
        self.s = s
        self.funcs = self.split_functions()
        self.inst = set(re.findall(r'\b(SO2|SO3|SE2|SE3|C1|Galilei|SE_K_3|Bundle)\s*<', s)) | \
            {{'SO2d': 'SO2', 'SO3d': 'SO3', 'SE2d': 'SE2', 'SE3d': 'SE3'}.get(x, x) for x in re.findall(r'\b(SO2d|SO3d|SE2d|SE3d)\b', s)}

    # ------------------------------------------------------------ function bodies
    def split_functions(self):
        s = self.s
        funcs = []

        def walk(i, end):
            while i < end:
                j = i
                while j < end and s[j] not in '{;':
                    if s[j] == '(':
                        j = match_close(s, j, '(', ')')
                    j += 1
                if j >= end:
                    break
                if s[j] == ';':
                    i = j + 1
                    continue
                k = match_close(s, j, '{', '}')
                head = s[i:j]
                hh = re.sub(r'template\s*<[^{;]*?>\s*(?=(struct|class|union|namespace|enum))', '', head.strip())
                if re.match(r'(template\s*<.*>\s*)?(struct|class|union|namespace)\b', hh, re.S) and '(' not in re.sub(r'<[^{;]*>', '', hh):
                    walk(j + 1, k)
                elif re.match(r'\s*enum\b', hh):
                    pass
                elif '(' in head:
                    m = re.search(r'([A-Za-z_~][\w:]*|operator\s*\S+)\s*\(', re.sub(r'template\s*<[^;{]*?>\s*\n', '', head))
                    funcs.append({'name': m.group(1) if m else '?', 'start': j + 1, 'end': k, 'head': head})
                i = k + 1
        walk(0, len(s))
        return funcs

    def func_at(self, p):
        for f in self.funcs:
            if f['start'] <= p < f['end']:
                return f
        return None

    def statements(self, f):
        """[(start, end)] of the statements of a function body (split at ; { } on paren depth 0)"""
        if 'stmts' in f:
            return f['stmts']
        s = self.s
        out, i, a = [], f['start'], f['start']
        while i < f['end']:
            c = s[i]
            if c == '(':
                i = match_close(s, i, '(', ')')
            elif c == '"':
                k = i + 1
                while k < f['end'] and s[k] != '"':
                    k += 2 if s[k] == '\\' else 1
                i = k
            elif c in ';{}':
                if s[a:i].strip():
                    out.append((a, i))
                a = i + 1
            i += 1
        f['stmts'] = out
        return out

    def stmt_at(self, f, p):
        for a, b in self.statements(f):
            if a <= p <= b:
                return a, b
        return p, p

    # ------------------------------------------------------------ declared identifier classes (file level + per function)
    def ident_types(self, f):
        if 'types' in f:
            return f['types']
        s = self.s
        types = {}
        f['decls'] = {}
        region = f['head'] + s[f['start']:f['end']]
        for m in DECL_RX.finditer(region):
            t, name = m.group(1), m.group(2)
            if name in ('const', 'return', 'typename', 'template', 'operator', 'if', 'else', 'new', 'using', 'static', 'constexpr', 'noexcept', 'class', 'struct'):
                continue
            types.setdefault(name, t)
            f['decls'].setdefault(name, []).append((m.start(), t))
            # further declarators of the same statement:  T a = …, b = …, c(…);
            e = region.find(';', m.end())
            rest = region[m.end():e if e > 0 else m.end()]
            depth = 0
            k = 0
            while k < len(rest):
                ch = rest[k]
                if ch in '([{':
                    depth += 1
                elif ch in ')]}':
                    depth -= 1
                    if depth < 0:
                        break
                elif ch == ',' and depth == 0:
                    mm = re.match(r'\s*&?\s*([A-Za-z_]\w*)\s*(?=[=({;,]|$)', rest[k + 1:])
                    if mm:
                        types.setdefault(mm.group(1), t)
                        f['decls'].setdefault(mm.group(1), []).append((m.start(), t))
                k += 1
        # generic lambdas: parameter classes from their call sites  name(arg, …)
        for m in re.finditer(r'auto\s+(\w+)\s*=\s*\[[^\]]*\]\s*(?:<[^>]*>\s*)?\(([^)]*)\)', region):
            lam, params = m.group(1), [p.strip() for p in m.group(2).split(',')]
            pnames = [re.findall(r'(\w+)\s*$', p)[0] if re.findall(r'(\w+)\s*$', p) else '' for p in params]
            for c in re.finditer(r'(?<![\w.])' + lam + r'\s*\(([^;]*?)\)\s*;', region):
                args = split_args(c.group(1))
                for pn, a in zip(pnames, args):
                    a = a.strip()
                    if pn and re.match(r'\w+$', a) and a in types and type_class(types.get(pn, 'auto')) == 'auto':
                        types.setdefault(pn + '@', [])
                        types[pn + '@'].append(types[a])
        f['types'] = types
        return types

    def decl_type(self, f, ident, p=None):
        """declared type of the identifier as seen from position p: the nearest declaration before p in the function"""
        self.ident_types(f)
        ds = f['decls'].get(ident)
        if not ds:
            return None
        if p is None:
            return ds[0][1]
        rel = p - f['start'] + len(f['head'])
        best = None
        for q, t in ds:
            if q <= rel:
                best = t
        return best or ds[0][1]

    def classes_of(self, f, ident, p=None):
        """set of storage classes {value,map,cmap,vector,…} an identifier can have"""
        types = self.ident_types(f)
        if ident + '@' in types:
            return {type_class(t) for t in types[ident + '@']}
        t = self.decl_type(f, ident, p)
        if t is not None:
            return {type_class(self.resolve_alias(t, f['start']))}
        return {'?'}

    def concrete_of(self, f, ident, p=None):
        types = self.ident_types(f)
        ts = types.get(ident + '@') or ([self.decl_type(f, ident, p)] if self.decl_type(f, ident, p) else [])
        ts = [self.resolve_alias(t, f['start']) for t in ts]
        return {concrete_class(t) for t in ts if concrete_class(t)}

    # ------------------------------------------------------------ local type aliases  `using X = T;`
    def aliases(self):
        if hasattr(self, '_aliases'):
            return self._aliases
        s = self.s
        out = []
        for m in re.finditer(r'\busing\s+(\w+)\s*=\s*([^;]+);', s):
            q = m.start()
            # enclosing block
            depth, i = 0, q
            while i > 0:
                i -= 1
                if s[i] == '}':
                    depth += 1
                elif s[i] == '{':
                    if depth == 0:
                        break
                    depth -= 1
            end = match_close(s, i, '{', '}') if s[i] == '{' else len(s)
            out.append((m.group(1), re.sub(r'\s+', ' ', m.group(2)).strip(), q, end))
        self._aliases = out
        return out

    def resolve_alias(self, t, p, depth=0):
        t0 = re.sub(r'^(typename\s+)?', '', t.strip())
        if depth > 3 or not re.match(r'\w+$', t0):
            return t
        best = None
        for name, rhs, a, b in self.aliases():
            if name == t0 and a <= p <= b or (name == t0 and a <= p and b >= p):
                best = rhs
        if best is None:
            for name, rhs, a, b in self.aliases():
                if name == t0 and a - 400 <= p <= b:
                    best = rhs
        return self.resolve_alias(best, p, depth + 1) if best else t

    # ------------------------------------------------------------ op attribution
    def op_at(self, f, p):
        s = self.s
        a, b = self.stmt_at(f, p) if f else (p, p)
        seg = s[a:b]
        m = re.search(r'(?:go(?:<\w+>)?|emit\w*|Line<\w+>|line|req)\s*\(\s*(?:f\s*,\s*)?(?:p\s*\+\s*)?"(\w+)"', seg)
        if m:
            return m.group(1)
        if f:
            # the emitting call may follow the statement that makes the call (x.setRandom(); go("random_elem", …, x.coeffs());)
            sts = self.statements(f)
            idx = next((k for k, (c, d) in enumerate(sts) if c <= p <= d), None)
            if idx is not None:
                for (c, d) in sts[idx + 1: idx + 4]:
                    m = re.search(r'(?:go(?:<\w+>)?|emit\w*|Line<\w+>)\s*\(\s*(?:f\s*,\s*)?"(\w+)"', s[c:d])
                    if m:
                        return m.group(1)
        lo = f['start'] if f else 0
        best = None
        for m in re.finditer(r'(?:op|mode|what|kind|cmd|name|o)\s*==\s*"(\w+)"|at\(\s*"(\w+)"\s*\)|case\s+\'(\w)\'', s[lo:p]):
            best = m.group(1) or m.group(2) or m.group(3)
        return best or ''

    # ------------------------------------------------------------ observed?
    def observed(self, f, p, mutates_receiver=None):
        """does the value produced at position p reach an output sink of the function (identifier-level data flow)?"""
        if f is None:
            # initialiser of a namespace- or class-scope constant: observed when some function hands that constant to a sink
            s = self.s
            a = max(s.rfind(';', 0, p), s.rfind('{', 0, p), s.rfind('}', 0, p)) + 1
            b = s.find(';', p)
            names = assigned_names(s[a:b])
            for g in self.funcs:
                for (c, d) in self.statements(g):
                    t = s[c:d]
                    if any(re.search(r'\b' + re.escape(x) + r'\b', t) for x in names) and (SINK.search(t) or RETURN.match(t)):
                        return True
            return False
        s = self.s
        a, b = self.stmt_at(f, p)
        seg = s[a:b]
        if SINK.search(seg) or RETURN.match(seg):
            return True
        tainted = set(assigned_names(seg))
        m = re.match(r'\s*[\w:<>,\s*&]+?\s+([A-Za-z_]\w*)\s*[({]', seg)   # T x(expr) / T x{expr}
        if m and not re.match(r'\s*(if|for|while|switch|return)\b', seg):
            tainted.add(m.group(1))
        if mutates_receiver:
            tainted.add(mutates_receiver)
        m = re.match(r'\s*([A-Za-z_]\w*)\s*(?:\.|->)\s*\w+', seg)           # obj.push_back(call) / obj.coeffs() = call
        if m:
            tainted.add(m.group(1))
        if not tainted:
            return False
        for (c, d) in self.statements(f):
            if c <= b:
                continue
            t = s[c:d]
            if not any(re.search(r'\b' + re.escape(x) + r'\b', t) for x in tainted):
                continue
            if SINK.search(t) or RETURN.match(t):
                return True
            tainted.update(assigned_names(t))
            m = re.match(r'\s*([A-Za-z_]\w*)\s*(?:\.|->)\s*\w+', t)
            if m:
                tainted.add(m.group(1))
        return False


def assigned_names(stmt):
    """identifiers assigned by a statement: the declarator / lvalue left of its first top-level `=`, `+=`, `-=`, `*=`"""
    d = 0
    for i, ch in enumerate(stmt):
        if ch in '([{':
            d += 1
        elif ch in ')]}':
            d -= 1
        elif ch == '=' and d == 0:
            if stmt[i + 1:i + 2] == '=' or (i > 0 and stmt[i - 1] in '=!<>'):
                continue
            lhs = stmt[:i].rstrip('+-*/ ')
            mb = re.search(r'\[([\w,\s&]+)\]\s*$', lhs)
            if mb and 'auto' in lhs:
                return re.findall(r'[A-Za-z_]\w*', mb.group(1))
            mm = re.search(r'([A-Za-z_]\w*)\s*(?:\[[^\]]*\]|\([^)]*\))?\s*$', lhs)
            mo = re.match(r'\s*([A-Za-z_]\w*)\s*(?:\.|->|\[)', lhs)
            out = [mm.group(1)] if mm else []
            if mo:
                out.append(mo.group(1))
            return out
    return []


class _Shift:
    """a regex match inside a slice, reported in coordinates of the whole text"""
    def __init__(self, m, off, inner):
        self.m, self.off, self.inner = m, off, inner

    def start(self, *a):
        return self.m.start(*a) + self.off

    def end(self, *a):
        return self.m.end(*a) + self.off

    def group(self, k):
        return self.inner if k == 1 else self.m.group(k)


def split_args(a):
    out, d, cur = [], 0, ''
    for ch in a:
        if ch in '([{<':
            d += 1
        elif ch in ')]}>':
            d -= 1
        if ch == ',' and d == 0:
            out.append(cur)
            cur = ''
        else:
            cur += ch
    if cur.strip():
        out.append(cur)
    return out


def n_params(e):
    ps = split_args(e['params']) if e['params'].strip() else []
    req = sum(1 for p in ps if '=' not in p and '...' not in p)
    var = any('...' in p for p in ps)
    return req, (99 if var else len(ps))


def call_args(s, i):
    """s[i] == '(' : argument list"""
    k = match_close(s, i, '(', ')')
    return split_args(s[i + 1:k]), k


# ---------------------------------------------------------------------------------------- matching
def find_hits(entries, harnesses, file_props, lie_ops):
    """entry index -> list of hits {file, op, props, receiver, observed, pos}"""
    hits = {i: [] for i in range(len(entries))}
    by_name = {}
    for i, e in enumerate(entries):
        if e['public']:
            by_name.setdefault(e['name'], []).append(i)

    def props_of(hn, op):
        if hn == 'lie.cpp':
            return sorted(lie_ops.get(op, set()))
        return sorted(file_props.get(hn, set()))

    def add(i, h, p, f, receiver='', observed=None, mut=None, note=''):
        op = h.op_at(f, p) if f else ''
        ob = h.observed(f, p, mut) if observed is None else observed
        hits[i].append({'file': h.name, 'op': op, 'props': props_of(h.name, op), 'receiver': receiver, 'observed': bool(ob),
                        'line': h.s.count('\n', 0, p) + 1, 'note': note})

    def excluded_classes(h, f, p):
        if f is None:
            return set()
        seg = h.s[f['start']:p]
        ex = set()
        k = seg.rfind('if constexpr')
        if k >= 0 and seg.count('{', k) > seg.count('}', k):
            cond = seg[k:seg.find('{', k)]
            ex = set(re.findall(r'!\s*std::is_same_v<\s*\w+\s*,\s*(?:smooth::)?(\w+)\s*<', cond))
        return ex

    def only_classes(h, f, p):
        """`if constexpr (is_se2_v<G>)`-style restriction of the enclosing block"""
        if f is None:
            return None
        seg = h.s[f['start']:p]
        k = seg.rfind('if constexpr')
        if k >= 0 and seg.count('{', k) > seg.count('}', k):
            cond = seg[k:seg.find('{', k)]
            m = re.findall(r'(?<!!)\bis_(so2|so3|se2|se3|c1|gal|sek|bundle)_v\s*<', cond)
            m2 = re.findall(r'(?<!!)std::is_base_of_v<\s*(?:smooth::)?(\w+)Base\s*<', cond) + \
                re.findall(r'(?<!!)\s*std::is_same_v<\s*\w+\s*,\s*(?:smooth::)?(\w+)\s*<', cond)
            mp = {'so2': 'SO2', 'so3': 'SO3', 'se2': 'SE2', 'se3': 'SE3', 'c1': 'C1', 'gal': 'Galilei', 'sek': 'SE_K_3', 'bundle': 'Bundle'}
            r = {mp[x] for x in m} | set(m2)
            return r or None
        return None

    group_base_of = {v: k for k, v in BASE_OF.items()}

    for h in harnesses:
        s = h.s
        # ---------------- member / static / free calls by name
        for m in re.finditer(r'(?P<pre>\.|->|::)?\s*(?P<tmpl>template\s+)?(?<![\w])(?P<name>[A-Za-z_]\w*)\s*(?P<targs><[^;{}()=]*?>)?\s*\(', s):
            name = m.group('name')
            if name not in by_name:
                continue
            p = m.start('name')
            pre = m.group('pre') or ''
            f = h.func_at(p)
            if f is None and not pre:
                continue
            # what stands before the separator
            before = s[max(0, p - 160):m.start()]
            qual = ''
            recv = ''
            if pre == '::':
                mq = re.search(r'([\w:]+(?:<[^;{}()]*>)?)\s*$', before)
                qual = mq.group(1) if mq else ''
            elif pre in ('.', '->'):
                mr = re.search(r'([A-Za-z_]\w*)\s*(?:\[[^\]]*\])?\s*$', before)
                recv = mr.group(1) if mr else ''
                if before.rstrip().endswith(')'):
                    recv = '<temporary>'
            args, _ = call_args(s, m.end() - 1)
            nargs = len(args)
            for i in by_name[name]:
                e = entries[i]
                k = e['kind']
                lo, hi = n_params(e) if k not in ('constant', 'data member', 'class', 'concept', 'enum') else (0, 0)
                if k in ('constant', 'data member', 'class', 'concept', 'enum', 'destructor'):
                    continue
                if not (lo <= nargs <= hi):
                    continue
                scope = e['scope']
                gen_note = ''
                if k == 'member' or (k == 'operator' and False):
                    if pre not in ('.', '->'):
                        continue
                    rc = h.classes_of(f, recv, p) if recv and recv != '<temporary>' else {'temporary'}
                    # class resolution
                    if scope == 'LieGroupBase' or scope in group_base_of or scope in GROUP_CLASSES or scope.startswith('Map<'):
                        if rc & {'vector', 'spline', 'bspline', 'manifold'}:
                            continue
                        if scope in group_base_of or scope in GROUP_CLASSES:
                            cls = group_base_of.get(scope, scope)
                            conc = h.concrete_of(f, recv, p) if recv else set()
                            only = only_classes(h, f, p)
                            if conc:
                                if cls not in conc:
                                    continue
                            elif only is not None:
                                if cls not in only:
                                    continue
                            else:
                                if cls not in h.inst or cls in excluded_classes(h, f, p):
                                    continue
                        if scope.startswith('Map<') or scope in GROUP_CLASSES:
                            # coeffs()/data() of a storage class: pick by receiver storage and constness of the overload
                            want = 'cmap' if scope.startswith('Map<const') else ('map' if scope.startswith('Map<') else 'value')
                            if want not in rc and not (rc & {'?', 'auto', 'temporary'}):
                                continue
                            if scope.startswith('Map<'):
                                cls = concrete_class(scope)
                                if cls not in h.inst:
                                    continue
                        # const / non-const overload pairs (quat so2 r2 r3 … part coeffs data): the non-const overload needs a
                        # mutable receiver; a receiver declared const (or a const Map / Map<const>) selects the const one
                        sib = [j for j in by_name[name] if entries[j]['scope'] == scope and j != i and n_params(entries[j]) == (lo, hi)]
                        if sib:
                            is_const = 'const' in e['quals'] and 'is_mutable' not in e['requires']
                            recv_const = receiver_is_const(h, f, recv, p) if recv and recv != '<temporary>' else None
                            if recv_const is not None and recv_const != is_const:
                                continue
                            if recv_const is None:
                                gen_note = 'generic receiver: const and non-const instantiations not told apart'
                    elif scope in ('Spline', 'BSpline', 'SubManifold', 'AnyManifold', 'StaticMatrix') or 'Strategy' in scope:
                        if rc & {'vector'} and scope not in ('StaticMatrix',):
                            continue
                        if scope == 'Spline' and rc & {'bspline'}: continue
                        if scope == 'BSpline' and rc & {'spline'}: continue
                        if scope == 'BSpline' and not (rc & {'bspline'}) and name in ('t_min', 't_max', 'dt') and 'BSpline' not in s: continue
                        if scope == 'Spline' and 'Spline<' not in s and 'CubicSpline' not in s and 'Spl ' not in s: continue
                        if scope in ('SubManifold',) and 'SubManifold' not in s: continue
                        if scope in ('AnyManifold',) and 'AnyManifold' not in s: continue
                        if scope == 'StaticMatrix' and 'StaticMatrix' not in s and 'polynomial' not in s: continue
                        if 'Strategy' in scope and 'Strategy' not in s: continue
                    mut = recv if name in ('setIdentity', 'setRandom', 'make_local', 'concat_global', 'concat_local', 'reserve', 'step_and_update') else None
                    add(i, h, p, f, receiver='/'.join(sorted(rc)), mut=mut, note=gen_note)
                elif k == 'static member':
                    if pre != '::':
                        continue
                    q = re.sub(r'\s+', '', qual)
                    if scope.startswith(('lie<', 'man<')):
                        if not re.search(r'(lie|man)<', q):
                            continue
                        if scope.startswith('lie<') != ('lie<' in q):
                            continue
                    else:
                        if re.search(r'(lie|man)<', q) or q in ('smooth', 'std', 'Eigen', 'vh', 'detail', 'smooth::detail', 'diff', 'smooth::diff'):
                            continue
                        if scope == 'LieGroupBase':
                            if re.match(r'(Eigen|std)', q): continue
                        elif scope in GROUP_CLASSES:
                            conc = concrete_class(q)
                            if conc and conc != scope: continue
                            if not conc and scope not in h.inst: continue
                        elif scope in ('Spline', 'BSpline'):
                            if scope == 'Spline' and not re.search(r'Spl|Spline|Curve|Sp\b', q): continue
                    rq = 'cmap' if re.search(r'Map<const|^C[GM]$', q) else ('map' if re.search(r'Map<|^MG$', q) else 'value')
                    if q == 'X' and f is not None:
                        # a generic lambda `[&]<class X>(std::type_identity<X>, …)`: X = the types it is instantiated with
                        inst = set(re.findall(r'type_identity<\s*(\w+)\s*>\s*\{', h.s[f['start']:f['end']]))
                        rq = '/'.join(sorted({'map' if t == 'MG' else 'cmap' if t in ('CG', 'CM') else 'value' for t in inst})) or 'value'
                    add(i, h, p, f, receiver=rq)
                elif k == 'free function':
                    if pre in ('.', '->'):
                        continue
                    if pre == '::':
                        q = re.sub(r'\s+', '', qual)
                        if not re.match(r'(smooth|smooth::diff|diff|::smooth)$', q):
                            continue
                    # overload resolution by arity only
                    add(i, h, p, f, receiver=(m.group('targs') or '').strip())
                elif k == 'constructor':
                    continue   # handled below
        # ---------------- constructors
        for i, e in enumerate(entries):
            if not e['public'] or e['kind'] != 'constructor':
                continue
            scope = e['scope']
            base = re.sub(r'<.*', '', scope)
            lo, hi = n_params(e)
            if scope.startswith('Map<'):
                cls = concrete_class(scope)
                cst = scope.startswith('Map<const')
                rx = re.compile(r'Map\s*<\s*' + ('const\s+' if cst else r'(?!const\b)') + r'([^;(){}]*?)>\s*(?:(\w+)\s*)?([({])')
            else:
                alias = {'SO2': r'SO2d|SO2f', 'SO3': r'SO3d|SO3f', 'SE2': r'SE2d|SE2f', 'SE3': r'SE3d|SE3f', 'Spline': r'CubicSpline\s*<[^;(){}]*?>'}.get(base)
                rx = re.compile(r'(?<![\w:.])(?:smooth::)?(?:' + base + r'\s*<([^;(){}]*?)>' + ('|' + alias if alias else '') + r')\s*(?:(\w+)\s*)?([({])') \
                    if base not in ('AnyManifold',) else re.compile(r'(?<![\w.])(?:smooth::)?AnyManifold()\s*(?:(\w+)\s*)?([({])')
            cands = list(rx.finditer(s))
            # local aliases of the class:  using M = smooth::SubManifold<T>;  …  M(m0, m, fd)
            for an, rhs, qa, qb in h.aliases():
                if scope.startswith('Map<'):
                    ok = re.match(r'(typename\s+)?(smooth::)?Map\s*<\s*' + ('const\s+' if cst else r'(?!const\b)'), rhs) is not None
                else:
                    ok = re.match(r'(typename\s+)?(smooth::)?' + base + r'\b\s*(<|$)', rhs) is not None
                if not ok:
                    continue
                for m in re.finditer(r'(?<![\w:.])' + an + r'()\s*(?:(\w+)\s*)?([({])', s[qa:qb]):
                    cands.append(_Shift(m, qa, rhs))
            if lo == 0 and not scope.startswith('Map<'):
                # default construction `T a;`
                for m in re.finditer(r'(?<![\w:.<])(?:smooth::)?' + base + r'\b(\s*<[^;(){}]*?>)?\s+(\w+)\s*(;)', s):
                    cands.append(m)
            for m in cands:
                p = m.start()
                f = h.func_at(p)
                if f is None:
                    continue
                if m.group(3) == ';':
                    if '=default' not in e['quals'] and not re.search(r'\b(using|typename|struct|class|return)\s*$', s[max(0, p - 12):p]):
                        add(i, h, p, f, receiver='', mut=m.group(2))
                    continue
                if scope.startswith('Map<'):
                    inner = m.group(1)
                    c = concrete_class(inner)
                    if c and c != cls:
                        continue
                    if not c and (cls not in h.inst):
                        continue
                    if re.match(r'\s*(Eigen|std)', inner):
                        continue
                opench = m.group(3)
                j = m.end() - 1
                if opench == '(':
                    args, _ = call_args(s, j)
                else:
                    kk = match_close(s, j, '{', '}')
                    args = split_args(s[j + 1:kk])
                # a declaration `T name(args)` or temporary `T(args)`; skip template-argument uses such as `group<SO2<S>>()`
                inner_t = m.group(1) or ''
                if inner_t.count('<') != inner_t.count('>'):
                    continue
                n = len(args)
                if not (lo <= n <= hi):
                    continue
                # copy / move / other-storage constructors: one argument that is a group identifier
                ptxt = e['params']
                a0 = args[0].strip() if args else ''
                if n == 1 and not scope.startswith('Map<'):
                    a0c = h.classes_of(f, a0, p) if re.match(r'\w+$', a0) else set()
                    is_grp = bool(a0c & {'value', 'map', 'cmap'}) or re.search(r'\b(Identity|exp|inverse)\s*\(|\*', a0) is not None
                    if re.search(r'Base<OtherDerived>', ptxt):
                        if not (a0c & {'map', 'cmap'}):
                            continue
                    elif re.match(r'const ' + base + r' &$|' + base + r' & &$', ptxt.strip()):
                        if not (a0c & {'value'}) or (ptxt.strip().endswith('& &') and 'std::move' not in a0):
                            continue
                    elif 'complex' in ptxt:
                        if 'complex' not in a0 and not re.search(r'\bc\b|\.u1\(\)|\.c1\(\)', a0):
                            continue
                    elif 'Quaternion' in ptxt:
                        if not re.search(r'[Qq]uat|\bq\w*\b', a0):
                            continue
                    elif 'Transform' in ptxt:
                        if not re.search(r'isometry|\bt\b|Transform|\biso\w*', a0):
                            continue
                    elif 'const Scalar &angle' in ptxt or ptxt.startswith('const Scalar'):
                        if is_grp or 'complex' in a0 or re.search(r'[Qq]uat', a0):
                            continue
                add(i, h, p, f, receiver='', mut=m.group(2))
        # ---------------- operators (typed patterns)
        for f in h.funcs:
            body = s[f['start']:f['end']]
            types = h.ident_types(f)
            ids = {}
            for name, t in types.items():
                if name.endswith('@'):
                    ids[name[:-1]] = {type_class(x) for x in t}
                else:
                    ids.setdefault(name, {type_class(t)})
            grp = sorted((n for n, c in ids.items() if c & {'value', 'map', 'cmap'} and not c & {'vector'}), key=len, reverse=True)
            spl = sorted((n for n, c in ids.items() if c & {'spline'}), key=len, reverse=True)
            bsp = sorted((n for n, c in ids.items() if c & {'bspline'}), key=len, reverse=True)
            if not grp and not spl and not bsp:
                G_ALT = None
            G_ALT = '|'.join(map(re.escape, grp)) if grp else None
            GEXPR = r'(?:(?:' + G_ALT + r')\b(?!\s*[.(\[])|\))' if G_ALT else r'\)'
            GRHS = (r'(?:(?:' + G_ALT + r')\b(?!\s*\.(?!inverse|template cast))|\w+::exp\b|\w+::Identity\b|\(\s*(?:' + G_ALT + r')\b)') if G_ALT else r'(?:\w+::exp\b|\w+::Identity\b)'
            def rc_of(name):
                return '/'.join(sorted(ids.get(name, {'?'})))
            for i, e in enumerate(entries):
                if not e['public'] or e['kind'] != 'operator':
                    continue
                nm, scope = e['name'], e['scope']
                pats = []
                if scope == 'LieGroupBase' and G_ALT:
                    if nm == 'operator*':
                        pats = [(r'(?P<l>' + G_ALT + r')\s*\*\s*(?P<r>' + GRHS + r')', None), (r'\)\s*\*\s*(?P<r>' + GRHS + r')', None)]
                    elif nm == 'operator*=':
                        pats = [(r'(?P<l>' + G_ALT + r')\s*\*=\s*(?P<r>[\w:]+)', 'l')]
                    elif nm == 'operator+=':
                        pats = [(r'(?P<l>' + G_ALT + r')\s*\+=\s*(?P<r>[\w:(]+)', 'l')]
                    elif nm == 'operator+':
                        pats = [(r'(?<![\w.])(?P<l>' + G_ALT + r')\s*\+\s*(?P<r>[\w:(-]+)', None)]
                    elif nm == 'operator-':
                        pats = [(r'(?<![\w.])(?P<l>' + G_ALT + r')\s*-\s*(?P<r>' + G_ALT + r')\b(?!\s*\.)', None)]
                    elif nm == 'operator=':
                        pats = [(r'(?<![\w.])(?P<l>' + G_ALT + r')\s*=(?!=)\s*(?P<r>' + G_ALT + r')\s*;', 'l')]
                elif scope == '' and nm == 'operator<<' and e['header'] == 'lie_group_base.hpp' and G_ALT:
                    pats = [(r'<<\s*(?P<l>' + G_ALT + r')\s*;', None)]
                elif scope == 'LieGroupBase' and nm == 'operator*':
                    pats = [(r'\)\s*\*\s*(?P<r>' + GRHS + r')', None)]
                elif scope in group_base_of and nm == 'operator*' and G_ALT:
                    cls = group_base_of[scope]
                    vec = sorted((n for n, c in ids.items() if c & {'vector'}), key=len, reverse=True)
                    if vec:
                        pats = [(r'(?<![\w.])(?P<l>' + G_ALT + r')\s*\*\s*(?P<r>' + '|'.join(map(re.escape, vec)) + r')\b', None)]
                elif scope in GROUP_CLASSES or scope.startswith('Map<'):
                    if nm == 'operator=' and G_ALT:
                        pats = [(r'(?<![\w.])(?P<l>' + G_ALT + r')\s*=(?!=)\s*(?P<r>' + G_ALT + r')\s*;', 'l')]
                elif scope in ('Spline', 'BSpline') and nm == 'operator()' and not (spl if scope == 'Spline' else bsp):
                    ty = r'(?:Spl|(?:smooth::)?Spline<[^;(){}]*>|CubicSpline<[^;(){}]*>)' if scope == 'Spline' else r'(?:BS|(?:smooth::)?BSpline<[^;(){}]*>)'
                    fn = [g['name'] for g in h.funcs if re.search(r'\b' + ty + r'\s*&?\s*' + re.escape(g['name']) + r'\s*\(', g['head'])]
                    if fn:
                        pats = [(r'(?<![\w.])(?:' + '|'.join(map(re.escape, fn)) + r')\([^()]*\)\s*\(', None)]
                elif scope == 'Spline' and spl:
                    S_ALT = '|'.join(map(re.escape, spl))
                    if nm == 'operator()': pats = [(r'(?<![\w.])(?P<l>' + S_ALT + r')\s*\(', None)]
                    elif nm == 'operator+=': pats = [(r'(?P<l>' + S_ALT + r')\s*\+=', 'l')]
                    elif nm == 'operator+': pats = [(r'(?P<l>' + S_ALT + r')\s*\+\s*(?!=)', None)]
                    elif nm == 'operator=': pats = [(r'(?P<l>' + S_ALT + r')\s*=(?!=)', 'l')]
                elif scope == 'BSpline' and bsp:
                    S_ALT = '|'.join(map(re.escape, bsp))
                    if nm == 'operator()': pats = [(r'(?<![\w.])(?P<l>' + S_ALT + r')\s*\(', None)]
                    elif nm == 'operator=': pats = [(r'(?P<l>' + S_ALT + r')\s*=(?!=)', 'l')]
                for rx, mutname in pats:
                    for m in re.finditer(rx, body):
                        p = f['start'] + m.start()
                        l = m.groupdict().get('l')
                        r = m.groupdict().get('r')
                        if scope in group_base_of:
                            cls = group_base_of[scope]
                            conc = h.concrete_of(f, l, p) if l else set()
                            only = only_classes(h, f, p)
                            if conc:
                                if cls not in conc: continue
                            elif only is not None:
                                if cls not in only: continue
                            elif cls not in h.inst or cls in excluded_classes(h, f, p):
                                continue
                        if scope in GROUP_CLASSES or scope.startswith('Map<'):
                            # defaulted copy assignment of one storage class: both sides of that class
                            want = 'cmap' if scope.startswith('Map<const') else ('map' if scope.startswith('Map<') else 'value')
                            cls = concrete_class(scope)
                            if cls not in h.inst: continue
                            if want not in ids.get(l, set()) or want not in ids.get(r, set()): continue
                            if e['params'].strip().endswith('& &'): continue
                        if scope == 'LieGroupBase' and nm == 'operator=':
                            # assignment from ANOTHER storage type
                            if ids.get(l, set()) == ids.get(r, set()): continue
                        recv = rc_of(l) if l else 'temporary'
                        if r and re.match(r'\w+$', r) and r in ids and nm in ('operator*', 'operator*=', 'operator-', 'operator='):
                            recv += ' ∘ ' + rc_of(r) + (' (aliased)' if l and r == l else '')
                        add(i, h, p, f, receiver=recv, mut=(l if mutname else None))
        # ---------------- constants, data members, enumerators
        for i, e in enumerate(entries):
            if not e['public']:
                continue
            if e['kind'] == 'data member':
                if e['scope'] in ('MinimizeOptions', 'SolveResult') and 'minimize' not in s:
                    continue
                if e['scope'] in ('NoConstraints', 'FixedDerCubic', 'MinDerivative') and 'fit_spline' not in s:
                    continue
                if e['scope'].startswith('std::formatter'):
                    continue
                for m in re.finditer(r'(?:\.|->)\s*' + e['name'] + r'\b(?!\s*\()', s):
                    f = h.func_at(m.start())
                    add(i, h, m.start(), f)
            elif e['kind'] == 'constant':
                sc = e['scope']
                if sc and not sc.startswith(('lie<', 'man<', 'liebase_info')):
                    if sc in ('NoConstraints', 'FixedDerCubic', 'MinDerivative') and sc not in s:
                        continue
                    if sc == 'StaticMatrix' and 'StaticMatrix' not in s:
                        continue
                    if sc in ('SE_K_3Base', 'BundleBase') and group_base_of[sc] not in h.inst:
                        continue
                    for m in re.finditer(r'::\s*' + e['name'] + r'\b(?!\s*[(<])' + (r'|::\s*(?:template\s+)?' + e['name'] + r'\s*<' if e['template'] else ''), s):
                        f = h.func_at(m.start())
                        add(i, h, m.start(), f)
                elif not sc:
                    for m in re.finditer(r'(?<![\w.])(?:smooth::)?' + e['name'] + r'\s*<[^;(){}]*?>(?!\s*\()' if e['template'] else r'(?<![\w.])smooth::' + e['name'] + r'\b', s):
                        if re.search(r'::\s*$', s[max(0, m.start() - 3):m.start()]) and not s[max(0, m.start() - 8):m.start()].endswith('smooth::'):
                            continue
                        f = h.func_at(m.start())
                        if f is None:
                            continue
                        add(i, h, m.start(), f)
            elif e['kind'] == 'enum':
                for v in re.findall(r'\w+', e['params']):
                    for m in re.finditer(r'\b' + e['name'] + r'::' + v + r'\b', s):
                        f = h.func_at(m.start())
                        add(i, h, m.start(), f, note=v, observed=True)
    # ---------------- traits layer: reached through the free-function dispatchers of concepts/*.hpp
    FAMILY = {'concepts/lie_group.hpp': 'group', 'lie_groups/native.hpp': 'group', 'lie_groups/rn.hpp': 'rn', 'lie_groups/scalar.hpp': 'scalar',
              'manifolds/vector.hpp': 'stdvector', 'manifolds/submanifold.hpp': 'sub', 'manifolds/variant.hpp': 'variant', 'manifolds/any.hpp': 'any'}
    EVID = {
        'group': lambda h: bool(h.inst),
        'rn': lambda h: re.search(r'\w+<\s*(?:V\d|Eigen::Matrix<\s*(?:double|float|S)\s*,\s*(?:\d+|-1|Eigen::Dynamic)\s*,\s*1\s*>|Eigen::VectorX[df]|Eigen::Vector\d?[df]?(?:<[^<>]*>)?)\s*>\s*\(', h.s) is not None,
        'scalar': lambda h: re.search(r'\w+<\s*(?:double|float)\s*>\s*\(\s*\)|ScalarIO|"scalar"', h.s) is not None,
        'stdvector': lambda h: re.search(r'<\s*std::vector<\s*(?!S\b|double|float|int|std::string|char|size_t|bool|uint|O\b)', h.s) is not None,
        'sub': lambda h: 'SubManifold<' in h.s,
        'variant': lambda h: 'std::variant<' in h.s,
        'any': lambda h: 'AnyManifold' in h.s,
    }
    hmap = {h.name: h for h in harnesses}
    free_idx = {}
    for i, e in enumerate(entries):
        if e['public'] and e['kind'] in ('free function',) and e['header'] in ('concepts/lie_group.hpp', 'concepts/manifold.hpp'):
            free_idx.setdefault(e['name'], []).append(i)
    for i, e in enumerate(entries):
        if not e['public'] or e['kind'] != 'static member' or not e['scope'].startswith(('lie<', 'man<')):
            continue
        fam = FAMILY.get(e['header'])
        want_hdr = 'concepts/manifold.hpp' if e['scope'].startswith('man<') else 'concepts/lie_group.hpp'
        for j in free_idx.get(e['name'], []):
            if entries[j]['header'] != want_hdr:
                continue
            seen = set()
            for x in hits[j]:
                h = hmap[x['file']]
                if not EVID[fam](h):
                    continue
                key = (x['file'], x['op'], x['observed'])
                if key in seen:
                    continue
                seen.add(key)
                hits[i].append(dict(x, receiver='', indirect=True, note=f"via the free dispatcher smooth::{e['name']} ({fam} types instantiated in this harness)"))
    FORWARD = [  # (header, scope regex, name regex)  <-  (header, scope regex) of the traits entry in front of it
        ('manifolds/submanifold.hpp', r'SubManifold', r'dof|rplus|rminus', 'manifolds/submanifold.hpp', r'man<SubManifold<M>>'),
        ('manifolds/any.hpp', r'AnyManifold', r'dof|rplus|rminus', 'manifolds/any.hpp', r'man<AnyManifold>'),
    ]
    for (hd, sc, nm, thd, tsc) in FORWARD:
        for i, e in enumerate(entries):
            if e['public'] and e['header'] == hd and re.fullmatch(sc, e['scope']) and re.fullmatch(nm, e['name']) and e['kind'] == 'member':
                for j, t in enumerate(entries):
                    if t['header'] == thd and re.fullmatch(tsc, t['scope']) and t['name'] == e['name'] and t['kind'] == 'static member':
                        for x in hits[j]:
                            hits[i].append(dict(x, indirect=True, note=f"via smooth::{e['name']} → traits::{t['scope']}::{e['name']}"))
    # construction from another storage type inside a generic harness function:  `const G g(m);` with m a Map / Map<const>
    for h in harnesses:
        for f in h.funcs:
            body = h.s[f['start']:f['end']]
            for m in re.finditer(r'(?<![\w:.<])G\d?\s+(\w+)\s*\(\s*(\w+)\s*\)\s*;', body):
                p = f['start'] + m.start()
                cls_arg = h.classes_of(f, m.group(2), p)
                if not (cls_arg & {'map', 'cmap'}):
                    continue
                for i, e in enumerate(entries):
                    if e['public'] and e['kind'] == 'constructor' and 'Base<OtherDerived>' in e['params'] and e['scope'] in h.inst:
                        add(i, h, p, f, receiver='from ' + '/'.join(sorted(cls_arg)), mut=m.group(1))
    # two-level forwarding: traits::man<LieGroup> (concepts/lie_group.hpp) forwards dof / cast to traits::lie<G>
    for i, e in enumerate(entries):
        if e['public'] and e['kind'] == 'static member' and e['scope'].startswith('lie<') and e['name'] in ('dof', 'cast'):
            fam = FAMILY.get(e['header'])
            for j, t in enumerate(entries):
                if t['header'] == 'concepts/lie_group.hpp' and t['scope'] == 'man<G>' and t['name'] == e['name']:
                    seen = set()
                    for x in hits[j]:
                        if not EVID[fam](hmap[x['file']]) or (x['file'], x['op']) in seen:
                            continue
                        seen.add((x['file'], x['op']))
                        hits[i].append(dict(x, indirect=True, note=f"via smooth::{e['name']} → traits::man<G> → traits::lie<G> ({fam})"))
    # manual annotations: call sites the text matcher cannot see (verified by hand; each names where to look)
    for (hd, sc, nm, prx, fname, needle, op, note) in MANUAL_HITS:
        h = hmap.get(fname)
        if h is None or needle not in h.s:
            continue
        p = h.s.index(needle)
        for i, e in enumerate(entries):
            if e['public'] and e['header'] == hd and re.fullmatch(sc, e['scope']) and re.fullmatch(nm, e['name']) and re.search(prx, e['params']):
                hits[i].append({'file': fname, 'op': op, 'props': sorted(file_props.get(fname, set())), 'receiver': '', 'observed': True,
                                'line': h.s.count('\n', 0, p) + 1, 'note': 'manual: ' + note})
    # the odeint adaptor: scale_sum is invoked by boost's steppers (hist.cpp integrates through them)
    for i, e in enumerate(entries):
        if e['public'] and e['header'] == 'compat/odeint.hpp' and e['kind'] in ('constructor', 'operator', 'member', 'data member'):
            for h in harnesses:
                for m in re.finditer(r'integrate_(?:n_steps|const|adaptive|times)\s*\(', h.s):
                    f = h.func_at(m.start())
                    hits[i].append({'file': h.name, 'op': h.op_at(f, m.start()) if f else '', 'props': sorted(file_props.get(h.name, set())), 'receiver': '',
                                    'observed': True, 'indirect': True, 'line': h.s.count('\n', 0, m.start()) + 1,
                                    'note': 'invoked by the boost::odeint stepper inside integrate_*'})
    return hits


def receiver_is_const(h, f, recv, p=None):
    """True / False / None (unknown) — from the nearest declaration of the identifier before p in the enclosing function"""
    region = f['head'] + h.s[f['start']:(p if p is not None else f['end'])]
    ms = list(re.finditer(r'(?<![\w:.>])((?:static\s+)?(?:const\s+)?' + TYPE_RX + r'\s*(?:const\s*)?&{0,2})\s*(?:\w+\s*(?:=[^;,]*|\([^;]*?\))?\s*,\s*)*' + re.escape(recv) + r'\s*(?=[=({;,)])', region))
    if not ms:
        return None
    d = ms[-1].group(1)
    if re.search(r'\b(auto|V|T|X)\b\s*(const\s*)?&{0,2}\s*$', d) and not re.search(r'\bconst\b', d):
        return None
    if re.search(r'Map\s*<\s*const\b', d):
        return True
    return bool(re.search(r'\bconst\b', d))


# ======================================================================================= report
TRAIT_SCOPES = ('liebase_info',)
CALLABLE = ('member', 'static member', 'free function', 'constructor', 'operator', 'conversion', 'data member', 'constant', 'enum')
TRIVIAL = ('=default', '=delete')
STATUSES = ('OBSERVED', 'INDIRECT', 'EMITTED, NO CHECK', 'CALLED ONLY', 'NOT DRIVEN')


def is_trivial(e):
    """compiler-generated special members (nothing to drive beyond what every use does) and the `is_mutable` flags of
    the liebase_info trait (compile-time plumbing, exercised by every instantiation)"""
    if e['scope'].startswith(TRAIT_SCOPES):
        return True
    if e['kind'] == 'constant' and e['scope'].startswith(('lie<', 'man<')):
        return True      # Dof / IsCommutative of a traits specialisation: read at compile time by every use of the type
    return any(q in e['quals'] for q in TRIVIAL) or e['kind'] == 'destructor'


def status_of(e, hs):
    if not hs:
        return 'NOT DRIVEN'
    direct = [x for x in hs if not x.get('indirect')]
    if any(x['observed'] and x['props'] for x in direct):
        return 'OBSERVED'
    if any(x['observed'] and x['props'] for x in hs):
        return 'INDIRECT'               # only through a dispatcher / forwarding wrapper whose result is observed
    if any(x['observed'] for x in hs):
        return 'EMITTED, NO CHECK'      # on a protocol line of an op that no plugin consumes
    return 'CALLED ONLY'


def analyse(rev=None):
    read = Reader(rev)
    entries, blind = extract_api()
    file_props, lie_ops = plugin_map(read)
    hs = []
    for n in sorted(read.listdir('harness')):
        if n.endswith(('.cpp', '.hpp')):
            hs.append(Harness(n, read(os.path.join('harness', n))))
    hits = find_hits(entries, hs, file_props, lie_ops)
    return entries, blind, hits, file_props, lie_ops


def receivers(hs):
    r = set()
    for x in hs:
        for t in re.split(r'[/ ∘()]+', x['receiver']):
            if t in ('value', 'map', 'cmap', 'temporary'):
                r.add(t)
    return r


def counts(entries, hits):
    c = {'public': 0, 'types': 0, 'trivial': 0, 'callable': 0}
    c.update({s: 0 for s in STATUSES})
    for i, e in enumerate(entries):
        if not e['public']:
            continue
        c['public'] += 1
        if e['kind'] not in CALLABLE:
            c['types'] += 1
            continue
        if is_trivial(e):
            c['trivial'] += 1
            continue
        c['callable'] += 1
        c[status_of(e, hits[i])] += 1
        if (e['scope'] == 'LieGroupBase' or e['scope'].endswith('Base')) and e['kind'] in ('member', 'operator', 'static member'):
            obs = receivers([x for x in hits[i] if x['observed'] and x['props']])
            applicable = ('value', 'map') if (e['kind'] != 'static member' and 'const' not in e['quals']) else ('value', 'map', 'cmap')
            c['cells'] = c.get('cells', 0) + len(applicable)
            c['cells_obs'] = c.get('cells_obs', 0) + sum(1 for k in applicable if k in obs)
    return c


def receivers(hs):
    r = set()
    for x in hs:
        for t in re.split(r'[/ ∘()]+', x['receiver']):
            if t in ('value', 'map', 'cmap', 'temporary'):
                r.add(t)
    return r


def fmt_sites(hs, limit=5):
    agg = {}
    for x in hs:
        k = (x['file'], x['op'], ','.join(x['props']) or '—', x['observed'], bool(x.get('indirect')))
        a = agg.setdefault(k, {'n': 0, 'recv': set(), 'line': x['line']})
        a['n'] += 1
        if x['receiver']:
            a['recv'].add(x['receiver'])
        if x.get('note'):
            a['recv'].add(x['note'])
    items = sorted(agg.items(), key=lambda kv: (kv[0][4], not kv[0][3], kv[0][2] == '—', kv[0][0], kv[0][1]))
    out = []
    for (f, op, props, ob, ind), a in items[:limit]:
        rv = (' «' + '; '.join(sorted(a['recv']))[:90] + '»') if a['recv'] else ''
        out.append(f"{f}:{a['line']}{(' `' + op + '`') if op else ''} [{props}] {'indirect ' if ind else ''}{'obs' if ob else 'call'}{rv}")
    if len(items) > limit:
        out.append(f'… +{len(items) - limit} more')
    return '<br>'.join(out)


def md_escape(s):
    return s.replace('|', '\\|').replace('<', '&lt;').replace('>', '&gt;')


def write_report(path, entries, blind, hits, base=None, base_rev=None):
    c = counts(entries, hits)
    L = []
    L.append('# API coverage inventory of pettni/smooth versus the correspondence harnesses\n')
    L.append('Generated by `python3 tools/dev/api_inventory.py` — do not edit by hand. Method, limits and the meaning of the columns: '
             'doc-comment of that script and DESIGN.md §8.10.\n')
    L.append(f'Library tree: `{vlib.REPO}` at `{git_head(vlib.REPO)}`; {len(PUBLIC_HEADERS)} public headers scanned.\n')
    L.append('## Summary\n')
    L.append('| | now |' + (f' baseline `{base_rev}` |' if base else ''))
    L.append('|---|---:|' + ('---:|' if base else ''))
    rows = [('public entries found (declarations with public access, outside `detail`)', 'public'),
            ('— of which types / concepts (nothing to call)', 'types'),
            ('— of which compiler-generated special members (`= default`, destructors) and `liebase_info` flags', 'trivial'),
            ('**callable / readable entries**', 'callable'),
            ('OBSERVED: called by a harness, result on a protocol line consumed by a property check', 'OBSERVED'),
            ('INDIRECT: reached only through a one-line dispatcher / forwarder whose result is observed', 'INDIRECT'),
            ('EMITTED, NO CHECK: result emitted by a harness op that no plugin consumes', 'EMITTED, NO CHECK'),
            ('CALLED ONLY: result used to build inputs, or dropped', 'CALLED ONLY'),
            ('NOT DRIVEN by any harness (at most through other library code)', 'NOT DRIVEN')]
    for label, k in rows:
        L.append(f'| {label} | {c[k]} |' + (f' {base[k]} |' if base else ''))
    L.append(f"| group-interface members × applicable receiver storage (value, `Map`, `Map<const>`; mutating members: value, `Map`) with an observed call | "
             f"{c.get('cells_obs', 0)} of {c.get('cells', 0)} |" + (f" {base.get('cells_obs', 0)} of {base.get('cells', 0)} |" if base else ''))
    L.append('')
    # ---- per property gap list
    L.append('## Entries that are not driven with a directly observed result, by owning property\n')
    gaps = {}
    for i, e in enumerate(entries):
        if e['public'] and e['kind'] in CALLABLE and not is_trivial(e):
            st = status_of(e, hits[i])
            if st != 'OBSERVED':
                gaps.setdefault(owner_property(e), []).append((e, st, hits[i]))
    for p in sorted(gaps):
        L.append(f'### {p} ({len(gaps[p])})\n')
        L.append('| header | entry | status | why / where called |')
        L.append('|---|---|---|---|')
        for e, st, hs in gaps[p]:
            L.append(f"| {e['header']} | `{md_escape(signature(e))[:230]}` | {st} | {REASONS.get(reason_key(e), '')}{(' ' + fmt_sites(hs, 3)) if hs else ''} |")
        L.append('')
    # ---- receiver variants of the LieGroupBase interface
    L.append('## Storage variants of the receiver (value `G`, `Map<G>`, `Map<const G>`) per group-interface member\n')
    L.append('A member is listed with the storage classes of the receivers it is called on in some harness (`temporary` = on the result of '
             'another call; for static members the class the call is qualified with). `obs` = observed by a check, `call` = called only, `—` = never.\n')
    L.append('| member | value | Map | Map&lt;const&gt; | temporary |')
    L.append('|---|---|---|---|---|')
    for i, e in enumerate(entries):
        if e['public'] and (e['scope'] == 'LieGroupBase' or e['scope'].endswith('Base')) and e['kind'] in ('member', 'operator', 'static member') and not is_trivial(e):
            r = receivers(hits[i])
            obs = receivers([x for x in hits[i] if x['observed'] and x['props']])
            def cell(k):
                return 'obs' if k in obs else ('call' if k in r else '—')
            L.append(f"| `{md_escape(e['scope'] + '::' + e['name'] + '(' + e['params'][:40] + ')' + (' const' if 'const' in e['quals'] else ''))}` | {cell('value')} | {cell('map')} | {cell('cmap')} | {cell('temporary')} |")
    L.append('')
    # ---- full table
    L.append('## Full inventory\n')
    cur = None
    for i, e in enumerate(entries):
        if not e['public']:
            continue
        if e['header'] != cur:
            cur = e['header']
            L.append(f'\n### {cur}\n')
            L.append('| kind | signature | property | status | call sites (file:line `op` [checks] obs/call «receiver») |')
            L.append('|---|---|---|---|---|')
        if e['kind'] not in CALLABLE:
            L.append(f"| {e['kind']} | `{md_escape(signature(e))[:260]}` | | (type) | |")
            continue
        st = 'trivial' if is_trivial(e) else status_of(e, hits[i])
        L.append(f"| {e['kind']} | `{md_escape(signature(e))[:260]}` | {owner_property(e)} | {st} | {fmt_sites(hits[i])} |")
    L.append('')
    L.append('## Blind spots of the extractor and of the call-site matcher\n')
    for k, v in NOT_INVENTORIED.items():
        L.append(f'* not inventoried: `{k}` — {v}.')
    for b in BLIND_NOTES:
        L.append('* ' + b)
    if blind:
        L.append('* declarations the scanner could not classify (reported, not dropped silently):')
        for hname, txt in blind:
            L.append(f'  * `{hname}`: `{md_escape(txt)}`')
    n_np = sum(1 for e in entries if not e['public'])
    L.append(f'* {n_np} declarations were seen and excluded as non-public (private/protected members, `detail`/`utils` namespaces).')
    L.append('')
    open(path, 'w').write('\n'.join(L))
    return c


# (header, scope regex, name regex, params regex, harness file, text that must be present there, protocol op, note)
MANUAL_HITS = [
    ('manifolds/any.hpp', 'AnyManifold', r'operator=', r'const AnyManifold', 'manif.cpp', 'e = m;', 'man_copy',
     'M = AnyBox holds the AnyManifold: the implicit copy assignment of the box calls it'),
    ('manifolds/any.hpp', 'AnyManifold', r'operator=', r'AnyManifold & &', 'manif.cpp', 'c = std::move(b);', 'man_move',
     'M = AnyBox: implicit move assignment of the box'),
    ('manifolds/any.hpp', 'AnyManifold', r'AnyManifold', r'^AnyManifold & &', 'manif.cpp', 'M b(std::move(m));', 'man_move', 'M = AnyBox: implicit move construction'),
    ('manifolds/any.hpp', 'AnyManifold', r'AnyManifold', r'^$', 'manif.cpp', 'smooth::AnyManifold a;', 'man_anyctor',
     'default construction inside try{}: the THROW text is the protocol output'),
    ('optim.hpp', 'SolveResult', r'Status', r'', 'optim.cpp', 'static_cast<int>(res.status)', 'decision replay', 'the enumerator is emitted as its integer value'),
    ('polynomial/static_matrix.hpp', 'StaticMatrix', r'operator\*', r'', 'fit.cpp', 'U0_s * B_s', 'fit_tab', 'operands are `constexpr auto` tables'),
    ('polynomial/static_matrix.hpp', 'StaticMatrix', r'transpose', r'', 'fit.cpp', 'B_s.transpose() * Mmat * B_s', 'fit_tab', 'operands are `constexpr auto` tables'),
]

BLIND_NOTES = [
    'members inherited from Eigen / std base classes (`StaticMatrix : std::array`, the `Eigen::Map` returned by `r2()`, `quat()` …) are not entries;',
    'instantiation-dependent availability (`requires`, `if constexpr`) is recorded as text, not evaluated: `d2r_exp` of Galilei / SE_K_3 does not compile and is still listed once under `LieGroupBase`;',
    'members of the CRTP bases are listed once, not once per concrete group × scalar; which concrete groups reach a generic call site is decided by the harness catalogues (the `Gen<G>` / `catalogue<S>` visitors), not by this tool, except for class-specific members (accessors, actions, conversions), where the receiver type or an enclosing `if constexpr (is_se2_v<G>)` / `!std::is_same_v<G, …>` is honoured;',
    'overloads are told apart by arity and, for one-argument constructors, by the spelling of the argument (complex / quaternion / isometry / angle / other storage): a call through a forwarding wrapper can be attributed to the wrong overload; local `using X = …;` aliases are resolved by enclosing block;',
    'const / non-const overload pairs (`so2()`, `r3()`, `part<i>()`, `quat()`, `coeffs()`, `data()`): the overload is chosen from the declared constness of the receiver; a receiver of deduced type (`auto &`, template parameter) is attributed to BOTH overloads and flagged "generic receiver";',
    'the observed/called decision is an identifier-level data-flow approximation inside one function (value → variable → sink); values that travel through a container, a lambda capture or a member of a harness struct are followed only by name;',
    'calls made by the LIBRARY itself (e.g. `operator+` calling `exp` and `operator*`) are deliberately not counted: an entry reached only that way is NOT DRIVEN here, except for the two forwarding layers that exist only to be reached that way (the `traits::lie` / `traits::man` specialisations behind the free functions of concepts/*.hpp, and the members of SubManifold / AnyManifold / BoostOdeintOps behind their traits), which get the status INDIRECT when the dispatcher in front of them is observed in a harness that instantiates the family;',
    'call sites that only a type checker could attribute (implicit special members of a harness struct that HOLDS a library object, operators on `auto` operands) are listed in MANUAL_HITS of the script, each verified by hand and tagged `manual:` in the tables;',
    'macros other than the four API macros of detail/macro.hpp are not expanded; `#if` branches are all scanned (both sides).',
]

REASONS = {}


def reason_key(e):
    return (e['header'], e['scope'], e['name'], e['params'])


def git_head(repo):
    try:
        return subprocess.run(['git', '-C', repo, 'rev-parse', '--short', 'HEAD'], capture_output=True, text=True).stdout.strip()
    except Exception:
        return '?'


def load_reasons():
    """optional hand-written reasons for entries that stay un-driven: tools/dev/api_inventory_reasons.json
    [{"header":…, "scope": regex, "name": regex, "params": optional regex, "reason":…}]"""
    p = os.path.join(os.path.dirname(os.path.abspath(__file__)), 'api_inventory_reasons.json')
    if not os.path.exists(p):
        return
    rs = json.load(open(p))
    ents, _ = extract_api()
    for r in rs:
        for e in ents:
            if re.fullmatch(r['header'], e['header']) and re.fullmatch(r['scope'], e['scope']) and re.fullmatch(r['name'], e['name']) \
                    and ('params' not in r or re.search(r['params'], e['params'])):
                REASONS[reason_key(e)] = r['reason'] + ' '


def main(argv):
    base = base_rev = None
    if '--baseline' in argv:
        base_rev = argv[argv.index('--baseline') + 1]
        be, bb, bh, _, _ = analyse(base_rev)
        base = counts(be, bh)
    entries, blind, hits, file_props, lie_ops = analyse()
    load_reasons()
    out = os.path.join(ROOT, 'API_COVERAGE.md')
    c = write_report(out, entries, blind, hits, base, base_rev)
    if '--json' in argv:
        json.dump([{**e, 'sig': signature(e), 'owner': owner_property(e), 'status': ('type' if e['kind'] not in CALLABLE else 'trivial' if is_trivial(e) else status_of(e, hits[i])),
                    'hits': hits[i]} for i, e in enumerate(entries)],
                  open(argv[argv.index('--json') + 1], 'w'), indent=1, default=list)
    print(f'wrote {out}')
    for k, v in c.items():
        print(f'  {k:20s} {v}' + (f'   (baseline {base[k]})' if base else ''))
    return 0


if __name__ == '__main__':
    sys.exit(main(sys.argv[1:]))
