#!/bin/bash
# usage: seed2_verify.sh <id>...   : verify round-2 seeded changes (tests, demo, checks)
for p in "$@"; do
  echo "=== $p"
  mkdir -p /verif/seeded/${p}b
  cp /tmp/seed2/$p-out/patch.diff /tmp/seed2/$p-out/demo.cpp /tmp/seed2/$p-out/meta.json /verif/seeded/${p}b/
  git -C /repo worktree add -q --detach /tmp/sv2_$p HEAD && git -C /tmp/sv2_$p apply /verif/seeded/${p}b/patch.diff && echo "tree ok"
  # existing tests in the agent's build dir (change applied)
  cmake --build /tmp/seed2/$p/_build -j4 > /tmp/seed2/$p-work/confirm_build.log 2>&1; echo "build rc=$?"
  ctest --test-dir /tmp/seed2/$p/_build -j4 --timeout 900 2>&1 | grep "tests passed"
  for v in with without; do
    if [ $v = with ]; then inc=/tmp/sv2_$p/include; else inc=/repo/include; fi
    g++ -std=c++20 -O1 -w -I$inc -I/verif/build/gen -I/usr/include/eigen3 /verif/seeded/${p}b/demo.cpp -o /tmp/seed2/$p-work/demo_$v -lpthread 2> /tmp/seed2/$p-work/demo_$v.err
    /tmp/seed2/$p-work/demo_$v > /tmp/seed2/$p-work/demo_$v.out 2>&1; echo "demo $v change: exit $? : $(tail -1 /tmp/seed2/$p-work/demo_$v.out | cut -c1-140)"
  done
  cd /verif; VERIF_REPO=/tmp/sv2_$p python3 tools/explore.py $p > build/sv2_$p.log 2>&1
  grep -c "^BROKEN" build/sv2_$p.log; tail -2 build/sv2_$p.log | cut -c1-200
done
