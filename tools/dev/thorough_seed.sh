#!/bin/bash
# usage: thorough_seed.sh <seed> <id>... : thorough tier at a given seed; logs build/th<seed>_<id>.log
cd /verif
s=$1; shift
for p in "$@"; do
  ( time VERIF_SEED=$s python3 tools/check.py $p --tier thorough ) > build/th${s}_$p.log 2>&1; echo "$p seed=$s rc=$?" >> build/th_summary.log
done
