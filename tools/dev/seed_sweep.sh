#!/bin/bash
# usage: seed_sweep.sh "<seeds>" <id>...  : quick tier at several seeds on the current tree; logs build/ms_<id>_<seed>.log
cd /verif
seeds="$1"; shift
for s in $seeds; do for p in "$@"; do
  VERIF_SEED=$s python3 tools/check.py $p > build/ms_${p}_$s.log 2>&1; echo "$p seed=$s rc=$?" >> build/ms_summary.log
done; done
