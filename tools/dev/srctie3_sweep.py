#!/usr/bin/env python3
"""Sensitivity sweep of the source tie tools/gen_src.py -> gen_impl.py (Impl classes incl. Galilei, SE_K(3), SE3 Hessians)
and gen_base.py (generic layer: lie_group_base.hpp, derivatives_impl.hpp)  — DESIGN.md §8.1.

  git -C /repo worktree add --detach /tmp/srctie3_scratch HEAD
  python3 tools/dev/srctie3_sweep.py /tmp/srctie3_scratch /tmp/srctie3_sweep [name-filter]
  git -C /repo worktree remove --force /tmp/srctie3_scratch

For every mutation the scratch tree is reset, the mutation applied, the translators run into a PRIVATE directory
(<work>/ov/SweepGen/{CoefSrc,ImplSrc,BaseSrc}.lean) and private copies of the tie files (imports redirected to
SweepGen.* / SweepTie.*) are compiled in dependency order — the shared lake tree is only read.  Verdict per mutation:
  translator: <message>         hard error of the translator
  tie: <theorem names>          named tie theorems that no longer check (first tie file with errors)
  generated file ill-typed      (counts as detected, reported separately)
  IDENTICAL                     regenerated output byte-identical (expected for comment / whitespace edits)
"""
import os, re, subprocess, sys, time

ROOT = os.path.dirname(os.path.dirname(os.path.dirname(os.path.abspath(__file__))))
LEAN = os.path.join(ROOT, 'lean')
GENS = ['CoefSrc', 'ImplSrc', 'BaseSrc']
TIES = ['SrcTieImpl', 'SrcTieImplC01', 'SrcTieImplC03', 'SrcTieImplC04', 'SrcTieImplC02', 'SrcTieImplC05']   # dependency order

G = 'include/smooth/detail/galilei.hpp'
K = 'include/smooth/detail/se_k_3.hpp'
E = 'include/smooth/detail/se3.hpp'
B = 'include/smooth/lie_group_base.hpp'
DI = 'include/smooth/detail/derivatives_impl.hpp'

# (name, file, old, new [, occurrence index (0-based), default: must be unique])  |  (name, 'patch', path)
MUT = [
    ('seed C01c (operator*= composes in place)', 'patch', 'seeded/C01c/patch.diff'),
    ('seed C04c (fast path in dr_exp/dr_expinv)', 'patch', 'seeded/C04c/patch.diff'),
    # ---- galilei.hpp
    ('galilei composition: tau of the wrong operand', G, 'g_in1.template segment<3>(0) * g_in2(6)', 'g_in1.template segment<3>(0) * g_in1(6)'),
    ('galilei inverse: sign of tau*v', G, '-g_in.template segment<3>(3) + g_in(6) * g_in.template segment<3>(0)', '-g_in.template segment<3>(3) - g_in(6) * g_in.template segment<3>(0)'),
    ('galilei log: minus -> plus', G, 'g_in.template segment<3>(3) - S2 * a_out.template segment<3>(0) * g_in(6)', 'g_in.template segment<3>(3) + S2 * a_out.template segment<3>(0) * g_in(6)'),
    ('galilei Ad: -R*t -> R*t', G, 'A_out.template block<3, 3>(3, 0) = -R * t;', 'A_out.template block<3, 3>(3, 0) = R * t;'),
    ('galilei Ad: hat(p + v t)', G, 'SO3Impl<Scalar>::hat(p - v * t,', 'SO3Impl<Scalar>::hat(p + v * t,'),
    ('galilei Ad: Ref v views the p segment', G, 'Eigen::Ref<const Eigen::Vector3<Scalar>> v = g_in.template segment<3>(0);', 'Eigen::Ref<const Eigen::Vector3<Scalar>> v = g_in.template segment<3>(3);'),
    ('galilei calculate_r: V/6 -> V/3', G, 'return V / 6 +', 'return V / 3 +'),
    ('galilei calculate_r: 2*W*WV -> 2*(W*WV) (association)', G, 'V * WW - Scalar(2) * W * WV', 'V * WW - Scalar(2) * (W * WV)'),
    ('galilei dr_exp: -S2*b -> S2*b', G, 'A_out.template block<3, 1>(3, 6) = -S2 * b;', 'A_out.template block<3, 1>(3, 6) = S2 * b;'),
    ('galilei dr_expinv: association -S1inv*(Qb*S1inv)', G, '-S1inv * Qb * S1inv;', '-S1inv * (Qb * S1inv);'),
    ('galilei ad: hat(q) block (3,7) -> (3,6)', G, 'SO3Impl<Scalar>::hat(q, A_out.template block<3, 3>(3, 7));', 'SO3Impl<Scalar>::hat(q, A_out.template block<3, 3>(3, 6));'),
    ('galilei hat: statement removed', G, '    A_out.template block<4, 1>(0, 4) = a_in.template segment<4>(3);\n', ''),
    ('galilei exp: unsupported construct (cwiseAbs)', G, 'g_out(6) = a_in(6);', 'g_out(6) = a_in.cwiseAbs()(6);'),
    # ---- se_k_3.hpp
    ('sek3 composition: segment 3i -> 3i+1', K, 'R1 * g_in2.template segment<3>(3 * i) + g_in1.template segment<3>(3 * i);', 'R1 * g_in2.template segment<3>(3 * i) + g_in1.template segment<3>(3 * i + 1);'),
    ('sek3 inverse: loop bound i + 1 < K', K, 'for (auto i = 0u; i < K; ++i) {\n      g_out.template segment<3>(3 * i).noalias() = -Rinv', 'for (auto i = 0u; i + 1 < K; ++i) {\n      g_out.template segment<3>(3 * i).noalias() = -Rinv'),
    ('sek3 Ad: `*= R` removed', K, '      A_out.template block<3, 3>(3 * i, 3 * K) *= A_out.template topLeftCorner<3, 3>();\n', ''),
    ('sek3 Ad: diagonal block (3+3i) -> (3i)', K, 'SO3Impl<Scalar>::hat(g_in.template segment<3>(3 * i), A_out.template block<3, 3>(3 * i, 3 * K));\n      A_out.template block<3, 3>(3 * i, 3 * K) *= A_out.template topLeftCorner<3, 3>();\n      A_out.template block<3, 3>(3 + 3 * i, 3 + 3 * i)', 'SO3Impl<Scalar>::hat(g_in.template segment<3>(3 * i), A_out.template block<3, 3>(3 * i, 3 * K));\n      A_out.template block<3, 3>(3 * i, 3 * K) *= A_out.template topLeftCorner<3, 3>();\n      A_out.template block<3, 3>(3 * i, 3 * i)'),
    ('sek3 exp: M_Ad*M_dr_exp -> M_dr_exp*M_Ad', K, 'SO3TangentMap M_prod = M_Ad * M_dr_exp;', 'SO3TangentMap M_prod = M_dr_exp * M_Ad;'),
    ('sek3 dr_expinv: leading minus removed', K, '        -A_out.template topLeftCorner<3, 3>() * calculate_q', '        A_out.template topLeftCorner<3, 3>() * calculate_q'),
    ('sek3 log: -M_ad + J -> J - M_ad (operation order)', K, '(-M_ad + M_dr_expinv) * g_in', '(M_dr_expinv - M_ad) * g_in'),
    ('sek3 setIdentity: RepSize-1 -> RepSize-2', K, 'g_out(RepSize - 1) = Scalar(1);', 'g_out(RepSize - 2) = Scalar(1);'),
    ('sek3 matrix: column 3+i -> 2+i', K, 'm_out.template block<3, 1>(0, 3 + i) = g_in', 'm_out.template block<3, 1>(0, 2 + i) = g_in'),
    ('sek3 hat: write outside the matrix (column 4+i)', K, 'A_out.template block<3, 1>(0, 3 + i) = a_in', 'A_out.template block<3, 1>(0, 4 + i) = a_in'),
    ('sek3 vee: tail<3> not written (entries unassigned)', K, '    SO3Impl<Scalar>::vee(A_in.template topLeftCorner<3, 3>(), a_out.template tail<3>());\n', ''),
    # ---- se3.hpp (calculate_Q_dQ, d2r_exp, d2r_expinv)
    ('se3 dQ table: 3*C -> 2*C in entry (0,0)', E, 'dQ {{ w.x()*(B + 3*C)*', 'dQ {{ w.x()*(B + 2*C)*'),
    ('se3 calculate_Q_dQ: column index i,j swapped', E, 'dQ.col(3 + i + 6 * j) +=', 'dQ.col(3 + j + 6 * i) +='),
    ('se3 calculate_Q_dQ: PC sign', E, 'PC = -3 * vdw * WW;', 'PC = 3 * vdw * WW;'),
    ('se3 d2r_exp: -dQ -> dQ', E, 'H_out.template block<3, 18>(3, 0) = -dQ;', 'H_out.template block<3, 18>(3, 0) = dQ;'),
    ('se3 d2r_expinv: `dQ *= -1` removed', E, '    dQ *= -1;  // account for -a_in\n', ''),
    ('se3 d2r_expinv: arguments of d_matrix_product swapped', E, '-d_matrix_product(Jtmp, Htmp, Jso3, Hso3_exp);', '-d_matrix_product(Jso3, Hso3_exp, Jtmp, Htmp);'),
    # ---- lie_group_base.hpp
    ('base dl_exp: dr_exp(-a) -> dr_exp(a)', B, 'return dr_exp(-a);', 'return dr_exp(a);'),
    ('base operator+: x*exp(a) -> exp(a)*x', B, 'return *this * exp(a);', 'return exp(a) * *this;'),
    ('base operator-: (xo^-1 * x) -> (x * xo^-1)', B, 'return (xo.inverse() * *this).log();', 'return (*this * xo.inverse()).log();'),
    ('base Ad: commutative short-cut Identity -> Zero', B, 'return TangentMap::Identity();', 'return TangentMap::Zero();', 0),
    ('base d2l_exp: sign', B, 'return -d2r_exp(-a);', 'return d2r_exp(-a);'),
    ('base lie_bracket: ad(a)*b -> ad(b)*a', B, 'return ad(a) * b;', 'return ad(b) * a;'),
    ('base inverse: [[nodiscard]] removed (signature)', B, '[[nodiscard]] PlainObject inverse() const noexcept', 'PlainObject inverse() const noexcept'),
    ('base setIdentity: writes zero in place', B, 'void setIdentity() noexcept { Impl::setIdentity(derived().coeffs()); }', 'void setIdentity() noexcept { derived().coeffs().setZero(); }'),
    ('base operator=: self-assignment guard added', B, 'derived().coeffs() = static_cast<const OtherDerived &>(o).coeffs();\n    return derived();', 'if (this != &o) derived().coeffs() = static_cast<const OtherDerived &>(o).coeffs();\n    return derived();'),
    ('base: new member added', B, '  Eigen::Index dof() const noexcept { return Dof; }\n', '  Eigen::Index dof() const noexcept { return Dof; }\n  Eigen::Index rep() const noexcept { return RepSize; }\n'),
    ('base exp: Impl::exp -> Impl::log', B, 'Impl::exp(a, ret.coeffs());', 'Impl::log(a, ret.coeffs());'),
    # ---- derivatives_impl.hpp
    ('derivs dr_rminus_squarednorm: dr_expinv -> dr_exp', DI, 'return e.transpose() * dr_expinv<G>(e);', 'return e.transpose() * dr_exp<G>(e);'),
    ('derivs d2r_rminus: J at -e', DI, 'const auto J = dr_expinv<G>(e);', 'const auto J = dr_expinv<G>(-e);'),
    ('derivs d2r_rminus: block (j+1)*n', DI, '(0, j * e.size(), e.size(), e.size())', '(0, (j + 1) * e.size(), e.size(), e.size())'),
    ('derivs d2r_rminus_squarednorm: J1, H1 of different points', DI, 'const Hessian<G> H1    = d2r_rminus<G>(e);', 'const Hessian<G> H1    = d2r_expinv<G>(e);'),
    ('derivs d2_fog (pinned): setZero removed', DI, '  ret.setZero();\n', ''),
    ('derivs d_matrix_product (pinned): += -> =', DI, 'dAB.template middleCols<Nvar>(i * nvar, nvar) += A(i, j)', 'dAB.template middleCols<Nvar>(i * nvar, nvar) = A(i, j)'),
    # ---- edits that must not change anything
    ('galilei: comment edit', G, '// block row 1 (b)', '// first block row (b)'),
    ('sek3: loop reformatted', K, 'for (auto i = 0u; i < K; ++i) { m_out.template block<3, 1>(0, 3 + i) = g_in.template segment<3>(3 * i); }', 'for (auto i = 0u; i < K; ++i)\n    {\n      m_out.template block<3, 1>(0, 3 + i) =\n        g_in.template segment<3>(3 * i);\n    }'),
    ('base: doc comment edit', B, '@brief Inplace group binary composition operation.', '@brief In-place composition (x *= y).'),
    ('derivs: blank lines and a comment added', DI, 'template<LieGroup G>\nTangentMap<G> dr_rminus(const Tangent<G> & e)\n{', 'template<LieGroup G>\nTangentMap<G> dr_rminus(const Tangent<G> & e)\n{\n\n  // Jacobian of rminus'),
    ('se3: NOLINT comment removed, entry re-wrapped', E, 'v.z()*(B + 3*C)*(w.x()*w.x() + w.y()*w.y()) }}; //NOLINT', 'v.z()*(B + 3*C)*(w.x()*w.x()\n        + w.y()*w.y()) }};'),
]


def sh(cmd, **kw):
    for attempt in range(30):
        r = subprocess.run(cmd, capture_output=True, text=True, **kw)
        if cmd[0] == 'lean' and re.search(r"object file '[^']*' of module \S+ does not exist|failed to read file", r.stdout + r.stderr) \
                and 'Sweep' not in (r.stdout + r.stderr):
            time.sleep(20)      # another builder is rebuilding the shared tree: wait and retry
            continue
        return r
    return r


def theorems_at(path):
    res = []
    for ln, line in enumerate(open(path).read().split('\n'), 1):
        m = re.match(r'\s*theorem\s+(\S+)', line)
        if m:
            res.append((ln, m.group(1)))
    return res


def redirect(src):
    for g in GENS:
        src = src.replace(f'import SmoothModel.Gen.{g}\n', f'import SweepGen.{g}\n')
    for t in TIES:
        src = src.replace(f'import SmoothProps.{t}\n', f'import SweepTie.{t}\n')
    return src


def main():
    scratch, work = sys.argv[1], sys.argv[2]
    flt = sys.argv[3] if len(sys.argv) > 3 else ''
    gen, base = os.path.join(work, 'gen'), os.path.join(work, 'base')
    ovg, ovt = os.path.join(work, 'ov', 'SweepGen'), os.path.join(work, 'ov', 'SweepTie')
    for d in (gen, base, ovg, ovt):
        os.makedirs(d, exist_ok=True)
    lp = sh(['lake', 'env', 'printenv', 'LEAN_PATH'], cwd=LEAN).stdout.strip()
    env = dict(os.environ, LEAN_PATH=os.path.join(work, 'ov') + ':' + lp)

    def translate(outdir):
        return sh([sys.executable, os.path.join(ROOT, 'tools', 'gen_src.py'), scratch] + [os.path.join(outdir, g + '.lean') for g in GENS])
    sh(['git', 'checkout', '--', '.'], cwd=scratch)
    r = translate(base)
    if r.returncode != 0:
        print('baseline does not translate:', r.stdout)
        sys.exit(1)
    for g in GENS:
        if open(os.path.join(base, g + '.lean')).read() != open(os.path.join(LEAN, 'SmoothModel', 'Gen', g + '.lean')).read():
            print('WARNING: baseline', g, 'differs from the shared generated file')
    counts = {'translator': 0, 'tie': 0, 'illtyped': 0, 'identical': 0, 'UNDETECTED': 0}
    for mut in MUT:
        name = mut[0]
        if flt and flt not in name:
            continue
        sh(['git', 'checkout', '--', '.'], cwd=scratch)
        if mut[1] == 'patch':
            r = sh(['git', 'apply', os.path.join(ROOT, mut[2])], cwd=scratch)
            if r.returncode != 0:
                print(f'{name:62s} PATCH DOES NOT APPLY: {r.stderr.strip()[:200]}')
                continue
        else:
            p = os.path.join(scratch, mut[1])
            s = open(p).read()
            n = s.count(mut[2])
            idx = mut[4] if len(mut) > 4 else None
            if n == 0 or (n > 1 and idx is None):
                print(f'{name:62s} MUTATION TEXT found {n} times')
                continue
            if idx is None:
                s = s.replace(mut[2], mut[3])
            else:
                parts = s.split(mut[2])
                s = mut[2].join(parts[:idx + 1]) + mut[3] + mut[2].join(parts[idx + 1:])
            open(p, 'w').write(s)
        for f in os.listdir(gen):
            os.remove(os.path.join(gen, f))
        t0 = time.time()
        r = translate(gen)
        if r.returncode != 0:
            counts['translator'] += 1
            out = r.stdout.strip()
            k = out.find('gen_src: cannot translate')
            msg = ' ; '.join(x.strip() for x in (out[k:] if k >= 0 else out).split('\n'))
            msg = msg.replace('gen_src: cannot translate the current source ', '')
            print(f'{name:62s} translator: {msg[:600]}')
            continue
        changed = [g for g in GENS if open(os.path.join(gen, g + '.lean')).read() != open(os.path.join(base, g + '.lean')).read()]
        if not changed:
            counts['identical'] += 1
            print(f'{name:62s} IDENTICAL')
            continue
        for d in (ovg, ovt):
            for o in os.listdir(d):
                os.remove(os.path.join(d, o))
        verdict = None
        for g in GENS:      # private copies of all three generated files (ImplSrc imports CoefSrc)
            dst = os.path.join(ovg, g + '.lean')
            open(dst, 'w').write(redirect(open(os.path.join(gen, g + '.lean')).read()))
            r = sh(['lean', '-o', dst[:-5] + '.olean', dst], cwd=os.path.join(work, 'ov'), env=env)
            if r.returncode != 0:
                first = [l for l in (r.stdout + r.stderr).split('\n') if 'error' in l][:1]
                verdict = f'{g}: generated file ill-typed: {first[0][:200] if first else ""}'
                counts['illtyped'] += 1
                break
        if verdict is None:
            for t in TIES:
                tp = os.path.join(ovt, t + '.lean')
                open(tp, 'w').write(redirect(open(os.path.join(LEAN, 'SmoothProps', t + '.lean')).read()))
                r = sh(['lean', '-o', tp[:-5] + '.olean', tp], cwd=os.path.join(work, 'ov'), env=env)
                errs = sorted({int(m.group(1)) for m in re.finditer(r':(\d+):\d+: error', r.stdout + r.stderr)})
                if errs or r.returncode != 0:
                    th = theorems_at(tp)
                    broken = []
                    for ln in errs:
                        c = [n for l, n in th if l <= ln]
                        nm = c[-1] if c else '?'
                        if nm not in broken:
                            broken.append(nm)
                    verdict = f'tie ({t}): ' + ', '.join(broken) if broken else f'{t}: does not compile: {(r.stdout + r.stderr)[:200]}'
                    counts['tie'] += 1
                    break
        if verdict is None:
            verdict = f'{"+".join(changed)} CHANGED BUT ALL TIE FILES STILL CHECK'
            counts['UNDETECTED'] += 1
        print(f'{name:62s} {verdict}   [{time.time() - t0:.1f}s]', flush=True)
    sh(['git', 'checkout', '--', '.'], cwd=scratch)
    print(counts)


if __name__ == '__main__':
    main()
