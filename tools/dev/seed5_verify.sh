#!/bin/bash
# usage: seed5_verify.sh <id>...  : verify round-5 seeded changes with the FULL check (translators, proofs, harness, search)
for p in "$@"; do
  echo "=== $p"
  mkdir -p /verif/seeded/${p}e
  cp /tmp/seed5/$p-out/patch.diff /tmp/seed5/$p-out/demo.cpp /tmp/seed5/$p-out/meta.json /verif/seeded/${p}e/
  git -C /repo worktree add -q --detach /tmp/sv5_$p HEAD && git -C /tmp/sv5_$p apply /verif/seeded/${p}e/patch.diff && echo "tree ok"
  cmake --build /tmp/seed5/$p/_build -j8 > /tmp/seed5/$p-work/confirm_build.log 2>&1; echo "build rc=$?"
  ctest --test-dir /tmp/seed5/$p/_build -j8 --timeout 900 2>&1 | grep "tests passed"
  for v in with without; do
    if [ $v = with ]; then inc=/tmp/sv5_$p/include; else inc=/repo/include; fi
    g++ -std=c++20 -O1 -w -I$inc -I/verif/build/gen -I/usr/include/eigen3 /verif/seeded/${p}e/demo.cpp -o /tmp/seed5/$p-work/demo_$v -lpthread 2> /tmp/seed5/$p-work/demo_$v.err
    /tmp/seed5/$p-work/demo_$v > /tmp/seed5/$p-work/demo_$v.out 2>&1; echo "demo $v change: exit $? : $(tail -1 /tmp/seed5/$p-work/demo_$v.out | cut -c1-140)"
  done
  cd /verif; cp evidence/$p.json build/evidence_keep_$p.json
  VERIF_REPO=/tmp/sv5_$p python3 tools/check.py $p > build/sv5_$p.log 2>&1; echo "check rc=$?"
  cp build/evidence_keep_$p.json evidence/$p.json
  grep -E "^VIOLATION|^KNOWN" build/sv5_$p.log | cut -c1-200
  # restore generated files for /repo
  python3 -c "
import sys; sys.path.insert(0,'/verif/tools'); import vlib
with vlib.build_lock(): print('regen', vlib.run_translators()[0])"
done
