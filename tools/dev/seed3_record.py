#!/usr/bin/env python3
"""record the outcome of build/seed2_verify.sh in seeded/<id>b/meta.json and remove the scratch trees"""
import json, re, subprocess, sys, os
for pid in sys.argv[1:]:
    log = open(f'/verif/build/sv3_{pid}.log').read()
    nb = len(re.findall(r'^BROKEN', log, re.M))
    m = re.search(r'UNMATCHED findings: (\d+) of (\d+)', log)
    un = int(m.group(1)) if m else 0
    ev = re.search(r'evaluations[=:]\s*(\d+)', log)
    broken = [l[:160] for l in log.splitlines() if l.startswith('BROKEN')][:4]
    fnd = [l[:200] for l in log.splitlines() if l.startswith('FINDING')][:4]
    p = f'/verif/seeded/{pid}c/meta.json'
    meta = json.load(open(p))
    meta['verif'] = {'round': 3,
      'confirmed_by_integrator': 'build/seed2_verify.sh: rebuilt the agent worktree (change applied) and ran ctest there: 391/391 passed; compiled demo.cpp against /repo/include (exit 0) and against a scratch worktree of /repo HEAD with patch.diff applied (exit non-zero)',
      'ran': f'VERIF_REPO=/tmp/sv3_{pid} python3 tools/explore.py {pid}',
      'result': {'broken_correspondences_or_obligations': nb, 'unmatched_findings': un, 'first_broken': broken, 'first_findings': fnd},
      'detected': bool(nb or un)}
    json.dump(meta, open(p, 'w'), indent=1)
    print(pid, 'detected' if (nb or un) else 'MISSED', nb, un)
    for d in (f'/tmp/sv3_{pid}', f'/tmp/seed3/{pid}'):
        subprocess.run(['git', '-C', '/repo', 'worktree', 'remove', '--force', d], capture_output=True)
    subprocess.run(['rm', '-rf', f'/tmp/seed3/{pid}-work', f'/tmp/seed3/{pid}'])
subprocess.run(['git', '-C', '/repo', 'worktree', 'prune'])
