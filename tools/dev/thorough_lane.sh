#!/bin/bash
cd /verif
for p in "$@"; do
  ( time python3 tools/check.py $p --tier thorough ) > build/th_$p.log 2>&1; echo "rc=$?" >> build/th_$p.log
done
