#!/usr/bin/env python3
"""regenerate MANIFEST.json from tools/manifest_src.json (claimed checks) + properties.jsonl"""
import json, os
R = os.path.join(os.path.dirname(__file__), '..')
props = [json.loads(l) for l in open(os.path.join(R, 'properties.jsonl'))]
src = json.load(open(os.path.join(R, 'tools', 'manifest_src.json')))
checks, na = [], []
for p in props:
    pid = p['id']
    c = src['checks'].get(pid)
    if c:
        checks.append({
            'property_id': pid,
            'quick_cmd': f'python3 tools/check.py {pid} --tier quick',
            'thorough_cmd': f'python3 tools/check.py {pid} --tier thorough',
            'evidence_file': f'evidence/{pid}.json',
            'replay_cmd_template': f'python3 tools/check.py {pid} --replay {{path}}',
            'engine': 'lean4-proof+correspondence',
            'level_claimed': {'category': 'proof', 'text': c['text'], 'design_ref': f'DESIGN.md §3 {pid}'},
            'level_note': c['note'],
            'technique': c['technique'],
        })
    else:
        na.append({'property_id': pid, 'reason': src['not_applicable'].get(pid, 'check under construction in this round (model/proofs not yet committed); the technique applies, see DESIGN.md')})
m = {
    'version': 1,
    'setup_cmd': 'bash tools/setup.sh',
    'hooks': {'guard': 'SMOOTH_VERIF', 'enable': 'none needed: the harness uses the public API and detail headers of /repo/include only',
              'baseline_off_cmd': 'cmake --build /repo/_build && ctest --test-dir /repo/_build -j8 --timeout 900',
              'source_commits': [], 'add_only': True},
    'engines': [{'name': 'lean4-proof+correspondence', 'path': 'lean/ tools/check.py harness/',
                 'serves_properties': [c['property_id'] for c in checks],
                 'kind_free_text': 'Lean 4 theorems about a hand-written model polymorphic in the scalar; the same definitions run on Float/Float32 and are compared bit-for-bit with the C++ implementation (T1), generated tables are re-proved each run (T2), an exact rational/320-bit oracle audits rounding'}],
    'checks': checks,
    'not_applicable': na,
    'notes': src.get('notes', ''),
}
json.dump(m, open(os.path.join(R, 'MANIFEST.json'), 'w'), indent=1)
print('MANIFEST.json:', len(checks), 'checks,', len(na), 'not claimed')
