"""Front end of tools/gen_impl.py: tokenizer, class/function extraction and expression/statement
parser for the C++ subset used in the bodies of the `*Impl` classes of pettni/smooth.
Everything outside the subset raises TrErr naming the construct."""
import re


class TrErr(Exception):
    pass


TOK = re.compile(r'\s*(?:(\d+\.\d*|\.\d+)|(\d+)[uU]?|([A-Za-z_]\w*)|'
                 r'(::|<<|<=|>=|==|!=|&&|\|\||\+\+|--|\+=|-=|\*=|/=|->|[-+*/(){},;<>=\[\].&!?:]))')


def strip_comments(s):
    s = re.sub(r'//[^\n]*', '', s)
    return re.sub(r'/\*.*?\*/', '', s, flags=re.S)


def tokenize(s):
    out, i = [], 0
    s = s.rstrip()
    while i < len(s):
        m = TOK.match(s, i)
        if not m:
            if not s[i:].strip():
                break
            raise TrErr('cannot tokenize at: ' + s[i:i + 40].strip())
        if m.group(1) is not None:
            out.append(('flt', m.group(1)))
        elif m.group(2) is not None:
            out.append(('int', int(m.group(2))))
        elif m.group(3) is not None:
            out.append(('id', m.group(3)))
        else:
            out.append(('op', m.group(4)))
        i = m.end()
    return out


def show(toks, n=14):
    return ' '.join(str(t[1]) for t in toks[:n])


OPEN = {'(': ')', '{': '}', '[': ']'}


def match_close(toks, i):
    """index of the token closing the bracket opened at toks[i] (one of ( { [ )"""
    o = toks[i][1]
    c = OPEN[o]
    d = 0
    for j in range(i, len(toks)):
        if toks[j] == ('op', o):
            d += 1
        elif toks[j] == ('op', c):
            d -= 1
            if d == 0:
                return j
    raise TrErr('unbalanced ' + o + ' near: ' + show(toks[i:]))


def match_angle(toks, i):
    """index of the `>` closing the `<` at toks[i] (template argument lists only)"""
    d = 0
    for j in range(i, len(toks)):
        if toks[j] == ('op', '<'):
            d += 1
        elif toks[j] == ('op', '>'):
            d -= 1
            if d == 0:
                return j
        elif toks[j][1] in (';', '{', '}'):
            break
    raise TrErr('unbalanced < near: ' + show(toks[i:]))


def split_commas(toks):
    """split a token list at top-level commas (depth w.r.t. ( { [ and the template argument lists < > that
    follow a block method / Eigen type / *Impl class name)"""
    parts, cur, d = [], [], 0
    k = 0
    while k < len(toks):
        t = toks[k]
        if t == ('op', '<') and k > 0 and toks[k - 1][0] == 'id' and (
                toks[k - 1][1] in BLOCK_METHODS_T or toks[k - 1][1] in TEMPLATE_TYPES
                or toks[k - 1][1].endswith('Impl') or toks[k - 1][1] == 'array'):
            e = match_angle(toks, k)
            cur += toks[k:e + 1]
            k = e + 1
            continue
        if t[0] == 'op' and t[1] in '({[':
            d += 1
        elif t[0] == 'op' and t[1] in ')}]':
            d -= 1
        if t == ('op', ',') and d == 0:
            parts.append(cur)
            cur = []
        else:
            cur.append(t)
        k += 1
    if cur:
        parts.append(cur)
    return parts


# ------------------------------------------------------------------ classes and functions
class Func:
    def __init__(self, cls, name, ret_toks, params, body):
        self.cls, self.name, self.ret_toks, self.params, self.body = cls, name, ret_toks, params, body


class Cls:
    def __init__(self, name, key):
        self.name, self.key = name, key      # C++ class name, Lean namespace
        self.consts = {}                     # RepSize, Dim, Dof (ints or Sym)
        self.bools = {}                      # IsCommutative
        self.funcs = {}                      # name -> Func (insertion order = source order)


def find_class(src, cname):
    m = re.search(r'\b(class|struct)\s+' + cname + r'\b\s*\{', src)
    if not m:
        raise TrErr('class ' + cname + ' not found')
    b = m.end() - 1
    d = 0
    for j in range(b, len(src)):
        if src[j] == '{':
            d += 1
        elif src[j] == '}':
            d -= 1
            if d == 0:
                return src[b + 1:j]
    raise TrErr('unbalanced braces in class ' + cname)


def parse_class(src, cname, key, const_eval):
    """const_eval(tokens, consts) -> value of a constant integer expression"""
    toks = tokenize(find_class(src, cname))
    C = Cls(cname, key)
    i = 0
    while i < len(toks):
        t = toks[i]
        if t in (('id', 'public'), ('id', 'private')) and toks[i + 1] == ('op', ':'):
            i += 2
            continue
        if t == ('id', 'using'):
            while toks[i] != ('op', ';'):
                i += 1
            i += 1
            continue
        if t == ('id', 'SMOOTH_DEFINE_REFS') and toks[i + 1] == ('op', ';'):
            i += 2
            continue
        if t == ('id', 'static') and toks[i + 1] == ('id', 'constexpr'):
            j = i
            while toks[j] != ('op', ';'):
                j += 1
            decl = toks[i + 2:j]
            if decl[0][1] not in ('int', 'bool') or decl[2] != ('op', '='):
                raise TrErr(f'{cname}: unsupported constant declaration: ' + show(decl))
            if decl[0][1] == 'int':
                C.consts[decl[1][1]] = const_eval(decl[3:], C.consts)
            else:
                if decl[3:] not in ([('id', 'true')], [('id', 'false')]):
                    raise TrErr(f'{cname}: unsupported boolean constant: ' + show(decl))
                C.bools[decl[1][1]] = decl[3][1] == 'true'
            i = j + 1
            continue
        if t == ('id', 'static'):
            # static RET NAME ( params ) { body }
            j = i + 1
            a = 0
            while True:
                if j >= len(toks):
                    raise TrErr(f'{cname}: cannot find function header after: ' + show(toks[i:]))
                if toks[j] == ('op', '<'):
                    a += 1
                elif toks[j] == ('op', '>'):
                    a -= 1
                elif a == 0 and toks[j][0] == 'id' and toks[j + 1] == ('op', '(') and j > i + 1:
                    break
                j += 1
            name = toks[j][1]
            ret = toks[i + 1:j]
            pe = match_close(toks, j + 1)
            params = split_commas(toks[j + 2:pe])
            if toks[pe + 1] != ('op', '{'):
                raise TrErr(f'{cname}::{name}: expected function body')
            be = match_close(toks, pe + 1)
            if name in C.funcs:
                raise TrErr(f'{cname}::{name}: overloaded functions are not supported')
            C.funcs[name] = Func(C, name, ret, params, toks[pe + 2:be])
            i = be + 1
            continue
        raise TrErr(f'{cname}: unsupported class member starting at: ' + show(toks[i:]))
    return C


# ------------------------------------------------------------------ expressions
BLOCK_METHODS_T = {'head', 'tail', 'segment', 'topLeftCorner', 'topRightCorner', 'bottomLeftCorner',
                   'bottomRightCorner', 'block', 'middleCols'}
TEMPLATE_TYPES = {'Matrix', 'Matrix3', 'Vector3', 'Map', 'Quaternion', 'Ref'}


class EP:
    """expression parser over a token list.  AST nodes:
       ('int',k) ('flt',txt) ('var',name) ('neg',e) ('bin',op,a,b) ('cmp',op,a,b)
       ('call',[qualifier...],name,args) ('member',base,name,targs,args) ('index',base,args)
       ('cast',tokens) ('lambda',ret_tokens,body_tokens) ('static',type_tokens,name)"""

    def __init__(self, toks, is_var, where=''):
        self.t, self.i, self.is_var, self.where = toks, 0, is_var, where

    def peek(self, k=0):
        return self.t[self.i + k] if self.i + k < len(self.t) else ('eof', '')

    def take(self, val=None):
        k, v = self.peek()
        if k == 'eof' or (val is not None and v != val):
            raise TrErr(f'{self.where}: expected `{val}`, got `{v}` in: ' + show(self.t, 30))
        self.i += 1
        return v

    def done(self):
        return self.i >= len(self.t)

    def full(self):
        e = self.cmp()
        if not self.done():
            raise TrErr(f'{self.where}: trailing tokens `{show(self.t[self.i:])}` in: ' + show(self.t, 30))
        return e

    def cmp(self):
        a = self.expr()
        if self.peek() in (('op', '<'), ('op', '>')):
            op = self.take()
            b = self.expr()
            return ('cmp', op, a, b)
        if self.peek()[1] in ('<=', '>=', '==', '!=', '&&', '||'):
            raise TrErr(f'{self.where}: unsupported comparison operator `{self.peek()[1]}`')
        return a

    def expr(self):
        e = self.term()
        while self.peek() in (('op', '+'), ('op', '-')):
            op = self.take()
            e = ('bin', op, e, self.term())
        return e

    def term(self):
        e = self.unary()
        while self.peek() in (('op', '*'), ('op', '/')):
            op = self.take()
            e = ('bin', op, e, self.unary())
        return e

    def unary(self):
        if self.peek() == ('op', '-'):
            self.take()
            return ('neg', self.unary())
        if self.peek() == ('op', '+'):
            self.take()
            return self.unary()
        return self.postfix()

    def args(self):
        """( e, e, … ) — the opening paren is the current token"""
        self.take('(')
        out = []
        if self.peek() == ('op', ')'):
            self.take()
            return out
        while True:
            out.append(self.expr())
            if self.peek() == ('op', ','):
                self.take()
                continue
            self.take(')')
            return out

    def targs(self):
        """< a, b > -> list of token lists; the `<` is the current token"""
        e = match_angle(self.t, self.i)
        parts = split_commas(self.t[self.i + 1:e])
        self.i = e + 1
        return parts

    def postfix(self):
        e = self.primary()
        while True:
            p = self.peek()
            if p == ('op', '.'):
                self.take()
                if self.peek() == ('id', 'template'):
                    self.take()
                name = self.take()
                ta = []
                if self.peek() == ('op', '<') and name in BLOCK_METHODS_T:
                    ta = self.targs()
                e = ('member', e, name, ta, self.args())
            elif p == ('op', '['):
                self.take()
                idx = self.expr()
                self.take(']')
                e = ('index', e, [idx])
            elif p == ('op', '(') and e[0] in ('var', 'member', 'index'):
                e = ('index', e, self.args())
            else:
                return e

    def primary(self):
        k, v = self.peek()
        if k == 'int':
            self.take()
            return ('int', v)
        if k == 'flt':
            self.take()
            return ('flt', v)
        if (k, v) == ('op', '('):
            self.take()
            e = self.expr()
            self.take(')')
            return e
        if (k, v) == ('op', '['):
            return self.lambda_()
        if k != 'id':
            raise TrErr(f'{self.where}: unexpected token `{v}` in: ' + show(self.t, 30))
        if v in ('Scalar', 'S') and self.peek(1) == ('op', '('):
            self.take()
            e = match_close(self.t, self.i)
            inner = self.t[self.i + 1:e]
            self.i = e + 1
            return ('cast', inner)
        if v == 'Eigen':
            # Eigen::Type<...>::Name()
            j = self.i
            if self.t[j + 1] != ('op', '::') or self.t[j + 2][1] not in TEMPLATE_TYPES or self.t[j + 3] != ('op', '<'):
                raise TrErr(f'{self.where}: unsupported Eigen expression: ' + show(self.t[j:]))
            e = match_angle(self.t, j + 3)
            ty = self.t[j:e + 1]
            self.i = e + 1
            self.take('::')
            name = self.take()
            a = self.args()
            if a:
                raise TrErr(f'{self.where}: static Eigen function with arguments: {name}')
            return ('static', ty, name)
        # qualified names
        quals = []
        self.take()
        name = v
        while True:
            if self.peek() == ('op', '<') and name.endswith('Impl'):
                ta = self.targs()
                if ta != [[('id', 'Scalar')]]:
                    raise TrErr(f'{self.where}: {name}<…> with a scalar type other than Scalar')
            if self.peek() == ('op', '::'):
                self.take()
                quals.append(name)
                name = self.take()
                continue
            break
        if quals or (self.peek() == ('op', '(') and not self.is_var(name)):
            if self.peek() != ('op', '('):
                raise TrErr(f'{self.where}: qualified name `{"::".join(quals + [name])}` that is not a call')
            return ('call', quals, name, self.args())
        return ('var', name)

    def lambda_(self):
        self.take('[')
        if self.peek() == ('op', '&'):
            self.take()
        self.take(']')
        self.take('(')
        self.take(')')
        self.take('->')
        j = self.i
        while self.t[j] != ('op', '{'):
            j += 1
        ret = self.t[self.i:j]
        e = match_close(self.t, j)
        body = self.t[j + 1:e]
        self.i = e + 1
        self.take('(')
        self.take(')')
        return ('lambda', ret, body)
