// diff.cpp — correspondence + audit harness for diff::dr (property C08).
// Includes /repo/include directly and calls the real code in-process.
//
//   ./diff <n>         generate lines (VERIF_SEED from the environment)
//   ./diff eval        re-evaluate request lines from stdin (replays, searches)
//
// TYPE token:  <family>:<group>:k<K>:<mode>:i<subset|all>:c<const mask>
//   family: prod log act rminus poly sumlog chain sqn        group: SO3 SE2 SE3 B[SO3,T2] or -
//   mode:   num (Numerical)  ana (Analytic)  def (Default, callable has jacobian/hessian)
//           dfn (Default, callable has none -> Numerical)
//   subset: `all` = dr(f, wrt(...)) ; digits = dr(f, wrt(...), std::index_sequence<digits...>)
//   const mask: digit i is 1 when argument i is passed as a const reference
// Lines:
//   diff_dr    TYPE f64 <args> <params> | <fval> <J row-major> [<H row-major>] <args after the call>
//   diff_trace TYPE f64 <args> <params> | <argument tuple at every evaluation of f, in order>
//   aud_diff   TYPE f64 <args> <params> | eJ sJ eH sH restore value_ok const_ok eSub passthrough nevals
#include <smooth/bundle.hpp>
#include <smooth/c1.hpp>
#include <smooth/diff.hpp>
#include <smooth/so2.hpp>
#include <smooth/se2.hpp>
#include <smooth/se3.hpp>
#include <smooth/so3.hpp>

#include <functional>
#include <limits>

#include "common.hpp"

using namespace vh;
using smooth::diff::Type;

#ifndef FAMILY
#define FAMILY 0
#endif

using Vx = Eigen::VectorXd;

// ------------------------------------------------------------------ flat words
struct Reader
{
  const std::vector<double> & x;
  size_t off = 0;
  bool ok    = true;
  double word()
  {
    if (off >= x.size()) {
      ok = false;
      return 0;
    }
    return x[off++];
  }
  int nat()
  {
    const double w = word();
    if (!(w >= 0) || w > 4096 || w != std::floor(w)) {
      ok = false;
      return 0;
    }
    return int(w);
  }
  bool done() const { return ok && off == x.size(); }
};

template<class G> struct GName;
template<> struct GName<smooth::SO3d> { static std::string name() { return "SO3"; } };
template<> struct GName<smooth::SO2d> { static std::string name() { return "SO2"; } };
template<> struct GName<smooth::C1d> { static std::string name() { return "C1"; } };
template<> struct GName<smooth::SE2d> { static std::string name() { return "SE2"; } };
template<> struct GName<smooth::SE3d> { static std::string name() { return "SE3"; } };
template<int N> struct GName<Eigen::Matrix<double, N, 1>> { static std::string name() { return "T" + std::to_string(N); } };
template<class... Gs>
struct GName<smooth::Bundle<Gs...>>
{
  static std::string name()
  {
    std::string s = "B[";
    bool first    = true;
    ((s += (first ? "" : ",") + GName<Gs>::name(), first = false), ...);
    return s + "]";
  }
};

template<class M> struct Codec;
template<class G>
  requires requires(G g) { g.coeffs(); }
struct Codec<G>
{
  static void put(std::vector<double> & o, const G & g) { for (Eigen::Index i = 0; i < g.coeffs().size(); ++i) o.push_back(g.coeffs()(i)); }
  static void raw(std::vector<double> & o, const G & g) { put(o, g); }
  static G get(Reader & r) { G g; for (Eigen::Index i = 0; i < g.coeffs().size(); ++i) g.coeffs()(i) = r.word(); return g; }
  static double maxabs(const G & g) { return g.coeffs().cwiseAbs().maxCoeff(); }
};
template<int N>
  requires(N > 0)
struct Codec<Eigen::Matrix<double, N, 1>>
{
  using M = Eigen::Matrix<double, N, 1>;
  static void put(std::vector<double> & o, const M & g) { for (int i = 0; i < N; ++i) o.push_back(g(i)); }
  static void raw(std::vector<double> & o, const M & g) { put(o, g); }
  static M get(Reader & r) { M g; for (int i = 0; i < N; ++i) g(i) = r.word(); return g; }
  static double maxabs(const M & g) { return g.cwiseAbs().maxCoeff(); }
};
template<>
struct Codec<Vx>
{
  static void put(std::vector<double> & o, const Vx & g) { o.push_back(double(g.size())); raw(o, g); }
  static void raw(std::vector<double> & o, const Vx & g) { for (Eigen::Index i = 0; i < g.size(); ++i) o.push_back(g(i)); }
  static Vx get(Reader & r) { const int n = r.nat(); Vx g(n); for (int i = 0; i < n; ++i) g(i) = r.word(); return g; }
  static double maxabs(const Vx & g) { return g.size() ? g.cwiseAbs().maxCoeff() : 0.0; }
};
template<>
struct Codec<double>
{
  static void put(std::vector<double> & o, double g) { o.push_back(g); }
  static void raw(std::vector<double> & o, double g) { o.push_back(g); }
  static double get(Reader & r) { return r.word(); }
  static double maxabs(double g) { return std::abs(g); }
};
template<class E>
struct Codec<std::vector<E>>
{
  using M = std::vector<E>;
  static void put(std::vector<double> & o, const M & m) { o.push_back(double(m.size())); for (auto & e : m) Codec<E>::put(o, e); }
  static void raw(std::vector<double> & o, const M & m) { put(o, m); }
  static M get(Reader & r) { const int n = r.nat(); M m; for (int i = 0; i < n && r.ok; ++i) m.push_back(Codec<E>::get(r)); return m; }
  static double maxabs(const M & m) { double s = 0; for (auto & e : m) s = std::max(s, Codec<E>::maxabs(e)); return s; }
};

template<class D>
void put_mat(std::vector<double> & o, const Eigen::MatrixBase<D> & m)
{
  for (Eigen::Index i = 0; i < m.rows(); ++i)
    for (Eigen::Index j = 0; j < m.cols(); ++j) o.push_back(m(i, j));
}
inline void put_mat(std::vector<double> & o, double m) { o.push_back(m); }

// ------------------------------------------------------------------ helpers for closed forms
inline Eigen::Matrix3d hat3(const Eigen::Vector3d & v)
{
  Eigen::Matrix3d m;
  m << 0, -v(2), v(1), v(2), 0, -v(0), -v(1), v(0), 0;
  return m;
}

using Trace = std::vector<std::vector<double>>;

// every family member: value types of the arguments, operator(), closed-form jacobian (dense,
// ny x nx, columns ordered like the arguments), optionally a closed-form hessian in the
// documented layout, parameters read from / written to the line.
// WithD = true: the callable exposes `jacobian` / `hessian` members (Analytic, Default->Analytic)
template<class Derived, class... A>
struct FamBase
{
  using Args                 = std::tuple<A...>;
  static constexpr size_t NA = sizeof...(A);
  Trace * trace              = nullptr;
  // is the callable smooth at these arguments (the property is about smooth f)?
  static bool admissible(const A &...) { return true; }
  void record(const A &... a) const
  {
    if (!trace) return;
    std::vector<double> o;
    (Codec<A>::put(o, a), ...);
    trace->push_back(o);
  }
};

// ---- prod: f(x, y) = x * y
template<class G, bool WithD>
struct Prod : FamBase<Prod<G, WithD>, G, G>
{
  static constexpr int N = G::Dof;
  static std::string fam() { return "prod"; }
  static std::string grp() { return GName<G>::name(); }
  static constexpr bool has_hess = std::is_same_v<G, smooth::SO3d>;
  void params_put(std::vector<double> &) const {}
  bool params_get(Reader &, const std::tuple<G, G> &) { return true; }
  void params_gen(Rng &, const std::tuple<G, G> &, int) {}
  G operator()(const G & x, const G & y) const { this->record(x, y); return x * y; }
  Eigen::MatrixXd J(const G &, const G & y) const
  {
    Eigen::MatrixXd j(N, 2 * N);
    j.leftCols(N)  = y.inverse().Ad();
    j.rightCols(N) = Eigen::MatrixXd::Identity(N, N);
    return j;
  }
  Eigen::MatrixXd H(const G &, const G & y) const
  {  // d/dy_b of the x-block Ad(y^-1):  -ad(e_b) Ad(y^-1);  everything else 0
    const int nx = 2 * N;
    Eigen::MatrixXd h = Eigen::MatrixXd::Zero(nx, nx * N);
    const Eigen::MatrixXd A = y.inverse().Ad();
    for (int b = 0; b < N; ++b) {
      const Eigen::MatrixXd D = -G::ad(Eigen::Matrix<double, N, 1>::Unit(b)) * A;
      for (int j = 0; j < N; ++j)
        for (int a = 0; a < N; ++a) h(a, j * nx + N + b) = D(j, a);
    }
    return h;
  }
  auto jacobian(const G & x, const G & y) const requires WithD { return Eigen::Matrix<double, N, 2 * N>(J(x, y)); }
  auto hessian(const G & x, const G & y) const requires(WithD && has_hess) { return Eigen::MatrixXd(H(x, y)); }
};

// ---- log: f(x) = x.log()
template<class G, bool WithD>
struct Log : FamBase<Log<G, WithD>, G>
{
  static constexpr int N = G::Dof;
  static std::string fam() { return "log"; }
  static std::string grp() { return GName<G>::name(); }
  static constexpr bool has_hess = false;
  void params_put(std::vector<double> &) const {}
  bool params_get(Reader &, const std::tuple<G> &) { return true; }
  void params_gen(Rng &, const std::tuple<G> &, int) {}
  typename G::Tangent operator()(const G & x) const { this->record(x); return x.log(); }
  Eigen::MatrixXd J(const G & x) const { return G::dr_expinv(x.log()); }
  Eigen::MatrixXd H(const G &) const { return Eigen::MatrixXd(); }
  auto jacobian(const G & x) const requires WithD { return Eigen::Matrix<double, N, N>(J(x)); }
};

// ---- act: f(x, v) = x * v   (SO3 on R3, SE2 on R2, SE3 on R3)
template<class G> struct ActDim { static constexpr int value = 3; };
template<> struct ActDim<smooth::SE2d> { static constexpr int value = 2; };
template<class G, bool WithD>
struct Act : FamBase<Act<G, WithD>, G, Eigen::Matrix<double, ActDim<G>::value, 1>>
{
  static constexpr int N = G::Dof, P = ActDim<G>::value;
  using V = Eigen::Matrix<double, P, 1>;
  static std::string fam() { return "act"; }
  static std::string grp() { return GName<G>::name(); }
  static constexpr bool has_hess = std::is_same_v<G, smooth::SO3d>;
  void params_put(std::vector<double> &) const {}
  bool params_get(Reader &, const std::tuple<G, V> &) { return true; }
  void params_gen(Rng &, const std::tuple<G, V> &, int) {}
  V operator()(const G & x, const V & v) const { this->record(x, v); return x * v; }
  Eigen::MatrixXd J(const G & x, const V & v) const
  {
    Eigen::MatrixXd j(P, N + P);
    if constexpr (std::is_same_v<G, smooth::SO3d>) {
      const Eigen::Matrix3d R = x.matrix();
      j.leftCols(3)           = -R * hat3(v);
      j.rightCols(3)          = R;
    } else if constexpr (std::is_same_v<G, smooth::SE2d>) {
      const Eigen::Matrix2d R = x.so2().matrix();
      j.leftCols(2)           = R;
      j.col(2)                = R * Eigen::Vector2d(-v(1), v(0));
      j.rightCols(2)          = R;
    } else {
      const Eigen::Matrix3d R = x.so3().matrix();
      j.leftCols(3)           = R;
      j.middleCols(3, 3)      = -R * hat3(v);
      j.rightCols(3)          = R;
    }
    return j;
  }
  Eigen::MatrixXd H(const G & x, const V & v) const
  {  // SO3 only:  J col a (x) = R e_a^ v, col a (v) = R e_a
    const int nx = 6;
    Eigen::MatrixXd h = Eigen::MatrixXd::Zero(nx, nx * 3);
    if constexpr (std::is_same_v<G, smooth::SO3d>) {
      const Eigen::Matrix3d R = x.matrix();
      for (int a = 0; a < 3; ++a)
        for (int b = 0; b < 3; ++b) {
          const Eigen::Vector3d ea = Eigen::Vector3d::Unit(a), eb = Eigen::Vector3d::Unit(b);
          const Eigen::Vector3d xx = R * hat3(eb) * hat3(ea) * v;  // k0 = x a, k1 = x b
          const Eigen::Vector3d xv = R * hat3(ea) * eb;            // k0 = x a, k1 = v b
          const Eigen::Vector3d vx = R * hat3(eb) * ea;            // k0 = v a, k1 = x b
          for (int j = 0; j < 3; ++j) {
            h(a, j * nx + b)         = xx(j);
            h(a, j * nx + 3 + b)     = xv(j);
            h(3 + a, j * nx + b)     = vx(j);
          }
        }
    }
    return h;
  }
  auto jacobian(const G & x, const V & v) const requires WithD { return Eigen::Matrix<double, P, N + P>(J(x, v)); }
  auto hessian(const G & x, const V & v) const requires(WithD && has_hess) { return Eigen::MatrixXd(H(x, v)); }
};

// ---- rminus: f(x, y) = x - y
template<class G, bool WithD>
struct Rminus : FamBase<Rminus<G, WithD>, G, G>
{
  static constexpr int N = G::Dof;
  static std::string fam() { return "rminus"; }
  static std::string grp() { return GName<G>::name(); }
  static constexpr bool has_hess = false;
  void params_put(std::vector<double> &) const {}
  bool params_get(Reader &, const std::tuple<G, G> &) { return true; }
  void params_gen(Rng &, const std::tuple<G, G> &, int) {}
  // x - y is discontinuous where the relative rotation is pi: stay away from it (computed from
  // the group operations, not from the function under test)
  static bool admissible(const G & x, const G & y) { return (y.inverse() * x).log().cwiseAbs().maxCoeff() < 3.0; }
  typename G::Tangent operator()(const G & x, const G & y) const { this->record(x, y); return smooth::rminus(x, y); }
  Eigen::MatrixXd J(const G & x, const G & y) const
  {
    const typename G::Tangent v = x - y;
    Eigen::MatrixXd j(N, 2 * N);
    j.leftCols(N)  = G::dr_expinv(v);
    j.rightCols(N) = -G::dl_expinv(v);
    return j;
  }
  Eigen::MatrixXd H(const G &, const G &) const { return Eigen::MatrixXd(); }
  auto jacobian(const G & x, const G & y) const requires WithD { return Eigen::Matrix<double, N, 2 * N>(J(x, y)); }
};

// ---- sqn: f(x, y) = 0.5 |x - y|^2   (scalar valued)
template<class G, bool WithD>
struct Sqn : FamBase<Sqn<G, WithD>, G, G>
{
  static constexpr int N = G::Dof;
  static std::string fam() { return "sqn"; }
  static std::string grp() { return GName<G>::name(); }
  // closed-form Hessian below uses v^T dr_expinv(v) = v^T, which holds on SO3 (not on SE2)
  static constexpr bool has_hess = std::is_same_v<G, smooth::SO3d>;
  void params_put(std::vector<double> &) const {}
  bool params_get(Reader &, const std::tuple<G, G> &) { return true; }
  void params_gen(Rng &, const std::tuple<G, G> &, int) {}
  double operator()(const G & x, const G & y) const
  {
    this->record(x, y);
    const typename G::Tangent v = smooth::rminus(x, y);
    double s = 0;
    for (int i = 0; i < N; ++i) s += v(i) * v(i);
    return 0.5 * s;
  }
  Eigen::MatrixXd J(const G & x, const G & y) const
  {
    const typename G::Tangent v = x - y;
    Eigen::MatrixXd j(1, 2 * N);
    j.leftCols(N)  = v.transpose() * G::dr_expinv(v);
    j.rightCols(N) = -v.transpose() * G::dl_expinv(v);
    return j;
  }
  Eigen::MatrixXd H(const G & x, const G & y) const
  {  // d/dk1 of J_k0 with J = [ v^T Jr^-1 , -v^T Jl^-1 ] = [v^T, -v^T]
    const typename G::Tangent v = x - y;
    const Eigen::MatrixXd Jr = G::dr_expinv(v), Jl = G::dl_expinv(v);
    Eigen::MatrixXd h(2 * N, 2 * N);
    h.topLeftCorner(N, N)     = Jr;
    h.topRightCorner(N, N)    = -Jl;
    h.bottomLeftCorner(N, N)  = -Jr;
    h.bottomRightCorner(N, N) = Jl;
    return h;
  }
  auto jacobian(const G & x, const G & y) const requires WithD { return Eigen::Matrix<double, 1, 2 * N>(J(x, y)); }
  auto hessian(const G & x, const G & y) const requires(WithD && has_hess) { return Eigen::MatrixXd(H(x, y)); }
};

// ---- sumlog: f(vs) = sum_i vs[i].log()
template<class G, bool WithD>
struct SumLog : FamBase<SumLog<G, WithD>, std::vector<G>>
{
  static constexpr int N = G::Dof;
  using VS = std::vector<G>;
  static std::string fam() { return "sumlog"; }
  static std::string grp() { return GName<G>::name(); }
  static constexpr bool has_hess = false;
  void params_put(std::vector<double> &) const {}
  bool params_get(Reader &, const std::tuple<VS> &) { return true; }
  void params_gen(Rng &, const std::tuple<VS> &, int) {}
  typename G::Tangent operator()(const VS & vs) const
  {
    this->record(vs);
    typename G::Tangent s = G::Tangent::Zero();
    for (const auto & g : vs) s += g.log();
    return s;
  }
  Eigen::MatrixXd J(const VS & vs) const
  {
    Eigen::MatrixXd j(N, N * vs.size());
    for (size_t i = 0; i < vs.size(); ++i) j.middleCols(N * i, N) = G::dr_expinv(vs[i].log());
    return j;
  }
  Eigen::MatrixXd H(const VS &) const { return Eigen::MatrixXd(); }
  auto jacobian(const VS & vs) const requires WithD { return Eigen::MatrixXd(J(vs)); }
};

// ---- chain: f(x, y, v) = (x * y) * v   on SO3
template<bool WithD>
struct Chain : FamBase<Chain<WithD>, smooth::SO3d, smooth::SO3d, Eigen::Vector3d>
{
  using G = smooth::SO3d;
  using V = Eigen::Vector3d;
  static std::string fam() { return "chain"; }
  static std::string grp() { return "SO3"; }
  static constexpr bool has_hess = false;
  void params_put(std::vector<double> &) const {}
  bool params_get(Reader &, const std::tuple<G, G, V> &) { return true; }
  void params_gen(Rng &, const std::tuple<G, G, V> &, int) {}
  V operator()(const G & x, const G & y, const V & v) const { this->record(x, y, v); return (x * y) * v; }
  Eigen::MatrixXd J(const G & x, const G & y, const V & v) const
  {
    const Eigen::Matrix3d Rx = x.matrix(), Ry = y.matrix();
    Eigen::MatrixXd j(3, 9);
    j.leftCols(3)      = -Rx * hat3(Ry * v);
    j.middleCols(3, 3) = -Rx * Ry * hat3(v);
    j.rightCols(3)     = Rx * Ry;
    return j;
  }
  Eigen::MatrixXd H(const G &, const G &, const V &) const { return Eigen::MatrixXd(); }
  auto jacobian(const G & x, const G & y, const V & v) const requires WithD { return Eigen::Matrix<double, 3, 9>(J(x, y, v)); }
};

// ---- poly: f(t, u, w) polynomial map R x R3 x R^n -> R^m (scalar, static vector, dynamic vector)
//   z = (t, u, w),  N = 4 + n
//   f_i = (sum_j A_ij z_j)/10 + q_i z_p z_r /100 + c_i z_s^3 /1000,  p = i mod N, r = (i+1) mod N, s = (i+2) mod N
template<bool WithD>
struct Poly : FamBase<Poly<WithD>, double, Eigen::Vector3d, Vx>
{
  using U = Eigen::Vector3d;
  int m = 0, N = 0;
  std::vector<double> A, q, c;  // A row-major m x N
  static std::string fam() { return "poly"; }
  static std::string grp() { return "-"; }
  static constexpr bool has_hess = true;
  void params_put(std::vector<double> & o) const
  {
    o.push_back(double(m));
    o.insert(o.end(), A.begin(), A.end());
    o.insert(o.end(), q.begin(), q.end());
    o.insert(o.end(), c.begin(), c.end());
  }
  bool params_get(Reader & r, const std::tuple<double, U, Vx> & a)
  {
    m = r.nat();
    N = 4 + int(std::get<2>(a).size());
    if (m < 1 || m > 8) return false;
    A.resize(m * N); q.resize(m); c.resize(m);
    for (auto & v : A) v = r.word();
    for (auto & v : q) v = r.word();
    for (auto & v : c) v = r.word();
    return r.ok;
  }
  void params_gen(Rng & r, const std::tuple<double, U, Vx> & a, int k)
  {
    m = 1 + k % 4;
    N = 4 + int(std::get<2>(a).size());
    A.resize(m * N); q.resize(m); c.resize(m);
    for (auto & v : A) v = std::round(r.uni(-4, 4) * 8) / 8;
    const bool affine = (k % 5 == 4);
    for (auto & v : q) v = affine ? 0.0 : std::round(r.uni(-4, 4) * 8) / 8;
    for (auto & v : c) v = affine ? 0.0 : std::round(r.uni(-4, 4) * 8) / 8;
  }
  Vx zcat(double t, const U & u, const Vx & w) const
  {
    Vx z(N);
    z(0) = t;
    z.segment(1, 3) = u;
    z.tail(N - 4) = w;
    return z;
  }
  Vx operator()(const double & t, const U & u, const Vx & w) const
  {
    this->record(t, u, w);
    const Vx z = zcat(t, u, w);
    Vx f(m);
    for (int i = 0; i < m; ++i) {
      double s = 0;
      for (int j = 0; j < N; ++j) s += A[i * N + j] * z(j);
      const double zp = z(i % N), zr = z((i + 1) % N), zs = z((i + 2) % N);
      f(i) = s / 10 + q[i] * zp * zr / 100 + c[i] * zs * zs * zs / 1000;
    }
    return f;
  }
  Eigen::MatrixXd J(const double & t, const U & u, const Vx & w) const
  {
    const Vx z = zcat(t, u, w);
    Eigen::MatrixXd j = Eigen::MatrixXd::Zero(m, N);
    for (int i = 0; i < m; ++i) {
      for (int k = 0; k < N; ++k) j(i, k) = A[i * N + k] / 10;
      const int p = i % N, r = (i + 1) % N, s = (i + 2) % N;
      j(i, p) += q[i] * z(r) / 100;
      j(i, r) += q[i] * z(p) / 100;
      j(i, s) += 3 * c[i] * z(s) * z(s) / 1000;
    }
    return j;
  }
  Eigen::MatrixXd H(const double & t, const U & u, const Vx & w) const
  {
    const Vx z = zcat(t, u, w);
    Eigen::MatrixXd h = Eigen::MatrixXd::Zero(N, N * m);
    for (int i = 0; i < m; ++i) {
      const int p = i % N, r = (i + 1) % N, s = (i + 2) % N;
      h(p, i * N + r) += q[i] / 100;
      h(r, i * N + p) += q[i] / 100;
      h(s, i * N + s) += 6 * c[i] * z(s) / 1000;
    }
    return h;
  }
  auto jacobian(const double & t, const U & u, const Vx & w) const requires WithD { return Eigen::MatrixXd(J(t, u, w)); }
  auto hessian(const double & t, const U & u, const Vx & w) const requires WithD { return Eigen::MatrixXd(H(t, u, w)); }
};

// ------------------------------------------------------------------ argument tuples
template<unsigned Mask, class Tup, size_t... I>
auto make_wrt_impl(Tup & a, std::index_sequence<I...>)
{
  return std::forward_as_tuple([&]() -> decltype(auto) {
    if constexpr ((Mask >> I) & 1u) return std::as_const(std::get<I>(a));
    else return (std::get<I>(a));
  }()...);
}
template<unsigned Mask, class Tup>
auto make_wrt(Tup & a)
{
  return make_wrt_impl<Mask>(a, std::make_index_sequence<std::tuple_size_v<Tup>>{});
}

template<class Tup, size_t... I>
void put_args(std::vector<double> & o, const Tup & a, std::index_sequence<I...>)
{
  (Codec<std::tuple_element_t<I, Tup>>::put(o, std::get<I>(a)), ...);
}
template<class Tup>
void put_args(std::vector<double> & o, const Tup & a)
{
  put_args(o, a, std::make_index_sequence<std::tuple_size_v<Tup>>{});
}
template<class Tup, size_t... I>
Tup get_args(Reader & r, std::index_sequence<I...>)
{
  // braced init: evaluation order left to right
  return Tup{Codec<std::tuple_element_t<I, Tup>>::get(r)...};
}

// restoration measure: max over arguments of max|after - before| / max|coefficient|
template<class Tup, size_t... I>
double restore_err(const Tup & before, const Tup & after, std::index_sequence<I...>)
{
  double worst = 0;
  (
    [&] {
      using E = std::tuple_element_t<I, Tup>;
      std::vector<double> b, a;
      Codec<E>::put(b, std::get<I>(before));
      Codec<E>::put(a, std::get<I>(after));
      double d = 0;
      for (size_t k = 0; k < std::min(a.size(), b.size()); ++k) d = std::max(d, std::abs(a[k] - b[k]));
      const double s = Codec<E>::maxabs(std::get<I>(before));
      if (d > 0) worst = std::max(worst, s > 0 ? d / s : std::numeric_limits<double>::infinity());
    }(),
    ...);
  return worst;
}
template<unsigned Mask, class Tup, size_t... I>
bool const_untouched(const Tup & before, const Tup & after, std::index_sequence<I...>)
{
  bool ok = true;
  (
    [&] {
      if constexpr ((Mask >> I) & 1u) {
        using E = std::tuple_element_t<I, Tup>;
        std::vector<double> b, a;
        Codec<E>::put(b, std::get<I>(before));
        Codec<E>::put(a, std::get<I>(after));
        ok = ok && a.size() == b.size() && std::memcmp(a.data(), b.data(), a.size() * 8) == 0;
      }
    }(),
    ...);
  return ok;
}

template<class Tup, size_t... I>
std::vector<Eigen::Index> arg_dofs(const Tup & a, std::index_sequence<I...>)
{
  return {Eigen::Index(smooth::dof(std::get<I>(a)))...};
}

// ------------------------------------------------------------------ one configured call
template<size_t... Idx>
struct Sub
{
  static std::string name()
  {
    std::string s = "i";
    ((s += std::to_string(Idx)), ...);
    return s;
  }
  static std::vector<size_t> list() { return {Idx...}; }
};
struct All
{
  static std::string name() { return "iall"; }
};

inline const char * mode_name(Type D, bool withd)
{
  switch (D) {
  case Type::Numerical: return "num";
  case Type::Analytic: return "ana";
  default: return withd ? "def" : "dfn";
  }
}

template<template<bool> class F, size_t K, Type D, bool WithD, unsigned Mask, class S>
struct Config
{
  using Fam = F<WithD>;
  using Tup = typename Fam::Args;
  static constexpr size_t NA = std::tuple_size_v<Tup>;

  static std::string type_token()
  {
    std::string cm = "c";
    for (size_t i = 0; i < NA; ++i) cm += ((Mask >> i) & 1u) ? "1" : "0";
    return Fam::fam() + ":" + Fam::grp() + ":k" + std::to_string(K) + ":" + mode_name(D, WithD) + ":" + S::name() + ":" + cm;
  }

  template<class Fn, class W>
  static auto call(Fn & f, W && w)
  {
    if constexpr (std::is_same_v<S, All>) return smooth::diff::dr<K, D>(f, std::forward<W>(w));
    else return call_sub(f, std::forward<W>(w), S{});
  }
  template<class Fn, class W, size_t... Idx>
  static auto call_sub(Fn & f, W && w, Sub<Idx...>)
  {
    return smooth::diff::dr<K, D>(f, std::forward<W>(w), std::index_sequence<Idx...>{});
  }

  // columns of the full derivative selected by the subset
  static std::vector<Eigen::Index> columns(const Tup & a)
  {
    const auto d = arg_dofs(a, std::make_index_sequence<NA>{});
    std::vector<Eigen::Index> off(NA + 1, 0);
    for (size_t i = 0; i < NA; ++i) off[i + 1] = off[i] + d[i];
    std::vector<Eigen::Index> cols;
    if constexpr (std::is_same_v<S, All>) {
      for (Eigen::Index c = 0; c < off[NA]; ++c) cols.push_back(c);
    } else {
      for (size_t i : S::list())
        for (Eigen::Index c = off[i]; c < off[i + 1]; ++c) cols.push_back(c);
    }
    return cols;
  }

  // returns false when the request is malformed
  static bool eval(const std::string & op, const std::vector<double> & x, std::vector<double> & out)
  {
    Reader r{x};
    const Tup a0 = get_args<Tup>(r, std::make_index_sequence<NA>{});
    if (!r.ok) return false;
    Fam f;
    if (!f.params_get(r, a0) || !r.done()) return false;
    Tup a = a0;  // the objects the caller owns
    Trace tr;
    f.trace = &tr;
    auto res = call(f, make_wrt<Mask>(a));
    f.trace = nullptr;
    const auto cols = columns(a0);
    if (op == "diff_dr") {
      Codec<std::decay_t<decltype(std::get<0>(res))>>::raw(out, std::get<0>(res));
      if constexpr (K >= 1) put_mat(out, Eigen::MatrixXd(std::get<1>(res)));
      if constexpr (K >= 2) put_mat(out, Eigen::MatrixXd(std::get<2>(res)));
      put_args(out, a);
      return true;
    }
    if (op == "diff_trace") {
      for (auto & t : tr) out.insert(out.end(), t.begin(), t.end());
      return true;
    }
    if (op != "aud_diff") return false;
    // ---- audit against the closed forms
    const double nan = std::numeric_limits<double>::quiet_NaN();
    double eJ = nan, sJ = nan, eH = nan, sH = nan, eSub = nan, pass = nan;
    const Eigen::MatrixXd Jt = std::apply([&](const auto &... v) { return f.J(v...); }, a0);
    if constexpr (K >= 1) {
      const Eigen::MatrixXd Jn = std::get<1>(res);
      Eigen::MatrixXd Js(Jt.rows(), Eigen::Index(cols.size()));
      for (size_t c = 0; c < cols.size(); ++c) Js.col(Eigen::Index(c)) = Jt.col(cols[c]);
      if (Jn.rows() == Js.rows() && Jn.cols() == Js.cols()) {
        eJ = Js.size() ? (Jn - Js).cwiseAbs().maxCoeff() : 0.0;
        sJ = Js.size() ? Js.cwiseAbs().maxCoeff() : 0.0;
      } else {
        eJ = std::numeric_limits<double>::infinity();
        sJ = 0;
      }
      if constexpr (std::is_same_v<S, All> && (D == Type::Analytic || (D == Type::Default && WithD))) {
        // pass-through: bit-identical to the callable's own jacobian (and hessian)
        std::vector<double> o1, o2;
        put_mat(o1, Eigen::MatrixXd(std::get<1>(res)));
        put_mat(o2, Eigen::MatrixXd(std::apply([&](const auto &... v) { return f.jacobian(v...); }, a0)));
        bool same = o1.size() == o2.size() && std::memcmp(o1.data(), o2.data(), o1.size() * 8) == 0;
        if constexpr (K >= 2) {
          std::vector<double> h1, h2;
          put_mat(h1, Eigen::MatrixXd(std::get<2>(res)));
          put_mat(h2, Eigen::MatrixXd(std::apply([&](const auto &... v) { return f.hessian(v...); }, a0)));
          same = same && h1.size() == h2.size() && std::memcmp(h1.data(), h2.data(), h1.size() * 8) == 0;
        }
        pass = same ? 1.0 : 0.0;
      }
      if constexpr (!std::is_same_v<S, All> && (D == Type::Numerical || !WithD)) {
        // subset = columns of the full numerical derivative
        Tup b = a0;
        auto full = smooth::diff::dr<K, D>(f, make_wrt<Mask>(b));
        const Eigen::MatrixXd Jf = std::get<1>(full);
        eSub = 0;
        for (size_t c = 0; c < cols.size(); ++c) eSub = std::max(eSub, (Jn.col(Eigen::Index(c)) - Jf.col(cols[c])).cwiseAbs().maxCoeff());
      }
    }
    if constexpr (K >= 2) {
      if constexpr (Fam::has_hess) {
        const Eigen::MatrixXd Ht = std::apply([&](const auto &... v) { return f.H(v...); }, a0);
        const Eigen::MatrixXd Hn = std::get<2>(res);
        // select rows / columns of the subset: H(I0+k0, j*nx + I1+k1)
        const Eigen::Index nxf = Jt.cols(), ny = Jt.rows(), nxs = Eigen::Index(cols.size());
        if (Hn.rows() == nxs && Hn.cols() == nxs * ny) {
          eH = 0; sH = 0;
          for (Eigen::Index r0 = 0; r0 < nxs; ++r0)
            for (Eigen::Index j = 0; j < ny; ++j)
              for (Eigen::Index c0 = 0; c0 < nxs; ++c0) {
                const double t = Ht(cols[r0], j * nxf + cols[c0]);
                eH = std::max(eH, std::abs(Hn(r0, j * nxs + c0) - t));
                sH = std::max(sH, std::abs(t));
              }
        } else {
          eH = std::numeric_limits<double>::infinity();
          sH = 0;
        }
      }
    }
    // value: exactly f(x)
    std::vector<double> v1, v2;
    Codec<std::decay_t<decltype(std::get<0>(res))>>::raw(v1, std::get<0>(res));
    {
      const auto fv = std::apply([&](const auto &... v) { return f(v...); }, a0);
      Codec<std::decay_t<decltype(fv)>>::raw(v2, fv);
    }
    const bool value_ok = v1.size() == v2.size() && std::memcmp(v1.data(), v2.data(), v1.size() * 8) == 0;
    const double rest   = restore_err(a0, a, std::make_index_sequence<NA>{});
    const bool cok      = const_untouched<Mask>(a0, a, std::make_index_sequence<NA>{});
    out = {eJ, sJ, eH, sH, rest, double(value_ok), double(cok), eSub, pass, double(tr.size())};
    return true;
  }
};

// ------------------------------------------------------------------ input generation (the property's input class)
inline double coord_in_class(Rng & r)
{  // zero, or magnitude 0.1 .. 10
  const int k = r.below(8);
  if (k == 0) return 0.0;
  if (k == 1) return r.sign() * 0.1;
  if (k == 2) return r.sign() * 10.0;
  return r.sign() * r.logu(0.1, 10.0);
}
template<class M> struct GenArg;
template<class G>
  requires requires(G g) { g.coeffs(); }
struct GenArg<G>
{
  static G make(Rng & r, int)
  {
    typename G::Tangent a;
    for (int i = 0; i < G::Dof; ++i) a(i) = r.below(6) == 0 ? 0.0 : r.uni(-1.2, 1.2);
    return G::exp(a);
  }
};
// commutative rotation groups: angles at and around the +-pi branch cut of log (the difference
// quotients go through rminus<Result>, which must be the principal difference across the cut)
// Consecutive calls produce the two arguments of a pair; the pairs cycle through
//   (pi, 0) (pi-u, 0) (0, -pi+u) (pi-u, -pi+u') (generic, generic) (0, pi)      u in [1e-9, 1e-2]
// so that products sit on / next to the cut (the +eps perturbation crosses it) and differences
// of elements on opposite sides of the cut occur.
inline double cut_angle(Rng & r, int)
{
  static int counter = 0;
  const int pair = (counter / 2) % 6, pos = counter % 2;
  ++counter;
  const double u = r.logu(1e-9, 1e-2);
  switch (pair) {
  case 0: return pos == 0 ? M_PI : 0.0;
  case 1: return pos == 0 ? M_PI - u : 0.0;
  case 2: return pos == 0 ? 0.0 : -M_PI + u;
  case 3: return pos == 0 ? M_PI - u : -M_PI + u;
  case 4: return r.uni(-3.0, 3.0);
  default: return pos == 0 ? 0.0 : M_PI;
  }
}
template<>
struct GenArg<smooth::SO2d>
{
  static smooth::SO2d make(Rng & r, int k) { return smooth::SO2d::exp(Eigen::Matrix<double, 1, 1>(cut_angle(r, k))); }
};
template<>
struct GenArg<smooth::C1d>
{
  static smooth::C1d make(Rng & r, int k) { return smooth::C1d::exp(Eigen::Vector2d(r.uni(-0.5, 0.5), cut_angle(r, k))); }
};
template<>
struct GenArg<smooth::Bundle<smooth::SO2d, Eigen::Vector2d>>
{
  static smooth::Bundle<smooth::SO2d, Eigen::Vector2d> make(Rng & r, int k)
  {
    return smooth::Bundle<smooth::SO2d, Eigen::Vector2d>::exp(Eigen::Vector3d(cut_angle(r, k), coord_in_class(r), coord_in_class(r)));
  }
};
template<int N>
struct GenArg<Eigen::Matrix<double, N, 1>>
{
  static Eigen::Matrix<double, N, 1> make(Rng & r, int)
  {
    Eigen::Matrix<double, N, 1> v;
    for (int i = 0; i < N; ++i) v(i) = coord_in_class(r);
    return v;
  }
};
template<>
struct GenArg<Vx>
{
  static Vx make(Rng & r, int k)
  {
    Vx v(1 + k % 4);
    for (Eigen::Index i = 0; i < v.size(); ++i) v(i) = coord_in_class(r);
    return v;
  }
};
template<>
struct GenArg<double>
{
  static double make(Rng & r, int) { return coord_in_class(r); }
};
template<class E>
struct GenArg<std::vector<E>>
{
  static std::vector<E> make(Rng & r, int k)
  {
    std::vector<E> v;
    for (int i = 0; i < 1 + k % 3; ++i) v.push_back(GenArg<E>::make(r, k + i));
    return v;
  }
};
template<class Tup, size_t... I>
Tup gen_args(Rng & r, int k, std::index_sequence<I...>)
{
  return Tup{GenArg<std::tuple_element_t<I, Tup>>::make(r, k + int(I))...};
}

// ------------------------------------------------------------------ catalogue of configurations
template<class C>
struct Tag
{};

// visit(Tag<Config>) for every configuration of family F
template<template<bool> class F, class V>
void configs(V && visit)
{
  using Tup               = typename F<true>::Args;
  constexpr size_t NA     = std::tuple_size_v<Tup>;
  constexpr unsigned AllC = (1u << NA) - 1u;
  constexpr Type Num = Type::Numerical, Ana = Type::Analytic, Def = Type::Default;
  // K = 0
  visit(Tag<Config<F, 0, Num, false, 0u, All>>{});
  visit(Tag<Config<F, 0, Ana, true, AllC, All>>{});
  // Numerical, all arguments: non-const, const, mixed
  visit(Tag<Config<F, 1, Num, false, 0u, All>>{});
  visit(Tag<Config<F, 1, Num, false, AllC, All>>{});
  visit(Tag<Config<F, 2, Num, false, 0u, All>>{});
  visit(Tag<Config<F, 2, Num, false, AllC, All>>{});
  if constexpr (NA >= 2) {
    visit(Tag<Config<F, 1, Num, false, 1u, All>>{});
    visit(Tag<Config<F, 2, Num, false, 2u, All>>{});
  }
  // Analytic / Default
  visit(Tag<Config<F, 1, Ana, true, 0u, All>>{});
  visit(Tag<Config<F, 1, Def, true, AllC, All>>{});
  visit(Tag<Config<F, 1, Def, false, 0u, All>>{});
  visit(Tag<Config<F, 2, Def, false, AllC, All>>{});
  if constexpr (F<true>::has_hess) {
    visit(Tag<Config<F, 2, Ana, true, 0u, All>>{});
    visit(Tag<Config<F, 2, Def, true, 0u, All>>{});
  }
  // index subsets (every non-empty subset)
  visit(Tag<Config<F, 1, Num, false, 0u, Sub<0>>>{});
  visit(Tag<Config<F, 1, Num, false, AllC, Sub<0>>>{});
  visit(Tag<Config<F, 2, Num, false, 0u, Sub<0>>>{});
  visit(Tag<Config<F, 1, Def, true, 0u, Sub<0>>>{});  // the wrapper is a lambda: Default falls back to Numerical
  if constexpr (NA >= 2) {
    visit(Tag<Config<F, 1, Num, false, 0u, Sub<1>>>{});
    visit(Tag<Config<F, 1, Num, false, AllC, Sub<1>>>{});
    visit(Tag<Config<F, 2, Num, false, 1u, Sub<1>>>{});
    visit(Tag<Config<F, 1, Num, false, 0u, Sub<0, 1>>>{});
    visit(Tag<Config<F, 2, Num, false, AllC, Sub<0, 1>>>{});
  }
  if constexpr (NA >= 3) {
    visit(Tag<Config<F, 1, Num, false, 0u, Sub<2>>>{});
    visit(Tag<Config<F, 1, Num, false, 5u, Sub<0, 2>>>{});
    visit(Tag<Config<F, 1, Num, false, 0u, Sub<1, 2>>>{});
    visit(Tag<Config<F, 1, Num, false, AllC, Sub<0, 1, 2>>>{});
    visit(Tag<Config<F, 2, Num, false, 0u, Sub<0, 2>>>{});
    visit(Tag<Config<F, 2, Num, false, 2u, Sub<1, 2>>>{});
    visit(Tag<Config<F, 2, Num, false, 0u, Sub<2>>>{});
    visit(Tag<Config<F, 2, Num, false, 0u, Sub<0, 1, 2>>>{});
  }
}

template<bool W> using ProdSO3   = Prod<smooth::SO3d, W>;
template<bool W> using ProdSE2   = Prod<smooth::SE2d, W>;
template<bool W> using ProdSE3   = Prod<smooth::SE3d, W>;
template<bool W> using ProdBun   = Prod<smooth::Bundle<smooth::SO3d, Eigen::Vector2d>, W>;
template<bool W> using ProdSO2   = Prod<smooth::SO2d, W>;
template<bool W> using ProdC1    = Prod<smooth::C1d, W>;
template<bool W> using ProdBunC  = Prod<smooth::Bundle<smooth::SO2d, Eigen::Vector2d>, W>;
template<bool W> using RminusSO2 = Rminus<smooth::SO2d, W>;
template<bool W> using RminusC1  = Rminus<smooth::C1d, W>;
template<bool W> using LogSO3    = Log<smooth::SO3d, W>;
template<bool W> using LogSE2    = Log<smooth::SE2d, W>;
template<bool W> using LogBun    = Log<smooth::Bundle<smooth::SO3d, Eigen::Vector2d>, W>;
template<bool W> using ActSO3    = Act<smooth::SO3d, W>;
template<bool W> using ActSE2    = Act<smooth::SE2d, W>;
template<bool W> using ActSE3    = Act<smooth::SE3d, W>;
template<bool W> using RminusSO3 = Rminus<smooth::SO3d, W>;
template<bool W> using RminusSE2 = Rminus<smooth::SE2d, W>;
template<bool W> using SqnSO3    = Sqn<smooth::SO3d, W>;
template<bool W> using SqnSE2    = Sqn<smooth::SE2d, W>;
template<bool W> using SumLogSO3 = SumLog<smooth::SO3d, W>;
template<bool W> using SumLogSE2 = SumLog<smooth::SE2d, W>;

template<class V>
void catalogue(V && visit)
{
#if FAMILY == 0
  configs<ProdSE2>(visit);
  configs<ActSE2>(visit);
  configs<RminusSE2>(visit);
  configs<SqnSE2>(visit);
#elif FAMILY == 1
  configs<ProdSO3>(visit);
  configs<LogSO3>(visit);
  configs<ActSO3>(visit);
#elif FAMILY == 2
  configs<Poly>(visit);
  configs<Chain>(visit);
#elif FAMILY == 3
  configs<RminusSO3>(visit);
  configs<SqnSO3>(visit);
  configs<SumLogSO3>(visit);
  configs<SumLogSE2>(visit);
  configs<LogSE2>(visit);
#elif FAMILY == 4
  configs<ProdSE3>(visit);
  configs<ActSE3>(visit);
#elif FAMILY == 5
  configs<ProdBun>(visit);
  configs<LogBun>(visit);
#elif FAMILY == 6
  // commutative rotation groups at the branch cut
  configs<ProdSO2>(visit);
  configs<ProdC1>(visit);
  configs<ProdBunC>(visit);
  configs<RminusSO2>(visit);
  configs<RminusC1>(visit);
#endif
}

void emit(FILE * f, const char * op, const std::string & grp, const std::vector<double> & x, const std::vector<double> & out, const char * tag)
{
  std::fprintf(f, "%s %s f64", op, grp.c_str());
  for (double v : x) Prec<double>::put(f, v);
  std::fprintf(f, " |");
  for (double v : out) Prec<double>::put(f, v);
  if (tag && *tag) std::fprintf(f, " # %s", tag);
  std::fprintf(f, "\n");
}

struct GenVisitor
{
  FILE * f;
  Rng & r;
  int n;
  template<class C>
  void operator()(Tag<C>)
  {
    using Tup = typename C::Tup;
    const std::string tok = C::type_token();
    for (int i = 0; i < n; ++i) {
      Tup a = gen_args<Tup>(r, i, std::make_index_sequence<C::NA>{});
      for (int t = 0; t < 40 && !std::apply([](const auto &... v) { return C::Fam::admissible(v...); }, a); ++t)
        a = gen_args<Tup>(r, i, std::make_index_sequence<C::NA>{});
      typename C::Fam fam;
      fam.params_gen(r, a, i);
      std::vector<double> x;
      put_args(x, a);
      fam.params_put(x);
      for (const char * op : {"diff_dr", "diff_trace", "aud_diff"}) {
        std::vector<double> out;
        if (C::eval(op, x, out)) emit(f, op, tok, x, out, "");
      }
    }
  }
};

struct EvalVisitor
{
  const std::string & op;
  const std::string & grp;
  const std::vector<double> & x;
  const std::string & tag;
  bool done = false;
  template<class C>
  void operator()(Tag<C>)
  {
    if (done || C::type_token() != grp) return;
    std::vector<double> out;
    if (C::eval(op, x, out)) {
      emit(stdout, op.c_str(), grp, x, out, tag.c_str());
      done = true;
    }
  }
};

inline double parse_word(const std::string & w)
{
  uint64_t u = std::strtoull(w.c_str(), nullptr, 16);
  double d;
  std::memcpy(&d, &u, 8);
  return d;
}

int eval_mode()
{
  char * line = nullptr;
  size_t cap  = 0;
  while (getline(&line, &cap, stdin) > 0) {
    std::string s(line);
    while (!s.empty() && (s.back() == '\n' || s.back() == '\r')) s.pop_back();
    std::string tag;
    auto h = s.find(" # ");
    if (h != std::string::npos) { tag = s.substr(h + 3); s = s.substr(0, h); }
    auto bar = s.find(" |");
    if (bar != std::string::npos) s = s.substr(0, bar);
    std::vector<std::string> t;
    size_t p = 0;
    while (p < s.size()) {
      while (p < s.size() && s[p] == ' ') ++p;
      size_t q = p;
      while (q < s.size() && s[q] != ' ') ++q;
      if (q > p) t.push_back(s.substr(p, q - p));
      p = q;
    }
    if (t.size() < 3 || t[2] != "f64") { std::printf("SKIP bad-line\n"); continue; }
    std::vector<double> x;
    for (size_t i = 3; i < t.size(); ++i) x.push_back(parse_word(t[i]));
    EvalVisitor v{t[0], t[1], x, tag};
    catalogue(v);
    if (!v.done) std::printf("SKIP %s %s\n", t[0].c_str(), t[1].c_str());
  }
  std::free(line);
  return 0;
}

int main(int argc, char ** argv)
{
  if (argc > 1 && std::string(argv[1]) == "eval") return eval_mode();
  const int n = argc > 1 ? std::atoi(argv[1]) : 4;
  Rng r(seed_from_env() * 1000 + 80 + FAMILY);
  catalogue(GenVisitor{stdout, r, n});
  return 0;
}
