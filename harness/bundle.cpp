// bundle.cpp — C06 harness: Bundle is the direct product; vectors and scalars are translation groups.
// Includes /repo/include directly and calls the real code in-process.
//
// (a) PART-BY-PART AUDIT on the implementation side, independent of the Lean model.  For every
//     catalogued Bundle type B, scalar S and sample: every LieGroupBase operation is computed on
//     the Bundle and, separately, on every `part<i>()` (native parts through their own members,
//     Eigen-vector parts through the free-function LieGroup interface `smooth::composition`, …);
//     the Bundle result must be BITWISE the tuple (segment by segment) resp. block-diagonal
//     arrangement (block by block, off-diagonal blocks exactly +0) resp. Hessian placement
//     `H[off+r, D(off+j)+off+k] = Hi[r, d j + k]` (zero elsewhere) of the part results.
//     Offsets used by the audit are computed HERE by summing the parts' own sizes (not read from
//     BundleImpl::*Psum); tangent offsets are additionally compared with `PartStart/PartDof`.
//     One result line per (type, op, sample):
//        bp_<op> <grp> <prec> <input hex words> | <ncmp> <nmis> <first> <noff> <nmis_off> <nval> <rel> # tag
//     ncmp = entries compared, nmis = entries whose bit pattern differs, first = first differing
//     flat (row-major) index or -1, noff = entries that must be exactly zero (outside all
//     blocks), nmis_off = mismatches among those, nval = mismatches that differ in value (not
//     only in the sign of a zero), rel = largest value difference in units of eps * largest entry.
//     For the same evaluation the implementation's Bundle result is also written as an ordinary
//     protocol line  `<op> <grp> <prec> in | out # tag`  for the T1 comparison with the Lean model.
// (b) VECTORS AND SCALARS through the free-function LieGroup interface (concepts/lie_group.hpp):
//     `Eigen::Vector<S,N>` N=1..6, `Eigen::VectorX<S>` sizes 0..40, `double`, `float`; ordinary
//     protocol lines with group `T<n>` (n = run-time size), tag `Vec<N>` / `VecX` / `scalar`.
//
// Build:  g++ -std=c++20 -O0 -DPART=<0..4> bundle.cpp     Run: ./bundle <samples> [vecmode]
// Eval :  ./bundle eval < request-lines   (lines this binary does not serve are answered `SKIP …`)
#include <smooth/bundle.hpp>
#include <smooth/c1.hpp>
#include <smooth/galilei.hpp>
#include <smooth/lie_groups.hpp>
#include <smooth/se2.hpp>
#include <smooth/se3.hpp>
#include <smooth/se_k_3.hpp>
#include <smooth/so2.hpp>
#include <smooth/so3.hpp>

#include <array>
#include <utility>

#include "common.hpp"

using namespace vh;

#ifndef PART
#define PART 0
#endif

// ------------------------------------------------------------------ tangent generators (as lie.cpp)
template<class G>
struct Gen;

template<class S>
S sw()
{
  return std::sqrt(S(smooth::eps2));
}

template<class S>
struct Gen<smooth::SO2<S>>
{
  using G = smooth::SO2<S>;
  static std::string name() { return "SO2"; }
  static typename G::Tangent tangent(Rng & r, int as, int kind, int)
  {
    typename G::Tangent a;
    a(0) = S(r.sign() * gen_angle(r, as, kind, sw<S>()));
    return a;
  }
};
template<class S>
struct Gen<smooth::C1<S>>
{
  using G = smooth::C1<S>;
  static std::string name() { return "C1"; }
  static typename G::Tangent tangent(Rng & r, int as, int kind, int)
  {
    typename G::Tangent a;
    a(0) = S(r.uni(-3, 3));
    a(1) = S(r.sign() * gen_angle(r, as, kind, sw<S>()));
    return a;
  }
};
template<class S>
struct Gen<smooth::SO3<S>>
{
  using G = smooth::SO3<S>;
  static std::string name() { return "SO3"; }
  static typename G::Tangent tangent(Rng & r, int as, int kind, int) { return gen_dir3<S>(r) * S(gen_angle(r, as, kind, sw<S>())); }
};
template<class S>
struct Gen<smooth::SE2<S>>
{
  using G = smooth::SE2<S>;
  static std::string name() { return "SE2"; }
  static typename G::Tangent tangent(Rng & r, int as, int kind, int ts)
  {
    typename G::Tangent a;
    a(0) = S(gen_trans(r, ts));
    a(1) = S(gen_trans(r, ts));
    a(2) = S(r.sign() * gen_angle(r, as, kind, sw<S>()));
    return a;
  }
};
template<class S>
struct Gen<smooth::SE3<S>>
{
  using G = smooth::SE3<S>;
  static std::string name() { return "SE3"; }
  static typename G::Tangent tangent(Rng & r, int as, int kind, int ts)
  {
    typename G::Tangent a;
    for (int i = 0; i < 3; ++i) a(i) = S(gen_trans(r, ts));
    a.template tail<3>() = gen_dir3<S>(r) * S(gen_angle(r, as, kind, sw<S>()));
    return a;
  }
};
template<class S>
struct Gen<smooth::Galilei<S>>
{
  using G = smooth::Galilei<S>;
  static std::string name() { return "GAL"; }
  static typename G::Tangent tangent(Rng & r, int as, int kind, int ts)
  {
    typename G::Tangent a;
    for (int i = 0; i < 6; ++i) a(i) = S(gen_trans(r, ts));
    a(6) = S(r.below(4) == 0 ? 0.0 : r.uni(-10, 10));
    a.template tail<3>() = gen_dir3<S>(r) * S(gen_angle(r, as, kind, sw<S>()));
    return a;
  }
};
template<class S, int K>
struct Gen<smooth::SE_K_3<S, K>>
{
  using G = smooth::SE_K_3<S, K>;
  static std::string name() { return "SEK" + std::to_string(K); }
  static typename G::Tangent tangent(Rng & r, int as, int kind, int ts)
  {
    typename G::Tangent a;
    for (int i = 0; i < 3 * K; ++i) a(i) = S(gen_trans(r, ts));
    a.template tail<3>() = gen_dir3<S>(r) * S(gen_angle(r, as, kind, sw<S>()));
    return a;
  }
};
template<class S, int N>
struct Gen<Eigen::Matrix<S, N, 1>>
{
  using G = Eigen::Matrix<S, N, 1>;
  static std::string name() { return "T" + std::to_string(N); }
  static G tangent(Rng & r, int, int, int ts)
  {
    G a;
    for (int i = 0; i < N; ++i) a(i) = S(gen_trans(r, ts));
    return a;
  }
};
template<class... Gs>
struct Gen<smooth::Bundle<Gs...>>
{
  using G = smooth::Bundle<Gs...>;
  static std::string name()
  {
    std::string s = "B[";
    bool first    = true;
    ((s += (first ? "" : ",") + Gen<Gs>::name(), first = false), ...);
    return s + "]";
  }
  static typename G::Tangent tangent(Rng & r, int as, int kind, int ts)
  {
    typename G::Tangent a;
    int off = 0;
    (
      [&] {
        const int as_i = (as + r.below(2) * r.below(N_ANGLE_STRATA)) % N_ANGLE_STRATA;
        auto ai        = Gen<Gs>::tangent(r, as_i, kind, ts + r.below(2));
        a.segment(off, ai.size()) = ai;
        off += int(ai.size());
      }(),
      ...);
    return a;
  }
};

// d2r_exp / d2r_expinv do not exist for Galilei and SE_K_3, hence not for Bundles containing them
template<class G>
struct HasHess : std::true_type
{};
template<class S>
struct HasHess<smooth::Galilei<S>> : std::false_type
{};
template<class S, int K>
struct HasHess<smooth::SE_K_3<S, K>> : std::false_type
{};
template<class... Gs>
struct HasHess<smooth::Bundle<Gs...>> : std::bool_constant<(HasHess<Gs>::value && ...)>
{};

// ------------------------------------------------------------------ operations ON ONE PART
// native groups (SO2 … Galilei, nested Bundles): the part's own LieGroupBase members
template<class P>
struct PO
{
  using S = typename P::Scalar;
  using T = typename P::Tangent;
  using M = typename P::Matrix;
  static constexpr int Rep = P::RepSize, Dof = P::Dof, Dim = P::Dim;
  static constexpr bool Comm = P::IsCommutative;
  static Eigen::Matrix<S, Rep, 1> coeffs(const P & p) { return p.coeffs(); }
  static P identity() { return P::Identity(); }
  static P compose(const P & a, const P & b) { return a * b; }
  static P inverse(const P & a) { return a.inverse(); }
  static T log(const P & a) { return a.log(); }
  static P exp(const T & a) { return P::exp(a); }
  static P rplus(const P & g, const T & a) { return g + a; }
  static T rminus(const P & g1, const P & g2) { return g1 - g2; }
  static T bracket(const T & a, const T & b) { return P::lie_bracket(a, b); }
  static M matrix(const P & p) { return p.matrix(); }
  static M hat(const T & a) { return P::hat(a); }
  static T vee(const M & A) { return P::vee(A); }
  static typename P::TangentMap Ad(const P & p) { return p.Ad(); }
  static typename P::TangentMap ad(const T & a) { return P::ad(a); }
  static typename P::TangentMap dr_exp(const T & a) { return P::dr_exp(a); }
  static typename P::TangentMap dr_expinv(const T & a) { return P::dr_expinv(a); }
  static typename P::TangentMap dl_exp(const T & a) { return P::dl_exp(a); }
  static typename P::TangentMap dl_expinv(const T & a) { return P::dl_expinv(a); }
  static typename P::Hessian d2r_exp(const T & a) { return P::d2r_exp(a); }
  static typename P::Hessian d2r_expinv(const T & a) { return P::d2r_expinv(a); }
  static typename P::Hessian d2l_exp(const T & a) { return P::d2l_exp(a); }
  static typename P::Hessian d2l_expinv(const T & a) { return P::d2l_expinv(a); }
};
// Eigen-vector parts: the free-function LieGroup interface (lie_groups/rn.hpp); matrix/hat/vee
// are not part of that interface — the documented forms [I x; 0 1], [0 v; 0 0] are built here
template<class S_, int N>
struct PO<Eigen::Matrix<S_, N, 1>>
{
  using S = S_;
  using P = Eigen::Matrix<S, N, 1>;
  using T = P;
  using M = Eigen::Matrix<S, N + 1, N + 1>;
  static constexpr int Rep = N, Dof = N, Dim = N + 1;
  static constexpr bool Comm = smooth::IsCommutative<P>;
  static P coeffs(const P & p) { return p; }
  static P identity() { return smooth::Identity<P>(); }
  static P compose(const P & a, const P & b) { return smooth::composition(a, b); }
  static P inverse(const P & a) { return smooth::inverse(a); }
  static T log(const P & a) { return smooth::log(a); }
  static P exp(const T & a) { return smooth::exp<P>(a); }
  static P rplus(const P & g, const T & a) { return smooth::rplus(g, a); }
  static T rminus(const P & g1, const P & g2) { return smooth::rminus(g1, g2); }
  static T bracket(const T & a, const T & b) { return smooth::ad<P>(a) * b; }
  static M matrix(const P & p)
  {
    M m = M::Identity();
    for (int i = 0; i < N; ++i) m(i, N) = p(i);
    return m;
  }
  static M hat(const T & a)
  {
    M m = M::Zero();
    for (int i = 0; i < N; ++i) m(i, N) = a(i);
    return m;
  }
  static T vee(const M & A)
  {
    T a;
    for (int i = 0; i < N; ++i) a(i) = A(i, N);
    return a;
  }
  using TM = Eigen::Matrix<S, N, N>;
  using TH = Eigen::Matrix<S, N, N * N>;
  static TM Ad(const P & p) { return smooth::Ad(p); }
  static TM ad(const T & a) { return smooth::ad<P>(a); }
  static TM dr_exp(const T & a) { return smooth::dr_exp<P>(a); }
  static TM dr_expinv(const T & a) { return smooth::dr_expinv<P>(a); }
  static TM dl_exp(const T & a) { return smooth::dl_exp<P>(a); }
  static TM dl_expinv(const T & a) { return smooth::dl_expinv<P>(a); }
  static TH d2r_exp(const T & a) { return smooth::d2r_exp<P>(a); }
  static TH d2r_expinv(const T & a) { return smooth::d2r_expinv<P>(a); }
  static TH d2l_exp(const T & a) { return smooth::d2l_exp<P>(a); }
  static TH d2l_expinv(const T & a) { return smooth::d2l_expinv<P>(a); }
};

// ------------------------------------------------------------------ bit-level comparison
template<class S>
bool same_bits(S a, S b)
{
  return std::memcmp(&a, &b, sizeof(S)) == 0;
}

struct Res
{
  long ncmp = 0, nmis = 0, first = -1, noff = 0, nmis_off = 0;
  long nval  = 0;    // mismatches that differ in VALUE (not only in the sign of a zero)
  double rel = 0.0;  // largest |got - want| / scale among them (scale: see `cmp1`)
  void hit(long flat, bool off)
  {
    ++nmis;
    if (off) ++nmis_off;
    if (first < 0 || flat < first) first = flat;
  }
  // one entry: bit pattern; on a mismatch also the value difference relative to `scale`
  template<class S>
  void cmp1(S got, S want, long flat, bool off, double scale)
  {
    ++ncmp;
    if (off) ++noff;
    if (same_bits<S>(got, want)) return;
    hit(flat, off);
    if (got == want) return;  // +0 against -0
    ++nval;
    const double d = std::fabs(double(got) - double(want));
    const double q = scale > 0 ? d / scale : INFINITY;
    if (!(q <= rel)) rel = q;
  }
  void fail_all()
  {
    ++ncmp, ++nval, hit(0, false);
    rel = INFINITY;
  }
};

template<class D>
double max_abs(const Eigen::MatrixBase<D> & m)
{
  double s = 0;
  for (Eigen::Index i = 0; i < m.rows(); ++i)
    for (Eigen::Index j = 0; j < m.cols(); ++j) {
      const double a = std::fabs(double(m(i, j)));
      if (a > s) s = a;
    }
  return s;
}

// `got` (Bundle result) against `want` (assembled from the part results), entry by entry;
// `covered(r,c)` says whether the entry belongs to a part's block (else it must be +0)
template<class S, class D1, class D2, class Cov>
void compare(Res & res, const Eigen::MatrixBase<D1> & got, const Eigen::MatrixBase<D2> & want, Cov && covered)
{
  if (got.rows() != want.rows() || got.cols() != want.cols()) {
    res.fail_all();
    return;
  }
  const double scale = std::max(max_abs(want), max_abs(got)) * double(std::numeric_limits<S>::epsilon());
  for (Eigen::Index i = 0; i < got.rows(); ++i)
    for (Eigen::Index j = 0; j < got.cols(); ++j)
      res.template cmp1<S>(S(got(i, j)), S(want(i, j)), long(i * got.cols() + j), !covered(i, j), scale);
}

// ------------------------------------------------------------------ flat argument reader / writer
template<class S>
struct Args
{
  const std::vector<S> & x;
  size_t off = 0;
  bool ok    = true;
  template<class V>
  V vec()
  {
    V v;
    if (off + size_t(v.size()) > x.size()) {
      ok = false;
      v.setZero();
      return v;
    }
    for (Eigen::Index i = 0; i < v.rows(); ++i)
      for (Eigen::Index j = 0; j < v.cols(); ++j) v(i, j) = x[off++];
    return v;
  }
  bool done() const { return ok && off == x.size(); }
};

template<class S, class D>
void put(std::vector<S> & out, const Eigen::MatrixBase<D> & m)
{
  for (Eigen::Index i = 0; i < m.rows(); ++i)
    for (Eigen::Index j = 0; j < m.cols(); ++j) out.push_back(S(m(i, j)));
}

template<class S>
void emit(FILE * f, const char * op, const std::string & grp, const std::vector<S> & x, const std::vector<S> & out, const char * tag)
{
  std::fprintf(f, "%s %s %s", op, grp.c_str(), Prec<S>::name);
  for (S v : x) Prec<S>::put(f, v);
  std::fprintf(f, " |");
  for (S v : out) Prec<S>::put(f, v);
  if (tag && *tag) std::fprintf(f, " # %s", tag);
  std::fprintf(f, "\n");
}

template<class S>
void emit_audit(FILE * f, const char * op, const std::string & grp, const std::vector<S> & x, const Res & r, const char * tag)
{
  std::fprintf(f, "bp_%s %s %s", op, grp.c_str(), Prec<S>::name);
  for (S v : x) Prec<S>::put(f, v);
  std::fprintf(f, " | %ld %ld %ld %ld %ld %ld %.3g", r.ncmp, r.nmis, r.first, r.noff, r.nmis_off, r.nval, r.rel);
  if (tag && *tag) std::fprintf(f, " # %s", tag);
  std::fprintf(f, "\n");
}

// ------------------------------------------------------------------ the audit of one Bundle type
template<class B>
struct Audit
{
  using S                 = typename B::Scalar;
  static constexpr int NP = int(B::BundleSize);
  template<std::size_t I>
  using P = typename B::template PartType<I>;
  using Coef    = Eigen::Matrix<S, B::RepSize, 1>;
  using Tangent = typename B::Tangent;
  using Mat     = typename B::Matrix;
  using TMap    = typename B::TangentMap;
  using Hess    = typename B::Hessian;

  template<class F, std::size_t... I>
  static void for_parts_impl(F && f, std::index_sequence<I...>)
  {
    (f(std::integral_constant<std::size_t, I>{}), ...);
  }
  template<class F>
  static void for_parts(F && f)
  {
    for_parts_impl(std::forward<F>(f), std::make_index_sequence<NP>{});
  }

  // own offsets: running sums of the PARTS' sizes (index NP = total)
  struct Off
  {
    std::array<int, NP + 1> rep{}, dof{}, dim{};
  };
  static Off offsets()
  {
    Off o;
    for_parts([&](auto ic) {
      constexpr std::size_t i = decltype(ic)::value;
      o.rep[i + 1] = o.rep[i] + PO<P<i>>::Rep;
      o.dof[i + 1] = o.dof[i] + PO<P<i>>::Dof;
      o.dim[i + 1] = o.dim[i] + PO<P<i>>::Dim;
    });
    return o;
  }
  static int block_of(const std::array<int, NP + 1> & psum, long k)
  {
    for (int i = 0; i < NP; ++i)
      if (k >= psum[i] && k < psum[i + 1]) return i;
    return -1;
  }

  static B from_coeffs(const Coef & c)
  {
    B b;
    b.coeffs() = c;
    return b;
  }

  // ---- structural checks (once per type): totals, PartStart/PartDof, part<i>() address, IsCommutative
  static Res structure()
  {
    Res res;
    const Off o = offsets();
    auto chk    = [&](bool ok, long idx) {
      ++res.ncmp;
      if (!ok) res.hit(idx, false), ++res.nval, res.rel = INFINITY;
    };
    chk(o.rep[NP] == B::RepSize, 0);
    chk(o.dof[NP] == B::Dof, 1);
    chk(o.dim[NP] == B::Dim, 2);
    B b;
    b.coeffs().setZero();
    const B & cb = b;
    bool comm    = true;
    for_parts([&](auto ic) {
      constexpr std::size_t i = decltype(ic)::value;
      chk(int(B::template PartStart<i>) == o.dof[i], 10 + long(i));
      chk(int(B::template PartDof<i>) == PO<P<i>>::Dof, 30 + long(i));
      chk(cb.template part<i>().data() == cb.data() + o.rep[i], 50 + long(i));
      chk(b.template part<i>().data() == b.data() + o.rep[i], 70 + long(i));
      comm = comm && PO<P<i>>::Comm;
    });
    chk(comm == B::IsCommutative, 3);
    return res;
  }

  // tuple-valued results: segment i of the Bundle result, as addressed by part<i>(), against the
  // part result; every coefficient belongs to exactly one part (structure())
  template<class F>
  static void tuple_rep(Res & res, const B & r, F && part_result)
  {
    const Off o = offsets();
    for_parts([&](auto ic) {
      constexpr std::size_t i = decltype(ic)::value;
      const P<i> got(r.template part<i>());
      const P<i> want = part_result(ic);
      const auto gc = PO<P<i>>::coeffs(got), wc = PO<P<i>>::coeffs(want);
      const double scale = std::max(max_abs(gc), max_abs(wc)) * double(std::numeric_limits<S>::epsilon());
      for (int k = 0; k < PO<P<i>>::Rep; ++k) {
        res.template cmp1<S>(gc(k), wc(k), o.rep[i] + k, false, scale);
        // the part view and the flat coefficient vector are the same memory
        res.template cmp1<S>(gc(k), r.coeffs()(o.rep[i] + k), o.rep[i] + k, false, scale);
      }
    });
  }
  // `scale_of(ic)`: absolute scale for the value difference of part i (<= 0: eps * largest entry)
  template<class F, class G>
  static void tuple_dof(Res & res, const Tangent & r, F && part_result, G && scale_of)
  {
    const Off o = offsets();
    for_parts([&](auto ic) {
      constexpr std::size_t i = decltype(ic)::value;
      const typename PO<P<i>>::T want = part_result(ic);
      double scale = scale_of(ic);
      if (!(scale > 0)) scale = std::max(max_abs(want), max_abs(r.template segment<PO<P<i>>::Dof>(o.dof[i]))) * double(std::numeric_limits<S>::epsilon());
      for (int k = 0; k < PO<P<i>>::Dof; ++k) res.template cmp1<S>(r(o.dof[i] + k), want(k), o.dof[i] + k, false, scale);
    });
  }
  template<class F>
  static void tuple_dof(Res & res, const Tangent & r, F && part_result)
  {
    tuple_dof(res, r, std::forward<F>(part_result), [](auto) { return 0.0; });
  }
  // block-diagonal results on the dof / dim layout
  template<class MatT, class F>
  static void blocks(Res & res, const MatT & r, const std::array<int, NP + 1> & psum, F && part_result)
  {
    MatT want = MatT::Zero();
    for_parts([&](auto ic) {
      constexpr std::size_t i = decltype(ic)::value;
      const auto wi = part_result(ic);
      for (Eigen::Index a = 0; a < wi.rows(); ++a)
        for (Eigen::Index b = 0; b < wi.cols(); ++b) want(psum[i] + a, psum[i] + b) = wi(a, b);
    });
    compare<S>(res, r, want, [&](Eigen::Index a, Eigen::Index b) {
      const int ba = block_of(psum, a);
      return ba >= 0 && ba == block_of(psum, b);
    });
  }
  // Hessian placement  H[off+r, D(off+j)+off+k] = Hi[r, d j + k]
  template<class F>
  static void hess(Res & res, const Hess & r, F && part_result)
  {
    const Off o  = offsets();
    const long D = B::Dof;
    Hess want    = Hess::Zero();
    for_parts([&](auto ic) {
      constexpr std::size_t i = decltype(ic)::value;
      const auto Hi = part_result(ic);
      const long d = PO<P<i>>::Dof, off = o.dof[i];
      for (long rr = 0; rr < d; ++rr)
        for (long j = 0; j < d; ++j)
          for (long k = 0; k < d; ++k) want(off + rr, D * (off + j) + off + k) = Hi(rr, d * j + k);
    });
    compare<S>(res, r, want, [&](Eigen::Index a, Eigen::Index c) {
      const int ba = block_of(o.dof, a);
      return ba >= 0 && ba == block_of(o.dof, c / D) && ba == block_of(o.dof, c % D);
    });
  }

  template<std::size_t I>
  static P<I> part_of(const B & b)
  {
    return P<I>(b.template part<I>());
  }
  template<std::size_t I>
  static typename PO<P<I>>::T tan_of(const Tangent & a)
  {
    return a.template segment<B::template PartDof<I>>(B::template PartStart<I>);
  }

  // Run `op` on the flat inputs: Bundle result into `out` (row-major), audit into `res`.
  // Returns false when the op is not available for B or the arity is wrong.
  static bool run(const std::string & op, const std::vector<S> & x, std::vector<S> & out, Res & res)
  {
    Args<S> A{x};
    const Off o = offsets();
#define PARTFN(expr) [&](auto ic) { constexpr std::size_t i = decltype(ic)::value; using Q = PO<P<i>>; (void)sizeof(Q); return expr; }
    if (op == "structure") {
      res = structure();
    } else if (op == "identity") {
      const B r = B::Identity();
      put(out, r.coeffs());
      tuple_rep(res, r, PARTFN(Q::identity()));
      B r2;
      r2.setIdentity();
      tuple_rep(res, r2, PARTFN(Q::identity()));
    } else if (op == "compose") {
      const B g1 = from_coeffs(A.template vec<Coef>()), g2 = from_coeffs(A.template vec<Coef>());
      const B r = g1 * g2;
      put(out, r.coeffs());
      tuple_rep(res, r, PARTFN(Q::compose(part_of<i>(g1), part_of<i>(g2))));
    } else if (op == "inverse") {
      const B g = from_coeffs(A.template vec<Coef>());
      const B r = g.inverse();
      put(out, r.coeffs());
      tuple_rep(res, r, PARTFN(Q::inverse(part_of<i>(g))));
    } else if (op == "exp") {
      const Tangent a = A.template vec<Tangent>();
      const B r = B::exp(a);
      put(out, r.coeffs());
      tuple_rep(res, r, PARTFN(Q::exp(tan_of<i>(a))));
    } else if (op == "log") {
      const B g = from_coeffs(A.template vec<Coef>());
      const Tangent r = g.log();
      put(out, r);
      tuple_dof(res, r, PARTFN(Q::log(part_of<i>(g))));
    } else if (op == "rplus") {
      const B g = from_coeffs(A.template vec<Coef>());
      const Tangent a = A.template vec<Tangent>();
      const B r = g + a;
      put(out, r.coeffs());
      tuple_rep(res, r, PARTFN(Q::rplus(part_of<i>(g), tan_of<i>(a))));
    } else if (op == "rminus") {
      const B g1 = from_coeffs(A.template vec<Coef>()), g2 = from_coeffs(A.template vec<Coef>());
      const Tangent r = g1 - g2;
      put(out, r);
      tuple_dof(res, r, PARTFN(Q::rminus(part_of<i>(g1), part_of<i>(g2))));
    } else if (op == "bracket") {
      const Tangent a = A.template vec<Tangent>(), b = A.template vec<Tangent>();
      const Tangent r = B::lie_bracket(a, b);
      put(out, r);
      // the Bundle computes the dense product ad(a)*b over the WHOLE tangent (extra exact-zero terms,
      // possibly another summation order): value difference measured in eps * |ad_i|max * |b_i|max
      tuple_dof(res, r, PARTFN(Q::bracket(tan_of<i>(a), tan_of<i>(b))),
        PARTFN(max_abs(Q::ad(tan_of<i>(a))) * max_abs(tan_of<i>(b)) * double(std::numeric_limits<S>::epsilon())));
    } else if (op == "matrix") {
      const B g = from_coeffs(A.template vec<Coef>());
      const Mat r = g.matrix();
      put(out, r);
      blocks(res, r, o.dim, PARTFN(Q::matrix(part_of<i>(g))));
    } else if (op == "hat") {
      const Tangent a = A.template vec<Tangent>();
      const Mat r = B::hat(a);
      put(out, r);
      blocks(res, r, o.dim, PARTFN(Q::hat(tan_of<i>(a))));
    } else if (op == "vee") {
      // any matrix: vee reads the diagonal blocks only
      const Mat M = A.template vec<Mat>();
      const Tangent r = B::vee(M);
      put(out, r);
      tuple_dof(res, r, PARTFN(Q::vee(typename Q::M(M.template block<Q::Dim, Q::Dim>(o.dim[i], o.dim[i])))));
    } else if (op == "Ad") {
      const B g = from_coeffs(A.template vec<Coef>());
      const TMap r = g.Ad();
      put(out, r);
      blocks(res, r, o.dof, PARTFN(Q::Ad(part_of<i>(g))));
    } else if (op == "ad" || op == "dr_exp" || op == "dr_expinv" || op == "dl_exp" || op == "dl_expinv") {
      const Tangent a = A.template vec<Tangent>();
      TMap r;
      if (op == "ad") {
        r = B::ad(a);
        blocks(res, r, o.dof, PARTFN(Q::ad(tan_of<i>(a))));
      } else if (op == "dr_exp") {
        r = B::dr_exp(a);
        blocks(res, r, o.dof, PARTFN(Q::dr_exp(tan_of<i>(a))));
      } else if (op == "dr_expinv") {
        r = B::dr_expinv(a);
        blocks(res, r, o.dof, PARTFN(Q::dr_expinv(tan_of<i>(a))));
      } else if (op == "dl_exp") {
        r = B::dl_exp(a);
        blocks(res, r, o.dof, PARTFN(Q::dl_exp(tan_of<i>(a))));
      } else {
        r = B::dl_expinv(a);
        blocks(res, r, o.dof, PARTFN(Q::dl_expinv(tan_of<i>(a))));
      }
      put(out, r);
    } else if constexpr (HasHess<B>::value) {
      if (op == "d2r_exp" || op == "d2r_expinv" || op == "d2l_exp" || op == "d2l_expinv") {
        const Tangent a = A.template vec<Tangent>();
        Hess r;
        if (op == "d2r_exp") {
          r = B::d2r_exp(a);
          hess(res, r, PARTFN(Q::d2r_exp(tan_of<i>(a))));
        } else if (op == "d2r_expinv") {
          r = B::d2r_expinv(a);
          hess(res, r, PARTFN(Q::d2r_expinv(tan_of<i>(a))));
        } else if (op == "d2l_exp") {
          r = B::d2l_exp(a);
          hess(res, r, PARTFN(Q::d2l_exp(tan_of<i>(a))));
        } else {
          r = B::d2l_expinv(a);
          hess(res, r, PARTFN(Q::d2l_expinv(tan_of<i>(a))));
        }
        put(out, r);
      } else {
        return false;
      }
    } else {
      return false;
    }
#undef PARTFN
    return A.done();
  }
};

// ------------------------------------------------------------------ generation for one Bundle type
template<class B>
struct EmitB
{
  using S       = typename B::Scalar;
  using Tangent = typename B::Tangent;
  std::string gname;
  FILE * f;
  Rng & r;

  Tangent tan(int i, int kind) { return Gen<B>::tangent(r, i % N_ANGLE_STRATA, kind, (i / N_ANGLE_STRATA) + r.below(5)); }
  const char * tag(int i) { return angle_stratum_name(i % N_ANGLE_STRATA); }
  B elem(int i)
  {
    B g = B::exp(tan(i, 0));
    if (i % 7 == 3) g = g * B::exp(tan(i + 1, 0));
    if (i % 11 == 5) g = g.inverse();
    return g;
  }

  template<class... Ts>
  void go(const char * op, const char * tg, const Ts &... parts)
  {
    std::vector<S> x, out;
    (put(x, parts), ...);
    Res res;
    if (Audit<B>::run(op, x, out, res)) {
      emit_audit<S>(f, op, gname, x, res, tg);
      if (std::string(op) != "structure") emit<S>(f, op, gname, x, out, tg);
    }
  }

  void run(int n)
  {
    go("structure", "");
    go("identity", "");
    for (int i = 0; i < n; ++i) {
      const B g1 = elem(i), g2 = elem(n + 3 * i + 1);
      const Tangent a = tan(i, 0), al = tan(i, 1), b = tan(i + 5, 0), c = tan(i + 2, 0);
      const char * t = tag(i);
      go("matrix", t, g1.coeffs());
      go("compose", t, g1.coeffs(), g2.coeffs());
      go("inverse", t, g1.coeffs());
      {
        const B gl = B::exp(al);
        go("log", t, gl.coeffs());
        const B gp = gl * B::exp(tan(i + 3, 1) * S(0.3));
        go("log", "product", gp.coeffs());
      }
      go("exp", t, a);
      go("hat", t, a);
      {
        typename B::Matrix A = B::hat(a);
        go("vee", t, A);
        // off-diagonal junk must not be read by vee
        for (Eigen::Index p = 0; p < A.rows(); ++p)
          for (Eigen::Index q = 0; q < A.cols(); ++q) A(p, q) += S(gen_trans(r, 1 + int((p + q) % 3)));
        go("vee", "full_matrix", A);
      }
      go("Ad", t, g1.coeffs());
      go("ad", t, a);
      go("bracket", t, a, b);
      go("dr_exp", t, a);
      go("dl_exp", t, a);
      go("dr_expinv", t, al);
      go("dl_expinv", t, al);
      go("rplus", t, g1.coeffs(), c);
      {
        const B gm = g1 * B::exp(al);
        go("rminus", t, gm.coeffs(), g1.coeffs());
      }
      go("d2r_exp", t, a);
      go("d2l_exp", t, a);
      go("d2r_expinv", t, al);
      go("d2l_expinv", t, al);
    }
  }
};

// ------------------------------------------------------------------ vectors and scalars (free functions)
// uniform view of the three kinds of T(n) models: static vector, dynamic vector, built-in scalar
template<class G>
struct VecIO;
template<class S, int N>
struct VecIO<Eigen::Matrix<S, N, 1>>
{
  using G = Eigen::Matrix<S, N, 1>;
  static G make(const S * p, int n)
  {
    G g(n);
    for (int i = 0; i < n; ++i) g(i) = p[i];
    return g;
  }
  static void put_g(std::vector<S> & out, const G & g) { put(out, g); }
  static G identity(int n)
  {
    if constexpr (N > 0) {
      // both documented spellings
      const G a = smooth::Identity<G>(), b = smooth::Identity<G>(n);
      if (std::memcmp(a.data(), b.data(), sizeof(S) * std::size_t(n)) != 0) std::abort();
      return a;
    } else {
      return smooth::Identity<G>(n);
    }
  }
};
template<class S>
struct ScalarIO
{
  using G = S;
  static G make(const S * p, int) { return p[0]; }
  static void put_g(std::vector<S> & out, const G & g) { out.push_back(g); }
  static G identity(int) { return smooth::Identity<G>(); }
};
template<>
struct VecIO<double> : ScalarIO<double>
{};
template<>
struct VecIO<float> : ScalarIO<float>
{};

template<class G>
bool eval_vec(const std::string & op, int n, const std::vector<typename smooth::traits::lie<G>::Scalar> & x,
  std::vector<typename smooth::traits::lie<G>::Scalar> & out)
{
  using S  = typename smooth::traits::lie<G>::Scalar;
  using IO = VecIO<G>;
  using TV = Eigen::Matrix<S, smooth::traits::lie<G>::Dof, 1>;  // tangent type of the interface
  auto tangent = [&](std::size_t off) {
    TV a(n);
    for (int i = 0; i < n; ++i) a(i) = x[off + std::size_t(i)];
    return a;
  };
  const std::size_t N = std::size_t(n);
  if (op == "identity") {
    if (x.size() != 0) return false;
    IO::put_g(out, IO::identity(n));
  } else if (op == "compose") {
    if (x.size() != 2 * N) return false;
    IO::put_g(out, smooth::composition(IO::make(x.data(), n), IO::make(x.data() + N, n)));
  } else if (op == "compose3l") {
    if (x.size() != 3 * N) return false;
    IO::put_g(out, smooth::composition(IO::make(x.data(), n), IO::make(x.data() + N, n), IO::make(x.data() + 2 * N, n)));
  } else if (op == "inverse") {
    if (x.size() != N) return false;
    IO::put_g(out, smooth::inverse(IO::make(x.data(), n)));
  } else if (op == "log") {
    if (x.size() != N) return false;
    put(out, smooth::log(IO::make(x.data(), n)));
  } else if (op == "Ad") {
    if (x.size() != N) return false;
    put(out, smooth::Ad(IO::make(x.data(), n)));
  } else if (op == "rplus") {
    if (x.size() != 2 * N) return false;
    IO::put_g(out, smooth::rplus(IO::make(x.data(), n), tangent(N)));
  } else if (op == "rminus") {
    if (x.size() != 2 * N) return false;
    put(out, smooth::rminus(IO::make(x.data(), n), IO::make(x.data() + N, n)));
  } else {
    if (x.size() != N) return false;
    const TV a = tangent(0);
    if (op == "exp") IO::put_g(out, smooth::exp<G>(a));
    else if (op == "ad") put(out, smooth::ad<G>(a));
    else if (op == "dr_exp") put(out, smooth::dr_exp<G>(a));
    else if (op == "dr_expinv") put(out, smooth::dr_expinv<G>(a));
    else if (op == "dl_exp") put(out, smooth::dl_exp<G>(a));
    else if (op == "dl_expinv") put(out, smooth::dl_expinv<G>(a));
    else if (op == "d2r_exp") put(out, smooth::d2r_exp<G>(a));
    else if (op == "d2r_expinv") put(out, smooth::d2r_expinv<G>(a));
    else if (op == "d2l_exp") put(out, smooth::d2l_exp<G>(a));
    else if (op == "d2l_expinv") put(out, smooth::d2l_expinv<G>(a));
    else return false;
  }
  return true;
}

// special values that an additive group must pass through unchanged
template<class S>
S special(Rng & r, int k)
{
  switch (k % 12) {
  case 0: return S(0.0);
  case 1: return S(-0.0);
  case 2: return std::numeric_limits<S>::denorm_min();
  case 3: return -std::numeric_limits<S>::min();
  case 4: return std::numeric_limits<S>::max() / S(4);
  case 5: return S(1) + std::numeric_limits<S>::epsilon();
  case 6: return S(r.sign() * r.logu(1e-30, 1e30));
  default: return S(gen_trans(r, k));
  }
}

template<class G>
void run_vec(FILE * f, Rng & r, int n, int samples, const char * tag, int hessians /* 0 none, 1 one d2r sample, 2 full */)
{
  using S = typename smooth::traits::lie<G>::Scalar;
  const std::string grp = "T" + std::to_string(n);
  auto go = [&](const char * op, std::initializer_list<const std::vector<S> *> parts) {
    std::vector<S> x, out;
    for (auto * p : parts) x.insert(x.end(), p->begin(), p->end());
    if (eval_vec<G>(op, n, x, out)) emit<S>(f, op, grp, x, out, tag);
  };
  go("identity", {});
  for (int s = 0; s < samples; ++s) {
    std::vector<S> a(n), b(n), c(n);
    for (int i = 0; i < n; ++i) {
      a[i] = s % 3 == 2 ? special<S>(r, s + i) : S(gen_trans(r, s + i));
      b[i] = s % 3 == 1 ? special<S>(r, s + 2 * i + 1) : S(gen_trans(r, s + i + 2));
      c[i] = S(gen_trans(r, s + 1));
    }
    go("compose", {&a, &b});
    go("compose3l", {&a, &b, &c});
    go("inverse", {&a});
    go("log", {&a});
    go("exp", {&a});
    go("rplus", {&a, &b});
    go("rminus", {&a, &b});
    go("Ad", {&a});
    go("ad", {&a});
    go("dr_exp", {&a});
    go("dr_expinv", {&a});
    go("dl_exp", {&a});
    go("dl_expinv", {&a});
    if ((hessians == 2 && s < 2) || (hessians == 1 && s < 1)) {
      go("d2r_exp", {&a});
      go("d2r_expinv", {&a});
      if (hessians == 2) {
        go("d2l_exp", {&a});
        go("d2l_expinv", {&a});
      }
    }
  }
}

template<class S>
void run_vectors(FILE * f, Rng & r, int samples, bool all_dynamic_hessians)
{
  run_vec<Eigen::Matrix<S, 1, 1>>(f, r, 1, samples, "Vec1", 2);
  run_vec<Eigen::Matrix<S, 2, 1>>(f, r, 2, samples, "Vec2", 2);
  run_vec<Eigen::Matrix<S, 3, 1>>(f, r, 3, samples, "Vec3", 2);
  run_vec<Eigen::Matrix<S, 4, 1>>(f, r, 4, samples, "Vec4", 2);
  run_vec<Eigen::Matrix<S, 5, 1>>(f, r, 5, samples, "Vec5", 2);
  run_vec<Eigen::Matrix<S, 6, 1>>(f, r, 6, samples, "Vec6", 2);
  for (int n = 0; n <= 40; ++n) {
    const int h = n <= 8 ? 2 : ((all_dynamic_hessians || n == 13 || n == 21 || n == 40) ? 1 : 0);
    run_vec<Eigen::Matrix<S, -1, 1>>(f, r, n, std::max(2, samples / 2), "VecX", h);
  }
  run_vec<S>(f, r, 1, 2 * samples, "scalar", 2);
}

// ------------------------------------------------------------------ catalogue
template<class S, class V>
void catalogue(V && visit)
{
  using namespace smooth;
  using V1 = Eigen::Matrix<S, 1, 1>;
  using V2 = Eigen::Matrix<S, 2, 1>;
  using V3 = Eigen::Matrix<S, 3, 1>;
  using V4 = Eigen::Matrix<S, 4, 1>;
  (void)sizeof(V1); (void)sizeof(V2); (void)sizeof(V3); (void)sizeof(V4);
#if PART == 0
  visit.template group<Bundle<SO3<S>>>();                      // single part
  visit.template group<Bundle<V2, SE2<S>>>();                  // commutative first
  visit.template group<Bundle<SE2<S>, V2>>();                  // commutative last
  visit.template group<Bundle<SO2<S>, SO2<S>, SO2<S>>>();      // repetition, all commutative
  visit.template group<Bundle<V1, V3>>();                      // vectors only
  visit.template group<Bundle<V3>>();                          // single vector part
  visit.template group<Bundle<SO2<S>>>();                      // single commutative part
#elif PART == 1
  visit.template group<Bundle<C1<S>, V1, SO3<S>, SO2<S>>>();   // mixed, 4 parts
  visit.template group<Bundle<SO3<S>, SO3<S>>>();              // repetition, non-commutative
  visit.template group<Bundle<SE2<S>, C1<S>>>();
  visit.template group<Bundle<V1, SE2<S>, V2>>();              // commutative first and last
  visit.template group<Bundle<SE2<S>, SO3<S>, SE2<S>>>();      // non-adjacent repetition
#elif PART == 2
  visit.template group<Bundle<SE3<S>, V3, SO3<S>>>();                         // commutative middle
  visit.template group<Bundle<Bundle<SO3<S>, V3>, SE2<S>>>();                 // nested first
  visit.template group<Bundle<Bundle<SO3<S>>, Bundle<C1<S>, SO2<S>>, V1>>();  // nested single, nested commutative Bundle
  visit.template group<Bundle<SE3<S>, SE3<S>>>();
#elif PART == 3
  visit.template group<Bundle<V2, Bundle<SO2<S>, Bundle<SE3<S>, V1>>>>();     // nesting depth 3
  visit.template group<Bundle<Bundle<SO2<S>, V2>, Bundle<SE3<S>>>>();         // nested commutative Bundle as a part
#elif PART == 4
  visit.template group<Bundle<Galilei<S>, V4>>();
  visit.template group<Bundle<SE_K_3<S, 2>, SO3<S>>>();
  visit.template group<Bundle<V2, Galilei<S>, SO2<S>>>();           // no-Hessian member in the middle
  visit.template group<Bundle<Bundle<SE_K_3<S, 1>, V1>, SE3<S>>>(); // nested with a no-Hessian member
#endif
}

template<class S>
struct GenVisitor
{
  FILE * f;
  Rng & r;
  int n;
  template<class B>
  void group()
  {
    EmitB<B> e{Gen<B>::name(), f, r};
    e.run(n);
  }
};

template<class S>
struct EvalVisitor
{
  const std::string & op;   // without the bp_ prefix
  const std::string & grp;
  const std::vector<S> & x;
  std::vector<S> & out;
  Res & res;
  bool done = false;
  template<class B>
  void group()
  {
    if (!done && Gen<B>::name() == grp) {
      out.clear();
      res  = Res{};
      done = Audit<B>::run(op, x, out, res);
    }
  }
};

template<class S>
S parse_word(const std::string & w)
{
  if constexpr (std::is_same_v<S, double>) {
    uint64_t u = std::strtoull(w.c_str(), nullptr, 16);
    double d;
    std::memcpy(&d, &u, 8);
    return d;
  } else {
    uint32_t u = uint32_t(std::strtoul(w.c_str(), nullptr, 16));
    float d;
    std::memcpy(&d, &u, 4);
    return d;
  }
}

template<class S>
bool eval_tn(const std::string & op, const std::string & grp, const std::string & tag, const std::vector<S> & x, std::vector<S> & out)
{
#if PART == 0
  if (grp.size() < 2 || grp[0] != 'T') return false;
  for (std::size_t i = 1; i < grp.size(); ++i)
    if (grp[i] < '0' || grp[i] > '9') return false;
  const int n = std::atoi(grp.c_str() + 1);
  if (tag == "scalar" && n == 1) return eval_vec<S>(op, 1, x, out);
  if (tag == "Vec1" && n == 1) return eval_vec<Eigen::Matrix<S, 1, 1>>(op, n, x, out);
  if (tag == "Vec2" && n == 2) return eval_vec<Eigen::Matrix<S, 2, 1>>(op, n, x, out);
  if (tag == "Vec3" && n == 3) return eval_vec<Eigen::Matrix<S, 3, 1>>(op, n, x, out);
  if (tag == "Vec4" && n == 4) return eval_vec<Eigen::Matrix<S, 4, 1>>(op, n, x, out);
  if (tag == "Vec5" && n == 5) return eval_vec<Eigen::Matrix<S, 5, 1>>(op, n, x, out);
  if (tag == "Vec6" && n == 6) return eval_vec<Eigen::Matrix<S, 6, 1>>(op, n, x, out);
  return eval_vec<Eigen::Matrix<S, -1, 1>>(op, n, x, out);  // default: dynamic size
#else
  (void)op; (void)grp; (void)tag; (void)x; (void)out;
  return false;
#endif
}

template<class S>
void eval_line(const std::string & op0, const std::string & grp, const std::vector<std::string> & words, const std::string & tag)
{
  std::vector<S> x, out;
  for (auto & w : words) x.push_back(parse_word<S>(w));
  const bool audit     = op0.rfind("bp_", 0) == 0;
  const std::string op = audit ? op0.substr(3) : op0;
  if (!audit && eval_tn<S>(op, grp, tag, x, out)) {
    emit<S>(stdout, op.c_str(), grp, x, out, tag.c_str());
    return;
  }
  Res res;
  EvalVisitor<S> v{op, grp, x, out, res};
  catalogue<S>(v);
  if (!v.done) {
    std::printf("SKIP %s %s\n", op0.c_str(), grp.c_str());
  } else if (audit) {
    emit_audit<S>(stdout, op.c_str(), grp, x, res, tag.c_str());
  } else {
    emit<S>(stdout, op.c_str(), grp, x, out, tag.c_str());
  }
}

int eval_mode()
{
  char * line = nullptr;
  size_t cap  = 0;
  while (getline(&line, &cap, stdin) > 0) {
    std::string s(line);
    while (!s.empty() && (s.back() == '\n' || s.back() == '\r')) s.pop_back();
    std::string tag;
    auto h = s.find(" # ");
    if (h != std::string::npos) { tag = s.substr(h + 3); s = s.substr(0, h); }
    auto bar = s.find(" |");
    if (bar != std::string::npos) s = s.substr(0, bar);
    std::vector<std::string> t;
    size_t p = 0;
    while (p < s.size()) {
      while (p < s.size() && s[p] == ' ') ++p;
      size_t q = p;
      while (q < s.size() && s[q] != ' ') ++q;
      if (q > p) t.push_back(s.substr(p, q - p));
      p = q;
    }
    if (t.size() < 3) { std::printf("SKIP bad-line\n"); continue; }
    std::vector<std::string> words(t.begin() + 3, t.end());
    if (t[2] == "f64") eval_line<double>(t[0], t[1], words, tag);
    else if (t[2] == "f32") eval_line<float>(t[0], t[1], words, tag);
    else std::printf("SKIP bad-prec\n");
  }
  std::free(line);
  return 0;
}

int main(int argc, char ** argv)
{
  if (argc > 1 && std::string(argv[1]) == "eval") return eval_mode();
  const int n      = argc > 1 ? std::atoi(argv[1]) : 18;
  const int vecall = argc > 2 ? std::atoi(argv[2]) : 0;
  Rng r(seed_from_env() * 1000 + 60 + PART);
  catalogue<double>(GenVisitor<double>{stdout, r, n});
  catalogue<float>(GenVisitor<float>{stdout, r, n});
#if PART == 0
  run_vectors<double>(stdout, r, std::max(4, n / 2), vecall != 0);
  run_vectors<float>(stdout, r, std::max(4, n / 2), vecall != 0);
#else
  (void)vecall;
#endif
  return 0;
}
