// conc.cpp — C18 stress harness: non-mutating operations on shared const objects from many threads.
//
//   conc run <threads> <iters> [opfilter]     one process per thread count (so that the first use of every
//                                             function-local static happens inside the threaded phase)
//   conc list                                 catalogue
//
// The sequential reference (one result per (op, variant)) is computed BEFORE the threads start, in a
// forked child of the still single-threaded process, and sent back over a pipe: the parent has not
// executed any library operation when the threads are released behind the barrier, so first-use
// initialisation of function-local statics is raced by all threads.  Each thread then calls
// op(variant) repeatedly (variant depends on thread id and iteration, so different threads pass
// different arguments to the same shared object) and compares its result BITWISE with the reference.
//
// Output, one line per op and phase (`same-op`: all threads hammer one op; `mixed`: every thread walks the
// whole catalogue in its own seeded order):
//   op=<name> phase=same-op|mixed threads=<T> calls=<n> mismatches=<m> touches=<classes> first=<variant of first mismatch|->
// Built twice by tools/props/c18.py: plain and -fsanitize=thread (reports parsed from TSAN log files).
#include "common.hpp"

#include <atomic>
#include <barrier>
#include <functional>
#include <memory>
#include <thread>
#include <unistd.h>
#include <sys/wait.h>

#include <Eigen/Sparse>

#include "smooth/bundle.hpp"
#include "smooth/c1.hpp"
#include "smooth/diff.hpp"
#include "smooth/galilei.hpp"
#include "smooth/lie_sparse.hpp"
#include "smooth/manifolds.hpp"
#include "smooth/manifolds/any.hpp"
#include "smooth/manifolds/submanifold.hpp"
#include "smooth/manifolds/vector.hpp"
#include "smooth/optim.hpp"
#include "smooth/se2.hpp"
#include "smooth/se3.hpp"
#include "smooth/so2.hpp"
#include "smooth/so3.hpp"
#include "smooth/spline/bspline.hpp"
#include "smooth/spline/fit.hpp"
#include "smooth/spline/spline.hpp"

using namespace smooth;

static constexpr int NV = 8;  // argument variants per op

using Out = std::vector<double>;

template<class D>
static void put(Out & o, const Eigen::MatrixBase<D> & m)
{
  for (Eigen::Index j = 0; j < m.cols(); ++j)
    for (Eigen::Index i = 0; i < m.rows(); ++i) o.push_back(double(m(i, j)));
}
static void put(Out & o, double x) { o.push_back(x); }
template<class S>
static void put_sparse(Out & o, const Eigen::SparseMatrix<S> & m)
{
  o.push_back(double(m.isCompressed()));
  o.push_back(double(m.nonZeros()));
  for (Eigen::Index k = 0; k < m.nonZeros(); ++k) o.push_back(double(m.valuePtr()[k]));
  for (Eigen::Index k = 0; k < m.nonZeros(); ++k) o.push_back(double(m.innerIndexPtr()[k]));
}

template<int N>
static Eigen::Matrix<double, N, 1> rvec(vh::Rng & r, double s)
{
  Eigen::Matrix<double, N, 1> v;
  for (int i = 0; i < N; ++i) v(i) = r.uni(-s, s);
  return v;
}

using BundleT = Bundle<SO3d, Eigen::Vector3d, SE2d>;
using SubSE3  = SubManifold<SE3d>;
using SubSO3  = SubManifold<SO3d>;

// ------------------------------------------------------------------------------------------------
// Shared CONST world: everything the threads read.  Built once (seeded) before anything else; the
// forked reference process inherits an identical copy.
struct World
{
  // groups and per-variant tangents / partners
  SO3d so3;
  SE3d se3;
  SE2d se2;
  SO2d so2;
  C1d c1;
  Galileid gal;
  BundleT bun;
  std::array<Eigen::Vector3d, NV> a3;
  std::array<Eigen::Matrix<double, 6, 1>, NV> a6;
  std::array<Eigen::Matrix<double, 10, 1>, NV> a10;
  std::array<Eigen::Matrix<double, 9, 1>, NV> a9;
  std::array<Eigen::Matrix<double, 4, 1>, NV> a4;
  std::array<Eigen::Vector2d, NV> a2;
  std::array<double, NV> a1;
  std::array<SO3d, NV> so3s;
  std::array<SE3d, NV> se3s;
  std::array<SE2d, NV> se2s;
  // manifolds
  std::unique_ptr<const SubSE3> sub_se3;                 // fixed dims {1,4}  -> dof 4
  std::array<std::unique_ptr<const SubSE3>, NV> sub_se3_others;
  std::unique_ptr<const SubSO3> sub_so3;                 // fixed dims {1}    -> dof 2
  std::unique_ptr<const AnyManifold> any_se3;
  std::array<std::unique_ptr<const AnyManifold>, NV> any_se3_others;
  std::unique_ptr<const AnyManifold> any_sub;            // AnyManifold holding a SubManifold<SO3d>
  std::vector<SO3d> vec_so3;                             // std::vector manifold, dof 12
  std::array<std::vector<SO3d>, NV> vec_others;
  std::array<Eigen::VectorXd, NV> a12;
  // curves
  std::unique_ptr<const Spline<3, SE3d>> spline3;
  std::unique_ptr<const Spline<5, SO3d>> spline5;
  std::unique_ptr<const BSpline<3, SO3d>> bspline3;
  std::unique_ptr<const BSpline<5, SE2d>> bspline5;
  std::array<double, NV> ts;
  // fit data
  std::vector<double> fit_t;
  std::array<std::vector<SO3d>, NV> fit_g;
  std::vector<double> bfit_t;
  std::array<std::vector<SO3d>, NV> bfit_g;

  explicit World(uint64_t seed)
  {
    vh::Rng r(seed);
    auto rso3 = [&] { return SO3d::exp(rvec<3>(r, 2.5)); };
    auto rse3 = [&] { return SE3d::exp(rvec<6>(r, 2.0)); };
    auto rse2 = [&] { return SE2d::exp(rvec<3>(r, 2.0)); };
    so3 = rso3();
    se3 = rse3();
    se2 = rse2();
    so2 = SO2d(r.uni(-3, 3));
    c1  = C1d::exp(rvec<2>(r, 1.0));
    gal = Galileid::exp(rvec<10>(r, 1.0));
    bun = BundleT(rso3(), rvec<3>(r, 3.0), rse2());
    for (int v = 0; v < NV; ++v) {
      const double s = (v == 0) ? 1e-6 : (v == 1 ? 0.0 : 1.5);  // small-angle branch, zero, generic
      a3[v]  = rvec<3>(r, s);
      a6[v]  = rvec<6>(r, s);
      a10[v] = rvec<10>(r, s);
      a9[v]  = rvec<9>(r, s);
      a4[v]  = rvec<4>(r, 1.5) + Eigen::Vector4d::Constant(v + 1.0);  // distinct per variant on purpose
      a2[v]  = rvec<2>(r, 1.5) + Eigen::Vector2d::Constant(0.1 * (v + 1));
      a1[v]  = r.uni(-3, 3);
      so3s[v] = rso3();
      se3s[v] = rse3();
      se2s[v] = rse2();
    }
    // SubManifold
    {
      Eigen::VectorXi fd(2);
      fd << 1, 4;
      sub_se3 = std::make_unique<const SubSE3>(se3, se3, fd);
      for (int v = 0; v < NV; ++v) sub_se3_others[v] = std::make_unique<const SubSE3>(se3, se3s[v], fd);
      Eigen::VectorXi fd1(1);
      fd1 << 1;
      sub_so3 = std::make_unique<const SubSO3>(so3, so3, fd1);
    }
    any_se3 = std::make_unique<const AnyManifold>(se3);
    for (int v = 0; v < NV; ++v) any_se3_others[v] = std::make_unique<const AnyManifold>(se3s[v]);
    any_sub = std::make_unique<const AnyManifold>(*sub_so3);
    for (int k = 0; k < 4; ++k) vec_so3.push_back(rso3());
    for (int v = 0; v < NV; ++v) {
      for (int k = 0; k < 4; ++k) vec_others[v].push_back(rso3());
      a12[v] = Eigen::VectorXd(12);
      for (int k = 0; k < 12; ++k) a12[v](k) = r.uni(-1.5, 1.5);
    }
    // Spline<3, SE3d>: concatenation of fixed-cubic / constant-velocity pieces
    {
      Spline<3, SE3d> c = Spline<3, SE3d>::ConstantVelocity(rvec<6>(r, 1.0), 1.3, se3);
      c.concat_local(Spline<3, SE3d>::FixedCubic(rse3(), rvec<6>(r, 1.0), rvec<6>(r, 1.0), 2.0));
      c.concat_local(Spline<3, SE3d>::ConstantVelocityGoal(rse3(), 0.7));
      c.concat_local(Spline<3, SE3d>::FixedCubic(rse3(), rvec<6>(r, 1.0), rvec<6>(r, 1.0), 1.1));
      spline3 = std::make_unique<const Spline<3, SE3d>>(std::move(c));
      Spline<5, SO3d> d = Spline<5, SO3d>::ConstantVelocity(rvec<3>(r, 1.0), 2.0, so3);
      d.concat_local(Spline<5, SO3d>::ConstantVelocityGoal(rso3(), 1.5));
      spline5 = std::make_unique<const Spline<5, SO3d>>(std::move(d));
    }
    {
      std::vector<SO3d> cp;
      for (int k = 0; k < 9; ++k) cp.push_back(rso3());
      bspline3 = std::make_unique<const BSpline<3, SO3d>>(0.5, 0.75, std::move(cp));
      std::vector<SE2d> cq;
      for (int k = 0; k < 11; ++k) cq.push_back(rse2());
      bspline5 = std::make_unique<const BSpline<5, SE2d>>(-1.0, 0.4, std::move(cq));
    }
    for (int v = 0; v < NV; ++v) ts[v] = (v == 0) ? -0.5 : (v == 1 ? 100.0 : r.uni(0.0, 5.0));
    fit_t = {0, 1, 1.5, 2, 3, 4.5};
    bfit_t = {2, 2.5, 3.5, 4.5, 5.5, 6};
    for (int v = 0; v < NV; ++v) {
      for (std::size_t k = 0; k < fit_t.size(); ++k) fit_g[v].push_back(rso3());
      SO3d g = rso3();
      for (std::size_t k = 0; k < bfit_t.size(); ++k) {
        g = g + rvec<3>(r, 0.4);
        bfit_g[v].push_back(g);
      }
    }
  }
};

static const World * W = nullptr;

// ------------------------------------------------------------------------------------------------
// catalogue
template<class G, class A, class Gs>
static void group_ops(Out & o, const G & g, const A & a, const Gs & h)
{
  put(o, (g * h).coeffs());
  put(o, g.inverse().coeffs());
  put(o, g.log());
  put(o, g.Ad());
  put(o, g.matrix());
  put(o, (g + a).coeffs());
  put(o, (h - g));
  put(o, G::exp(a).coeffs());
  put(o, G::hat(a));
  put(o, G::ad(a));
  put(o, G::dr_exp(a));
  put(o, G::dr_expinv(a));
  put(o, G::dl_exp(a));
  put(o, G::dl_expinv(a));
  put(o, G::d2r_exp(a));
  put(o, G::d2r_expinv(a));
  put(o, double(g.dof()));
  // free-function interface (concepts/lie_group.hpp)
  put(o, ::smooth::rplus(g, a).coeffs());
  put(o, ::smooth::rminus(h, g));
  put(o, ::smooth::lplus(g, a).coeffs());
  put(o, ::smooth::Ad(h));
}

struct Op
{
  const char * name;
  const char * touches;  // library classes with per-object state involved (for attribution)
  int weight;            // relative cost: iterations are divided by this
  std::function<void(int, Out &)> f;
};

static std::vector<Op> catalogue()
{
  std::vector<Op> ops;
  ops.push_back({"group_so3", "-", 1, [](int v, Out & o) { group_ops(o, W->so3, W->a3[v], W->so3s[v]); }});
  ops.push_back({"group_se3", "-", 2, [](int v, Out & o) { group_ops(o, W->se3, W->a6[v], W->se3s[v]); }});
  ops.push_back({"group_se2", "-", 1, [](int v, Out & o) { group_ops(o, W->se2, W->a3[v], W->se2s[v]); }});
  ops.push_back({"group_so2_c1", "-", 1, [](int v, Out & o) {
                   Eigen::Matrix<double, 1, 1> a;
                   a << W->a1[v];
                   put(o, (W->so2 + a).coeffs());
                   put(o, W->so2.log());
                   put(o, SO2d::exp(a).coeffs());
                   put(o, SO2d::dr_exp(a));
                   put(o, (W->c1 + W->a2[v]).coeffs());
                   put(o, W->c1.log());
                   put(o, W->c1.inverse().coeffs());
                   put(o, C1d::exp(W->a2[v]).coeffs());
                 }});
  ops.push_back({"group_galilei", "-", 3, [](int v, Out & o) {
                   const auto & g = W->gal;
                   const auto & a = W->a10[v];
                   put(o, (g + a).coeffs());
                   put(o, g.inverse().coeffs());
                   put(o, g.log());
                   put(o, g.Ad());
                   put(o, Galileid::exp(a).coeffs());
                   put(o, Galileid::ad(a));
                   put(o, Galileid::dr_exp(a));
                   put(o, Galileid::dr_expinv(a));
                 }});
  ops.push_back({"group_bundle", "-", 3, [](int v, Out & o) {
                   const auto & g = W->bun;
                   const auto & a = W->a9[v];
                   put(o, (g + a).coeffs());
                   put(o, g.inverse().coeffs());
                   put(o, g.log());
                   put(o, g.Ad());
                   put(o, BundleT::exp(a).coeffs());
                   put(o, BundleT::dr_exp(a));
                   put(o, BundleT::dr_expinv(a));
                   put(o, BundleT::d2r_exp(a));
                 }});
  // ---- manifolds on shared const objects
  ops.push_back({"submanifold_rplus", "SubManifold", 1, [](int v, Out & o) {
                   const SubSE3 r = ::smooth::rplus(*W->sub_se3, W->a4[v]);
                   put(o, r.m().coeffs());
                   put(o, r.m0().coeffs());
                   put(o, double(r.dof()));
                 }});
  ops.push_back({"submanifold_rminus", "SubManifold", 1, [](int v, Out & o) {
                   put(o, ::smooth::rminus(*W->sub_se3, *W->sub_se3_others[v]));
                 }});
  ops.push_back({"submanifold_dof", "SubManifold", 1, [](int, Out & o) {
                   put(o, double(::smooth::dof(*W->sub_se3)));
                   put(o, double(W->sub_se3->dof()));
                   put(o, W->sub_se3->m().coeffs());
                 }});
  ops.push_back({"anymanifold_se3", "AnyManifold", 1, [](int v, Out & o) {
                   const AnyManifold r = ::smooth::rplus(*W->any_se3, W->a6[v]);
                   put(o, r.get<SE3d>().coeffs());
                   put(o, ::smooth::rminus(*W->any_se3_others[v], *W->any_se3));
                   put(o, double(::smooth::dof(*W->any_se3)));
                 }});
  ops.push_back({"anymanifold_of_submanifold", "AnyManifold,SubManifold", 1, [](int v, Out & o) {
                   const AnyManifold r = ::smooth::rplus(*W->any_sub, W->a2[v]);
                   put(o, r.get<SubSO3>().m().coeffs());
                   put(o, double(::smooth::dof(*W->any_sub)));
                 }});
  ops.push_back({"vector_manifold", "-", 2, [](int v, Out & o) {
                   const std::vector<SO3d> r = ::smooth::rplus(W->vec_so3, W->a12[v]);
                   for (const auto & g : r) put(o, g.coeffs());
                   put(o, ::smooth::rminus(W->vec_others[v], W->vec_so3));
                   put(o, double(::smooth::dof(W->vec_so3)));
                 }});
  // ---- curves (first use of function-local statics happens here, from all threads at once)
  ops.push_back({"spline_eval", "Spline", 3, [](int v, Out & o) {
                   Eigen::Matrix<double, 6, 1> vel, acc;
                   put(o, (*W->spline3)(W->ts[v], vel, acc).coeffs());
                   put(o, vel);
                   put(o, acc);
                   put(o, W->spline3->arclength(W->ts[v]));
                   put(o, W->spline3->t_max());
                   Eigen::Vector3d v5, a5;
                   put(o, (*W->spline5)(0.7 * W->ts[v], v5, a5).coeffs());
                   put(o, v5);
                   put(o, a5);
                 }});
  ops.push_back({"bspline_eval", "BSpline", 3, [](int v, Out & o) {
                   Eigen::Vector3d vel, acc;
                   put(o, (*W->bspline3)(W->ts[v], vel, acc).coeffs());
                   put(o, vel);
                   put(o, acc);
                   Eigen::Vector3d v2, a2;
                   put(o, (*W->bspline5)(W->ts[v] - 1.0, v2, a2).coeffs());
                   put(o, v2);
                   put(o, a2);
                   put(o, W->bspline3->t_max());
                 }});
  // ---- sparse derivatives into THREAD-PRIVATE outputs (copied from the shared inline patterns)
  ops.push_back({"sparse_se3", "lie_sparse", 4, [](int v, Out & o) {
                   Eigen::SparseMatrix<double> ad = ad_sparse_pattern<SE3d>;
                   ad_sparse<SE3d>(ad, W->a6[v]);
                   put_sparse(o, ad);
                   Eigen::SparseMatrix<double> d1 = d_exp_sparse_pattern<SE3d>;
                   dr_exp_sparse<SE3d>(d1, W->a6[v]);
                   put_sparse(o, d1);
                   dr_expinv_sparse<SE3d>(d1, W->a6[v]);
                   put_sparse(o, d1);
                   Eigen::SparseMatrix<double> d2 = d2_exp_sparse_pattern<SE3d>;
                   d2r_exp_sparse<SE3d>(d2, W->a6[v]);
                   put_sparse(o, d2);
                   d2r_expinv_sparse<SE3d>(d2, W->a6[v]);
                   put_sparse(o, d2);
                 }});
  ops.push_back({"sparse_so3_se2", "lie_sparse", 3, [](int v, Out & o) {
                   Eigen::SparseMatrix<double> d1 = d_exp_sparse_pattern<SO3d>;
                   dr_exp_sparse<SO3d>(d1, W->a3[v]);
                   put_sparse(o, d1);
                   Eigen::SparseMatrix<double> d2 = d2_exp_sparse_pattern<SO3d>;
                   d2r_exp_sparse<SO3d>(d2, W->a3[v]);
                   put_sparse(o, d2);
                   Eigen::SparseMatrix<double> e1 = d_exp_sparse_pattern<SE2d>;
                   dr_expinv_sparse<SE2d>(e1, W->a3[v]);
                   put_sparse(o, e1);
                   Eigen::SparseMatrix<double> e2 = d2_exp_sparse_pattern<SE2d>;
                   d2r_expinv_sparse<SE2d>(e2, W->a3[v]);
                   put_sparse(o, e2);
                   Eigen::SparseMatrix<double> ad = ad_sparse_pattern<SE2d>;
                   ad_sparse<SE2d>(ad, W->a3[v]);
                   put_sparse(o, ad);
                 }});
  ops.push_back({"sparse_bundle", "lie_sparse", 5, [](int v, Out & o) {
                   Eigen::SparseMatrix<double> d1 = d_exp_sparse_pattern<BundleT>;
                   dr_exp_sparse<BundleT>(d1, W->a9[v]);
                   put_sparse(o, d1);
                   dr_expinv_sparse<BundleT>(d1, W->a9[v]);
                   put_sparse(o, d1);
                   Eigen::SparseMatrix<double> d2 = d2_exp_sparse_pattern<BundleT>;
                   d2r_exp_sparse<BundleT>(d2, W->a9[v]);
                   put_sparse(o, d2);
                   Eigen::SparseMatrix<double> ad = ad_sparse_pattern<BundleT>;
                   ad_sparse<BundleT>(ad, W->a9[v]);
                   put_sparse(o, ad);
                   // block offset into a larger thread-private matrix
                   Eigen::SparseMatrix<double> big(12, 12);
                   for (int i = 0; i < 12; ++i)
                     for (int j = 0; j < 12; ++j) big.insert(i, j) = 0.0;
                   big.makeCompressed();
                   dr_exp_sparse<SE3d>(big, W->a6[v], 3);
                   put_sparse(o, big);
                 }});
  // ---- independent diff::dr / minimize / fit calls (shared const inputs, private variables)
  ops.push_back({"diff_dr", "diff", 6, [](int v, Out & o) {
                   const SO3d & ref = W->so3;
                   SO3d x           = W->so3s[v];
                   SE3d y           = W->se3s[v];
                   auto f = [&ref](const auto & g, const auto & p) -> Eigen::Matrix<double, 6, 1> {
                     Eigen::Matrix<double, 6, 1> ret;
                     ret << (g - ref), (p.so3() * g).log();
                     return ret;
                   };
                   const auto [fv, J] = diff::dr<1, diff::Type::Numerical>(f, wrt(x, y));
                   put(o, fv);
                   put(o, J);
                   auto h = [&ref](const auto & g) -> double { return (g - ref).squaredNorm(); };
                   const auto [hv, dh, d2h] = diff::dr<2, diff::Type::Numerical>(h, wrt(x));
                   put(o, hv);
                   put(o, dh);
                   put(o, d2h);
                   put(o, x.coeffs());
                   put(o, y.coeffs());
                 }});
  ops.push_back({"minimize", "minimize", 40, [](int v, Out & o) {
                   const SO3d & target = W->so3;
                   SO3d g1             = W->so3s[v];
                   SO3d g2             = W->so3s[(v + 3) % NV];
                   auto f = [&target](const auto & v1, const auto & v2) -> Eigen::Matrix<double, 9, 1> {
                     Eigen::Matrix<double, 9, 1> ret;
                     ret << (v1 - target), v2.log(), (v1 - v2) - Eigen::Vector3d::Constant(0.25);
                     return ret;
                   };
                   const auto res = minimize<diff::Type::Numerical>(f, wrt(g1, g2));  // default (own) options
                   put(o, g1.coeffs());
                   put(o, g2.coeffs());
                   put(o, double(res.iter));
                   put(o, double(int(res.status)));
                 }});
  ops.push_back({"fit_spline", "fit", 60, [](int v, Out & o) {
                   const auto c = fit_spline(W->fit_t, W->fit_g[v], spline_specs::FixedDerCubic<SO3d>{});
                   for (double t : {0.0, 0.6, 1.5, 2.2, 4.0}) {
                     Eigen::Vector3d vel;
                     put(o, c(t, vel).coeffs());
                     put(o, vel);
                   }
                   put(o, c.t_max());
                 }});
  ops.push_back({"fit_bspline", "fit,minimize,BSpline", 400, [](int v, Out & o) {
                   const auto b = fit_bspline<3>(W->bfit_t, W->bfit_g[v], 1.0);
                   for (double t : {2.0, 3.1, 4.7, 6.0}) put(o, b(t).coeffs());
                   put(o, b.t_max());
                 }});
  return ops;
}

// ------------------------------------------------------------------------------------------------
static bool write_all(int fd, const void * p, size_t n)
{
  const char * c = static_cast<const char *>(p);
  while (n) {
    ssize_t k = ::write(fd, c, n);
    if (k <= 0) return false;
    c += k;
    n -= size_t(k);
  }
  return true;
}
static bool read_all(int fd, void * p, size_t n)
{
  char * c = static_cast<char *>(p);
  while (n) {
    ssize_t k = ::read(fd, c, n);
    if (k <= 0) return false;
    c += k;
    n -= size_t(k);
  }
  return true;
}

int main(int argc, char ** argv)
{
  const std::string mode = argc > 1 ? argv[1] : "list";
  std::vector<Op> ops    = catalogue();
  if (mode == "list") {
    for (const auto & op : ops) std::printf("%s touches=%s weight=%d\n", op.name, op.touches, op.weight);
    return 0;
  }
  if (mode != "run" || argc < 4) {
    std::fprintf(stderr, "usage: conc run <threads> <iters> [opfilter]\n");
    return 2;
  }
  const int T            = std::atoi(argv[2]);
  const long iters       = std::atol(argv[3]);
  const std::string filt = argc > 4 ? argv[4] : "";
  if (!filt.empty() && filt != "all") {
    std::vector<Op> sel;
    for (auto & op : ops)
      if (("," + filt + ",").find("," + std::string(op.name) + ",") != std::string::npos) sel.push_back(op);
    ops = sel;
  }
  const uint64_t seed = vh::seed_from_env();
  // NOTE: constructing the world uses exp / composition / Spline construction; BSpline::operator() and
  // fit code are NOT executed here, so their function-local statics are untouched in the parent.
  static const World world(seed);
  W = &world;

  // ---- sequential reference in a forked child (parent stays "cold")
  std::vector<std::vector<Out>> ref(ops.size(), std::vector<Out>(NV));
  {
    int fds[2];
    if (pipe(fds) != 0) return 2;
    const pid_t pid = fork();
    if (pid < 0) return 2;
    if (pid == 0) {
      close(fds[0]);
      for (std::size_t k = 0; k < ops.size(); ++k)
        for (int v = 0; v < NV; ++v) {
          Out o;
          ops[k].f(v, o);
          Out o2;  // run-to-run determinism of the sequential run itself
          ops[k].f(v, o2);
          uint64_t n = o.size();
          if (o2.size() != o.size() || std::memcmp(o.data(), o2.data(), n * sizeof(double)) != 0) n = ~0ull;
          if (!write_all(fds[1], &n, sizeof n)) _exit(3);
          if (n != ~0ull && !write_all(fds[1], o.data(), n * sizeof(double))) _exit(3);
        }
      close(fds[1]);
      _exit(0);
    }
    close(fds[1]);
    for (std::size_t k = 0; k < ops.size(); ++k)
      for (int v = 0; v < NV; ++v) {
        uint64_t n = 0;
        if (!read_all(fds[0], &n, sizeof n)) {
          std::fprintf(stderr, "reference process failed at op %s\n", ops[k].name);
          return 3;
        }
        if (n == ~0ull) {
          std::printf("op=%s phase=sequential threads=1 calls=2 mismatches=1 touches=%s first=%d\n", ops[k].name, ops[k].touches, v);
          ref[k][v].clear();
          continue;
        }
        ref[k][v].resize(n);
        if (n && !read_all(fds[0], ref[k][v].data(), n * sizeof(double))) return 3;
      }
    close(fds[0]);
    int st = 0;
    waitpid(pid, &st, 0);
    if (!WIFEXITED(st) || WEXITSTATUS(st) != 0) {
      std::fprintf(stderr, "reference process exited abnormally\n");
      return 3;
    }
  }

  // ---- threaded phase
  struct Stat
  {
    std::atomic<long> calls{0}, mism{0};
    std::atomic<int> first{-1};
  };
  std::vector<Stat> stats(ops.size()), mixed(ops.size());
  std::barrier bar(T);
  auto check = [&](std::size_t k, int v, Stat & st) {
    Out o;
    ops[k].f(v, o);
    st.calls.fetch_add(1, std::memory_order_relaxed);
    const Out & r = ref[k][v];
    if (o.size() != r.size() || std::memcmp(o.data(), r.data(), r.size() * sizeof(double)) != 0) {
      st.mism.fetch_add(1, std::memory_order_relaxed);
      int e = -1;
      st.first.compare_exchange_strong(e, v);
    }
  };
  auto worker = [&](int tid) {
    for (std::size_t k = 0; k < ops.size(); ++k) {
      const long n = std::max<long>(2, iters / ops[k].weight);
      bar.arrive_and_wait();  // everybody starts the op (and its first use) at the same time
      for (long it = 0; it < n; ++it) check(k, int((tid * 5 + it * 3 + (it / NV)) % NV), stats[k]);
    }
    // mixed round: every thread walks the whole catalogue in its own (seeded) order
    vh::Rng r(seed * 1000003ull + uint64_t(tid));
    bar.arrive_and_wait();
    const long n = std::max<long>(ops.size(), iters / 4);
    for (long it = 0; it < n; ++it) {
      std::size_t k = std::size_t(r.below(int(ops.size())));
      if (ops[k].weight > 50 && r.below(8) != 0) k = std::size_t(r.below(int(std::min<std::size_t>(ops.size(), 14))));
      check(k, r.below(NV), mixed[k]);
    }
  };
  std::vector<std::thread> th;
  for (int t = 0; t < T; ++t) th.emplace_back(worker, t);
  for (auto & t : th) t.join();
  for (int ph = 0; ph < 2; ++ph)
    for (std::size_t k = 0; k < ops.size(); ++k) {
      const Stat & st = ph == 0 ? stats[k] : mixed[k];
      const int f     = st.first.load();
      std::printf("op=%s phase=%s threads=%d calls=%ld mismatches=%ld touches=%s first=%s\n", ops[k].name, ph == 0 ? "same-op" : "mixed",
        T, st.calls.load(), st.mism.load(), ops[k].touches, f < 0 ? "-" : std::to_string(f).c_str());
    }
  return 0;
}
