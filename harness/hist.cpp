// hist.cpp — operation-history harness (C15).
//
// A register machine over the real library types: 6 element registers and 4 tangent registers per
// group type.  Programs are (a) random (length 1..200), (b) long homogeneous chains (up to 1e5,
// encoded as loops), (c) FAMILY 3: the same with fixed-step integration steps through the
// boost::odeint adaptor (compat/odeint.hpp), plus integrate_n_steps runs.
//
// Every executed op is emitted as a standard protocol line with the CURRENT register contents as
// inputs and the implementation's result as output (so the driver's model checks every step, T1):
//     compose G prec g1 g2 | out        inverse G prec g | out       exp G prec a | out
//     rplus G prec g a | out            hist_cast G prec g | out     hist_liftproj G prec g | out
//     hist_ode G prec stepper h g v | out
// and every program ends with a trailer
//     hist_audit G <prec>a NE NT NOPS init-elements init-tangents ops… | checkpoints…
// (small integers as exact floating-point words) from which the driver replays the whole history
// with the exact oracle.  Op entries are 4 words `code d a b` (+ extras):
//     0 compose  E[d] = E[a] * E[b]          5 plus_assign E[d] += T[a]
//     1 inverse  E[d] = E[a].inverse()       6 cast        E[d] = E[a].cast<S>()
//     2 exp      E[d] = exp(T[a])            7 liftproj    E[d] = E[a].lift().project()  (SO2, SE2)
//     3 rplus    E[d] = E[a] + T[b]          8 settan      T[d] = <dof extra words>
//     4 mul_assign E[d] *= E[a]              9 ode         E[d] = do_step(E[a]; v = T[b]); extras: stepper, h
//    10 loop: repeat the next `d` entries `a` times
//    11 lift     L[d] = E[a].lift_so3() / lift_se3()      (SO2, SE2: lifted registers L hold SO3 / SE3 elements)
//    12 project  E[d] = L[a].project_so2() / project_se2()
//    13 initial content of L[d] (extras: its coefficients) — a header extension, NOT an executed op
// Step lines of the new ops:  hist_lift G prec g | q      hist_project G prec q | g
// Checkpoint entries: `k r coeffs…` = contents of E[r] after k executed primitive ops; r >= 100: lifted
// register L[r-100] (coefficients of the companion type).
//
// Program families: random / chains / fan-in / odeint as before (their random stream is untouched), plus,
// for the groups with lifts and from a separate stream, (s) special-point scripts — registers at the
// constructors' special points (half turn: SO2(pi), SO2(-pi), SO2(0,-1), SO2(-0,-1), SO2(complex(-2,0)),
// pi -+ 10^U(-12,-3), odd multiples of pi, quarter*quarter, half*identity, exp(pi), identity += pi) followed by
// lift / lift∘project / project, (l) random programs with lift/project in the op mix and special points
// in the registers, (h) chains that END at a half turn ((G(pi/N))^N by *=, x*g, +=, odeint steps) followed by
// lift, lift∘project, project, (g) projections next to the singularity of the yaw (informational).
//
// Modes:  ./hist <nprog> <maxlen> <chainlen>   generation (VERIF_SEED)
//         ./hist eval  < step request lines    re-evaluate single ops
//         ./hist prog  < hist_audit lines      re-execute encoded programs (replay, shrinking)
#include <smooth/bundle.hpp>
#include <smooth/c1.hpp>
#include <smooth/galilei.hpp>
#include <smooth/se2.hpp>
#include <smooth/se3.hpp>
#include <smooth/se_k_3.hpp>
#include <smooth/so2.hpp>
#include <smooth/so3.hpp>

#ifndef FAMILY
#define FAMILY 0
#endif

#if FAMILY == 3 || FAMILY == 9
#include <boost/numeric/odeint.hpp>
#include <smooth/compat/odeint.hpp>
#define WITH_ODE 1
#else
#define WITH_ODE 0
#endif

#include <sstream>

#include "common.hpp"

using namespace vh;

// ------------------------------------------------------------------ names and tangent generators
template<class G>
struct Gen;

template<class S>
S sw()
{
  return std::sqrt(S(smooth::eps2));
}

// tangent(r, angle stratum, translation magnitude, chain length hint)
template<class S>
struct Gen<smooth::SO2<S>>
{
  using G = smooth::SO2<S>;
  static std::string name() { return "SO2"; }
  static typename G::Tangent tangent(Rng & r, int as, double tm, int)
  {
    typename G::Tangent a;
    a(0) = S(r.sign() * gen_angle(r, as, 0, sw<S>()));
    return a;
  }
};
template<class S>
struct Gen<smooth::C1<S>>
{
  using G = smooth::C1<S>;
  static std::string name() { return "C1"; }
  static typename G::Tangent tangent(Rng & r, int as, double tm, int nchain)
  {
    typename G::Tangent a;
    // log-scale part kept small so that the modulus stays representable along a chain
    a(0) = S(r.uni(-0.3, 0.3) / std::max(1, nchain / 10));
    a(1) = S(r.sign() * gen_angle(r, as, 0, sw<S>()));
    return a;
  }
};
template<class S>
struct Gen<smooth::SO3<S>>
{
  using G = smooth::SO3<S>;
  static std::string name() { return "SO3"; }
  static typename G::Tangent tangent(Rng & r, int as, double, int) { return gen_dir3<S>(r) * S(gen_angle(r, as, 0, sw<S>())); }
};
template<class S>
struct Gen<smooth::SE2<S>>
{
  using G = smooth::SE2<S>;
  static std::string name() { return "SE2"; }
  static typename G::Tangent tangent(Rng & r, int as, double tm, int)
  {
    typename G::Tangent a;
    a(0) = S(r.uni(-tm, tm));
    a(1) = S(r.uni(-tm, tm));
    a(2) = S(r.sign() * gen_angle(r, as, 0, sw<S>()));
    return a;
  }
};
template<class S>
struct Gen<smooth::SE3<S>>
{
  using G = smooth::SE3<S>;
  static std::string name() { return "SE3"; }
  static typename G::Tangent tangent(Rng & r, int as, double tm, int)
  {
    typename G::Tangent a;
    for (int i = 0; i < 3; ++i) a(i) = S(r.uni(-tm, tm));
    a.template tail<3>() = gen_dir3<S>(r) * S(gen_angle(r, as, 0, sw<S>()));
    return a;
  }
};
template<class S>
struct Gen<smooth::Galilei<S>>
{
  using G = smooth::Galilei<S>;
  static std::string name() { return "GAL"; }
  static typename G::Tangent tangent(Rng & r, int as, double tm, int)
  {
    typename G::Tangent a;
    for (int i = 0; i < 6; ++i) a(i) = S(r.uni(-tm, tm));
    a(6) = S(r.below(4) == 0 ? 0.0 : r.uni(-2, 2));
    a.template tail<3>() = gen_dir3<S>(r) * S(gen_angle(r, as, 0, sw<S>()));
    return a;
  }
};
template<class S, int K>
struct Gen<smooth::SE_K_3<S, K>>
{
  using G = smooth::SE_K_3<S, K>;
  static std::string name() { return "SEK" + std::to_string(K); }
  static typename G::Tangent tangent(Rng & r, int as, double tm, int)
  {
    typename G::Tangent a;
    for (int i = 0; i < 3 * K; ++i) a(i) = S(r.uni(-tm, tm));
    a.template tail<3>() = gen_dir3<S>(r) * S(gen_angle(r, as, 0, sw<S>()));
    return a;
  }
};
template<class S, int N>
struct Gen<Eigen::Matrix<S, N, 1>>
{
  using G = Eigen::Matrix<S, N, 1>;
  static std::string name() { return "T" + std::to_string(N); }
  static G tangent(Rng & r, int, double tm, int)
  {
    G a;
    for (int i = 0; i < N; ++i) a(i) = S(r.uni(-tm, tm));
    return a;
  }
};
template<class... Gs>
struct Gen<smooth::Bundle<Gs...>>
{
  using G = smooth::Bundle<Gs...>;
  static std::string name()
  {
    std::string s = "B[";
    bool first    = true;
    ((s += (first ? "" : ",") + Gen<Gs>::name(), first = false), ...);
    return s + "]";
  }
  static typename G::Tangent tangent(Rng & r, int as, double tm, int nchain)
  {
    typename G::Tangent a;
    int off = 0;
    (
      [&] {
        const int as_i = (as + r.below(2) * r.below(N_ANGLE_STRATA)) % N_ANGLE_STRATA;
        auto ai        = Gen<Gs>::tangent(r, as_i, tm, nchain);
        a.segment(off, ai.size()) = ai;
        off += int(ai.size());
      }(),
      ...);
    return a;
  }
};

template<class S>
S parse_word(const std::string & w)
{
  if constexpr (std::is_same_v<S, double>) {
    uint64_t u = std::strtoull(w.c_str(), nullptr, 16);
    double d;
    std::memcpy(&d, &u, 8);
    return d;
  } else {
    uint32_t u = uint32_t(std::strtoul(w.c_str(), nullptr, 16));
    float d;
    std::memcpy(&d, &u, 4);
    return d;
  }
}

template<class S>
std::string hexword(S x)
{
  char buf[24];
  if constexpr (std::is_same_v<S, double>) {
    uint64_t u;
    std::memcpy(&u, &x, 8);
    std::snprintf(buf, sizeof buf, " %016llx", static_cast<unsigned long long>(u));
  } else {
    uint32_t u;
    std::memcpy(&u, &x, 4);
    std::snprintf(buf, sizeof buf, " %08x", u);
  }
  return buf;
}

// ------------------------------------------------------------------ lift / project round trips
template<class G>
struct HasLift : std::false_type
{};
template<class S>
struct HasLift<smooth::SO2<S>> : std::true_type
{};
template<class S>
struct HasLift<smooth::SE2<S>> : std::true_type
{};

// companion type H of a group with lifts; groups without: H = G (registers unused)
template<class G>
struct Lifted
{
  using H = G;
  static H lift(const G & g) { return g; }
  static G project(const H & h) { return h; }
};
template<class S>
struct Lifted<smooth::SO2<S>>
{
  using H = smooth::SO3<S>;
  static H lift(const smooth::SO2<S> & g) { return g.lift_so3(); }
  static smooth::SO2<S> project(const H & h) { return h.project_so2(); }
};
template<class S>
struct Lifted<smooth::SE2<S>>
{
  using H = smooth::SE3<S>;
  static H lift(const smooth::SE2<S> & g) { return g.lift_se3(); }
  static smooth::SE2<S> project(const H & h) { return h.project_se2(); }
};

template<class S>
smooth::SO2<S> liftproj(const smooth::SO2<S> & g)
{
  return g.lift_so3().project_so2();
}
template<class S>
smooth::SE2<S> liftproj(const smooth::SE2<S> & g)
{
  return g.lift_se3().project_se2();
}

// ------------------------------------------------------------------ odeint steppers
constexpr int N_STEPPERS = 5;
inline const char * stepper_name(int i)
{
  static const char * n[] = {"euler", "runge_kutta4", "runge_kutta_cash_karp54", "runge_kutta_dopri5", "runge_kutta_fehlberg78"};
  return n[i];
}

#if WITH_ODE
namespace ode = boost::numeric::odeint;

// stage log: (t - t0, state) of every system evaluation
template<class G>
struct StageLog
{
  using S = typename G::Scalar;
  std::vector<std::pair<S, G>> * log = nullptr;
};

template<class G, class F>
void with_stepper(int id, F && f)
{
  using S = typename G::Scalar;
  using T = typename G::Tangent;
  switch (id) {
  case 0: { ode::euler<G, S, T, S, ode::vector_space_algebra> st; f(st); } break;
  case 1: { ode::runge_kutta4<G, S, T, S, ode::vector_space_algebra> st; f(st); } break;
  case 2: { ode::runge_kutta_cash_karp54<G, S, T, S, ode::vector_space_algebra> st; f(st); } break;
  case 3: { ode::runge_kutta_dopri5<G, S, T, S, ode::vector_space_algebra> st; f(st); } break;
  default: { ode::runge_kutta_fehlberg78<G, S, T, S, ode::vector_space_algebra> st; f(st); } break;
  }
}

// one fixed step of size h with constant body velocity v
template<class G>
G ode_step(int id, typename G::Scalar h, const G & x0, const typename G::Tangent & v,
  std::vector<std::pair<typename G::Scalar, G>> * log = nullptr)
{
  using S = typename G::Scalar;
  using T = typename G::Tangent;
  G x     = x0;
  auto sys = [&](const G & xs, T & d, S t) {
    d = v;
    if (log) log->emplace_back(t, xs);
  };
  with_stepper<G>(id, [&](auto & st) { st.do_step(sys, x, S(0), h); });
  return x;
}

template<class G>
G ode_run(int id, typename G::Scalar h, int n, const G & x0, const typename G::Tangent & v)
{
  using S = typename G::Scalar;
  using T = typename G::Tangent;
  G x     = x0;
  auto sys = [&](const G &, T & d, S) { d = v; };
  with_stepper<G>(id, [&](auto & st) { ode::integrate_n_steps(st, sys, x, S(0), h, n); });
  return x;
}
#endif

#if FAMILY == 9
// probe: modified_midpoint through the adaptor (expected not to compile on the pinned tree:
// BoostOdeintOps has no scale_sum_swap2 and the final stage adds two states)
int main()
{
  using G = smooth::SO3d;
  using T = G::Tangent;
  T v(0.1, 0.2, 0.3);
  auto sys = [&](const G &, T & d, double) { d = v; };
  G x = G::Identity();
  boost::numeric::odeint::modified_midpoint<G, double, T, double, boost::numeric::odeint::vector_space_algebra> st;
  boost::numeric::odeint::integrate_n_steps(st, sys, x, 0.0, 0.1, 10);
  const G e = G::exp(v);
  std::printf("hist_mm_probe %.3e\n", (x.coeffs() - e.coeffs()).norm());
  return 0;
}
#else

// ------------------------------------------------------------------ the register machine
struct OpRec
{
  int code = 0, d = 0, a = 0, b = 0;
  std::vector<double> extra;  // settan: tangent; ode: stepper, h (values exactly representable in S)
};

constexpr int NE = 6, NT = 4, NL = 3;

template<class G>
struct Machine
{
  using S       = typename smooth::liebase_info<G>::Scalar;
  using Tangent = typename G::Tangent;
  static constexpr int Rep = G::RepSize;
  static constexpr int Dof = G::Dof;

  using H = typename Lifted<G>::H;
  static constexpr int LRep = HasLift<G>::value ? int(H::RepSize) : 0;

  G E[NE];
  Tangent T[NT];
  H L[NL] = {H::Identity(), H::Identity(), H::Identity()};
  long W[NE] = {0, 0, 0, 0, 0, 0};
  long WL[NL] = {0, 0, 0};
  std::string gname = Gen<G>::name();

  template<class D>
  static std::string wv(const Eigen::MatrixBase<D> & v)
  {
    std::string s;
    for (Eigen::Index i = 0; i < v.size(); ++i) s += hexword<S>(S(v(i)));
    return s;
  }

  static bool supported(int code)
  {
    if (code == 7 || code == 11 || code == 12 || code == 13) return HasLift<G>::value;
    if (code == 9) return WITH_ODE != 0;
    return code >= 0 && code <= 9;
  }

  long weight_after(const OpRec & o) const
  {
    switch (o.code) {
    case 0: return W[o.a] + W[o.b] + 1;
    case 1: return W[o.a] + 1;
    case 2: return 1;
    case 3: return W[o.a] + 1;
    case 4: return W[o.d] + W[o.a] + 1;
    case 5: return W[o.d] + 1;
    case 6: return W[o.a] + 1;
    case 7: return W[o.a] + 1;
    case 9: return W[o.a] + 1;
    case 11: return W[o.a] + 1;
    case 12: return WL[o.a] + 1;
    default: return 0;
    }
  }

  // executes one primitive op; returns the protocol line of the step (without newline)
  std::string apply(const OpRec & o, bool want_line)
  {
    const std::string head = " " + gname + " " + Prec<S>::name;
    std::string line;
    const long wnew = weight_after(o);
    switch (o.code) {
    case 0: {
      if (want_line) line = "compose" + head + wv(E[o.a].coeffs()) + wv(E[o.b].coeffs());
      const G r = E[o.a] * E[o.b];
      E[o.d]    = r;
    } break;
    case 1: {
      if (want_line) line = "inverse" + head + wv(E[o.a].coeffs());
      const G r = E[o.a].inverse();
      E[o.d]    = r;
    } break;
    case 2: {
      if (want_line) line = "exp" + head + wv(T[o.a]);
      E[o.d] = G::exp(T[o.a]);
    } break;
    case 3: {
      if (want_line) line = "rplus" + head + wv(E[o.a].coeffs()) + wv(T[o.b]);
      const G r = E[o.a] + T[o.b];
      E[o.d]    = r;
    } break;
    case 4: {
      if (want_line) line = "compose" + head + wv(E[o.d].coeffs()) + wv(E[o.a].coeffs());
      E[o.d] *= E[o.a];
    } break;
    case 5: {
      if (want_line) line = "rplus" + head + wv(E[o.d].coeffs()) + wv(T[o.a]);
      E[o.d] += T[o.a];
    } break;
    case 6: {
      if (want_line) line = "hist_cast" + head + wv(E[o.a].coeffs());
      const G r = E[o.a].template cast<S>();
      E[o.d]    = r;
    } break;
    case 7: {
      if constexpr (HasLift<G>::value) {
        if (want_line) line = "hist_liftproj" + head + wv(E[o.a].coeffs());
        const G r = liftproj(E[o.a]);
        E[o.d]    = r;
      }
    } break;
    case 8: {
      for (int i = 0; i < Dof; ++i) T[o.d](i) = S(o.extra[i]);
      return "";
    }
    case 9: {
#if WITH_ODE
      const int id = int(o.extra[0]);
      const S h    = S(o.extra[1]);
      if (want_line) line = "hist_ode" + head + hexword<S>(S(id)) + hexword<S>(h) + wv(E[o.a].coeffs()) + wv(T[o.b]);
      const G r = ode_step<G>(id, h, E[o.a], T[o.b]);
      E[o.d]    = r;
#endif
    } break;
    case 11: {
      if constexpr (HasLift<G>::value) {
        if (want_line) line = "hist_lift" + head + wv(E[o.a].coeffs());
        const H r = Lifted<G>::lift(E[o.a]);
        L[o.d]    = r;
        WL[o.d]   = wnew;
        if (want_line) line += " |" + wv(L[o.d].coeffs());
      }
      return line;
    }
    case 12: {
      if constexpr (HasLift<G>::value) {
        if (want_line) line = "hist_project" + head + wv(L[o.a].coeffs());
        const G r = Lifted<G>::project(L[o.a]);
        E[o.d]    = r;
      }
    } break;
    case 13: {
      if constexpr (HasLift<G>::value) {
        for (int i = 0; i < LRep; ++i) L[o.d].coeffs()(i) = S(o.extra[i]);
        WL[o.d] = 0;
      }
      return "";
    }
    default: break;
    }
    W[o.d] = wnew;
    if (want_line) line += " |" + wv(E[o.d].coeffs());
    return line;
  }

  // number of extra words of an op entry
  static int n_extra(int code) { return code == 8 ? Dof : code == 9 ? 2 : code == 13 ? LRep : 0; }

  bool reg_ok(int d, double bound) const
  {
    double m = 0;
    for (int i = 0; i < Rep; ++i) {
      const double c = double(E[d].coeffs()(i));
      if (!std::isfinite(c)) return false;
      m = std::max(m, std::fabs(c));
    }
    if (m > bound) return false;
    if constexpr (std::is_same_v<G, smooth::C1<S>>) {
      const double n2 = double(E[d].coeffs().squaredNorm());
      if (n2 < 1e-6 || n2 > 1e6) return false;
    }
    return true;
  }
};

static const char * op_name(int code)
{
  static const char * n[] = {"compose", "inverse", "exp", "rplus", "mul_assign", "plus_assign", "cast", "liftproj", "settan", "ode", "loop",
    "lift", "project", "setlift"};
  return n[code];
}

// ------------------------------------------------------------------ program execution + emission
template<class G>
struct Runner
{
  using M       = Machine<G>;
  using S       = typename M::S;
  using Tangent = typename G::Tangent;

  FILE * f;
  std::string tagbase;

  // trailer assembly
  std::string init_words;
  std::vector<OpRec> ops;
  std::string ck_words;
  long k = 0;

  void start(const M & m)
  {
    init_words.clear();
    ops.clear();
    ck_words.clear();
    k = 0;
    for (int i = 0; i < NE; ++i) init_words += M::wv(m.E[i].coeffs());
    for (int i = 0; i < NT; ++i) init_words += M::wv(m.T[i]);
  }

  // header extension: the current lifted registers as code-13 entries (call right after start())
  void prologue(const M & m)
  {
    if constexpr (HasLift<G>::value) {
      for (int i = 0; i < NL; ++i) {
        OpRec o;
        o.code = 13;
        o.d    = i;
        for (int j = 0; j < M::LRep; ++j) o.extra.push_back(double(m.L[i].coeffs()(j)));
        ops.push_back(o);
      }
    }
  }

  void checkpoint(const M & m, int r)
  {
    ck_words += hexword<S>(S(k)) + hexword<S>(S(r)) + M::wv(m.E[r].coeffs());
  }

  void checkpoint_op(const M & m, const OpRec & o)
  {
    if (o.code == 8 || o.code == 13) return;
    if (o.code == 11) {
      if constexpr (HasLift<G>::value) ck_words += hexword<S>(S(k)) + hexword<S>(S(100 + o.d)) + M::wv(m.L[o.d].coeffs());
      return;
    }
    checkpoint(m, o.d);
  }

  static std::string op_words(const OpRec & o)
  {
    std::string s = hexword<S>(S(o.code)) + hexword<S>(S(o.d)) + hexword<S>(S(o.a)) + hexword<S>(S(o.b));
    for (double e : o.extra) s += hexword<S>(S(e));
    return s;
  }

  void trailer(const M & m, const char * shape)
  {
    std::string s = "hist_audit " + m.gname + " " + Prec<S>::name + "a";
    s += hexword<S>(S(NE)) + hexword<S>(S(NT)) + hexword<S>(S(ops.size()));
    s += init_words;
    for (auto & o : ops) s += op_words(o);
    s += " |" + ck_words;
    std::fprintf(f, "%s # %s %s n=%ld\n", s.c_str(), tagbase.c_str(), shape, k);
  }

  // execute `o` as step k+1; emit the step line when `emit`
  void step(M & m, const OpRec & o, bool emit, bool ck)
  {
    const std::string line = m.apply(o, emit);
    ++k;
    if (emit && !line.empty()) std::fprintf(f, "%s # %s k=%ld %s\n", line.c_str(), tagbase.c_str(), k, op_name(o.code));
    if (ck) checkpoint_op(m, o);
  }
};

inline bool chain_mark(long k, long n)
{
  if (k == n || k <= 3) return true;
  long p = 1;
  while (p * 10 <= k) p *= 10;
  return k == p || k == 2 * p || k == 5 * p;
}

// re-execute an encoded program (replay / shrinking / also used by generation of chains)
template<class G>
void execute(FILE * f, Machine<G> & m, const std::vector<OpRec> & ops, const std::string & tagbase, const char * shape)
{
  Runner<G> R{f, tagbase};
  R.start(m);
  R.ops = ops;
  long total = 0;
  for (size_t i = 0; i < ops.size(); ++i) {
    if (ops[i].code == 10) { total += long(ops[i].d) * long(ops[i].a); i += ops[i].d; } else if (ops[i].code != 13) ++total;
  }
  const bool dense = total <= 400;
  for (size_t i = 0; i < ops.size(); ++i) {
    const OpRec & o = ops[i];
    if (o.code == 13) {
      m.apply(o, false);  // initial lifted register: not an executed op
      continue;
    }
    if (o.code == 10) {
      const int len = o.d;
      const long cnt = o.a;
      for (long c = 0; c < cnt; ++c)
        for (int j = 1; j <= len && i + j < ops.size(); ++j) {
          const bool mark = dense || chain_mark(R.k + 1, total);
          R.step(m, ops[i + j], mark, mark);
        }
      i += len;
    } else {
      R.step(m, o, true, true);  // ops outside loops are few: always emitted and checkpointed
    }
  }
  R.trailer(m, shape);
}

// ------------------------------------------------------------------ generation
template<class G>
struct Generator
{
  using M       = Machine<G>;
  using S       = typename M::S;
  using Tangent = typename G::Tangent;
  FILE * f;
  Rng & r;
  bool liftmix = false;  // new families (separate random stream): lift/project in the op mix, special points

  using H = typename Lifted<G>::H;
  static constexpr int N_SPECIAL = 16;

  // distance to the half turn: 10^U(-12,-3) (double), 10^U(-6,-2) (float)
  double near_eps() { return std::is_same_v<S, double> ? r.logu(1e-12, 1e-3) : r.logu(1e-6, 1e-2); }

  // SO2 elements at the constructors' special points (all are constructor outputs)
  smooth::SO2<S> so2_special(int i)
  {
    using R2 = smooth::SO2<S>;
    switch (i) {
    case 0: return R2(S(M_PI));
    case 1: return R2(S(-M_PI));
    case 2: return R2(S(0), S(-1));
    case 3: return R2(S(-0.0), S(-1));
    case 4: return R2(std::complex<S>(S(-2), S(0)));
    case 5: return R2(S(M_PI - near_eps()));
    case 6: return R2(S(-(M_PI - near_eps())));
    case 7: return R2(S(M_PI + near_eps()));
    case 8: return R2(std::complex<S>(S(-1), S(r.sign() * near_eps())));
    case 9: return R2(S(r.sign() * near_eps()), S(-1));
    case 10: return R2(S(3 * M_PI));
    case 11: return R2(S(-5 * M_PI));
    case 12: return R2(std::nextafter(S(M_PI), S(4)));
    case 13: return R2(std::nextafter(S(M_PI), S(0)));
    case 14: return R2(S(M_PI - 1e-4 * r.uni(0.5, 2.0)));
    default: return R2(S(M_PI / 2));  // quarter turn
    }
  }

  G special(int i)
  {
    if constexpr (std::is_same_v<G, smooth::SO2<S>>) {
      return so2_special(i);
    } else if constexpr (std::is_same_v<G, smooth::SE2<S>>) {
      const double tm = r.below(3) == 0 ? 0.0 : 3.0;
      return G(so2_special(i), Eigen::Matrix<S, 2, 1>(S(r.uni(-tm, tm)), S(r.uni(-tm, tm))));
    } else {
      return G::Identity();
    }
  }

  // SO3 / SE3 constructor outputs for the lifted registers: planar at / next to the half turn, planar generic,
  // non-planar
  H lifted_special(int i)
  {
    if constexpr (HasLift<G>::value) {
      using R3 = smooth::SO3<S>;
      R3 q;
      switch (i) {
      case 0: q = R3::rot_z(S(M_PI)); break;
      case 1: q = R3(Eigen::Quaternion<S>(S(0), S(0), S(0), S(1))); break;                       // w = 0 exactly
      case 2: q = R3::rot_z(S(M_PI - near_eps())); break;
      case 3: q = R3::rot_z(S(-(M_PI - near_eps()))); break;
      case 4: q = R3(Eigen::Quaternion<S>(S(near_eps()), S(0), S(0), S(r.sign()))); break;       // normalised by the constructor
      case 5: q = R3::rot_z(S(r.uni(-7, 7))); break;
      case 6: q = R3::exp(gen_dir3<S>(r) * S(r.uni(0.1, 3.0))); break;                            // non-planar
      case 7: q = R3::rot_z(S(r.uni(-3, 3))) * R3::rot_y(S(r.uni(-1.2, 1.2))) * R3::rot_x(S(r.uni(-3, 3))); break;
      default: q = R3::rot_z(S(M_PI)) * R3::rot_x(S(r.uni(-1.2, 1.2))); break;                    // yaw pi, rolled
      }
      if constexpr (std::is_same_v<G, smooth::SO2<S>>) {
        return q;
      } else {
        return H(q, Eigen::Matrix<S, 3, 1>(S(r.uni(-3, 3)), S(r.uni(-3, 3)), S(r.uni(-3, 3))));
      }
    } else {
      return H::Identity();
    }
  }

  Tangent tan(int nchain = 0)
  {
    // strata weights: generic most often, but every band is hit
    static const int strata[] = {5, 5, 5, 4, 4, 3, 3, 1, 1, 2, 6, 7, 8, 0, 5, 4};
    const int as = strata[r.below(16)];
    return Gen<G>::tangent(r, as, r.below(3) == 0 ? 10.0 : 1.0, nchain);
  }

  void init(M & m, int nchain = 0)
  {
    std::srand(unsigned(r.next() & 0x7fffffff));
    m.E[0] = G::Identity();
    m.E[1] = G::exp(tan(nchain));
    m.E[2] = G::exp(tan(nchain)) * G::exp(tan(nchain));
    m.E[3] = G::Random();
    if constexpr (std::is_same_v<G, smooth::C1<S>>) {
      // C1::Random has arbitrary modulus; bring it next to 1 for long chains
      if (nchain > 10) m.E[3] = G::exp(tan(nchain));
    }
    if constexpr (!std::is_same_v<G, smooth::C1<S>>) {
      // translations of Random() are in [-1,1]; fine
    }
    m.E[4] = G::exp(tan(nchain)).inverse();
    m.E[5] = G::exp(Gen<G>::tangent(r, 1 + r.below(2), 1.0, nchain));  // series branch / switch
    if constexpr (std::is_same_v<G, smooth::SO2<S>>) m.E[3] = G(S(r.uni(-4, 4)));
    if constexpr (std::is_same_v<G, smooth::SO3<S>>)
      m.E[3] = G(Eigen::Quaternion<S>(S(r.uni(-1, 1)), S(r.uni(-1, 1)), S(r.uni(-1, 1)), S(r.uni(-1, 1))));
    if constexpr (std::is_same_v<G, smooth::SE2<S>>)
      m.E[3] = G(smooth::SO2<S>(S(r.uni(-4, 4))), Eigen::Matrix<S, 2, 1>(S(r.uni(-3, 3)), S(r.uni(-3, 3))));
    if constexpr (std::is_same_v<G, smooth::SE3<S>>)
      m.E[3] = G(smooth::SO3<S>::rot_z(S(r.uni(-7, 7))) * smooth::SO3<S>::rot_x(S(r.uni(-7, 7))),
        Eigen::Matrix<S, 3, 1>(S(r.uni(-3, 3)), S(r.uni(-3, 3)), S(r.uni(-3, 3))));
    for (int i = 0; i < NT; ++i) m.T[i] = tan(nchain);
    for (int i = 0; i < NE; ++i) m.W[i] = 0;
    if constexpr (HasLift<G>::value) {
      if (liftmix) {
        // two registers at special points, lifted registers: one at / next to the half turn, one planar, one not
        m.E[1 + r.below(NE - 1)] = special(r.below(N_SPECIAL));
        m.E[1 + r.below(NE - 1)] = special(r.below(N_SPECIAL));
        m.L[0] = lifted_special(r.below(5));
        m.L[1] = lifted_special(5 + r.below(2));
        m.L[2] = lifted_special(6 + r.below(3));
        for (int i = 0; i < NL; ++i) m.WL[i] = 0;
      }
    }
  }

  OpRec draw(const M & m, long k)
  {
    OpRec o;
    // op mix
    static const int mix[] = {0, 0, 0, 0, 1, 1, 2, 2, 3, 3, 3, 4, 4, 5, 5, 5, 6, 7, 8, 9, 9, 0, 3, 4};
    static const int mix2[] = {0, 0, 0, 1, 1, 2, 3, 3, 4, 5, 5, 6, 7, 7, 8, 9, 11, 11, 11, 11, 12, 12, 12, 0};
    do { o.code = (liftmix ? mix2 : mix)[r.below(24)]; } while (!M::supported(o.code));
    // main line: the register with the largest history
    int main = 0;
    for (int i = 1; i < NE; ++i)
      if (m.W[i] > m.W[main]) main = i;
    const bool follow = r.below(10) < 7;
    o.d = follow && r.below(2) ? main : r.below(NE);
    o.a = follow ? main : r.below(NE);
    o.b = r.below(NE);
    switch (o.code) {
    case 0:
      if (r.below(3) == 0) std::swap(o.a, o.b);
      break;
    case 1: break;
    case 2: o.a = r.below(NT); break;
    case 3: o.b = r.below(NT); break;
    case 4:
      if (follow) { o.d = main; o.a = r.below(NE); }
      break;
    case 5:
      if (follow) o.d = main;
      o.a = r.below(NT);
      break;
    case 6: break;
    case 7: break;
    case 8: {
      o.d = r.below(NT);
      const Tangent t = tan();
      for (int i = 0; i < M::Dof; ++i) o.extra.push_back(double(t(i)));
    } break;
    case 9: {
      o.b = r.below(NT);
      static const double hs[] = {1.0, 0.5, 0.1, 0.01, 0.001, 0.25};
      o.extra.push_back(double(r.below(N_STEPPERS)));
      o.extra.push_back(double(S(hs[r.below(6)] * r.uni(0.5, 1.0))));
    } break;
    case 11: o.d = r.below(NL); break;
    case 12: o.a = r.below(NL); break;
    }
    (void)k;
    return o;
  }

  void random_program(int id, int len)
  {
    M m;
    init(m);
    Runner<G> R{f, "p" + std::to_string(id)};
    R.start(m);
    if (liftmix) R.prologue(m);
    const double bound = std::is_same_v<S, double> ? 1e6 : 1e4;
    for (long k = 1; k <= len; ++k) {
      bool done = false;
      for (int attempt = 0; attempt < 10 && !done; ++attempt) {
        OpRec o = draw(m, k);
        if (o.code != 8 && m.weight_after(o) > k) continue;
        M save = m;
        const std::string line = m.apply(o, true);
        // magnitude guard (exact result below 1e6); lifts and projections are bounded in exact arithmetic,
        // a non-finite result of theirs is a failure to be reported, not a reason to redraw
        const bool bounded_op = o.code == 7 || o.code == 11 || o.code == 12;
        if (o.code != 8 && !bounded_op && !m.reg_ok(o.d, bound)) { m = save; continue; }
        ++R.k;
        R.ops.push_back(o);
        if (!line.empty()) std::fprintf(f, "%s # %s k=%ld %s\n", line.c_str(), R.tagbase.c_str(), R.k, op_name(o.code));
        R.checkpoint_op(m, o);
        done = true;
      }
      if (!done) {
        OpRec o;
        o.code = 2;
        o.d    = r.below(NE);
        o.a    = r.below(NT);
        const std::string line = m.apply(o, true);
        ++R.k;
        R.ops.push_back(o);
        std::fprintf(f, "%s # %s k=%ld %s\n", line.c_str(), R.tagbase.c_str(), R.k, op_name(o.code));
        R.checkpoint(m, o.d);
      }
    }
    R.trailer(m, liftmix ? "liftmix" : "random");
  }

  // ---- special-point scripts (groups with lifts): every op emitted and checkpointed
  static OpRec mkop(int code, int d, int a, int b)
  {
    OpRec o;
    o.code = code; o.d = d; o.a = a; o.b = b;
    return o;
  }

  std::vector<OpRec> lifted_prologue(const M & m)
  {
    std::vector<OpRec> ops;
    if constexpr (HasLift<G>::value) {
      for (int i = 0; i < NL; ++i) {
        OpRec o = mkop(13, i, 0, 0);
        for (int j = 0; j < M::LRep; ++j) o.extra.push_back(double(m.L[i].coeffs()(j)));
        ops.push_back(o);
      }
    }
    return ops;
  }

  Tangent rot_tangent(double angle)
  {
    Tangent a = Tangent::Zero();
    a(M::Dof - 1) = S(angle);
    return a;
  }

  void scripts(int * counter)
  {
    if constexpr (HasLift<G>::value) {
      // (1) every special point: lift it, round-trip it, project the lift, and the same after a trivial history
      for (int i = 0; i < N_SPECIAL; ++i) {
        M m;
        init(m);
        m.E[0] = special(i);
        m.E[1] = G::Identity();
        m.L[0] = lifted_special(r.below(9));
        auto ops = lifted_prologue(m);
        ops.push_back(mkop(11, 0, 0, 0));   // L0 = lift(E0)
        ops.push_back(mkop(7, 2, 0, 0));    // E2 = liftproj(E0)
        ops.push_back(mkop(12, 3, 0, 0));   // E3 = project(L0)
        ops.push_back(mkop(0, 4, 0, 1));    // E4 = E0 * identity
        ops.push_back(mkop(11, 1, 4, 0));   // L1 = lift(E4)
        ops.push_back(mkop(1, 5, 0, 0));    // E5 = E0^-1
        ops.push_back(mkop(11, 2, 5, 0));   // L2 = lift(E5)
        ops.push_back(mkop(6, 4, 3, 0));    // E4 = cast(E3)
        ops.push_back(mkop(11, 1, 4, 0));   // L1 = lift(E4)
        const std::string shape = "special:point" + std::to_string(i);
        execute<G>(f, m, ops, "x" + std::to_string((*counter)++), shape.c_str());
      }
      // (2) half turns reached by short histories
      for (int v = 0; v < 6; ++v) {
        M m;
        init(m);
        m.E[0] = G::Identity();
        m.E[1] = special(15);                    // quarter turn
        m.T[0] = rot_tangent(M_PI);
        m.T[1] = rot_tangent(M_PI / 2);
        m.T[2] = rot_tangent(-M_PI);
        auto ops = lifted_prologue(m);
        const char * shape = "";
        switch (v) {
        case 0: ops.push_back(mkop(0, 2, 1, 1)); shape = "special:quarter*quarter"; break;                                  // E2 = q*q
        case 1: ops.push_back(mkop(0, 2, 0, 0)); ops.push_back(mkop(4, 2, 1, 0)); ops.push_back(mkop(4, 2, 1, 0));
          shape = "special:id*=quarter*=quarter"; break;
        case 2: ops.push_back(mkop(2, 2, 0, 0)); shape = "special:exp(pi)"; break;                                        // E2 = exp(pi)
        case 3: ops.push_back(mkop(0, 2, 0, 0)); ops.push_back(mkop(5, 2, 1, 0)); ops.push_back(mkop(5, 2, 1, 0));
          shape = "special:id+=quarter+=quarter"; break;
        case 4: ops.push_back(mkop(3, 2, 1, 1)); shape = "special:quarter+quarter"; break;                                // E2 = q + pi/2
        default: ops.push_back(mkop(2, 2, 2, 0)); shape = "special:exp(-pi)"; break;
        }
        ops.push_back(mkop(11, 0, 2, 0));   // L0 = lift(E2)
        ops.push_back(mkop(7, 3, 2, 0));    // E3 = liftproj(E2)
        ops.push_back(mkop(12, 4, 0, 0));   // E4 = project(L0)
        ops.push_back(mkop(11, 1, 4, 0));   // L1 = lift(E4)
        execute<G>(f, m, ops, "x" + std::to_string((*counter)++), shape);
      }
      // (3) projections of the lifted special points (planar at the half turn, planar generic, non-planar)
      for (int i = 0; i < 9; ++i) {
        M m;
        init(m);
        m.L[0] = lifted_special(i);
        m.L[1] = lifted_special(r.below(9));
        auto ops = lifted_prologue(m);
        ops.push_back(mkop(12, 0, 0, 0));   // E0 = project(L0)
        ops.push_back(mkop(11, 2, 0, 0));   // L2 = lift(E0)
        ops.push_back(mkop(12, 1, 2, 0));   // E1 = project(L2)
        ops.push_back(mkop(12, 2, 1, 0));   // E2 = project(L1)
        ops.push_back(mkop(0, 3, 0, 2));    // E3 = E0 * E2
        ops.push_back(mkop(11, 0, 3, 0));   // L0 = lift(E3)
        const std::string shape = "special:project" + std::to_string(i);
        execute<G>(f, m, ops, "x" + std::to_string((*counter)++), shape.c_str());
      }
    }
  }

  // chains that END at a half turn, then lift / lift∘project / project
  void halfturn(int id, int kind, long n)
  {
    if constexpr (HasLift<G>::value) {
      M m;
      init(m, int(n));
      const double sgn = r.sign();
      // the step: a constructor output with heading pi/n
      G g;
      if constexpr (std::is_same_v<G, smooth::SO2<S>>) {
        g = G(S(sgn * M_PI / double(n)));
      } else {
        g = G(smooth::SO2<S>(S(sgn * M_PI / double(n))),
          Eigen::Matrix<S, 2, 1>(S(r.uni(-1, 1) / double(n)), S(r.uni(-1, 1) / double(n))));
      }
      m.E[0] = G::Identity();
      m.E[1] = g;
      Tangent a = Tangent::Zero();
      a(M::Dof - 1) = S(sgn * M_PI / double(n));
      if constexpr (std::is_same_v<G, smooth::SE2<S>>) {
        a(0) = S(r.uni(-1, 1) / double(n));
        a(1) = S(r.uni(-1, 1) / double(n));
      }
      m.T[0] = a;
      auto ops = lifted_prologue(m);
      const char * shape = "";
      switch (kind) {
      case 0: ops.push_back(mkop(10, 1, int(n), 0)); ops.push_back(mkop(4, 0, 1, 0)); shape = "halfturn:x*=g"; break;
      case 1: ops.push_back(mkop(10, 1, int(n), 0)); ops.push_back(mkop(0, 0, 0, 1)); shape = "halfturn:x=x*g"; break;
      case 2: ops.push_back(mkop(10, 1, int(n), 0)); ops.push_back(mkop(5, 0, 0, 0)); shape = "halfturn:x+=a"; break;
      case 3: ops.push_back(mkop(10, 1, int(n), 0)); ops.push_back(mkop(0, 0, 1, 0)); shape = "halfturn:x=g*x"; break;
#if WITH_ODE
      default: {
        // integrate a constant body velocity up to heading pi in n fixed steps
        const double h = double(S(r.uni(0.001, 0.1)));
        Tangent v      = Tangent::Zero();
        v(M::Dof - 1)  = S(sgn * M_PI / (double(n) * h));
        if constexpr (std::is_same_v<G, smooth::SE2<S>>) { v(0) = S(r.uni(-1, 1)); v(1) = S(r.uni(-1, 1)); }
        m.T[0]  = v;
        OpRec o = mkop(9, 0, 0, 0);
        o.extra = {double(r.below(N_STEPPERS)), h};
        ops     = lifted_prologue(m);
        ops.push_back(mkop(10, 1, int(n), 0));
        ops.push_back(o);
        shape = "halfturn:ode_step";
      } break;
#else
      default: ops.push_back(mkop(10, 1, int(n), 0)); ops.push_back(mkop(3, 0, 0, 0)); shape = "halfturn:x=x+a"; break;
#endif
      }
      ops.push_back(mkop(11, 0, 0, 0));   // L0 = lift(E0)
      ops.push_back(mkop(7, 2, 0, 0));    // E2 = liftproj(E0)
      ops.push_back(mkop(12, 3, 0, 0));   // E3 = project(L0)
      execute<G>(f, m, ops, "h" + std::to_string(id), shape);
    }
  }

  // projections next to the singularity of the yaw (pitch -> +-90 deg): informational
  void gimbal(int id)
  {
    if constexpr (HasLift<G>::value) {
      using R3 = smooth::SO3<S>;
      M m;
      init(m);
      const double e = std::is_same_v<S, double> ? r.logu(1e-9, 1e-2) : r.logu(1e-4, 1e-2);
      const R3 q     = R3::rot_z(S(r.uni(-3, 3))) * R3::rot_y(S(r.sign() * (M_PI / 2 - e))) * R3::rot_x(S(r.uni(-3, 3)));
      if constexpr (std::is_same_v<G, smooth::SO2<S>>) {
        m.L[0] = q;
      } else {
        m.L[0] = H(q, Eigen::Matrix<S, 3, 1>(S(r.uni(-3, 3)), S(r.uni(-3, 3)), S(r.uni(-3, 3))));
      }
      auto ops = lifted_prologue(m);
      ops.push_back(mkop(12, 0, 0, 0));
      ops.push_back(mkop(11, 1, 0, 0));
      execute<G>(f, m, ops, "g" + std::to_string(id), "gimbal:project");
    }
  }

  // homogeneous chains, encoded as one loop
  void chain(int id, int kind, long n)
  {
    M m;
    init(m, int(n));
    // translations of E1 small enough that n steps stay below 1e6
    std::vector<OpRec> ops;
    auto mk = [](int code, int d, int a, int b) { OpRec o; o.code = code; o.d = d; o.a = a; o.b = b; return o; };
    const char * shape = "";
    switch (kind) {
    case 0: ops = {mk(10, 1, int(n), 0), mk(0, 0, 0, 1)}; shape = "chain:x=x*g"; break;
    case 1: ops = {mk(10, 1, int(n), 0), mk(4, 0, 1, 0)}; shape = "chain:x*=g"; break;
    case 2: ops = {mk(10, 1, int(n), 0), mk(5, 0, 0, 0)}; shape = "chain:x+=a"; break;
    case 3: ops = {mk(10, 1, int(n), 0), mk(1, 1, 1, 0)}; shape = "chain:x=x.inverse()"; break;
    case 4: ops = {mk(10, 1, int(n), 0), mk(0, 0, 1, 0)}; shape = "chain:x=g*x"; break;
    case 5: ops = {mk(1, 2, 1, 0), mk(10, 2, int((n - 1) / 2), 0), mk(0, 0, 0, 1), mk(0, 0, 0, 2)}; shape = "chain:x=x*g;x=x*ginv"; break;
    case 6: ops = {mk(10, 1, int(n), 0), mk(3, 0, 0, 0)}; shape = "chain:x=x+a"; break;
#if WITH_ODE
    default: {
      OpRec o = mk(9, 0, 0, 0);
      o.extra = {double(r.below(N_STEPPERS)), double(S(r.uni(0.001, 0.1)))};
      ops = {mk(10, 1, int(n), 0), o};
      shape = "chain:ode_step";
    } break;
#else
    default: ops = {mk(10, 1, int(n), 0), mk(0, 0, 0, 1)}; shape = "chain:x=x*g"; break;
#endif
    }
    execute<G>(f, m, ops, "c" + std::to_string(id), shape);
  }

  // squaring chains (error doubles per step by arithmetic alone): informational
  void squaring(int id, int n)
  {
    M m;
    init(m);
    auto mk = [](int code, int d, int a, int b) { OpRec o; o.code = code; o.d = d; o.a = a; o.b = b; return o; };
    std::vector<OpRec> ops = {mk(10, 1, n, 0), mk(4, 1, 1, 0)};
    execute<G>(f, m, ops, "s" + std::to_string(id), "fanin:x*=x");
  }

#if WITH_ODE
  void ode_runs(int id)
  {
    static const int counts_q[] = {1, 2, 7, 10, 100, 1000, 10000};
    for (int sid = 0; sid < N_STEPPERS; ++sid) {
      for (int ci = 0; ci < 7; ++ci) {
        const int n = counts_q[ci];
        if (n > max_ode_steps) continue;
        M m;
        init(m);
        const G x0      = m.E[1 + r.below(4)];
        const Tangent v = tan();
        const S Ttot    = S(r.uni(0.2, 3.0));
        const S h       = Ttot / S(n);
        const G xf      = ode_run<G>(sid, h, n, x0, v);
        {
          const std::string l = "hist_odefinal " + m.gname + " " + Prec<S>::name + hexword<S>(S(sid)) + hexword<S>(S(n)) + hexword<S>(h) +
                                M::wv(x0.coeffs()) + M::wv(v) + " |" + M::wv(xf.coeffs());
          std::fprintf(f, "%s # o%d %s n=%d\n", l.c_str(), id, stepper_name(sid), n);
        }
        // stage states of one step
        std::vector<std::pair<S, G>> log;
        const G x1 = ode_step<G>(sid, h, x0, v, &log);
        for (auto & [t, xs] : log)
          std::fprintf(f, "hist_odestage %s %s%s%s%s |%s # o%d %s\n", m.gname.c_str(), Prec<S>::name, hexword<S>(t).c_str(),
            M::wv(x0.coeffs()).c_str(), M::wv(v).c_str(), M::wv(xs.coeffs()).c_str(), id, stepper_name(sid));
        // and the single step as a T1 line
        std::fprintf(f, "hist_ode %s %s%s%s%s%s |%s # o%d %s\n", m.gname.c_str(), Prec<S>::name, hexword<S>(S(sid)).c_str(),
          hexword<S>(h).c_str(), M::wv(x0.coeffs()).c_str(), M::wv(v).c_str(), M::wv(x1.coeffs()).c_str(), id, stepper_name(sid));
      }
    }
  }
  int max_ode_steps = 1000;
#endif
};

// ------------------------------------------------------------------ catalogue
template<class S, class V>
void catalogue(V && visit)
{
  using namespace smooth;
  using V1 = Eigen::Matrix<S, 1, 1>;
  using V2 = Eigen::Matrix<S, 2, 1>;
  using V3 = Eigen::Matrix<S, 3, 1>;
  (void)sizeof(V1); (void)sizeof(V2); (void)sizeof(V3);
#if FAMILY == 0
  visit.template group<SO2<S>>();
  visit.template group<SO3<S>>();
  visit.template group<SE2<S>>();
  visit.template group<C1<S>>();
#elif FAMILY == 1
  visit.template group<SE3<S>>();
  visit.template group<Galilei<S>>();
  visit.template group<SE_K_3<S, 2>>();
#elif FAMILY == 2
  visit.template group<Bundle<SO3<S>, V3, SE2<S>>>();
  visit.template group<Bundle<SE3<S>, SO2<S>, V1>>();
  visit.template group<Bundle<V2, Bundle<SO2<S>, Bundle<SO3<S>, V1>>>>();
#elif FAMILY == 3
  visit.template group<SO3<S>>();
  visit.template group<SE2<S>>();
  visit.template group<SE3<S>>();
  visit.template group<Bundle<SO3<S>, V3, SE2<S>>>();
#endif
}

struct Params
{
  int nprog, maxlen;
  long chainlen;
  int nchain;
};

template<class S>
struct GenVisitor
{
  FILE * f;
  Rng & r;
  Params p;
  int * counter;
  Rng * r2 = nullptr;  // separate stream of the lift / half-turn families
  int * counter2 = nullptr;
  template<class G>
  void group()
  {
    lift_families<G>();
    Generator<G> g{f, r};
    // random programs, lengths stratified: 1..5, 6..20, 21..60, 61..maxlen
    for (int i = 0; i < p.nprog; ++i) {
      int len;
      switch (i % 4) {
      case 0: len = 1 + r.below(5); break;
      case 1: len = 6 + r.below(15); break;
      case 2: len = 21 + r.below(40); break;
      default: len = std::min(p.maxlen, 61) + r.below(std::max(1, p.maxlen - 60)); break;
      }
      len = std::min(len, p.maxlen);
      g.random_program((*counter)++, len);
    }
    // homogeneous chains
#if WITH_ODE
    const int nkinds = 8;
#else
    const int nkinds = 7;
#endif
    for (int c = 0; c < p.nchain; ++c) {
      const int kind = (c + r.below(nkinds)) % nkinds;
      long n = p.chainlen;
      if (c % 3 == 1) n = std::max<long>(10, p.chainlen / 10);
      if (c % 3 == 2) n = std::max<long>(10, p.chainlen / 100);
#if WITH_ODE
      if (kind == 7) n = std::min<long>(n, 10000);
#endif
      g.chain((*counter)++, kind, n);
    }
    g.squaring((*counter)++, 12 + r.below(20));
#if WITH_ODE
    g.max_ode_steps = p.chainlen >= 10000 ? 10000 : 1000;
    g.ode_runs((*counter)++);
#endif
  }

  // groups with lifts: special-point scripts, random programs with lift/project, chains ending at a half turn
  template<class G>
  void lift_families()
  {
    if constexpr (HasLift<G>::value) {
      if (!r2 || !counter2) return;
      int & c2 = *counter2;
      Generator<G> g{f, *r2, true};
      g.scripts(&c2);
      const int nmix = std::max(4, p.nprog / 2);
      for (int i = 0; i < nmix; ++i) {
        int len;
        switch (i % 4) {
        case 0: len = 1 + r2->below(5); break;
        case 1: len = 6 + r2->below(15); break;
        case 2: len = 21 + r2->below(40); break;
        default: len = 61 + r2->below(std::max(1, p.maxlen - 60)); break;
        }
        g.random_program(c2++, std::min(len, p.maxlen));
      }
#if WITH_ODE
      const int nkinds = 5;
#else
      const int nkinds = 5;
#endif
      // lengths: chainlen, chainlen/10, chainlen/100 and a few short ones
      const long lens[] = {p.chainlen, std::max<long>(10, p.chainlen / 10), std::max<long>(10, p.chainlen / 100), 2, 7, 64};
      const int nh = p.chainlen >= 100000 ? 6 : 5;
      for (int c = 0; c < nh; ++c) {
        long n = lens[c % 6];
#if WITH_ODE
        if (n > 10000) n = 10000;
#endif
        g.halfturn(c2++, (c + r2->below(nkinds)) % nkinds, n);
      }
      // one more of every kind at a moderate length
      for (int kind = 0; kind < nkinds; ++kind) g.halfturn(c2++, kind, 100 + r2->below(900));
      for (int i = 0; i < 3; ++i) g.gimbal(c2++);
    }
  }
};

// ------------------------------------------------------------------ eval / prog modes
static std::vector<std::string> split_ws(const std::string & s)
{
  std::vector<std::string> t;
  size_t p = 0;
  while (p < s.size()) {
    while (p < s.size() && s[p] == ' ') ++p;
    size_t q = p;
    while (q < s.size() && s[q] != ' ') ++q;
    if (q > p) t.push_back(s.substr(p, q - p));
    p = q;
  }
  return t;
}

template<class S>
struct EvalVisitor
{
  const std::string & op;
  const std::string & grp;
  const std::vector<S> & x;
  const std::string & tag;
  bool done = false;

  template<class G>
  void group()
  {
    if (done || Gen<G>::name() != grp) return;
    using M = Machine<G>;
    constexpr int Rep = M::Rep, Dof = M::Dof;
    M m;
    auto elem = [&](size_t off) {
      G g;
      for (int i = 0; i < Rep; ++i) g.coeffs()(i) = x[off + i];
      return g;
    };
    auto tang = [&](size_t off) {
      typename G::Tangent a;
      for (int i = 0; i < Dof; ++i) a(i) = x[off + i];
      return a;
    };
    OpRec o;
    if (op == "hist_audit") {
      // re-execute an encoded program
      if (x.size() < 3) return;
      const int ne = int(x[0]), nt = int(x[1]), nops = int(x[2]);
      if (ne != NE || nt != NT) return;
      size_t off = 3;
      if (x.size() < off + size_t(NE * Rep + NT * Dof)) return;
      for (int i = 0; i < NE; ++i, off += Rep) m.E[i] = elem(off);
      for (int i = 0; i < NT; ++i, off += Dof) m.T[i] = tang(off);
      std::vector<OpRec> ops;
      for (int i = 0; i < nops; ++i) {
        if (off + 4 > x.size()) return;
        OpRec q;
        q.code = int(x[off]); q.d = int(x[off + 1]); q.a = int(x[off + 2]); q.b = int(x[off + 3]);
        off += 4;
        const int nx = M::n_extra(q.code);
        if (off + nx > x.size()) return;
        for (int j = 0; j < nx; ++j) q.extra.push_back(double(x[off + j]));
        off += nx;
        if (q.code != 10 && !M::supported(q.code)) return;
        ops.push_back(q);
      }
      // tag: "<id> <shape> n=…" → keep id and shape
      auto tt = split_ws(tag);
      execute<G>(stdout, m, ops, tt.empty() ? "r0" : tt[0], tt.size() > 1 ? tt[1].c_str() : "replay");
      done = true;
      return;
    }
    std::string line;
#if WITH_ODE
    if (op == "hist_odefinal" && x.size() == size_t(3 + Rep + Dof)) {
      // sid n h x0 v  → integrate_n_steps again
      const int sid = int(x[0]), n = int(x[1]);
      const S h     = x[2];
      const G x0    = elem(3);
      const typename G::Tangent v = tang(3 + Rep);
      const G xf    = ode_run<G>(sid, h, n, x0, v);
      std::string l = "hist_odefinal " + m.gname + " " + Prec<S>::name;
      for (size_t i = 0; i < x.size(); ++i) l += hexword<S>(x[i]);
      l += " |" + M::wv(xf.coeffs());
      std::printf("%s%s%s\n", l.c_str(), tag.empty() ? "" : " # ", tag.c_str());
      done = true;
      return;
    }
#endif
    if (op == "compose" && x.size() == size_t(2 * Rep)) {
      m.E[0] = elem(0); m.E[1] = elem(Rep); o.code = 0; o.d = 2; o.a = 0; o.b = 1;
    } else if (op == "inverse" && x.size() == size_t(Rep)) {
      m.E[0] = elem(0); o.code = 1; o.d = 2; o.a = 0;
    } else if (op == "exp" && x.size() == size_t(Dof)) {
      m.T[0] = tang(0); o.code = 2; o.d = 2; o.a = 0;
    } else if (op == "rplus" && x.size() == size_t(Rep + Dof)) {
      m.E[0] = elem(0); m.T[0] = tang(Rep); o.code = 3; o.d = 2; o.a = 0; o.b = 0;
    } else if (op == "hist_cast" && x.size() == size_t(Rep)) {
      m.E[0] = elem(0); o.code = 6; o.d = 2; o.a = 0;
    } else if (op == "hist_liftproj" && x.size() == size_t(Rep) && M::supported(7)) {
      m.E[0] = elem(0); o.code = 7; o.d = 2; o.a = 0;
    } else if (op == "hist_lift" && x.size() == size_t(Rep) && M::supported(11)) {
      m.E[0] = elem(0); o.code = 11; o.d = 0; o.a = 0;
    } else if (op == "hist_project" && M::supported(12) && x.size() == size_t(M::LRep)) {
      if constexpr (HasLift<G>::value) {
        for (int i = 0; i < M::LRep; ++i) m.L[0].coeffs()(i) = x[i];
      }
      o.code = 12; o.d = 2; o.a = 0;
    } else if (op == "hist_ode" && x.size() == size_t(2 + Rep + Dof) && M::supported(9)) {
      m.E[0] = elem(2); m.T[0] = tang(2 + Rep); o.code = 9; o.d = 2; o.a = 0; o.b = 0;
      o.extra = {double(x[0]), double(x[1])};
    } else {
      return;
    }
    line = m.apply(o, true);
    std::printf("%s%s%s\n", line.c_str(), tag.empty() ? "" : " # ", tag.c_str());
    done = true;
  }
};

template<class S>
void eval_line(const std::string & op, const std::string & grp, const std::vector<std::string> & words, const std::string & tag)
{
  std::vector<S> x;
  x.reserve(words.size());
  for (auto & w : words) x.push_back(parse_word<S>(w));
  EvalVisitor<S> v{op, grp, x, tag};
  catalogue<S>(v);
  if (!v.done) std::printf("SKIP %s %s\n", op.c_str(), grp.c_str());
}

int eval_mode()
{
  char * line = nullptr;
  size_t cap  = 0;
  while (getline(&line, &cap, stdin) > 0) {
    std::string s(line);
    while (!s.empty() && (s.back() == '\n' || s.back() == '\r')) s.pop_back();
    std::string tag;
    auto h = s.find(" # ");
    if (h != std::string::npos) { tag = s.substr(h + 3); s = s.substr(0, h); }
    auto bar = s.find(" |");
    if (bar != std::string::npos) s = s.substr(0, bar);
    auto t = split_ws(s);
    if (t.size() < 3) { std::printf("SKIP bad-line\n"); continue; }
    std::vector<std::string> words(t.begin() + 3, t.end());
    if (t[2] == "f64" || t[2] == "f64a") eval_line<double>(t[0], t[1], words, tag);
    else if (t[2] == "f32" || t[2] == "f32a") eval_line<float>(t[0], t[1], words, tag);
    else std::printf("SKIP bad-prec\n");
  }
  std::free(line);
  return 0;
}

int main(int argc, char ** argv)
{
  if (argc > 1 && (std::string(argv[1]) == "eval" || std::string(argv[1]) == "prog")) return eval_mode();
  Params p;
  p.nprog    = argc > 1 ? std::atoi(argv[1]) : 8;
  p.maxlen   = argc > 2 ? std::atoi(argv[2]) : 200;
  p.chainlen = argc > 3 ? std::atol(argv[3]) : 1000;
  p.nchain   = argc > 4 ? std::atoi(argv[4]) : 3;
  Rng r(seed_from_env() * 1000 + 150 + FAMILY);
  Rng r2(seed_from_env() * 1000 + 650 + FAMILY);
  int counter = FAMILY * 100000, counter2 = FAMILY * 100000 + 50000;
  catalogue<double>(GenVisitor<double>{stdout, r, p, &counter, &r2, &counter2});
  catalogue<float>(GenVisitor<float>{stdout, r, p, &counter, &r2, &counter2});
  return 0;
}
#endif
