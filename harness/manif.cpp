// manif.cpp — correspondence + audit harness for the Manifold layer (property C07).
// Includes /repo/include directly and calls the real code in-process.
//
//   ./manif <n>         generate lines (VERIF_SEED from the environment)
//   ./manif eval        re-evaluate request lines from stdin (replays, searches)
//
// Line format:  op TYPE prec in… | out… # tag        (TYPE: see Driver/OpsManif.lean)
//   man_dof m | n                         man_rplus m a | m'              man_rminus m1 m2 | d
//   man_cast m | m'                       man_default n | m               man_copy m a | c e m'
//   man_subctor m0 m fixed | s            (out may be `THROW <what>` when the call throws)
//   aud_axioms m a m2 | e1 e2 e3 dof_ok cast_repr cast_beh copy_beh cast_thrown
//   aud_sub s a | m0_same leak free_err len_ok
//   aud_vec v a v2 | rplus_elementwise rminus_concat dof_sum
// Integers travel as exactly representable floating-point words.
#include <smooth/bundle.hpp>
#include <smooth/c1.hpp>
#include <smooth/galilei.hpp>
#include <smooth/manifolds.hpp>
#include <smooth/manifolds/any.hpp>
#include <smooth/manifolds/submanifold.hpp>
#include <smooth/se2.hpp>
#include <smooth/se3.hpp>
#include <smooth/se_k_3.hpp>
#include <smooth/so2.hpp>
#include <smooth/so3.hpp>

#include <limits>
#include <stdexcept>
#include <variant>

#include "common.hpp"

using namespace vh;

#ifndef FAMILY
#define FAMILY 0
#endif

// ------------------------------------------------------------------ reader / writer of flat words
template<class S>
struct Reader
{
  const std::vector<S> & x;
  size_t off = 0;
  bool ok    = true;
  S word()
  {
    if (off >= x.size()) {
      ok = false;
      return S(0);
    }
    return x[off++];
  }
  int nat()
  {
    const S w = word();
    if (!(w >= 0) || w > 4096 || w != std::floor(w)) {
      ok = false;
      return 0;
    }
    return int(w);
  }
  Eigen::VectorX<S> list()
  {
    const int n = nat();
    Eigen::VectorX<S> v(n);
    for (int i = 0; i < n; ++i) v(i) = word();
    return v;
  }
  bool done() const { return ok && off == x.size(); }
};

template<class S, class D>
void put_list(std::vector<S> & out, const Eigen::MatrixBase<D> & v)
{
  out.push_back(S(v.size()));
  for (Eigen::Index i = 0; i < v.size(); ++i) out.push_back(v(i));
}

// ------------------------------------------------------------------ codecs
template<class M>
struct Codec;

template<class G>
concept HasCoeffs = requires(G g) { g.coeffs(); };

template<class G>
struct GName;
template<class S> struct GName<smooth::SO2<S>> { static std::string name() { return "SO2"; } };
template<class S> struct GName<smooth::SO3<S>> { static std::string name() { return "SO3"; } };
template<class S> struct GName<smooth::SE2<S>> { static std::string name() { return "SE2"; } };
template<class S> struct GName<smooth::SE3<S>> { static std::string name() { return "SE3"; } };
template<class S> struct GName<smooth::C1<S>> { static std::string name() { return "C1"; } };
template<class S> struct GName<smooth::Galilei<S>> { static std::string name() { return "GAL"; } };
template<class S, int K> struct GName<smooth::SE_K_3<S, K>> { static std::string name() { return "SEK" + std::to_string(K); } };
template<class S, int N> struct GName<Eigen::Matrix<S, N, 1>> { static std::string name() { return "T" + std::to_string(N); } };
template<class... Gs>
struct GName<smooth::Bundle<Gs...>>
{
  static std::string name()
  {
    std::string s = "B[";
    bool first    = true;
    ((s += (first ? "" : ",") + GName<Gs>::name(), first = false), ...);
    return s + "]";
  }
};

// Lie groups with coefficient storage
template<HasCoeffs G>
struct Codec<G>
{
  using S = smooth::Scalar<G>;
  static std::string name() { return GName<G>::name(); }
  static void put(std::vector<S> & out, const G & g)
  {
    for (Eigen::Index i = 0; i < g.coeffs().size(); ++i) out.push_back(g.coeffs()(i));
  }
  static G get(Reader<S> & r)
  {
    G g;
    for (Eigen::Index i = 0; i < g.coeffs().size(); ++i) g.coeffs()(i) = r.word();
    return g;
  }
};
// static Eigen vectors
template<class S, int N>
  requires(N > 0)
struct Codec<Eigen::Matrix<S, N, 1>>
{
  using M = Eigen::Matrix<S, N, 1>;
  static std::string name() { return "T" + std::to_string(N); }
  static void put(std::vector<S> & out, const M & g)
  {
    for (int i = 0; i < N; ++i) out.push_back(g(i));
  }
  static M get(Reader<S> & r)
  {
    M g;
    for (int i = 0; i < N; ++i) g(i) = r.word();
    return g;
  }
};
// dynamic Eigen vectors
template<class S>
struct Codec<Eigen::Matrix<S, -1, 1>>
{
  using M = Eigen::Matrix<S, -1, 1>;
  static std::string name() { return "X"; }
  static void put(std::vector<S> & out, const M & g) { put_list(out, g); }
  static M get(Reader<S> & r) { return r.list(); }
};
template<>
struct Codec<double>
{
  static std::string name() { return "R"; }
  static void put(std::vector<double> & out, double g) { out.push_back(g); }
  static double get(Reader<double> & r) { return r.word(); }
};
template<>
struct Codec<float>
{
  static std::string name() { return "R"; }
  static void put(std::vector<float> & out, float g) { out.push_back(g); }
  static float get(Reader<float> & r) { return r.word(); }
};
template<class E>
struct Codec<std::vector<E>>
{
  using S = smooth::Scalar<E>;
  using M = std::vector<E>;
  static std::string name() { return "V[" + Codec<E>::name() + "]"; }
  static void put(std::vector<S> & out, const M & m)
  {
    out.push_back(S(m.size()));
    for (const auto & e : m) Codec<E>::put(out, e);
  }
  static M get(Reader<S> & r)
  {
    const int n = r.nat();
    M m;
    for (int i = 0; i < n && r.ok; ++i) m.push_back(Codec<E>::get(r));
    return m;
  }
};
template<class A, class B, class C>
struct Codec<std::variant<A, B, C>>
{
  using M = std::variant<A, B, C>;
  using S = smooth::Scalar<M>;
  static std::string name() { return "W[" + Codec<A>::name() + "," + Codec<B>::name() + "," + Codec<C>::name() + "]"; }
  static void put(std::vector<S> & out, const M & m)
  {
    out.push_back(S(m.index()));
    std::visit([&out]<class T>(const T & v) { Codec<T>::put(out, v); }, m);
  }
  static M get(Reader<S> & r)
  {
    const int i = r.nat();
    if (i == 0) return M(std::in_place_index<0>, Codec<A>::get(r));
    if (i == 1) return M(std::in_place_index<1>, Codec<B>::get(r));
    if (i != 2) r.ok = false;
    return M(std::in_place_index<2>, Codec<C>::get(r));
  }
};
template<class T>
struct Codec<smooth::SubManifold<T>>
{
  using M = smooth::SubManifold<T>;
  using S = smooth::Scalar<T>;
  static std::string name() { return "S[" + Codec<T>::name() + "]"; }
  static void put(std::vector<S> & out, const M & m)
  {
    out.push_back(S(m.fixed_dims().size()));
    for (Eigen::Index i = 0; i < m.fixed_dims().size(); ++i) out.push_back(S(m.fixed_dims()(i)));
    Codec<T>::put(out, m.m0());
    Codec<T>::put(out, m.m());
  }
  static M get(Reader<S> & r)
  {
    const int nf = r.nat();
    Eigen::VectorXi fd(nf);
    for (int i = 0; i < nf; ++i) fd(i) = r.nat();
    const T m0 = Codec<T>::get(r);
    const T m  = Codec<T>::get(r);
    if (!r.ok) return M(m0, m);
    for (int i = 0; i < nf; ++i)
      if (fd(i) >= smooth::dof(m0)) { r.ok = false; return M(m0, m); }
    return M(m0, m, fd);
  }
};

// AnyManifold over a fixed list of four wrapped types
using AnyT0 = smooth::SO3d;
using AnyT1 = smooth::SO2d;
using AnyT2 = Eigen::VectorXd;
using AnyT3 = std::vector<smooth::SO3d>;
struct AnyBox  // the harness remembers which type it wrapped
{
  int idx;
  smooth::AnyManifold any;
};
template<class F>
decltype(auto) any_visit(int idx, F && f)
{
  switch (idx) {
  case 0: return f(std::type_identity<AnyT0>{});
  case 1: return f(std::type_identity<AnyT1>{});
  case 2: return f(std::type_identity<AnyT2>{});
  default: return f(std::type_identity<AnyT3>{});
  }
}
template<>
struct Codec<AnyBox>
{
  static std::string name()
  {
    return "A[" + Codec<AnyT0>::name() + "," + Codec<AnyT1>::name() + "," + Codec<AnyT2>::name() + "," + Codec<AnyT3>::name() + "]";
  }
  static void put(std::vector<double> & out, const AnyBox & b)
  {
    out.push_back(double(b.idx));
    any_visit(b.idx, [&]<class T>(std::type_identity<T>) { Codec<T>::put(out, b.any.template get<T>()); });
  }
  static AnyBox get(Reader<double> & r)
  {
    int i = r.nat();
    if (i > 3) { r.ok = false; i = 0; }
    return any_visit(i, [&]<class T>(std::type_identity<T>) { return AnyBox{i, smooth::AnyManifold(Codec<T>::get(r))}; });
  }
};

// ------------------------------------------------------------------ uniform Manifold access
// (AnyBox forwards to the AnyManifold it holds)
template<class M>
struct Ops
{
  using S = smooth::Scalar<M>;
  static Eigen::Index dof(const M & m) { return smooth::dof(m); }
  static M rplus(const M & m, const Eigen::VectorX<S> & a) { return smooth::rplus(m, a); }
  static Eigen::VectorX<S> rminus(const M & m1, const M & m2) { return smooth::rminus(m1, m2); }
  static M cast(const M & m) { return smooth::cast<S>(m); }
  static M dflt(Eigen::Index n) { return smooth::Default<M>(n); }
};
template<>
struct Ops<AnyBox>
{
  using S = double;
  using A = smooth::AnyManifold;
  static Eigen::Index dof(const AnyBox & m) { return smooth::dof(m.any); }
  static AnyBox rplus(const AnyBox & m, const Eigen::VectorXd & a) { return AnyBox{m.idx, smooth::rplus(m.any, a)}; }
  static Eigen::VectorXd rminus(const AnyBox & m1, const AnyBox & m2)
  {
    if (m1.idx != m2.idx) throw std::logic_error("harness: would be undefined behaviour");
    return smooth::rminus(m1.any, m2.any);
  }
  static AnyBox cast(const AnyBox & m) { return AnyBox{m.idx, smooth::cast<double>(m.any)}; }
  static AnyBox dflt(Eigen::Index n) { return AnyBox{0, smooth::Default<A>(n)}; }
};

template<class M> struct is_sub : std::false_type {};
template<class T> struct is_sub<smooth::SubManifold<T>> : std::true_type {};
template<class M> struct is_vec : std::false_type {};
template<class T> struct is_vec<std::vector<T>> : std::true_type {};
// traits::man<SubManifold<M>>::Default does not compile (it calls a one-argument constructor that
// does not exist), hence neither does Default of a container of SubManifolds
template<class M> struct default_compiles : std::true_type {};
template<class T> struct default_compiles<smooth::SubManifold<T>> : std::false_type {};
template<class T> struct default_compiles<std::vector<T>> : default_compiles<T> {};

// number of entries of rminus(m1, m2) the implementation writes (the rest of the returned vector
// is uninitialised memory for std::vector arguments of unequal length)
template<class M>
Eigen::Index written_count(const M & m1, const M &)
{
  return Ops<M>::dof(m1);
}
template<class E>
Eigen::Index written_count(const std::vector<E> & m1, const std::vector<E> & m2)
{
  Eigen::Index n = 0;
  for (size_t i = 0; i < std::min(m1.size(), m2.size()); ++i) n += smooth::dof(m1[i]);
  return n;
}

// in-place mutation  m <- rplus(m, a)  through the most direct mutable access the type offers
template<class M>
void mutate(M & m, const Eigen::VectorX<smooth::Scalar<M>> & a)
{
  m = smooth::rplus(m, a);
}
template<class E>
void mutate(std::vector<E> & m, const Eigen::VectorX<smooth::Scalar<E>> & a)
{
  Eigen::Index c = 0;
  for (auto & e : m) {
    const auto d = smooth::dof(e);
    mutate(e, Eigen::VectorX<smooth::Scalar<E>>(a.segment(c, d)));
    c += d;
  }
}
inline void mutate(AnyBox & m, const Eigen::VectorXd & a)
{
  any_visit(m.idx, [&]<class T>(std::type_identity<T>) {
    T & ref = m.any.template get<T>();  // mutable reference into the wrapper
    mutate(ref, a);
  });
}

template<class S>
bool same_bits(const std::vector<S> & a, const std::vector<S> & b)
{
  return a.size() == b.size() && (a.empty() || std::memcmp(a.data(), b.data(), a.size() * sizeof(S)) == 0);
}

template<class M>
std::vector<typename Ops<M>::S> enc(const M & m)
{
  std::vector<typename Ops<M>::S> o;
  Codec<M>::put(o, m);
  return o;
}

// ------------------------------------------------------------------ one request
// returns 0 = not served / bad input, 1 = words in `out`, 2 = thrown (message in `thrown`)
template<class M>
int eval_man(const std::string & op, const std::vector<typename Ops<M>::S> & x, std::vector<typename Ops<M>::S> & out, std::string & thrown)
{
  using S = typename Ops<M>::S;
  using O = Ops<M>;
  using V = Eigen::VectorX<S>;
  Reader<S> r{x};
  const S nan = std::numeric_limits<S>::quiet_NaN();
  try {
    if (op == "man_dof") {
      const M m = Codec<M>::get(r);
      if (!r.done()) return 0;
      out.push_back(S(O::dof(m)));
    } else if (op == "man_rplus") {
      const M m = Codec<M>::get(r);
      const V a = r.list();
      if (!r.done() || a.size() != O::dof(m)) return 0;
      Codec<M>::put(out, O::rplus(m, a));
    } else if (op == "man_rminus") {
      const M m1 = Codec<M>::get(r);
      const M m2 = Codec<M>::get(r);
      if (!r.done()) return 0;
      const V d               = O::rminus(m1, m2);
      const Eigen::Index nw   = written_count(m1, m2);
      out.push_back(S(d.size()));
      for (Eigen::Index i = 0; i < d.size(); ++i) out.push_back(i < nw ? d(i) : nan);
    } else if (op == "man_cast") {
      const M m = Codec<M>::get(r);
      if (!r.done()) return 0;
      Codec<M>::put(out, O::cast(m));
    } else if (op == "man_default") {
      const int n = r.nat();
      if (!r.done()) return 0;
      if constexpr (!default_compiles<M>::value) {
        return 0;
      } else {
        Codec<M>::put(out, O::dflt(n));
      }
    } else if (op == "man_dof_member" || op == "man_rplus_member" || op == "man_rminus_member") {
      // the PUBLIC MEMBER functions of SubManifold / AnyManifold called directly (not through smooth::rplus → traits::man)
      if constexpr (is_sub<M>::value || std::is_same_v<M, AnyBox>) {
        auto self = [](const M & mm) -> const auto & {
          if constexpr (std::is_same_v<M, AnyBox>) return mm.any;
          else return mm;
        };
        auto wrap = [](const M & like, auto && res) {
          if constexpr (std::is_same_v<M, AnyBox>) return AnyBox{like.idx, std::forward<decltype(res)>(res)};
          else return M(std::forward<decltype(res)>(res));
        };
        const M m = Codec<M>::get(r);
        if (op == "man_dof_member") {
          if (!r.done()) return 0;
          out.push_back(S(self(m).dof()));
        } else if (op == "man_rplus_member") {
          const V a = r.list();
          if (!r.done() || a.size() != O::dof(m)) return 0;
          Codec<M>::put(out, wrap(m, self(m).rplus(a)));
        } else {
          const M m2 = Codec<M>::get(r);
          if (!r.done()) return 0;
          if constexpr (std::is_same_v<M, AnyBox>) {
            if (m.idx != m2.idx) return 0;
          }
          const V d = self(m).rminus(self(m2));
          out.push_back(S(d.size()));
          for (Eigen::Index i = 0; i < d.size(); ++i) out.push_back(d(i));
        }
      } else {
        return 0;
      }
    } else if (op == "man_move") {
      // move construction and move assignment hand the value on unchanged
      M m = Codec<M>::get(r);
      if (!r.done()) return 0;
      M b(std::move(m));
      M c(b);        // something to assign over
      c = std::move(b);
      Codec<M>::put(out, c);
    } else if (op == "man_default_static") {
      // Default<M>() without argument (static-size types only) must be Default<M>(Dof<M>)
      const int n = r.nat();
      if (!r.done()) return 0;
      if constexpr (std::is_same_v<M, AnyBox>) {
        return 0;
      } else if constexpr (smooth::traits::man<M>::Dof > 0 && default_compiles<M>::value) {
        if (n != smooth::Dof<M>) return 0;
        Codec<M>::put(out, smooth::Default<M>());
      } else {
        return 0;
      }
    } else if (op == "man_copy") {
      M m       = Codec<M>::get(r);
      const V a = r.list();
      if (!r.done() || a.size() != O::dof(m)) return 0;
      M c(m);        // copy construction
      mutate(c, a);  // mutate the copy
      M e(c);
      e = m;         // copy assignment over an existing object
      mutate(m, a);  // mutate the original
      Codec<M>::put(out, c);
      Codec<M>::put(out, e);
      Codec<M>::put(out, m);
    } else if (op == "aud_axioms") {
      const M m  = Codec<M>::get(r);
      const V a  = r.list();
      const M m2 = Codec<M>::get(r);
      if (!r.done() || a.size() != O::dof(m)) return 0;
      const M mp  = O::rplus(m, a);
      const V d1  = O::rminus(mp, m);
      const S e1  = d1.size() == a.size() ? (a.size() ? (d1 - a).cwiseAbs().maxCoeff() : S(0)) : S(1e300);
      S e2        = 0;
      bool dof_ok = d1.size() == O::dof(m) && O::dof(mp) == O::dof(m);
      if (O::dof(m2) == O::dof(m)) {
        const V d2 = O::rminus(m2, m);
        dof_ok     = dof_ok && d2.size() == O::dof(m);
        const M mb = O::rplus(m, d2);
        const V d3 = O::rminus(mb, m2);
        e2         = d3.size() ? d3.cwiseAbs().maxCoeff() : S(0);
      }
      const V d0 = O::rminus(m, m);
      const S e3 = d0.size() ? d0.cwiseAbs().maxCoeff() : S(0);
      dof_ok     = dof_ok && d0.size() == O::dof(m);
      // copy behaves identically
      const M c(m);
      const bool copy_beh = same_bits(enc(O::rplus(c, a)), enc(mp)) && same_bits(enc(c), enc(m));
      // cast to the same scalar type behaves identically
      bool cast_repr = true, cast_beh = true, cast_thrown = false;
      try {
        const M k = O::cast(m);
        cast_repr = same_bits(enc(k), enc(m));
        cast_beh  = O::dof(k) == O::dof(m) && same_bits(enc(O::rplus(k, a)), enc(mp));
      } catch (const std::runtime_error &) {
        cast_thrown = true;  // the model does not support casting
      }
      out = {e1, e2, e3, S(dof_ok), S(cast_repr), S(cast_beh), S(copy_beh), S(cast_thrown)};
    } else if constexpr (is_sub<M>::value) {
      using T = std::decay_t<decltype(std::declval<M>().m())>;
      if (op == "man_subctor") {
        const T m0 = Codec<T>::get(r);
        const T m  = Codec<T>::get(r);
        const int nf = r.nat();
        Eigen::VectorXi fd(nf);
        for (int i = 0; i < nf; ++i) {
          fd(i) = r.nat();
          if (fd(i) >= smooth::dof(m0)) return 0;
        }
        if (!r.done()) return 0;
        Codec<M>::put(out, M(m0, m, fd));
      } else if (op == "aud_sub") {
        const M s = Codec<M>::get(r);
        const V a = r.list();
        if (!r.done() || a.size() != O::dof(s)) return 0;
        const M sp        = O::rplus(s, a);
        const bool m0same = same_bits(enc(sp.m0()), enc(s.m0())) && (sp.fixed_dims() - s.fixed_dims()).cwiseAbs().sum() == 0;
        const auto full   = smooth::rminus(sp.m(), s.m());  // difference in the embedding manifold
        S leak = 0, free_err = 0;
        Eigen::Index j = 0, k = 0;
        for (Eigen::Index i = 0; i < full.size(); ++i) {
          if (k < s.fixed_dims().size() && s.fixed_dims()(k) == i) {
            leak = std::max(leak, std::abs(full(i)));
            ++k;
          } else {
            if (j < a.size()) free_err = std::max(free_err, std::abs(full(i) - a(j)));
            ++j;
          }
        }
        const V d        = O::rminus(sp, s);
        const bool lenok = d.size() == smooth::dof(s.m0()) - s.fixed_dims().size() && d.size() == O::dof(s) && j == a.size();
        S red_err        = 0;
        for (Eigen::Index i = 0; i < std::min(d.size(), a.size()); ++i) red_err = std::max(red_err, std::abs(d(i) - a(i)));
        out = {S(m0same), leak, std::max(free_err, red_err), S(lenok)};
      } else {
        return 0;
      }
    } else if constexpr (is_vec<M>::value) {
      using E = typename M::value_type;
      if (op == "aud_vec") {
        const M v  = Codec<M>::get(r);
        const V a  = r.list();
        const M v2 = Codec<M>::get(r);
        if (!r.done() || a.size() != O::dof(v) || v2.size() != v.size()) return 0;
        const M vp = O::rplus(v, a);
        bool el = vp.size() == v.size(), cat = true;
        Eigen::Index c = 0, sum = 0;
        std::vector<S> dcat;
        for (size_t i = 0; i < v.size(); ++i) {
          const auto di = smooth::dof(v[i]);
          sum += di;
          el = el && same_bits(enc(vp[i]), enc(E(smooth::rplus(v[i], V(a.segment(c, di))))));
          if (smooth::dof(v2[i]) != di) return 0;
          const V dd = smooth::rminus(v[i], v2[i]);
          for (Eigen::Index q = 0; q < dd.size(); ++q) dcat.push_back(dd(q));
          c += di;
        }
        const V d = O::rminus(v, v2);
        std::vector<S> dv(d.data(), d.data() + d.size());
        cat = same_bits(dv, dcat);
        out = {S(el), S(cat), S(sum == O::dof(v))};
      } else {
        return 0;
      }
    } else {
      return 0;
    }
  } catch (const std::bad_variant_access &) {
    thrown = "bad_variant_access";
    return 2;
  } catch (const std::runtime_error & e) {
    thrown = e.what();
    for (auto & ch : thrown)
      if (ch == ' ') ch = '_';
    return 2;
  }
  return 1;
}

template<class S>
void emit(FILE * f, const std::string & op, const std::string & grp, const std::vector<S> & x, int rc, const std::vector<S> & out,
  const std::string & thrown, const char * tag)
{
  std::fprintf(f, "%s %s %s", op.c_str(), grp.c_str(), Prec<S>::name);
  for (S v : x) Prec<S>::put(f, v);
  std::fprintf(f, " |");
  if (rc == 2) std::fprintf(f, " THROW %s", thrown.c_str());
  else
    for (S v : out) Prec<S>::put(f, v);
  if (tag && *tag) std::fprintf(f, " # %s", tag);
  std::fprintf(f, "\n");
}

// ------------------------------------------------------------------ generators
// tangent strata: magnitude classes, plus two that are about the ROTATION coordinates:
//   near_pi  every rotation block of the tangent has norm pi - u, u in [0.05, 0.3]
//   wide     every rotation block has norm in [1.6, 3.0]
// Elements are products of two exponentials of such tangents, so rotation angles cover the whole
// circle and pairs (m, rplus(m, a)), (m, m2) straddle the +-pi branch cut of log.
constexpr int N_STRATA = 7;
static const char * scale_name(int k)
{
  static const char * n[] = {"zero", "tiny", "small", "generic", "large", "near_pi", "wide"};
  return n[((k % N_STRATA) + N_STRATA) % N_STRATA];
}
inline double scale_of(int k)
{
  static const double s[] = {0.0, 1e-8, 1e-3, 0.5, 1.0, 1.0, 1.0};
  return s[((k % N_STRATA) + N_STRATA) % N_STRATA];
}

// rotation blocks of the tangent of a value: lists of tangent indices that form one rotation vector
using Blocks = std::vector<std::vector<int>>;
template<class M>
struct Rot
{
  static void get(const M &, int, Blocks &) {}
};
template<class S> struct Rot<smooth::SO2<S>> { static void get(const smooth::SO2<S> &, int o, Blocks & b) { b.push_back({o}); } };
template<class S> struct Rot<smooth::C1<S>> { static void get(const smooth::C1<S> &, int o, Blocks & b) { b.push_back({o + 1}); } };
template<class S> struct Rot<smooth::SO3<S>> { static void get(const smooth::SO3<S> &, int o, Blocks & b) { b.push_back({o, o + 1, o + 2}); } };
template<class S> struct Rot<smooth::SE2<S>> { static void get(const smooth::SE2<S> &, int o, Blocks & b) { b.push_back({o + 2}); } };
template<class S> struct Rot<smooth::SE3<S>> { static void get(const smooth::SE3<S> &, int o, Blocks & b) { b.push_back({o + 3, o + 4, o + 5}); } };
template<class S> struct Rot<smooth::Galilei<S>> { static void get(const smooth::Galilei<S> &, int o, Blocks & b) { b.push_back({o + 7, o + 8, o + 9}); } };
template<class S, int K>
struct Rot<smooth::SE_K_3<S, K>>
{
  static void get(const smooth::SE_K_3<S, K> &, int o, Blocks & b) { b.push_back({o + 3 * K, o + 3 * K + 1, o + 3 * K + 2}); }
};
template<class... Gs>
struct Rot<smooth::Bundle<Gs...>>
{
  static void get(const smooth::Bundle<Gs...> &, int o, Blocks & b)
  {
    // parts of a Bundle have static sizes: their rotation coordinates do not depend on the value
    (
      [&] {
        Rot<Gs>::get(Gs{}, o, b);
        o += int(smooth::traits::man<Gs>::Dof);
      }(),
      ...);
  }
};
template<class E>
struct Rot<std::vector<E>>
{
  static void get(const std::vector<E> & m, int o, Blocks & b)
  {
    for (const auto & e : m) {
      Rot<E>::get(e, o, b);
      o += int(smooth::dof(e));
    }
  }
};
template<class A, class B, class C>
struct Rot<std::variant<A, B, C>>
{
  static void get(const std::variant<A, B, C> & m, int o, Blocks & b)
  {
    std::visit([&]<class T>(const T & v) { Rot<T>::get(v, o, b); }, m);
  }
};
template<class T>
struct Rot<smooth::SubManifold<T>>
{
  static void get(const smooth::SubManifold<T> & m, int o, Blocks & b)
  {
    Blocks full;
    Rot<T>::get(m.m0(), 0, full);
    // full index -> reduced index (fixed dims drop out)
    const int d = int(smooth::dof(m.m0()));
    std::vector<int> red(d, -1);
    for (int i = 0, j = 0, k = 0; i < d; ++i) {
      if (k < m.fixed_dims().size() && m.fixed_dims()(k) == i) ++k;
      else red[i] = j++;
    }
    for (auto & blk : full) {
      std::vector<int> r;
      for (int i : blk)
        if (red[i] >= 0) r.push_back(o + red[i]);
      if (!r.empty()) b.push_back(r);
    }
  }
};

template<class S>
void shape_rotations(Rng & r, Eigen::VectorX<S> & a, const Blocks & blocks, int k)
{
  const int st = ((k % N_STRATA) + N_STRATA) % N_STRATA;
  if (st < 5) return;
  for (const auto & blk : blocks) {
    double nrm = 0;
    for (int i : blk) nrm += double(a(i)) * double(a(i));
    nrm = std::sqrt(nrm);
    if (nrm < 1e-3) {
      a(blk[0]) = S(r.sign());
      nrm       = 1;
      for (size_t q = 1; q < blk.size(); ++q) a(blk[q]) = 0;
    }
    const double target = st == 5 ? M_PI - r.uni(0.05, 0.3) : r.uni(1.6, 3.0);
    for (int i : blk) a(i) = S(double(a(i)) * target / nrm);
  }
}

template<class S>
Eigen::VectorX<S> rand_tangent(Rng & r, Eigen::Index n, int k, const Blocks & blocks = {})
{
  // entries within [-1.5, 1.5]*scale: every rotation 3-vector has norm < 2.6 < pi; the rotation
  // strata then rescale the rotation blocks
  Eigen::VectorX<S> a(n);
  for (Eigen::Index i = 0; i < n; ++i) a(i) = S(r.uni(-1.5, 1.5) * scale_of(k));
  if (((k % N_STRATA) + N_STRATA) % N_STRATA >= 3 && n > 0 && r.below(4) == 0) a(r.below(int(n))) = 0;
  shape_rotations(r, a, blocks, k);
  return a;
}

// forward: uniform access used by tangent_for
template<class M> struct Ops;

// a tangent at the value m, aware of where m's rotation coordinates are
template<class M>
auto tangent_for(Rng & r, const M & m, int k);

template<>
struct Rot<AnyBox>
{
  static void get(const AnyBox & m, int o, Blocks & b)
  {
    any_visit(m.idx, [&]<class T>(std::type_identity<T>) { Rot<T>::get(m.any.template get<T>(), o, b); });
  }
};
template<class M>
auto tangent_for(Rng & r, const M & m, int k)
{
  using S = typename Ops<M>::S;
  Blocks b;
  Rot<M>::get(m, 0, b);
  return rand_tangent<S>(r, Ops<M>::dof(m), k, b);
}

template<class M>
struct Gen;

template<class G>
concept LieLike = smooth::LieGroup<G>;

// Lie groups, Eigen vectors (static and dynamic), scalars
template<LieLike G>
struct Gen<G>
{
  using S = smooth::Scalar<G>;
  static G make(Rng & r, int k, int n = 3)
  {
    if constexpr (std::is_floating_point_v<G>) {
      return G(r.uni(-3, 3) * (k % 5 == 0 ? 0 : 1));
    } else if constexpr (std::is_base_of_v<Eigen::MatrixBase<G>, G>) {
      const Eigen::Index sz = G::SizeAtCompileTime > 0 ? Eigen::Index(G::SizeAtCompileTime) : Eigen::Index(n);
      G g(sz);
      for (Eigen::Index i = 0; i < sz; ++i) g(i) = S(gen_trans(r, k + int(i)));
      return g;
    } else {
      const G id = smooth::traits::lie<G>::Identity(G::Dof);
      G g        = smooth::traits::lie<G>::exp(tangent_for(r, id, k));
      if (k % 3 != 0) g = g * smooth::traits::lie<G>::exp(tangent_for(r, id, 3 * k + 1));
      if (k % 11 == 5) g = g.inverse();
      return g;
    }
  }
};
template<class E>
struct Gen<std::vector<E>>
{
  static std::vector<E> make(Rng & r, int k, int n = 3)
  {
    std::vector<E> v;
    for (int i = 0; i < n; ++i) v.push_back(Gen<E>::make(r, k + i, 1 + (k + 2 * i) % 4));
    return v;
  }
};
template<class A, class B, class C>
struct Gen<std::variant<A, B, C>>
{
  using M = std::variant<A, B, C>;
  static M make(Rng & r, int k, int n = 3)
  {
    switch (n % 3) {
    case 0: return M(std::in_place_index<0>, Gen<A>::make(r, k, n));
    case 1: return M(std::in_place_index<1>, Gen<B>::make(r, k, n));
    default: return M(std::in_place_index<2>, Gen<C>::make(r, k, 1 + k % 5));
    }
  }
};
template<class T>
struct Gen<smooth::SubManifold<T>>
{
  using M = smooth::SubManifold<T>;
  static M make(Rng & r, int k, int n = 3)
  {
    using S    = smooth::Scalar<T>;
    const T m0 = Gen<T>::make(r, k, n);
    const int d = int(smooth::dof(m0));
    const T m  = smooth::rplus(m0, tangent_for(r, m0, k + 2));
    std::vector<int> fd;
    const unsigned mask = unsigned(k * 5 + n) % (1u << d);
    for (int b = d - 1; b >= 0; --b)
      if (mask & (1u << b)) fd.push_back(b);  // descending: the constructor sorts
    Eigen::VectorXi fdv(int(fd.size()));
    for (size_t q = 0; q < fd.size(); ++q) fdv(int(q)) = fd[q];
    return M(m0, m, fdv);
  }
};
template<>
struct Gen<AnyBox>
{
  static AnyBox make(Rng & r, int k, int n = 3)
  {
    const int idx = n % 4;
    return any_visit(idx, [&]<class T>(std::type_identity<T>) { return AnyBox{idx, smooth::AnyManifold(Gen<T>::make(r, k, 1 + k % 4))}; });
  }
};

// ------------------------------------------------------------------ per-type line generation
template<class M>
struct Emit
{
  using S = typename Ops<M>::S;
  using V = Eigen::VectorX<S>;
  FILE * f;
  Rng & r;
  std::string name = Codec<M>::name();

  void go(const char * op, const std::vector<S> & x, const char * tag)
  {
    std::vector<S> out;
    std::string thrown;
    const int rc = eval_man<M>(op, x, out, thrown);
    if (rc) emit<S>(f, op, name, x, rc, out, thrown, tag);
  }
  template<class... P>
  static std::vector<S> cat(const P &... p)
  {
    std::vector<S> x;
    (x.insert(x.end(), p.begin(), p.end()), ...);
    return x;
  }
  static std::vector<S> lst(const V & a)
  {
    std::vector<S> x;
    put_list(x, a);
    return x;
  }

  // the standard battery on (m, a, m2)
  void battery(const M & m, const M & m2, int k, const char * tag)
  {
    const V a = tangent_for(r, m, k);
    go("man_dof", enc(m), tag);
    go("man_rplus", cat(enc(m), lst(a)), tag);
    go("man_rminus", cat(enc(m), enc(m2)), tag);
    go("man_cast", enc(m), tag);
    go("man_copy", cat(enc(m), lst(a)), tag);
    go("man_move", enc(m), tag);
    go("man_dof_member", enc(m), tag);
    go("man_rplus_member", cat(enc(m), lst(a)), tag);
    go("man_rminus_member", cat(enc(m), enc(m2)), tag);
    go("aud_axioms", cat(enc(m), lst(a), enc(m2)), tag);
    if constexpr (is_vec<M>::value) go("aud_vec", cat(enc(m), lst(a), enc(m2)), tag);
  }
};

template<class M>
void run_plain(FILE * f, Rng & r, int n)
{
  Emit<M> e{f, r};
  using S = typename Ops<M>::S;
  for (int i = 0; i < n; ++i) {
    const int sz = i % 9;  // container / dynamic sizes 0..8
    const M m    = Gen<M>::make(r, i, sz);
    // m2: the same shape (same size, same alternative)
    M m2 = Gen<M>::make(r, i + 3, sz);
    if constexpr (is_vec<M>::value) {
      // dynamic element sizes must agree elementwise: regenerate from m by a random tangent
      m2 = Ops<M>::rplus(m, tangent_for(r, m, i + 3));
    } else if (Ops<M>::dof(m2) != Ops<M>::dof(m)) {
      m2 = Ops<M>::rplus(m, tangent_for(r, m, i + 3));
    }
    e.battery(m, m2, i, scale_name(i));
  }
  // Default(dof): a static-size type may only be asked for its own Dof
  for (int d : {0, 1, 3, 6}) {
    if (smooth::traits::man<M>::Dof > 0 && d != 0) continue;
    std::vector<S> x{S(smooth::traits::man<M>::Dof > 0 ? smooth::traits::man<M>::Dof : d)};
    e.go("man_default", x, "default");
    e.go("man_default_static", x, "default");
  }
}

// std::vector specific: unequal lengths in rminus (zip stops at the shorter range)
template<class E>
void run_vec_unequal(FILE * f, Rng & r, int n)
{
  using M = std::vector<E>;
  Emit<M> e{f, r};
  for (int i = 0; i < n; ++i) {
    const int n1 = i % 5, n2 = (i / 5 + i) % 5;
    if (n1 == n2) continue;
    M m1 = Gen<M>::make(r, i, n1);
    M m2 = Gen<M>::make(r, i, n2);  // same seeds per position: dynamic element sizes agree on the common prefix
    // make the common prefix shape-compatible for dynamic element types
    for (int q = 0; q < std::min(n1, n2); ++q)
      if (smooth::dof(m1[q]) != smooth::dof(m2[q])) m2[q] = m1[q];
    e.go("man_rminus", Emit<M>::cat(enc(m1), enc(m2)), n1 < n2 ? "shorter_first" : "longer_first");
  }
}

// variant specific: rminus across alternatives throws
template<class M>
void run_variant_mismatch(FILE * f, Rng & r, int n)
{
  Emit<M> e{f, r};
  for (int i = 0; i < n; ++i) {
    const M m1 = Gen<M>::make(r, i, i % 3), m2 = Gen<M>::make(r, i + 1, (i + 1 + i / 3 % 2) % 3);
    e.go("man_rminus", Emit<M>::cat(enc(m1), enc(m2)), "alternatives");
  }
}

// SubManifold: every subset of fixed dims of a dof-d element (exhaustive), ctor with shuffled order
template<class T>
void run_sub(FILE * f, Rng & r, int reps, int nlo, int nhi)
{
  using M = smooth::SubManifold<T>;
  using S = smooth::Scalar<T>;
  using V = Eigen::VectorX<S>;
  Emit<M> e{f, r};
  int cnt = 0;
  for (int nn = nlo; nn <= nhi; ++nn) {
    const T probe  = Gen<T>::make(r, 1, nn);
    const int d    = int(smooth::dof(probe));
    for (unsigned mask = 0; mask < (1u << d); ++mask) {
      for (int rep = 0; rep < reps; ++rep, ++cnt) {
        std::vector<int> fd;
        for (int b = 0; b < d; ++b)
          if (mask & (1u << b)) fd.push_back(b);
        // shuffled order for the constructor
        std::vector<int> sh = fd;
        for (int q = int(sh.size()) - 1; q > 0; --q) std::swap(sh[q], sh[r.below(q + 1)]);
        const T m0 = Gen<T>::make(r, cnt, nn);
        const T m  = smooth::rplus(m0, tangent_for(r, m0, cnt + 2));
        Eigen::VectorXi fdv(int(sh.size()));
        for (size_t q = 0; q < sh.size(); ++q) fdv(int(q)) = sh[q];
        const std::string tag = "fixed=" + std::to_string(mask) + "/" + std::to_string(d);
        {
          std::vector<S> x = Emit<M>::cat(enc(m0), enc(m));
          x.push_back(S(sh.size()));
          for (int q : sh) x.push_back(S(q));
          e.go("man_subctor", x, tag.c_str());
        }
        const M s(m0, m, fdv);
        // m2: same origin and fixed dims, moved along free directions
        const M s2 = smooth::rplus(s, tangent_for(r, s, cnt + 1));
        e.battery(s, s2, cnt, tag.c_str());
        e.go("aud_sub", Emit<M>::cat(enc(s), Emit<M>::lst(V(tangent_for(r, s, cnt)))), tag.c_str());
      }
    }
  }
}

// AnyManifold: four wrapped types; default construction and cast throw
void run_any(FILE * f, Rng & r, int n)
{
  using M = AnyBox;
  Emit<M> e{f, r};
  for (int i = 0; i < n; ++i) {
    const M m  = Gen<M>::make(r, i, i);
    const M m2 = Ops<M>::rplus(m, tangent_for(r, m, i + 3));
    e.battery(m, m2, i, scale_name(i));
  }
  std::vector<double> x{3.0};
  e.go("man_default", x, "default");
  // AnyManifold() itself
  try {
    smooth::AnyManifold a;
    std::fprintf(f, "man_anyctor %s f64 | 0\n", e.name.c_str());
  } catch (const std::runtime_error & ex) {
    std::string w = ex.what();
    for (auto & ch : w)
      if (ch == ' ') ch = '_';
    std::fprintf(f, "man_anyctor %s f64 | THROW %s # default-ctor\n", e.name.c_str(), w.c_str());
  }
}

// ------------------------------------------------------------------ catalogue
template<class V>
void catalogue(V && visit)
{
  using namespace smooth;
  using V2 = Eigen::Vector2d;
  using V3 = Eigen::Vector3d;
#if FAMILY == 0
  visit.template plain<SO2d>();
  visit.template plain<SO3d>();
  visit.template plain<SE2d>();
  visit.template plain<SE3d>();
  visit.template plain<C1d>();
  visit.template plain<Galileid>();
  visit.template plain<SE_K_3<double, 2>>();
  visit.template plain<Bundle<SO3d, V3>>();
  visit.template plain<Bundle<SE2d, SO2d, V2>>();
  visit.template plain<Bundle<SO2d, V2>>();   // all-commutative Bundles
  visit.template plain<Bundle<C1d, SO2d>>();
  visit.template plain<Eigen::Matrix<double, 1, 1>>();
  visit.template plain<V3>();
  visit.template plain<Eigen::Matrix<double, 6, 1>>();
  visit.template plain<Eigen::VectorXd>();
  visit.template plain<double>();
  visit.template plain<SO3f>();
  visit.template plain<Eigen::VectorXf>();
  visit.template plain<float>();
#elif FAMILY == 1
  visit.template vec<SO3d>();
  visit.template vec<SE2d>();
  visit.template vec<V3>();
  visit.template vec<double>();
  visit.template vec<Eigen::VectorXd>();
  visit.template vec<Bundle<SO3d, V3>>();
  visit.template vec<std::vector<SO3d>>();
  visit.template vec<SO3f>();
  visit.template vec<SO2d>();
  visit.template vec<Bundle<C1d, SO2d>>();
  visit.template plain<std::variant<SO2d, C1d, Eigen::VectorXd>>();
  visit.template variant_mismatch<std::variant<SO2d, C1d, Eigen::VectorXd>>();
  visit.template plain<std::variant<SO3d, SE2d, Eigen::VectorXd>>();
  visit.template variant_mismatch<std::variant<SO3d, SE2d, Eigen::VectorXd>>();
  visit.template vec<std::variant<SO3d, SE2d, Eigen::VectorXd>>();
#elif FAMILY == 2
  visit.template sub<SO3d>(3, 3);
  visit.template sub<SE3d>(3, 3);
  visit.template sub<Eigen::VectorXd>(0, 6);
  visit.template sub<Bundle<SO3d, V2>>(3, 3);
  visit.template sub<SO3f>(3, 3);
  visit.template sub<SO2d>(3, 3);
  visit.template sub<Bundle<SO2d, V2>>(3, 3);   // SubManifold over an all-commutative Bundle
  visit.template vec<SubManifold<SO3d>>();
  visit.any();
#endif
}

struct GenVisitor
{
  FILE * f;
  Rng & r;
  int n;
  template<class M>
  void plain()
  {
    run_plain<M>(f, r, n);
  }
  template<class E>
  void vec()
  {
    run_plain<std::vector<E>>(f, r, n);
    if constexpr (!is_sub<E>::value) run_vec_unequal<E>(f, r, n);
  }
  template<class M>
  void variant_mismatch()
  {
    run_variant_mismatch<M>(f, r, n);
  }
  template<class T>
  void sub(int nlo, int nhi)
  {
    run_sub<T>(f, r, std::max(1, n / 9), nlo, nhi);
  }
  void any() { run_any(f, r, 2 * n); }
};

template<class S>
S parse_word(const std::string & w)
{
  if constexpr (std::is_same_v<S, double>) {
    uint64_t u = std::strtoull(w.c_str(), nullptr, 16);
    double d;
    std::memcpy(&d, &u, 8);
    return d;
  } else {
    uint32_t u = uint32_t(std::strtoul(w.c_str(), nullptr, 16));
    float d;
    std::memcpy(&d, &u, 4);
    return d;
  }
}

struct EvalVisitor
{
  const std::string & op;
  const std::string & grp;
  const std::string & prec;
  const std::vector<std::string> & words;
  const std::string & tag;
  bool done = false;
  template<class M>
  void serve()
  {
    using S = typename Ops<M>::S;
    if (done || Codec<M>::name() != grp || std::string(Prec<S>::name) != prec) return;
    std::vector<S> x, out;
    for (auto & w : words) x.push_back(parse_word<S>(w));
    std::string thrown;
    const int rc = eval_man<M>(op, x, out, thrown);
    if (rc) {
      emit<S>(stdout, op, grp, x, rc, out, thrown, tag.c_str());
      done = true;
    }
  }
  template<class M> void plain() { serve<M>(); }
  template<class E> void vec() { serve<std::vector<E>>(); }
  template<class M> void variant_mismatch() {}
  template<class T> void sub(int, int) { serve<smooth::SubManifold<T>>(); }
  void any() { serve<AnyBox>(); }
};

int eval_mode()
{
  char * line = nullptr;
  size_t cap  = 0;
  while (getline(&line, &cap, stdin) > 0) {
    std::string s(line);
    while (!s.empty() && (s.back() == '\n' || s.back() == '\r')) s.pop_back();
    std::string tag;
    auto h = s.find(" # ");
    if (h != std::string::npos) { tag = s.substr(h + 3); s = s.substr(0, h); }
    auto bar = s.find(" |");
    if (bar != std::string::npos) s = s.substr(0, bar);
    std::vector<std::string> t;
    size_t p = 0;
    while (p < s.size()) {
      while (p < s.size() && s[p] == ' ') ++p;
      size_t q = p;
      while (q < s.size() && s[q] != ' ') ++q;
      if (q > p) t.push_back(s.substr(p, q - p));
      p = q;
    }
    if (t.size() < 3) { std::printf("SKIP bad-line\n"); continue; }
    std::vector<std::string> words(t.begin() + 3, t.end());
    EvalVisitor v{t[0], t[1], t[2], words, tag};
    catalogue(v);
    if (!v.done) std::printf("SKIP %s %s\n", t[0].c_str(), t[1].c_str());
  }
  std::free(line);
  return 0;
}

int main(int argc, char ** argv)
{
  if (argc > 1 && std::string(argv[1]) == "eval") return eval_mode();
  const int n = argc > 1 ? std::atoi(argv[1]) : 18;
  Rng r(seed_from_env() * 1000 + 70 + FAMILY);
  catalogue(GenVisitor{stdout, r, n});
  return 0;
}
