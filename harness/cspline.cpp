// cspline.cpp — correspondence harness for cumulative splines and BSpline (C11, C13).
// Includes /repo/include directly and calls the real code in-process.  One protocol line per
// evaluation:   op group f64 <inputs> | <implementation outputs> # stratum
//
//   cs_eval_vs  G  K  Bcum[(K+1)^2 row-major]  u  vs[K*dof]         | g vel acc jer
//   cs_eval_gs  G  K  Bcum  u  gs[(K+1)*rep]                        | g vel acc jer  vs[K*dof] (the rminus differences)
//   cs_dg_dvs   G  K  Bcum  u  vs[K*dof]                            | dg_dvs dvel_dvs dacc_dvs  (each dof x dof*K, row-major)
//   cs_dg_dgs   G  K  Bcum  u  gs[(K+1)*rep]                        | dg_dgs dvel_dgs dacc_dgs  (each dof x dof*(K+1))
//   bs_eval     G  K  Bcum  t0 dt t  ctrl[N*rep]                    | g vel acc
//   bs_tminmax  T3 K  N  t0 dt                                      | t_min t_max
// K, N are sent as f64 words.  Bcum in `bs_eval` is the table the implementation uses internally
// (polynomial_cumulative_basis<Bspline,K>); it is an input of the MODEL, and is re-emitted from the
// code's table in eval mode.
//
// Build:  g++ -std=c++20 -O0 -DKSEL=<1..6> cspline.cpp      Run: ./cspline <n> | ./cspline eval < requests
#include <smooth/bundle.hpp>
#include <smooth/se2.hpp>
#include <smooth/se3.hpp>
#include <smooth/so3.hpp>
#include <smooth/spline/bspline.hpp>
#include <smooth/spline/cumulative_spline.hpp>

#include "common.hpp"

using namespace vh;

#ifndef KSEL
#define KSEL 3
#endif

using V3 = Eigen::Vector3d;
using BSO3V3 = smooth::Bundle<smooth::SO3d, V3>;

// ------------------------------------------------------------------ group adaptors
template<class G>
struct GI;
template<>
struct GI<smooth::SO3d>
{
  static constexpr int rep = 4;
  static const char * name() { return "SO3"; }
};
template<>
struct GI<smooth::SE2d>
{
  static constexpr int rep = 4;
  static const char * name() { return "SE2"; }
};
template<>
struct GI<smooth::SE3d>
{
  static constexpr int rep = 7;
  static const char * name() { return "SE3"; }
};
template<>
struct GI<BSO3V3>
{
  static constexpr int rep = 7;
  static const char * name() { return "B[SO3,T3]"; }
};
template<>
struct GI<V3>
{
  static constexpr int rep = 3;
  static const char * name() { return "T3"; }
};

template<class G>
void put_g(std::vector<double> & o, const G & g)
{
  if constexpr (std::is_same_v<G, V3>) {
    for (int i = 0; i < 3; ++i) o.push_back(g(i));
  } else {
    for (int i = 0; i < GI<G>::rep; ++i) o.push_back(g.coeffs()(i));
  }
}
template<class G>
G get_g(const double * p)
{
  G g;
  if constexpr (std::is_same_v<G, V3>) {
    for (int i = 0; i < 3; ++i) g(i) = p[i];
  } else {
    for (int i = 0; i < GI<G>::rep; ++i) g.coeffs()(i) = p[i];
  }
  return g;
}
template<class D>
void put_m(std::vector<double> & o, const Eigen::MatrixBase<D> & m)
{
  for (Eigen::Index i = 0; i < m.rows(); ++i)
    for (Eigen::Index j = 0; j < m.cols(); ++j) o.push_back(m(i, j));
}

// ------------------------------------------------------------------ tangent generators
constexpr double SW = 1e-4;  // sqrt(eps2)
template<class G>
struct TG;
template<>
struct TG<smooth::SO3d>
{
  static Eigen::Vector3d make(Rng & r, int as, int kind, int) { return gen_dir3<double>(r) * gen_angle(r, as, kind, SW); }
};
template<>
struct TG<smooth::SE2d>
{
  static Eigen::Vector3d make(Rng & r, int as, int kind, int ts)
  {
    return Eigen::Vector3d(gen_trans(r, ts), gen_trans(r, ts), r.sign() * gen_angle(r, as, kind, SW));
  }
};
template<>
struct TG<smooth::SE3d>
{
  static Eigen::Matrix<double, 6, 1> make(Rng & r, int as, int kind, int ts)
  {
    Eigen::Matrix<double, 6, 1> a;
    for (int i = 0; i < 3; ++i) a(i) = gen_trans(r, ts);
    a.tail<3>() = gen_dir3<double>(r) * gen_angle(r, as, kind, SW);
    return a;
  }
};
template<>
struct TG<V3>
{
  static Eigen::Vector3d make(Rng & r, int, int, int ts)
  {
    return Eigen::Vector3d(gen_trans(r, ts), gen_trans(r, ts), gen_trans(r, ts));
  }
};
template<>
struct TG<BSO3V3>
{
  static Eigen::Matrix<double, 6, 1> make(Rng & r, int as, int kind, int ts)
  {
    Eigen::Matrix<double, 6, 1> a;
    a.head<3>() = TG<smooth::SO3d>::make(r, as, kind, ts);
    a.tail<3>() = TG<V3>::make(r, as, kind, ts);
    return a;
  }
};

// ------------------------------------------------------------------ basis tables
template<int K, int BASIS>
const double * basis_table()
{
  if constexpr (BASIS == 0) {
    static constexpr auto t = smooth::polynomial_cumulative_basis<smooth::PolynomialBasis::Bernstein, K, double>();
    return t[0].data();
  } else {
    static constexpr auto t = smooth::polynomial_cumulative_basis<smooth::PolynomialBasis::Bspline, K, double>();
    return t[0].data();
  }
}

// ------------------------------------------------------------------ evaluation of one request
template<int K, class G>
bool eval_cs(const std::string & op, const std::vector<double> & x, std::vector<double> & out)
{
  constexpr int dof = smooth::Dof<G>;
  constexpr int rep = GI<G>::rep;
  using Tan         = Eigen::Matrix<double, dof, 1>;
  constexpr int nb  = (K + 1) * (K + 1);
  if (x.size() < size_t(1 + nb + 1)) return false;
  // the matrix is handed to the library the way the library's own callers do it
  double B[nb];
  for (int i = 0; i < nb; ++i) B[i] = x[1 + i];
  Eigen::Map<const Eigen::Matrix<double, K + 1, K + 1, Eigen::RowMajor>> Bcum(B);
  const double u   = x[1 + nb];
  const double * p = x.data() + 2 + nb;
  const size_t rem = x.size() - (2 + nb);
  if (op == "cs_eval_vs") {
    if (rem != size_t(K * dof)) return false;
    std::vector<Tan> vs(K);
    for (int j = 0; j < K; ++j)
      for (int i = 0; i < dof; ++i) vs[j](i) = p[j * dof + i];
    Tan vel, acc, jer;
    const G g = smooth::cspline_eval_vs<K, G>(vs, Bcum, u, vel, acc, jer);
    put_g(out, g);
    put_m(out, vel);
    put_m(out, acc);
    put_m(out, jer);
    return true;
  }
  if (op == "cs_dg_dvs") {
    if (rem != size_t(K * dof)) return false;
    std::vector<Tan> vs(K);
    for (int j = 0; j < K; ++j)
      for (int i = 0; i < dof; ++i) vs[j](i) = p[j * dof + i];
    smooth::SplineJacobian<G, K - 1> dvel, dacc;
    const smooth::SplineJacobian<G, K - 1> dg = smooth::cspline_eval_dg_dvs<K, G>(vs, Bcum, u, dvel, dacc);
    put_m(out, dg);
    put_m(out, dvel);
    put_m(out, dacc);
    return true;
  }
  if (op == "cs_eval_gs") {
    if (rem != size_t((K + 1) * rep)) return false;
    std::vector<G> gs;
    for (int j = 0; j <= K; ++j) gs.push_back(get_g<G>(p + j * rep));
    Tan vel, acc, jer;
    const G g = smooth::cspline_eval_gs<K>(gs, Bcum, u, vel, acc, jer);
    put_g(out, g);
    put_m(out, vel);
    put_m(out, acc);
    put_m(out, jer);
    for (int j = 0; j < K; ++j) put_m(out, smooth::rminus(gs[j + 1], gs[j]));
    return true;
  }
  if (op == "cs_dg_dgs") {
    if (rem != size_t((K + 1) * rep)) return false;
    std::vector<G> gs;
    for (int j = 0; j <= K; ++j) gs.push_back(get_g<G>(p + j * rep));
    smooth::SplineJacobian<G, K> dvel, dacc;
    const smooth::SplineJacobian<G, K> dg = smooth::cspline_eval_dg_dgs<K>(gs, Bcum, u, dvel, dacc);
    put_m(out, dg);
    put_m(out, dvel);
    put_m(out, dacc);
    return true;
  }
  return false;
}

// bs_eval: x = K Bcum t0 dt t ctrl…   (Bcum is replaced by the code's own table in `xo`)
template<int K, class G>
bool eval_bs(const std::vector<double> & x, std::vector<double> & xo, std::vector<double> & out)
{
  constexpr int dof = smooth::Dof<G>;
  constexpr int rep = GI<G>::rep;
  using Tan         = Eigen::Matrix<double, dof, 1>;
  constexpr int nb  = (K + 1) * (K + 1);
  if (x.size() < size_t(1 + nb + 3 + (K + 1) * rep)) return false;
  const size_t rem = x.size() - (1 + nb + 3);
  if (rem % rep != 0) return false;
  const size_t N = rem / rep;
  xo             = x;
  const double * tb = basis_table<K, 1>();
  for (int i = 0; i < nb; ++i) xo[1 + i] = tb[i];
  const double t0 = x[1 + nb], dt = x[2 + nb], t = x[3 + nb];
  std::vector<G> ctrl;
  for (size_t j = 0; j < N; ++j) ctrl.push_back(get_g<G>(x.data() + 4 + nb + j * rep));
  const smooth::BSpline<K, G> spl(t0, dt, ctrl);
  Tan vel, acc;
  const G g = spl(t, vel, acc);
  put_g(out, g);
  put_m(out, vel);
  put_m(out, acc);
  return true;
}

template<int K>
bool eval_tminmax(const std::vector<double> & x, std::vector<double> & out)
{
  if (x.size() != 4) return false;
  const size_t N = size_t(x[1]);
  if (N < size_t(K + 1) || N > 100000) return false;
  std::vector<V3> ctrl(N, V3::Zero());
  const smooth::BSpline<K, V3> spl(x[2], x[3], ctrl);
  out.push_back(spl.t_min());
  out.push_back(spl.t_max());
  return true;
}

void emit(FILE * f, const std::string & op, const std::string & grp, const std::vector<double> & x,
  const std::vector<double> & out, const std::string & tag)
{
  std::fprintf(f, "%s %s f64", op.c_str(), grp.c_str());
  for (double v : x) Prec<double>::put(f, v);
  std::fprintf(f, " |");
  for (double v : out) Prec<double>::put(f, v);
  if (!tag.empty()) std::fprintf(f, " # %s", tag.c_str());
  std::fprintf(f, "\n");
}

// dispatch of a request over the instantiated (K, G)
template<int K, class G>
bool serve(const std::string & op, const std::string & grp, const std::vector<double> & x, const std::string & tag, FILE * f)
{
  if (grp != GI<G>::name()) return false;
  if (x.empty() || x[0] != double(K)) return false;
  std::vector<double> out;
  if (op == "bs_eval") {
    std::vector<double> xo;
    if (!eval_bs<K, G>(x, xo, out)) return false;
    emit(f, op, grp, xo, out, tag);
    return true;
  }
  if (op == "bs_tminmax") {
    if constexpr (std::is_same_v<G, V3>) {
      if (!eval_tminmax<K>(x, out)) return false;
      emit(f, op, grp, x, out, tag);
      return true;
    } else {
      return false;
    }
  }
  if (!eval_cs<K, G>(op, x, out)) return false;
  emit(f, op, grp, x, out, tag);
  return true;
}

template<int K>
bool serve_K(const std::string & op, const std::string & grp, const std::vector<double> & x, const std::string & tag, FILE * f)
{
  return serve<K, smooth::SO3d>(op, grp, x, tag, f) || serve<K, smooth::SE2d>(op, grp, x, tag, f) ||
         serve<K, smooth::SE3d>(op, grp, x, tag, f) || serve<K, BSO3V3>(op, grp, x, tag, f) ||
         serve<K, V3>(op, grp, x, tag, f);
}

// ------------------------------------------------------------------ generation
static const char * U_NAMES[] = {"u=0", "u=1", "u=2^-52", "u=1-2^-53", "u=1/2", "u=rand"};
double gen_u(Rng & r, int k)
{
  switch (k % 6) {
  case 0: return 0.0;
  case 1: return 1.0;
  case 2: return std::ldexp(1.0, -52);
  case 3: return 1.0 - std::ldexp(1.0, -53);
  case 4: return 0.5;
  default: return r.uni();
  }
}

template<class G>
G gen_elem(Rng & r, int i)
{
  G g = smooth::exp<G>(TG<G>::make(r, 5 + (i % 4), 0, 1 + r.below(3)));
  if (i % 3 == 1) g = smooth::composition(g, smooth::exp<G>(TG<G>::make(r, 5, 0, 1)));
  return g;
}

template<int K, class G, int BASIS>
void gen_cs(FILE * f, Rng & r, int n)
{
  constexpr int dof = smooth::Dof<G>;
  using Tan         = Eigen::Matrix<double, dof, 1>;
  constexpr int nb  = (K + 1) * (K + 1);
  const double * tb = basis_table<K, BASIS>();
  const std::string grp = GI<G>::name();
  for (int i = 0; i < n; ++i) {
    const int us    = i % 6;
    const double u  = gen_u(r, us);
    const int abase = (i / 6) + r.below(N_ANGLE_STRATA);
    std::vector<Tan> vs;
    std::string tag = std::string(BASIS ? "bspline," : "bernstein,") + U_NAMES[us] + ",ang=";
    int amax = 0;
    for (int j = 0; j < K; ++j) {
      // differences from 0 to just inside pi; every third sample uses one stratum for all j
      const int as = (i % 3 == 0) ? (abase % N_ANGLE_STRATA) : ((abase + j * (1 + r.below(3))) % N_ANGLE_STRATA);
      // kind 1 keeps the rotation angle below pi - 1.1e-3 (needed for the log in the gs variants)
      vs.push_back(TG<G>::make(r, as, 1, i + j));
      amax = std::max(amax, as);
      tag += (j ? "/" : "") + std::string(angle_stratum_name(as));
    }
    std::vector<double> head{double(K)};
    for (int k = 0; k < nb; ++k) head.push_back(tb[k]);
    head.push_back(u);
    // vs ops
    {
      std::vector<double> x = head;
      for (auto & v : vs) put_m(x, v);
      serve<K, G>("cs_eval_vs", grp, x, tag, f);
      serve<K, G>("cs_dg_dvs", grp, x, tag, f);
    }
    // gs ops: control points g_j = g_{j-1} exp(v_j)
    {
      std::vector<double> x = head;
      G g                   = gen_elem<G>(r, i);
      put_g(x, g);
      for (auto & v : vs) {
        g = smooth::composition(g, smooth::exp<G>(v));
        put_g(x, g);
      }
      serve<K, G>("cs_eval_gs", grp, x, tag, f);
      serve<K, G>("cs_dg_dgs", grp, x, tag, f);
    }
  }
}

// BSpline: configurations (N, t0, dt), times at every knot +-1 ulp, t_min, t_max, outside by 1 ulp and far
template<int K, class G>
void gen_bs(FILE * f, Rng & r, int nconf)
{
  constexpr int nb  = (K + 1) * (K + 1);
  const double * tb = basis_table<K, 1>();
  const std::string grp = GI<G>::name();
  static const double T0S[] = {0.0, -3.75, 1e6, -1e3, 0.1, 12345.678};
  static const double DTS[] = {1.0, 1e-3, 1e3, 0.1, 0.25, 3.0};
  for (int c = 0; c < nconf; ++c) {
    int N;
    switch ((c + K) % 4) {
    case 0: N = K + 1; break;
    case 1: N = 30; break;
    case 2: N = K + 2 + r.below(3); break;
    default: N = K + 1 + r.below(30 - K); break;
    }
    const double t0 = (c % 3 == 2) ? r.sign() * r.logu(1e-2, 1e6) : T0S[(c + 2 * K) % 6];
    const double dt = (c % 4 == 3) ? r.logu(1e-3, 1e3) : DTS[(c + K + r.below(6)) % 6];
    std::vector<double> head{double(K)};
    for (int k = 0; k < nb; ++k) head.push_back(tb[k]);
    head.push_back(t0);
    head.push_back(dt);
    std::vector<double> ctrl;
    G g = gen_elem<G>(r, c);
    for (int j = 0; j < N; ++j) {
      put_g(ctrl, g);
      const int as = (c % 2 == 0) ? 4 + r.below(2) : r.below(N_ANGLE_STRATA);
      g            = smooth::composition(g, smooth::exp<G>(TG<G>::make(r, as, 1, 1 + (j % 2))));
    }
    auto go = [&](double t, const std::string & tag) {
      std::vector<double> x = head;
      x.push_back(t);
      x.insert(x.end(), ctrl.begin(), ctrl.end());
      serve<K, G>("bs_eval", grp, x, tag, f);
    };
    const int nk = N - K;  // knots 0..nk
    const double tmax = t0 + double(nk) * dt;
    const double inf  = std::numeric_limits<double>::infinity();
    char buf[64];
    for (int i = 0; i <= nk; ++i) {
      const double tk = t0 + double(i) * dt;
      std::snprintf(buf, sizeof buf, "knot%d/%d", i, nk);
      go(std::nextafter(tk, -inf), std::string(buf) + "-1ulp");
      go(tk, std::string(buf));
      go(std::nextafter(tk, inf), std::string(buf) + "+1ulp");
    }
    go(t0, "t_min");
    go(tmax, "t_max");
    go(std::nextafter(t0, -inf), "t_min-1ulp");
    go(std::nextafter(tmax, inf), "t_max+1ulp");
    // the interior of (t_min - dt, t_min): truncation toward zero gives istar = 0 there and only the clamp of u
    // keeps the start value; and the mirror images above t_max
    {
      static const double FS[] = {1e-9, 1e-3, 0.25, 0.5, 0.75, 1.0 - 1e-9, 1.0, 1.0 + 1e-9};
      static const char * FN[] = {"1e-9", "1e-3", "0.25", "0.5", "0.75", "1-1e-9", "1", "1+1e-9"};
      for (int k = 0; k < 8; ++k) {
        go(t0 - FS[k] * dt, std::string("t_min-") + FN[k] + "dt");
        go(tmax + FS[k] * dt, std::string("t_max+") + FN[k] + "dt");
      }
    }
    go(t0 - 1e3 * dt - 1.0, "far_below");
    go(tmax + 1e3 * dt + 1.0, "far_above");
    go(t0 - 1e15 * dt, "far_below_1e15dt");
    go(tmax + 1e15 * dt, "far_above_1e15dt");
    // beyond the int64 range of the quotient (t - t0)/dt
    go(tmax + 1.01 * 9223372036854775808.0 * dt, "far_above_2^63dt");
    go(t0 - 1.01 * 9223372036854775808.0 * dt, "far_below_2^63dt");
    go(1e300, "far_above_1e300");
    go(-1e300, "far_below_1e300");
    go(inf, "plus_inf");
    go(-inf, "minus_inf");
    for (int k = 0; k < 4; ++k) go(t0 + r.uni() * double(nk) * dt, "inside");
    {
      std::vector<double> x{double(K), double(N), t0, dt};
      serve<K, V3>("bs_tminmax", "T3", x, "", f);
    }
  }
}

template<int K>
void gen_K(FILE * f, Rng & r, int n, int nconf)
{
  gen_cs<K, smooth::SO3d, 0>(f, r, n);
  gen_cs<K, smooth::SO3d, 1>(f, r, n);
  gen_cs<K, smooth::SE2d, 0>(f, r, n);
  gen_cs<K, smooth::SE2d, 1>(f, r, n);
  gen_cs<K, smooth::SE3d, 0>(f, r, n);
  gen_cs<K, smooth::SE3d, 1>(f, r, n);
  gen_cs<K, BSO3V3, 0>(f, r, n);
  gen_cs<K, BSO3V3, 1>(f, r, n);
  gen_cs<K, V3, 0>(f, r, n);
  gen_cs<K, V3, 1>(f, r, n);
  gen_bs<K, smooth::SO3d>(f, r, nconf);
  gen_bs<K, smooth::SE2d>(f, r, nconf);
  gen_bs<K, smooth::SE3d>(f, r, nconf);
  gen_bs<K, BSO3V3>(f, r, nconf);
  gen_bs<K, V3>(f, r, nconf);
}

// ------------------------------------------------------------------ eval mode
double parse_word(const std::string & w)
{
  uint64_t u = std::strtoull(w.c_str(), nullptr, 16);
  double d;
  std::memcpy(&d, &u, 8);
  return d;
}

int eval_mode()
{
  char * line = nullptr;
  size_t cap  = 0;
  while (getline(&line, &cap, stdin) > 0) {
    std::string s(line);
    while (!s.empty() && (s.back() == '\n' || s.back() == '\r')) s.pop_back();
    std::string tag;
    auto h = s.find(" # ");
    if (h != std::string::npos) {
      tag = s.substr(h + 3);
      s   = s.substr(0, h);
    }
    auto bar = s.find(" |");
    if (bar != std::string::npos) s = s.substr(0, bar);
    std::vector<std::string> t;
    size_t p = 0;
    while (p < s.size()) {
      while (p < s.size() && s[p] == ' ') ++p;
      size_t q = p;
      while (q < s.size() && s[q] != ' ') ++q;
      if (q > p) t.push_back(s.substr(p, q - p));
      p = q;
    }
    if (t.size() < 4 || t[2] != "f64") {
      std::printf("SKIP bad-line\n");
      continue;
    }
    std::vector<double> x;
    for (size_t i = 3; i < t.size(); ++i) x.push_back(parse_word(t[i]));
    if (!serve_K<KSEL>(t[0], t[1], x, tag, stdout)) std::printf("SKIP %s %s\n", t[0].c_str(), t[1].c_str());
  }
  std::free(line);
  return 0;
}

int main(int argc, char ** argv)
{
  if (argc > 1 && std::string(argv[1]) == "eval") return eval_mode();
  const int n     = argc > 1 ? std::atoi(argv[1]) : 12;
  const int nconf = argc > 2 ? std::atoi(argv[2]) : 1;
  Rng r(seed_from_env() * 1000 + 100 + KSEL);
  gen_K<KSEL>(stdout, r, n, nconf);
  return 0;
}
