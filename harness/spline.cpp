// spline.cpp — op-SEQUENCE correspondence harness for smooth::Spline<K,G> (property C12).
//
// One output line = one whole script executed on the real smooth::Spline:
//   spl_script <grp> f64 <K> <(K+1)^2 basis words> { ; stmt }* | probe-out { ; probe-out }* # tag
// statements / probes: see lean/Driver/OpsSplineSM.lean (same grammar, parsed there by the model).
//
// Build:  g++ -std=c++20 -O0 -DGRP=<0..4> spline.cpp     (0 SO3, 1 SE2, 2 SE3, 3 Vector2d, 4 double)
// Run:    ./spline <nscripts>        random scripts from VERIF_SEED
//         ./spline eval              re-execute the scripts given on stdin (text after " |" ignored);
//                                    the basis words of the request are REPLACED by the implementation's
//         ./spline basis             print `K words…` for K = 1..5
#include <map>
#include <sstream>
#include <iostream>

#include <smooth/se2.hpp>
#include <smooth/se3.hpp>
#include <smooth/so3.hpp>
#include <smooth/spline/spline.hpp>

#include "common.hpp"

using namespace vh;

#ifndef GRP
#define GRP 0
#endif

// ------------------------------------------------------------------ group adaptors
template<class G>
struct GI;

template<>
struct GI<smooth::SO3d>
{
  using G = smooth::SO3d;
  static constexpr int rep = 4, dof = 3;
  static const char * name() { return "SO3"; }
  static void put(std::vector<double> & o, const G & g) { for (int i = 0; i < rep; ++i) o.push_back(g.coeffs()(i)); }
  static G get(const double * p) { G g; for (int i = 0; i < rep; ++i) g.coeffs()(i) = p[i]; return g; }
  static Eigen::Vector3d tangent(Rng & r, double ang, double)
  {
    return gen_dir3<double>(r) * ang;
  }
};
template<>
struct GI<smooth::SE2d>
{
  using G = smooth::SE2d;
  static constexpr int rep = 4, dof = 3;
  static const char * name() { return "SE2"; }
  static void put(std::vector<double> & o, const G & g) { for (int i = 0; i < rep; ++i) o.push_back(g.coeffs()(i)); }
  static G get(const double * p) { G g; for (int i = 0; i < rep; ++i) g.coeffs()(i) = p[i]; return g; }
  static Eigen::Vector3d tangent(Rng & r, double ang, double tr)
  {
    return Eigen::Vector3d(tr * r.normal(), tr * r.normal(), r.sign() * ang);
  }
};
template<>
struct GI<smooth::SE3d>
{
  using G = smooth::SE3d;
  static constexpr int rep = 7, dof = 6;
  static const char * name() { return "SE3"; }
  static void put(std::vector<double> & o, const G & g) { for (int i = 0; i < rep; ++i) o.push_back(g.coeffs()(i)); }
  static G get(const double * p) { G g; for (int i = 0; i < rep; ++i) g.coeffs()(i) = p[i]; return g; }
  static Eigen::Matrix<double, 6, 1> tangent(Rng & r, double ang, double tr)
  {
    Eigen::Matrix<double, 6, 1> a;
    for (int i = 0; i < 3; ++i) a(i) = tr * r.normal();
    a.tail<3>() = gen_dir3<double>(r) * ang;
    return a;
  }
};
template<>
struct GI<Eigen::Vector2d>
{
  using G = Eigen::Vector2d;
  static constexpr int rep = 2, dof = 2;
  static const char * name() { return "T2"; }
  static void put(std::vector<double> & o, const G & g) { o.push_back(g(0)); o.push_back(g(1)); }
  static G get(const double * p) { return G(p[0], p[1]); }
  static Eigen::Vector2d tangent(Rng & r, double ang, double tr) { return Eigen::Vector2d(tr * r.normal() + ang, tr * r.normal()); }
};
template<>
struct GI<double>
{
  using G = double;
  static constexpr int rep = 1, dof = 1;
  static const char * name() { return "T1"; }
  static void put(std::vector<double> & o, const G & g) { o.push_back(g); }
  static G get(const double * p) { return p[0]; }
  static Eigen::Matrix<double, 1, 1> tangent(Rng & r, double ang, double tr)
  {
    Eigen::Matrix<double, 1, 1> a;
    a(0) = tr * r.normal() + r.sign() * ang;
    return a;
  }
};

#if GRP == 0
using TheG = smooth::SO3d;
#elif GRP == 1
using TheG = smooth::SE2d;
#elif GRP == 2
using TheG = smooth::SE3d;
#elif GRP == 3
using TheG = Eigen::Vector2d;
#else
using TheG = double;
#endif

// ------------------------------------------------------------------ statements
struct Stmt
{
  std::string op;
  std::vector<int> regs;
  std::vector<double> x;
  int flag = -1;
};

static std::string hexw(double v)
{
  uint64_t u;
  std::memcpy(&u, &v, 8);
  char b[24];
  std::snprintf(b, sizeof b, "%016llx", static_cast<unsigned long long>(u));
  return b;
}
static double unhex(const std::string & s)
{
  uint64_t u = std::strtoull(s.c_str(), nullptr, 16);
  double v;
  std::memcpy(&v, &u, 8);
  return v;
}

static std::string text(const Stmt & s)
{
  std::string o = s.op;
  for (int r : s.regs) o += " r" + std::to_string(r);
  for (double v : s.x) o += " " + hexw(v);
  if (s.flag >= 0) o += " " + std::to_string(s.flag);
  return o;
}

static Stmt parse_stmt(const std::vector<std::string> & t)
{
  Stmt s;
  s.op = t.at(0);
  for (size_t i = 1; i < t.size(); ++i) {
    const std::string & w = t[i];
    if (w[0] == 'r') s.regs.push_back(std::atoi(w.c_str() + 1));
    else if (w.size() == 16) s.x.push_back(unhex(w));
    else s.flag = std::atoi(w.c_str());
  }
  return s;
}

// ------------------------------------------------------------------ the machine: real smooth::Spline<K,G>
template<int K, class G>
struct Machine
{
  using I   = GI<G>;
  using Spl = smooth::Spline<K, G>;
  using Tan = smooth::Tangent<G>;
  std::map<int, Spl> regs;

  Spl & R(int r)
  {
    auto it = regs.find(r);
    if (it == regs.end()) {
      std::fprintf(stderr, "unset register r%d\n", r);
      std::exit(3);
    }
    return it->second;
  }

  static Tan tan_at(const double * p)
  {
    Tan v;
    for (int i = 0; i < I::dof; ++i) v(i) = p[i];
    return v;
  }

  // returns true and fills `out` for probes
  bool exec(const Stmt & s, std::vector<double> & out)
  {
    const double * x = s.x.data();
    const int rep = I::rep, dof = I::dof;
    if (s.op == "empty") {
      regs.insert_or_assign(s.regs[0], Spl(I::get(x)));
    } else if (s.op == "ctor_V") {
      Eigen::Matrix<double, I::dof, K> V;
      for (int j = 0; j < K; ++j) V.col(j) = tan_at(x + 1 + j * dof);
      G ga = I::get(x + 1 + K * dof);
      regs.insert_or_assign(s.regs[0], Spl(x[0], std::move(V), std::move(ga)));  // rvalue overload
    } else if (s.op == "ctor_vs") {
      std::vector<Tan> vs;
      for (int j = 0; j < K; ++j) vs.push_back(tan_at(x + 1 + j * dof));
      const G ga = I::get(x + 1 + K * dof);
      regs.insert_or_assign(s.regs[0], Spl(x[0], vs, ga));  // range overload
    } else if (s.op == "cv") {
      regs.insert_or_assign(s.regs[0], Spl::ConstantVelocity(tan_at(x), x[dof], I::get(x + dof + 1)));
    } else if (s.op == "cvgoal") {
      // ConstantVelocityGoal does not instantiate for built-in scalars (`gb - ga` is then a plain
      // double, not a Tangent) — the generator never emits it for G = double
      if constexpr (!std::is_floating_point_v<G>) {
        regs.insert_or_assign(s.regs[0], Spl::ConstantVelocityGoal(I::get(x), x[rep], I::get(x + rep + 1)));
      } else {
        std::fprintf(stderr, "cvgoal is not available for built-in scalars\n");
        std::exit(3);
      }
    } else if (s.op == "fixedcubic") {
      if constexpr (K == 3) {
        regs.insert_or_assign(
          s.regs[0],
          Spl::FixedCubic(I::get(x), tan_at(x + rep), tan_at(x + rep + dof), x[rep + 2 * dof], I::get(x + rep + 2 * dof + 1)));
      } else {
        std::fprintf(stderr, "fixedcubic needs K=3\n");
        std::exit(3);
      }
    } else if (s.op == "concat_local") {
      // The statement has three spellings in the public API — `y += o`, `y.concat_local(o)`, `a + o` (non-mutating) — and an
      // optional `reserve` that must not change anything.  The destination register number picks the spelling, so that every
      // path is driven and observed by the same probes and the same model statement (API-coverage unit, DESIGN 8.10).
      const Spl o = R(s.regs[2]);
      const int path = s.regs[0] % 4;
      if (path == 0) {
        Spl y = R(s.regs[1]);
        y += o;
        regs.insert_or_assign(s.regs[0], std::move(y));
      } else if (path == 1) {
        Spl y = R(s.regs[1]);
        y.concat_local(o);
        regs.insert_or_assign(s.regs[0], std::move(y));
      } else if (path == 2) {
        Spl & a = R(s.regs[1]);  // operator+ is declared without `const` (it copies *this; the probes on the source register
                                 // after the statement show that it is left unchanged)
        Spl sum = a + o;
        regs.insert_or_assign(s.regs[0], std::move(sum));
      } else {
        Spl y = R(s.regs[1]);
        y.reserve(y.size() + o.size() + 3);
        y += o;
        regs.insert_or_assign(s.regs[0], std::move(y));
      }
    } else if (s.op == "concat_global") {
      Spl y = R(s.regs[1]);
      const Spl o = R(s.regs[2]);
      y.concat_global(o);
      regs.insert_or_assign(s.regs[0], std::move(y));
    } else if (s.op == "crop") {
      Spl y = R(s.regs[1]).crop(x[0], x[1], s.flag != 0);
      regs.insert_or_assign(s.regs[0], std::move(y));
    } else if (s.op == "make_local") {
      Spl y = R(s.regs[1]);
      y.make_local();
      regs.insert_or_assign(s.regs[0], std::move(y));
    } else if (s.op == "copy") {
      Spl y = R(s.regs[1]);
      regs.insert_or_assign(s.regs[0], std::move(y));
    } else if (s.op == "eval") {
      Tan vel, acc;
      const G g = R(s.regs[0])(x[0], vel, acc);
      I::put(out, g);
      for (int i = 0; i < dof; ++i) out.push_back(vel(i));
      for (int i = 0; i < dof; ++i) out.push_back(acc(i));
      return true;
    } else if (s.op == "t_max") {
      out.push_back(R(s.regs[0]).t_max());
      return true;
    } else if (s.op == "start") {
      I::put(out, R(s.regs[0]).start());
      return true;
    } else if (s.op == "end") {
      I::put(out, R(s.regs[0]).end());
      return true;
    } else if (s.op == "size") {
      out.push_back(double(R(s.regs[0]).size()));
      return true;
    } else if (s.op == "arclength") {
      if constexpr (K == 3) {
        const Tan a = R(s.regs[0]).arclength(x[0]);
        for (int i = 0; i < dof; ++i) out.push_back(a(i));
        return true;
      } else {
        std::fprintf(stderr, "arclength needs K=3\n");
        std::exit(3);
      }
    } else {
      std::fprintf(stderr, "bad statement %s\n", s.op.c_str());
      std::exit(3);
    }
    return false;
  }
};

template<int K>
static std::string basis_words()
{
  std::string o;
  for (int r = 0; r <= K; ++r)
    for (int c = 0; c <= K; ++c) o += " " + hexw(smooth::kBasisFunction<K>[r][c]);
  return o;
}

// run a script, print the protocol line
template<int K, class G>
static void run_script(const std::vector<Stmt> & script, const std::string & tag)
{
  Machine<K, G> m;
  std::string req = std::string("spl_script ") + GI<G>::name() + " f64 " + std::to_string(K) + basis_words<K>();
  std::string outs;
  bool first = true;
  for (const auto & s : script) {
    req += " ; " + text(s);
    std::vector<double> out;
    if (m.exec(s, out)) {
      if (!first) outs += " ;";
      first = false;
      for (double v : out) outs += " " + hexw(v);
    }
  }
  std::printf("%s |%s # %s\n", req.c_str(), outs.c_str(), tag.c_str());
}

template<class G>
static void run_script_K(int K, const std::vector<Stmt> & script, const std::string & tag)
{
  switch (K) {
  case 1: run_script<1, G>(script, tag); break;
  case 2: run_script<2, G>(script, tag); break;
  case 3: run_script<3, G>(script, tag); break;
  case 4: run_script<4, G>(script, tag); break;
  case 5: run_script<5, G>(script, tag); break;
  default: std::fprintf(stderr, "bad K\n"); std::exit(3);
  }
}

// ------------------------------------------------------------------ generator
// The generator executes the script on a shadow machine while generating (to read end()/t_max()
// through the public API) and tracks the SPECIFIED knot times of every register.
template<int K, class G>
struct Gen
{
  using I   = GI<G>;
  using Tan = smooth::Tangent<G>;
  Rng & r;
  Machine<K, G> m;
  std::vector<Stmt> script;
  std::map<int, std::vector<double>> kn;  // specified end times
  int next = 0;
  double D;    // duration scale of this script
  bool wild;   // independent durations over the whole range
  int n_crop_first = 0, n_crop_later = 0, n_crop_knot = 0, n_crop_nonlocal = 0;

  explicit Gen(Rng & r_) : r(r_)
  {
    wild = r.below(100) < 15;
    D    = r.logu(1e-2, 1e2);
  }

  void push(const Stmt & s)
  {
    std::vector<double> out;
    m.exec(s, out);
    script.push_back(s);
  }

  double duration()
  {
    int c = r.below(10);
    if (c == 0) {
      static const double nice[] = {0.5, 1, 2, 3, 4, 0.25, 5};
      return nice[r.below(7)];
    }
    double T = wild ? r.logu(1e-3, 1e3) : D * r.logu(0.1, 10);
    return std::min(1e3, std::max(1e-3, T));
  }

  Tan ctrl_velocity()
  {
    int c = r.below(12);
    if (c == 0) return Tan::Zero();
    double ang = (c < 3) ? r.logu(1e-6, 1e-2) : r.uni(0.05, 1.3);
    double tr  = (c % 3 == 0) ? 0.0 : (c % 3 == 1 ? 1.0 : 5.0);
    return I::tangent(r, ang, tr);
  }

  G element()
  {
    int c = r.below(8);
    if (c == 0) return smooth::Identity<G>();
    Tan a = I::tangent(r, r.uni(0.05, 2.8), c < 4 ? 1.0 : 5.0);
    return smooth::exp<G>(a);
  }

  void putG(Stmt & s, const G & g) { I::put(s.x, g); }
  void putT(Stmt & s, const Tan & v)
  {
    for (int i = 0; i < I::dof; ++i) s.x.push_back(v(i));
  }

  // ---- constructors; `ga` optional forced start
  int base(const G * forced_ga = nullptr)
  {
    const int d = next++;
    const G ga  = forced_ga ? *forced_ga : element();
    int kind    = r.below(20);
    Stmt s;
    s.regs   = {d};
    double T = duration();
    if (kind < 6) {
      s.op = "ctor_V";
      s.x.push_back(T);
      for (int j = 0; j < K; ++j) putT(s, ctrl_velocity());
      putG(s, ga);
      kn[d] = {T};
    } else if (kind < 10) {
      s.op = "ctor_vs";
      s.x.push_back(T);
      for (int j = 0; j < K; ++j) putT(s, ctrl_velocity());
      putG(s, ga);
      kn[d] = {T};
    } else if (kind < 14) {
      s.op      = "cv";
      Tan w     = I::tangent(r, r.uni(0.0, 3.0), r.below(3) == 0 ? 0.0 : 3.0);
      int tk    = r.below(30);
      if (tk == 0) T = 0.0;
      if (tk == 1) T = -T;
      Tan v = (T > 0) ? Tan(w / T) : w;
      putT(s, v);
      s.x.push_back(T);
      putG(s, ga);
      kn[d] = T > 0 ? std::vector<double>{T} : std::vector<double>{};
    } else if (kind < 16 && !std::is_floating_point_v<G>) {
      s.op = "cvgoal";
      putG(s, element());
      s.x.push_back(T);
      putG(s, ga);
      kn[d] = {T};
    } else if (kind < 19 && K == 3) {
      s.op = "fixedcubic";
      putG(s, element());
      putT(s, Tan(I::tangent(r, r.uni(0, 1.5), 2.0) / T));
      putT(s, Tan(I::tangent(r, r.uni(0, 1.5), 2.0) / T));
      s.x.push_back(T);
      putG(s, ga);
      kn[d] = {T};
    } else if (kind == 19) {
      s.op = "empty";
      putG(s, ga);
      kn[d] = {};
    } else {
      s.op = "ctor_V";
      s.x.push_back(T);
      for (int j = 0; j < K; ++j) putT(s, ctrl_velocity());
      putG(s, ga);
      kn[d] = {T};
    }
    push(s);
    ctor_probes(d);
    return d;
  }

  void probe(const char * op, int reg)
  {
    Stmt s;
    s.op   = op;
    s.regs = {reg};
    push(s);
  }
  void probe_t(const char * op, int reg, double t)
  {
    Stmt s;
    s.op   = op;
    s.regs = {reg};
    s.x    = {t};
    push(s);
  }

  static double up(double x) { return std::nextafter(x, INFINITY); }
  static double dn(double x) { return std::nextafter(x, -INFINITY); }

  double tmax_of(int reg) { return kn[reg].empty() ? 0.0 : kn[reg].back(); }

  // interesting evaluation times of a register (knots, knots ± 1ulp, interior, ends, outside)
  std::vector<double> times_of(int reg, int n_interior)
  {
    std::vector<double> ts;
    const auto & k  = kn[reg];
    const double tm = tmax_of(reg);
    ts.push_back(0.0);
    ts.push_back(-0.0);
    ts.push_back(dn(0.0));
    ts.push_back(-r.logu(1e-3, 1e1));
    double prev = 0;
    for (double e : k) {
      ts.push_back(e);
      ts.push_back(up(e));
      ts.push_back(dn(e));
      for (int i = 0; i < n_interior; ++i) ts.push_back(prev + (e - prev) * r.uni(0.02, 0.98));
      prev = e;
    }
    ts.push_back(tm + r.logu(1e-3, 1e1) * std::max(1.0, tm));
    ts.push_back(tm * 1.5 + 1.0);
    return ts;
  }

  void ctor_probes(int d)
  {
    probe("size", d);
    probe("t_max", d);
    probe("start", d);
    probe("end", d);
    for (double t : times_of(d, 3)) probe_t("eval", d, t);
  }

  int pick_reg() { return r.below(next); }
  // prefer registers with several segments (crop strata "later segment", "on a knot" need them)
  int pick_reg_multi()
  {
    int a = pick_reg();
    for (int k = 0; k < 8 && kn[a].size() < 2 && r.below(8) != 0; ++k) a = pick_reg();
    return a;
  }

  // ---- concat
  int concat_with(int a, int b, bool global)
  {
    const int d = next++;
    Stmt s;
    s.op   = global ? "concat_global" : "concat_local";
    s.regs = {d, a, b};
    const double t1 = tmax_of(a);
    std::vector<double> k = kn[a];
    for (double e : kn[b]) k.push_back(t1 + e);
    kn[d] = k;
    push(s);
    probe("size", d);
    probe("t_max", d);
    probe("start", d);
    probe("end", d);
    probe("t_max", a);
    probe("end", a);
    probe("start", a);
    probe("start", b);
    probe("end", b);
    for (double t : times_of(d, 2)) {
      probe_t("eval", d, t);
      probe_t("eval", a, t);
      probe_t("eval", b, t - t1);
    }
    // times chosen in the local frame of b
    for (double sb : times_of(b, 1)) {
      const double t = t1 + sb;
      probe_t("eval", d, t);
      probe_t("eval", a, t);
      probe_t("eval", b, t - t1);
    }
    return d;
  }

  bool concat()
  {
    int a = pick_reg();
    bool global   = r.below(3) == 0;
    bool matching = global && r.below(4) != 0;
    int b;
    if (matching || r.below(2) == 0) {
      if (kn[a].size() + 1 > 8) return false;
      if (matching) {
        const G e = m.R(a).end();
        b         = base(&e);
      } else if (!global && r.below(10) < 7) {
        const G e = smooth::Identity<G>();  // operand in the local frame: starts at the identity
        b         = base(&e);
      } else {
        b = base();
      }
    } else {
      b = pick_reg();
    }
    if (kn[a].size() + kn[b].size() > 8) return false;
    concat_with(a, b, global);
    return true;
  }

  // ---- crop
  double crop_point(int a, int & stratum)
  {
    const auto & k  = kn[a];
    const double tm = tmax_of(a);
    if (k.empty()) {
      stratum = 9;
      return r.uni(-1, 1);
    }
    int c = r.below(100);
    if (k.size() >= 2 && c < 34) c = (c < 14) ? 0 : (c < 26 ? 40 : 60);  // several segments: favour later segments / knots
    if (c < 34) {  // inside the first segment
      stratum = 0;
      return k[0] * r.uni(0.02, 0.98);
    } else if (c < 56) {  // inside a later segment (or the first when there is only one)
      int j     = k.size() >= 2 ? 1 + r.below(int(k.size()) - 1) : 0;
      stratum   = j == 0 ? 0 : 1;
      double lo = j == 0 ? 0 : k[j - 1];
      return lo + (k[j] - lo) * r.uni(0.02, 0.98);
    } else if (c < 70) {  // exactly on a knot
      int j   = r.below(int(k.size()));
      stratum = 2;
      return k[j];
    } else if (c < 78) {  // knot ± 1ulp
      int j   = r.below(int(k.size()));
      stratum = 3;
      return r.below(2) ? up(k[j]) : dn(k[j]);
    } else if (c < 88) {
      stratum = 4;
      return 0.0;
    } else if (c < 92) {
      stratum = 5;
      return -r.logu(1e-3, 1e1);
    } else if (c < 96) {
      stratum = 6;
      return tm;
    } else {
      stratum = 7;
      return tm + r.logu(1e-3, 1e1) * std::max(1.0, tm);
    }
  }

  bool crop()
  {
    int a = pick_reg_multi();
    int sa, sb;
    double ta = crop_point(a, sa);
    double tb;
    int c = r.below(100);
    if (c < 8) {
      tb = INFINITY;
      sb = 8;
    } else {
      tb = crop_point(a, sb);
      if (c < 90 && tb < ta) std::swap(ta, tb);
      if (c < 90 && tb == ta) tb = tmax_of(a);
    }
    const bool loc = r.below(10) < 7;
    crop_op(a, ta, tb, loc);
    return true;
  }

  int crop_op(int a, double ta, double tb, bool loc)
  {
    const int d    = next++;
    Stmt s;
    s.op   = "crop";
    s.regs = {d, a};
    s.x    = {ta, tb};
    s.flag = loc ? 1 : 0;
    const double tm  = tmax_of(a);
    const double tac = std::max<double>(ta, 0);
    const double tbc = std::min<double>(tb, tm);
    std::vector<double> k;
    if (tbc > tac) {
      for (double e : kn[a])
        if (e > tac && e < tbc) k.push_back(e - tac);
      k.push_back(tbc - tac);
    }
    kn[d] = k;
    push(s);
    probe("size", d);
    probe("t_max", d);
    probe("start", d);
    probe("end", d);
    probe("t_max", a);
    probe_t("eval", a, tac);
    probe_t("eval", a, tbc);
    for (double t : times_of(d, 3)) {
      probe_t("eval", d, t);
      probe_t("eval", a, tac + t);
    }
    return d;
  }

  void make_local() { make_local_of(pick_reg()); }

  int make_local_of(int a)
  {
    const int d = next++;
    Stmt s;
    s.op   = "make_local";
    s.regs = {d, a};
    kn[d]  = kn[a];
    push(s);
    probe("start", d);
    probe("end", d);
    probe("start", a);
    probe("end", a);
    probe("size", d);
    probe("t_max", d);
    for (double t : times_of(d, 2)) {
      probe_t("eval", d, t);
      probe_t("eval", a, t);
    }
    return d;
  }

  // ---- chain mode: every operation is applied to the result of the previous one (histories of depth >= 3
  // mixing crop / concat_local / concat_global / make_local / crop-of-crop)
  double inside(int a, int j, double lo, double hi)
  {
    const auto & k = kn[a];
    const double s = j == 0 ? 0.0 : k[j - 1];
    return s + (k[j] - s) * r.uni(lo, hi);
  }

  int chain_crop(int cur)
  {
    const auto & k = kn[cur];
    const int n    = int(k.size());
    if (n == 0) return crop_op(cur, 0.0, INFINITY, true);
    int j = n >= 2 ? r.below((n + 1) / 2) : 0;          // segment of ta: first half
    int q = n >= 2 ? std::max(j + (r.below(4) ? 1 : 0), n / 2 + r.below(n - n / 2)) : 0;  // segment of tb: second half
    if (q >= n) q = n - 1;
    double ta, tb;
    int ca = r.below(10), cb = r.below(10);
    if (ca < 6) ta = (j == q) ? inside(cur, j, 0.08, 0.42) : inside(cur, j, 0.1, 0.9);
    else if (ca < 8) ta = j == 0 ? 0.0 : k[j - 1];      // exactly on a knot (or 0)
    else ta = 0.0;
    if (cb < 6) tb = (j == q) ? inside(cur, q, 0.58, 0.92) : inside(cur, q, 0.1, 0.9);
    else if (cb < 8) tb = k[q];                          // exactly on a knot
    else tb = INFINITY;
    if (!(tb > ta)) tb = INFINITY;
    return crop_op(cur, ta, tb, r.below(10) < 7);
  }

  void generate_chain()
  {
    int cur   = base();
    int nseg  = 2 + r.below(3);
    for (int i = 1; i < nseg; ++i) {
      const G e = smooth::Identity<G>();
      int b     = base(&e);
      cur       = concat_with(cur, b, false);
    }
    int depth = 3 + r.below(4);
    for (int i = 0; i < depth; ++i) {
      int c = r.below(100);
      if (c < 45 || kn[cur].size() >= 7) {
        cur = chain_crop(cur);
      } else if (c < 65) {
        const G e = r.below(5) ? smooth::Identity<G>() : element();
        int b     = base(&e);
        cur       = concat_with(cur, b, false);
      } else if (c < 80) {
        const G e = r.below(5) ? m.R(cur).end() : element();
        int b     = base(&e);
        cur       = concat_with(cur, b, true);
      } else if (c < 88) {
        int b = base();                                   // the chain continues as the RIGHT operand
        if (kn[b].size() + kn[cur].size() <= 8) cur = concat_with(b, cur, r.below(3) == 0);
      } else {
        cur = make_local_of(cur);
      }
    }
    probe("size", cur);
    probe("t_max", cur);
    probe("start", cur);
    probe("end", cur);
    for (double t : times_of(cur, 2)) {
      probe_t("eval", cur, t);
      if constexpr (K == 3) probe_t("arclength", cur, t);
    }
  }

  void final_probes()
  {
    int n = 1 + r.below(2);
    for (int i = 0; i < n; ++i) {
      int a = pick_reg();
      probe("size", a);
      probe("t_max", a);
      probe("start", a);
      probe("end", a);
      for (double t : times_of(a, 2)) {
        probe_t("eval", a, t);
        if constexpr (K == 3) probe_t("arclength", a, t);
      }
    }
  }

  void generate()
  {
    if (r.below(100) < 55) {
      generate_chain();
      return;
    }
    int nbase = 1 + r.below(3);
    for (int i = 0; i < nbase; ++i) base();
    int nops = r.below(8);
    for (int i = 0; i < nops; ++i) {
      int c = r.below(100);
      if (c < 45) {
        if (!concat()) crop();
      } else if (c < 94) {
        crop();
      } else {
        make_local();
      }
    }
    final_probes();
  }
};

template<int K, class G>
static void gen_one(Rng & r, int idx)
{
  Gen<K, G> g(r);
  g.generate();
  run_script<K, G>(g.script, "gen" + std::to_string(idx) + (g.wild ? " wild" : ""));
}

// ------------------------------------------------------------------ eval mode
static int eval_mode()
{
  std::string line;
  while (std::getline(std::cin, line)) {
    if (line.empty()) continue;
    std::string tag;
    auto hp = line.find(" # ");
    if (hp != std::string::npos) {
      tag  = line.substr(hp + 3);
      line = line.substr(0, hp);
    }
    auto bp = line.find(" |");
    if (bp != std::string::npos) line = line.substr(0, bp);
    std::istringstream is(line);
    std::vector<std::string> t;
    std::string w;
    while (is >> w) t.push_back(w);
    if (t.size() < 4 || t[0] != "spl_script" || t[1] != GI<TheG>::name()) {
      std::printf("SKIP %s\n", line.substr(0, 60).c_str());
      continue;
    }
    const int K = std::atoi(t[3].c_str());
    size_t pos  = 4 + size_t(K + 1) * size_t(K + 1);
    std::vector<Stmt> script;
    std::vector<std::string> cur;
    for (; pos < t.size(); ++pos) {
      if (t[pos] == ";") {
        if (!cur.empty()) script.push_back(parse_stmt(cur));
        cur.clear();
      } else {
        cur.push_back(t[pos]);
      }
    }
    if (!cur.empty()) script.push_back(parse_stmt(cur));
    run_script_K<TheG>(K, script, tag.empty() ? "eval" : tag);
  }
  return 0;
}

int main(int argc, char ** argv)
{
  if (argc > 1 && std::string(argv[1]) == "eval") return eval_mode();
  if (argc > 1 && std::string(argv[1]) == "basis") {
    std::printf("1%s\n2%s\n3%s\n4%s\n5%s\n", basis_words<1>().c_str(), basis_words<2>().c_str(), basis_words<3>().c_str(),
                basis_words<4>().c_str(), basis_words<5>().c_str());
    return 0;
  }
  const int n = argc > 1 ? std::atoi(argv[1]) : 10;
  Rng r(seed_from_env() * 7919ull + 131ull * GRP + 17ull);
  for (int i = 0; i < n; ++i) {
    switch (1 + r.below(5)) {
    case 1: gen_one<1, TheG>(r, i); break;
    case 2: gen_one<2, TheG>(r, i); break;
    case 3: gen_one<3, TheG>(r, i); break;
    case 4: gen_one<4, TheG>(r, i); break;
    default: gen_one<5, TheG>(r, i); break;
    }
  }
  return 0;
}
