// poly.cpp — harness of property C20 (polynomial / quadrature / search utilities).
// Includes /repo/include directly and calls the real code in-process.
//
//   ./poly <n> [L]    T1 lines (L = max length of the exhaustively enumerated sorted ranges, default 8);
//                     T1 lines for the run-time functions on stratified inputs (VERIF_SEED)
//   ./poly dump       every constexpr table the code produces, as exact hex bit patterns
//   ./poly probe      inputs on which the implementation may crash (each run in a forked child)
//   ./poly eval       re-evaluate request lines read from stdin with the implementation
//
// Line format:  op grp f64 in… | out… # stratum
//   poly_monoderiv   K<k>          u p                 | row (K+1)
//   poly_monoderivs  K<k>P<p>      u                   | (P+1)x(K+1)
//   poly_lagrange    K<k>          ts (K+1)            | (K+1)x(K+1)
//   poly_basisderivs K<k>N<n>      B (K+1)^2, ts (N)   | (K+1)xN
//   poly_intabs      -             t0 t1 A B C         | value
//   search_f64 / search_int  -         t r…                | idx iters calls chk   (idx = n means end())
//   poly_basis / poly_cumbasis  <Basis>:<K>            | (K+1)x(K+1)          (no inputs: constexpr table)
//   poly_monint      <K>:<P>                           | (K+1)x(K+1)
//   poly_lgr         <K>                               | K nodes, K weights
#include <cmath>  // basis.hpp uses std::sqrt / std::abs without including <cmath> itself

#include <smooth/detail/utils.hpp>
#include <smooth/polynomial/basis.hpp>
#include <smooth/polynomial/quadrature.hpp>

#include <sys/wait.h>
#include <unistd.h>

#include <algorithm>
#include <compare>
#include <limits>
#include <string>
#include <vector>

#include "common.hpp"

using namespace vh;
using smooth::PolynomialBasis;

constexpr std::size_t KMAX   = 10;
constexpr std::size_t PMAX   = 4;   // monomial_derivatives<K,P>; monomial_integral<K,P> tables that are re-proved in Lean (T2)
constexpr std::size_t PIMAX  = 11;  // monomial_integral<K,P>: every order up to K+1 is dumped, audited exactly and compared with the model (seed C20e)
constexpr std::size_t LGRMAX = 16;

// ------------------------------------------------------------------ compile-time dispatch
template<std::size_t N, class F>
bool with_index(std::size_t k, F && f)
{
  bool hit = false;
  smooth::utils::static_for<N>([&](auto I) {
    if (I.value == k) {
      f(I);
      hit = true;
    }
  });
  return hit;
}

static void put_words(FILE * f, const std::vector<double> & x)
{
  for (double v : x) Prec<double>::put(f, v);
}

static void emit(const char * op, const std::string & grp, const std::vector<double> & in, const std::vector<double> & out,
  const char * tag)
{
  std::fprintf(stdout, "%s %s f64", op, grp.c_str());
  put_words(stdout, in);
  std::fprintf(stdout, " |");
  put_words(stdout, out);
  if (tag && *tag) std::fprintf(stdout, " # %s", tag);
  std::fprintf(stdout, "\n");
}

template<class M>
static void flat(const M & m, std::vector<double> & out)
{
  for (std::size_t i = 0; i < M::Rows; ++i)
    for (std::size_t j = 0; j < M::Cols; ++j) out.push_back(m[i][j]);
}

// ------------------------------------------------------------------ evaluation of one request by the implementation
static const char * basis_names[8] = {"Bernstein", "Bspline", "Chebyshev1st", "Chebyshev2nd", "Hermite", "Laguerre", "Legendre", "Monomial"};
static constexpr PolynomialBasis basis_vals[8] = {PolynomialBasis::Bernstein, PolynomialBasis::Bspline, PolynomialBasis::Chebyshev1st,
  PolynomialBasis::Chebyshev2nd, PolynomialBasis::Hermite, PolynomialBasis::Laguerre, PolynomialBasis::Legendre, PolynomialBasis::Monomial};

template<std::size_t Bi, std::size_t K>
struct Tables
{
  static constexpr auto basis = smooth::polynomial_basis<basis_vals[Bi], K, double>();
  static constexpr auto cum   = smooth::polynomial_cumulative_basis<basis_vals[Bi], K, double>();
};

template<std::size_t K, std::size_t P>
struct MonInt
{
  static constexpr auto tab = smooth::monomial_integral<K, P, double>();
};

template<std::size_t K>
struct Lgr
{
  static constexpr auto tab = smooth::lgr_nodes<K>();
};

// search with an instrumented comparison: records calls, loop iterations and a pivot checksum
template<class V>
static void run_search(const std::vector<V> & r, double t, std::vector<double> & out)
{
  long calls = 0, iters = 0, chk = 0;
  bool expect_first = true;
  const V * base    = r.data();
  auto wo           = [&](const V & s, const double & tt) {
    const long idx = &s - base;
    ++calls;
    const auto res = (s <=> tt);
    if (calls > 2) {
      if (expect_first) {
        ++iters;
        chk += iters * idx;  // idx = pivot + 1
        expect_first = (res <= 0);
      } else {
        expect_first = true;
      }
    }
    return res;
  };
  const auto it = smooth::utils::binary_interval_search(r, t, wo);
  out.push_back(double(it - r.cbegin()));
  out.push_back(double(iters));
  out.push_back(double(calls));
  out.push_back(double(chk));
}

static bool parse_KP(const std::string & g, char c1, std::size_t & a, char c2, std::size_t & b)
{
  if (g.empty() || g[0] != c1) return false;
  auto p = g.find(c2, 1);
  if (p == std::string::npos) return false;
  a = std::stoul(g.substr(1, p - 1));
  b = std::stoul(g.substr(p + 1));
  return true;
}

static bool eval_op(const std::string & op, const std::string & grp, const std::vector<double> & x, std::vector<double> & out)
{
  if (op == "poly_monoderiv") {
    if (grp.size() < 2 || grp[0] != 'K' || x.size() != 2) return false;
    const std::size_t K = std::stoul(grp.substr(1));
    return with_index<KMAX + 1>(K, [&](auto I) {
      const auto r = smooth::monomial_derivative<I.value, double>(x[0], std::size_t(x[1]));
      flat(r, out);
    });
  }
  if (op == "poly_monoderivs") {
    std::size_t K, P;
    if (!parse_KP(grp, 'K', K, 'P', P) || x.size() != 1) return false;
    return with_index<KMAX + 1>(K, [&](auto I) {
      with_index<PMAX + 1>(P, [&](auto J) {
        const auto r = smooth::monomial_derivatives<I.value, J.value, double>(x[0]);
        flat(r, out);
      });
    }) && P <= PMAX;
  }
  if (op == "poly_lagrange") {
    if (grp.size() < 2 || grp[0] != 'K') return false;
    const std::size_t K = std::stoul(grp.substr(1));
    if (x.size() != K + 1) return false;
    return with_index<KMAX + 1>(K, [&](auto I) {
      const auto r = smooth::lagrange_basis<I.value>(x);
      flat(r, out);
    });
  }
  if (op == "poly_basisderivs") {
    std::size_t K, N;
    if (!parse_KP(grp, 'K', K, 'N', N) || N < 1 || N > 5 || x.size() != (K + 1) * (K + 1) + N) return false;
    return with_index<KMAX + 1>(K, [&](auto I) {
      constexpr std::size_t Kc = I.value;
      smooth::StaticMatrix<double, Kc + 1, Kc + 1> B;
      for (std::size_t i = 0; i <= Kc; ++i)
        for (std::size_t j = 0; j <= Kc; ++j) B[i][j] = x[i * (Kc + 1) + j];
      with_index<6>(N, [&](auto J) {
        constexpr std::size_t Nc = J.value;
        if constexpr (Nc >= 1) {
          std::array<double, Nc> ts;
          for (std::size_t j = 0; j < Nc; ++j) ts[j] = x[(Kc + 1) * (Kc + 1) + j];
          const auto r = smooth::polynomial_basis_derivatives<Kc, Nc, double>(B, ts);
          flat(r, out);
        }
      });
    });
  }
  if (op == "poly_intabs") {
    if (x.size() != 5) return false;
    out.push_back(smooth::integrate_absolute_polynomial(x[0], x[1], x[2], x[3], x[4]));
    return true;
  }
  if (op == "search_f64") {
    if (x.empty()) return false;
    std::vector<double> r(x.begin() + 1, x.end());
    run_search<double>(r, x[0], out);
    return true;
  }
  if (op == "search_int") {
    if (x.empty()) return false;
    std::vector<int> r;
    for (std::size_t i = 1; i < x.size(); ++i) r.push_back(int(x[i]));
    run_search<int>(r, x[0], out);
    return true;
  }
  if (op == "search2_f64" || op == "search2_int") {  // TWO-argument overload (default three-way comparison)
    if (x.empty()) return false;
    if (op == "search2_f64") {
      std::vector<double> r(x.begin() + 1, x.end());
      out.push_back(double(smooth::utils::binary_interval_search(r, x[0]) - r.cbegin()));
    } else {
      std::vector<int> r;
      for (std::size_t i = 1; i < x.size(); ++i) r.push_back(int(x[i]));
      out.push_back(double(smooth::utils::binary_interval_search(r, x[0]) - r.cbegin()));
    }
    return true;
  }
  if (op == "poly_basis" || op == "poly_cumbasis") {
    auto c = grp.find(':');
    if (c == std::string::npos || !x.empty()) return false;
    const std::string bn = grp.substr(0, c);
    const std::size_t K  = std::stoul(grp.substr(c + 1));
    std::size_t bi       = 8;
    for (std::size_t i = 0; i < 8; ++i)
      if (bn == basis_names[i]) bi = i;
    if (bi == 8) return false;
    const bool cum = op == "poly_cumbasis";
    return with_index<8>(bi, [&](auto Bi) {
      with_index<KMAX + 1>(K, [&](auto I) {
        if (cum) flat(Tables<Bi.value, I.value>::cum, out);
        else flat(Tables<Bi.value, I.value>::basis, out);
      });
    }) && K <= KMAX;
  }
  if (op == "poly_monint") {
    auto c = grp.find(':');
    if (c == std::string::npos || !x.empty()) return false;
    const std::size_t K = std::stoul(grp.substr(0, c)), P = std::stoul(grp.substr(c + 1));
    return with_index<KMAX + 1>(K, [&](auto I) {
      with_index<PIMAX + 1>(P, [&](auto J) { flat(MonInt<I.value, J.value>::tab, out); });
    }) && P <= PIMAX;
  }
  if (op == "poly_lgr") {
    if (!x.empty()) return false;
    const std::size_t K = std::stoul(grp);
    if (K < 1) return false;
    return with_index<LGRMAX>(K - 1, [&](auto I) {
      constexpr auto & t = Lgr<I.value + 1>::tab;
      for (double v : t.first) out.push_back(v);
      for (double v : t.second) out.push_back(v);
    });
  }
  return false;
}

static bool run_line(const char * op, const std::string & grp, const std::vector<double> & in, const char * tag)
{
  std::vector<double> out;
  if (!eval_op(op, grp, in, out)) {
    std::printf("SKIP %s %s\n", op, grp.c_str());
    return false;
  }
  emit(op, grp, in, out, tag);
  return true;
}

// ------------------------------------------------------------------ dump of all constexpr tables
static void dump_tables()
{
  for (std::size_t bi = 0; bi < 8; ++bi)
    for (std::size_t K = 0; K <= KMAX; ++K) {
      const std::string g = std::string(basis_names[bi]) + ":" + std::to_string(K);
      run_line("poly_basis", g, {}, "table");
      run_line("poly_cumbasis", g, {}, "table");
    }
  for (std::size_t K = 0; K <= KMAX; ++K)
    for (std::size_t P = 0; P <= std::max<std::size_t>(PMAX, K + 1); ++P)
      run_line("poly_monint", std::to_string(K) + ":" + std::to_string(P), {}, P <= PMAX ? "table" : "table_high_order");
  for (std::size_t K = 1; K <= LGRMAX; ++K) run_line("poly_lgr", std::to_string(K), {}, "table");
}

// ------------------------------------------------------------------ generators
static double gen_u(Rng & r, int s, const char *& tag)
{
  switch (s % 10) {
  case 0: tag = "u_zero"; return r.below(2) ? 0.0 : -0.0;
  case 1: tag = "u_one"; return r.sign();
  case 2: tag = "u_unit"; return r.uni(0, 1);
  case 3: tag = "u_sym"; return r.uni(-2, 2);
  case 4: tag = "u_tiny"; return r.sign() * r.logu(1e-300, 1e-8);
  case 5: tag = "u_large"; return r.sign() * r.logu(1e1, 1e30);
  case 6: tag = "u_denormal"; return r.sign() * r.logu(1e-320, 1e-308);
  case 7: tag = "u_dyadic"; return double(r.below(65) - 32) / 16.0;
  case 8: tag = "u_overflow"; return r.sign() * r.logu(1e31, 1e200);
  default: tag = "u_generic"; return r.sign() * r.logu(1e-3, 1e2);
  }
}

static std::vector<double> gen_nodes(Rng & r, std::size_t K, int s, const char *& tag)
{
  std::vector<double> ts(K + 1);
  switch (s % 9) {
  case 0:
    tag = "nodes_equi01";
    for (std::size_t i = 0; i <= K; ++i) ts[i] = K == 0 ? 0.5 : double(i) / double(K);
    break;
  case 1:
    tag = "nodes_equi11";
    for (std::size_t i = 0; i <= K; ++i) ts[i] = K == 0 ? 0.0 : -1.0 + 2.0 * double(i) / double(K);
    break;
  case 2:
    tag = "nodes_cheb";
    for (std::size_t i = 0; i <= K; ++i) ts[i] = -std::cos(M_PI * (2.0 * i + 1) / (2.0 * K + 2));
    break;
  case 3:
    tag = "nodes_int";
    for (std::size_t i = 0; i <= K; ++i) ts[i] = double(i);
    break;
  case 4: {
    tag = "nodes_random_sorted";
    for (std::size_t i = 0; i <= K; ++i) ts[i] = -1.0 + 2.0 * (double(i) + r.uni(0.1, 0.9)) / double(K + 1);
    break;
  }
  case 5: {
    tag = "nodes_random_perm";
    for (std::size_t i = 0; i <= K; ++i) ts[i] = -1.0 + 2.0 * (double(i) + r.uni(0.1, 0.9)) / double(K + 1);
    for (std::size_t i = K; i > 0; --i) std::swap(ts[i], ts[r.below(int(i + 1))]);
    break;
  }
  case 6: {
    tag = "nodes_clustered";
    for (std::size_t i = 0; i <= K; ++i) ts[i] = 0.3 + 1e-3 * (double(i) + r.uni(0.1, 0.9));
    break;
  }
  case 7: {
    tag = K == 0 ? "nodes_single" : "nodes_duplicate";
    for (std::size_t i = 0; i <= K; ++i) ts[i] = double(i) * 0.25;
    if (K > 0) ts[r.below(int(K)) + 1] = ts[0];
    break;
  }
  default: {
    tag = "nodes_shifted_scaled";
    const double a = r.uni(-5, 5), h = r.logu(0.1, 10);
    for (std::size_t i = 0; i <= K; ++i) ts[i] = a + h * (double(i) + r.uni(0.2, 0.8));
    break;
  }
  }
  return ts;
}

static const double THR = 1e-9;

static void gen_intabs(Rng & r, int s, std::vector<double> & x, const char *& tag)
{
  double t0 = r.uni(-3, 1), t1 = t0 + r.uni(0.1, 4);
  double A = 0, B = 0, C = 0;
  auto from_roots = [&](double a, double r1, double r2) {
    A = a;
    B = -a * (r1 + r2);
    C = a * r1 * r2;
  };
  const double len = t1 - t0;
  switch (s % 26) {
  case 0: tag = "lin_root_inside"; A = 0; B = r.sign() * r.logu(1e-3, 1e3); C = -B * r.uni(t0, t1); break;
  case 1: tag = "lin_root_left"; A = 0; B = r.sign() * r.logu(1e-3, 1e3); C = -B * (t0 - r.uni(0.01, 5)); break;
  case 2: tag = "lin_root_right"; A = 0; B = r.sign() * r.logu(1e-3, 1e3); C = -B * (t1 + r.uni(0.01, 5)); break;
  case 3: {
    tag = "lin_root_at_end";
    t0 = double(r.below(7) - 3); t1 = t0 + double(1 + r.below(4));
    A = 0; B = r.sign() * double(1 + r.below(8)); C = -B * (r.below(2) ? t0 : t1);
    break;
  }
  case 4: tag = "const"; A = 0; B = 0; C = r.below(5) == 0 ? 0.0 : r.sign() * r.logu(1e-3, 1e3); break;
  case 5: tag = "band_A_lin"; A = r.sign() * r.logu(1e-14, 0.999e-9); B = r.sign() * r.logu(1e-2, 1e2); C = -B * r.uni(t0 - 1, t1 + 1); break;
  case 6: tag = "band_A_smallB"; A = r.sign() * r.logu(1e-11, 0.999e-9); B = r.sign() * r.logu(1.001e-9, 1e-7); C = -B * r.uni(t0, t1); break;
  case 7: tag = "band_AB"; A = r.sign() * r.logu(1e-14, 0.999e-9); B = r.sign() * r.logu(1e-14, 0.999e-9); C = r.sign() * r.logu(1e-12, 1e-8); break;
  case 8: {
    tag = "band_AB_B_at_thr";
    A = r.below(2) ? 0.0 : r.sign() * r.logu(1e-14, 0.999e-9);
    const double d[] = {THR, -THR, std::nextafter(THR, 0.0), std::nextafter(THR, 1.0), 0.0};
    B = d[r.below(5)]; C = -B * r.uni(t0, t1) + (r.below(2) ? 0.0 : r.uni(-1, 1));
    break;
  }
  case 9: {
    tag = "A_at_thr";  // |A| == 1e-9 exactly (before /repo 863c150: neither `< 1e-9` nor `> 1e-9`)
    A = r.sign() * THR; B = r.sign() * r.logu(1e-2, 1e2); C = -B * r.uni(t0, t1);
    break;
  }
  case 10: {
    tag = "A_next_to_thr";
    A = r.sign() * (r.below(2) ? std::nextafter(THR, 0.0) : std::nextafter(THR, 1.0));
    B = r.sign() * r.logu(1e-2, 1e2); C = -B * r.uni(t0, t1);
    break;
  }
  case 11: tag = "quad_two_roots_inside"; { double a = r.uni(t0, t1), b = r.uni(t0, t1); from_roots(r.sign() * r.logu(1e-2, 1e2), std::min(a, b), std::max(a, b)); } break;
  case 12: tag = "quad_one_root_inside_left"; from_roots(r.sign() * r.logu(1e-2, 1e2), t0 - r.uni(0.05, 3), r.uni(t0, t1)); break;
  case 13: tag = "quad_one_root_inside_right"; from_roots(r.sign() * r.logu(1e-2, 1e2), r.uni(t0, t1), t1 + r.uni(0.05, 3)); break;
  case 14: tag = "quad_roots_both_left"; from_roots(r.sign() * r.logu(1e-2, 1e2), t0 - r.uni(1, 3), t0 - r.uni(0.01, 1)); break;
  case 15: tag = "quad_roots_both_right"; from_roots(r.sign() * r.logu(1e-2, 1e2), t1 + r.uni(0.01, 1), t1 + r.uni(1, 3)); break;
  case 16: tag = "quad_roots_straddle"; from_roots(r.sign() * r.logu(1e-2, 1e2), t0 - r.uni(0.01, 3), t1 + r.uni(0.01, 3)); break;
  case 17: {
    tag = "quad_roots_at_ends";  // small integers: coefficients and roots exact
    t0 = double(r.below(7) - 3); t1 = t0 + double(1 + r.below(4));
    const int k = r.below(3);
    const double a = r.sign() * double(1 + r.below(4));
    if (k == 0) from_roots(a, t0, t1);
    else if (k == 1) from_roots(a, t0, t0 + double(r.below(int(t1 - t0) + 3)));
    else from_roots(a, t1 - double(r.below(int(t1 - t0) + 3)), t1);
    break;
  }
  case 18: {
    tag = "quad_double_root";  // res == 0 exactly
    t0 = double(r.below(7) - 3); t1 = t0 + double(1 + r.below(4));
    const double rr = double(r.below(13) - 6) / 2.0;
    from_roots(r.sign() * double(1 + r.below(4)), rr, rr);
    break;
  }
  case 19: {
    tag = "quad_near_double_root";
    const double rr = r.uni(t0, t1), e = r.logu(1e-9, 1e-3);
    from_roots(r.sign() * r.logu(1e-1, 1e1), rr - e, rr + e);
    break;
  }
  case 20: {
    tag = "quad_no_real_root";
    const double a = r.sign() * r.logu(1e-2, 1e2), m = r.uni(t0 - 1, t1 + 1), h = r.logu(1e-6, 1e2);
    A = a; B = -2 * a * m; C = a * (m * m + h);
    break;
  }
  case 21: tag = "degenerate_interval"; t1 = t0; from_roots(r.sign() * r.uni(0.5, 2), t0 - r.uni(-1, 1), t0 + r.uni(0, 2)); break;
  case 22: {
    tag = "reversed_interval_ub";  // std::clamp precondition lo <= hi violated
    std::swap(t0, t1);
    from_roots(r.sign() * r.uni(0.5, 2), r.uni(t1, t0), r.uni(t1, t0) + 1);
    break;
  }
  case 23: {
    tag = "smallA_largeB";  // |A| just above the threshold, |B/A| huge: cancellation in -B/2A + sqrt(res)
    A = r.sign() * r.logu(1.001e-9, 1e-6); B = r.sign() * r.logu(1e0, 1e4); C = -B * r.uni(t0, t1);
    break;
  }
  case 24: {
    tag = "large_scale";
    const double sc = r.logu(1e1, 1e3);
    t0 *= sc; t1 *= sc;
    { double a = r.uni(t0, t1), b = r.uni(t0, t1); from_roots(r.sign() * r.logu(1e-3, 1e3), std::min(a, b), std::max(a, b)); }
    break;
  }
  default: {
    tag = "generic";
    A = r.uni(-3, 3); B = r.uni(-3, 3); C = r.uni(-3, 3);
    break;
  }
  }
  (void)len;
  x = {t0, t1, A, B, C};
}

static void search_line(const char * op, const std::vector<double> & rr, double t, const char * tag)
{
  std::vector<double> in;
  in.push_back(t);
  in.insert(in.end(), rr.begin(), rr.end());
  run_line(op, "-", in, tag);
}

// all sorted ranges of length <= 8 over a 4-letter alphabet x all queries (letters, between, below, above)
static int g_exh_len = 8;  // all sorted ranges up to this length (second command-line argument)

static void search_exhaustive(const char * op, const double * al, const char * tag)
{
  std::vector<double> qs = {al[0] - 1.0, al[3] + 1.0};
  for (int i = 0; i < 4; ++i) qs.push_back(al[i]);
  for (int i = 0; i < 3; ++i) qs.push_back(0.5 * (al[i] + al[i + 1]));
  for (int n = 0; n <= g_exh_len; ++n) {
    // multisets of size n: counts c0+c1+c2+c3 = n
    for (int c0 = 0; c0 <= n; ++c0)
      for (int c1 = 0; c0 + c1 <= n; ++c1)
        for (int c2 = 0; c0 + c1 + c2 <= n; ++c2) {
          const int c3 = n - c0 - c1 - c2;
          std::vector<double> rr;
          rr.insert(rr.end(), c0, al[0]);
          rr.insert(rr.end(), c1, al[1]);
          rr.insert(rr.end(), c2, al[2]);
          rr.insert(rr.end(), c3, al[3]);
          for (double q : qs) search_line(op, rr, q, tag);
        }
  }
}

static void search_random(Rng & r, int n)
{
  for (int c = 0; c < n; ++c) {
    const int kind = c % 8;
    int len;
    switch (r.below(4)) {
    case 0: len = 1 + r.below(4); break;
    case 1: len = 5 + r.below(30); break;
    case 2: len = 40 + r.below(300); break;
    default: len = 400 + r.below(1800); break;
    }
    std::vector<double> rr(len);
    const char * tag = "";
    switch (kind) {
    case 0: tag = "search_uniform"; for (auto & v : rr) v = r.uni(-10, 10); break;
    case 1: tag = "search_repeats"; for (auto & v : rr) v = double(r.below(std::max(2, len / 4))); break;
    case 2: tag = "search_exponential"; for (auto & v : rr) v = r.sign() * r.logu(1e-6, 1e6); break;
    case 3: tag = "search_clustered"; for (auto & v : rr) v = double(r.below(3)) * 100.0 + r.uni(0, 1e-3); break;
    case 4: tag = "search_all_equal"; { const double e = r.uni(-1, 1); for (auto & v : rr) v = e; } break;
    case 5: tag = "search_integers"; for (auto & v : rr) v = double(r.below(2 * len) - len); break;
    case 6: tag = "search_outlier"; for (auto & v : rr) v = r.uni(0, 1); rr[0] = r.below(2) ? 1e12 : -1e12; break;
    default: tag = "search_tiny_gaps"; { double b = r.uni(-1, 1); for (auto & v : rr) { v = b; b = std::nextafter(b, 2.0 * (r.below(3) > 0)); } } break;
    }
    std::sort(rr.begin(), rr.end());
    const int nq = len > 300 ? 4 : 8;
    for (int q = 0; q < nq; ++q) {
      double t;
      switch (r.below(6)) {
      case 0: t = rr[r.below(len)]; break;                                                  // exact element
      case 1: t = rr[0] - r.uni(0, 1); break;                                                // below / at front
      case 2: t = rr[len - 1] + r.uni(0, 1); break;                                          // above
      case 3: { const int i = r.below(len); t = 0.5 * (rr[i] + rr[std::min(len - 1, i + 1)]); } break;  // between neighbours
      case 4: t = std::nextafter(rr[r.below(len)], r.below(2) ? 1e300 : -1e300); break;     // 1 ulp off an element
      default: t = r.uni(rr[0], rr[len - 1]); break;
      }
      search_line(kind == 5 ? (r.below(2) ? "search_int" : "search_f64") : "search_f64", rr, t, tag);
    }
  }
}

static void gen_all(int n)
{
  Rng r(seed_from_env() * 7919 + 20);
  // ---- monomial_derivative / monomial_derivatives
  for (std::size_t K = 0; K <= KMAX; ++K) {
    for (int c = 0; c < n; ++c) {
      const char * tag = "";
      const double u   = gen_u(r, c, tag);
      const std::size_t p = std::size_t(r.below(int(K) + 3));
      run_line("poly_monoderiv", "K" + std::to_string(K), {u, double(p)}, tag);
    }
    for (std::size_t P = 0; P <= PMAX; ++P)
      for (int c = 0; c < std::max(2, n / 4); ++c) {
        const char * tag = "";
        const double u   = gen_u(r, r.below(10), tag);
        run_line("poly_monoderivs", "K" + std::to_string(K) + "P" + std::to_string(P), {u}, tag);
      }
  }
  // ---- lagrange_basis, polynomial_basis_derivatives
  for (std::size_t K = 0; K <= KMAX; ++K)
    for (int c = 0; c < std::max(9, n / 2); ++c) {
      const char * tag = "";
      const auto ts    = gen_nodes(r, K, c, tag);
      run_line("poly_lagrange", "K" + std::to_string(K), ts, tag);
    }
  for (std::size_t K = 0; K <= KMAX; ++K)
    for (int c = 0; c < std::max(6, n / 4); ++c) {
      const std::size_t N = 1 + std::size_t(r.below(5));
      std::vector<double> in;
      const char * tag = "";
      if (c % 3 == 0) {
        // the code's own basis tables as B
        const int bi = r.below(8);
        std::vector<double> B;
        eval_op("poly_basis", std::string(basis_names[bi]) + ":" + std::to_string(K), {}, B);
        in  = B;
        tag = "B_code_basis";
      } else if (c % 3 == 1) {
        const char * t2 = "";
        const auto ts   = gen_nodes(r, K, r.below(6), t2);
        eval_op("poly_lagrange", "K" + std::to_string(K), ts, in);
        tag = "B_lagrange";
      } else {
        for (std::size_t i = 0; i < (K + 1) * (K + 1); ++i) in.push_back(r.uni(-2, 2));
        tag = "B_random";
      }
      for (std::size_t j = 0; j < N; ++j) {
        const char * t3 = "";
        in.push_back(gen_u(r, 2 + r.below(2), t3));
      }
      run_line("poly_basisderivs", "K" + std::to_string(K) + "N" + std::to_string(N), in, tag);
    }
  // ---- integrate_absolute_polynomial
  for (int c = 0; c < 26 * std::max(4, n); ++c) {
    std::vector<double> x;
    const char * tag = "";
    gen_intabs(r, c, x, tag);
    run_line("poly_intabs", "-", x, tag);
  }
  {
    // fixed members of the smallA_largeB stratum (|A| just above 1e-9, |B/A| ~ 1e12: the quadratic root
    // formula -B/2A + sqrt(res) cancels catastrophically) so that this region is sampled at every seed
    const double fx[3][5] = {{-1, 1, 1.5e-9, 5000, -1000}, {-1, 1, -2e-9, 8000, 1600}, {0, 2, 1.2e-9, -3000, 2500}};
    for (auto & c : fx) run_line("poly_intabs", "-", {c[0], c[1], c[2], c[3], c[4]}, "smallA_largeB");
  }
  // ---- binary_interval_search
  {
    const double al1[4] = {0.0, 1.0, 2.5, 7.0};
    search_exhaustive("search_f64", al1, "search_exhaustive_fixed");
    double al2[4];
    al2[0] = r.uni(-5, 5);
    for (int i = 1; i < 4; ++i) al2[i] = al2[i - 1] + r.logu(1e-3, 1e3);
    search_exhaustive("search_f64", al2, "search_exhaustive_random_alphabet");
    const double al3[4] = {-3.0, -1.0, 0.0, 4.0};
    search_exhaustive("search_int", al3, "search_exhaustive_int");
    search_random(r, 8 * std::max(4, n));
  }
}

// ------------------------------------------------------------------ probes (may crash: forked)
static void probe_one(const char * op, const std::vector<double> & rr, double t, const char * tag)
{
  std::fflush(stdout);
  int fd[2];
  if (pipe(fd) != 0) return;
  const pid_t pid = fork();
  if (pid == 0) {
    close(fd[0]);
    dup2(fd[1], 1);
    alarm(10);
    search_line(op, rr, t, tag);
    std::fflush(stdout);
    _exit(0);
  }
  close(fd[1]);
  std::string got;
  char buf[4096];
  ssize_t k;
  while ((k = read(fd[0], buf, sizeof buf)) > 0) got.append(buf, std::size_t(k));
  close(fd[0]);
  int st = 0;
  waitpid(pid, &st, 0);
  if (WIFEXITED(st) && WEXITSTATUS(st) == 0 && !got.empty()) {
    std::fputs(got.c_str(), stdout);
  } else {
    std::vector<double> in;
    in.push_back(t);
    in.insert(in.end(), rr.begin(), rr.end());
    std::fprintf(stdout, "CRASH %s - f64", op);
    put_words(stdout, in);
    std::fprintf(stdout, " | signal=%d exit=%d # %s\n", WIFSIGNALED(st) ? WTERMSIG(st) : 0, WIFEXITED(st) ? WEXITSTATUS(st) : -1, tag);
  }
  std::fflush(stdout);
}

static void probes()
{
  const double inf = std::numeric_limits<double>::infinity();
  // finite but huge: t - *left and *(rght-1) - *left both overflow -> alpha = inf/inf = NaN
  probe_one("search_f64", {-1e308, 0.0, 1.0, 1.5e308}, 1e308, "probe_huge_span_nan_alpha");
  probe_one("search_f64", {-1e308, -1.0, 0.0, 1.0, 1e308}, 0.5, "probe_huge_span_zero_alpha");
  probe_one("search_f64", {-1.7e308, -1.0, 0.0, 1.0, 2.0, 3.0, 1.7e308}, 1.6e308, "probe_huge_span_nan_alpha");
  // infinite entries (validly ordered doubles)
  probe_one("search_f64", {-inf, 0.0, 1.0, 2.0}, 0.5, "probe_minus_inf_front");
  probe_one("search_f64", {0.0, 1.0, 2.0, inf}, 0.5, "probe_plus_inf_back");
  probe_one("search_f64", {-inf, 0.0, 1.0, inf}, 0.5, "probe_both_inf");
  // vector<int> whose span exceeds INT_MAX (before /repo c387525: *(rght-1) - *left overflowed in int)
  probe_one("search_int", {-2000000000.0, -1.0, 0.0, 1.0, 2000000000.0}, 0.5, "probe_int_span_overflow");
  probe_one("search_int", {-2000000000.0, 0.0, 1.0, 2.0, 3.0, 4.0, 5.0, 2000000000.0}, 4.5, "probe_int_span_overflow");
  // the TWO-argument overload (default comparison) on every sorted range of length <= 4 over {-3,-1,0,4},
  // integer and floating ranges, queried with the letters, the midpoints and values outside (forked: a
  // wrong comparison can make the interpolation search run away)
  {
    const double al[4] = {-3.0, -1.0, 0.0, 4.0};
    std::vector<double> qs = {-4.0, 5.0, -3.5, -2.5, -1.5, -0.5, 0.5, 2.0};
    for (int i = 0; i < 4; ++i) qs.push_back(al[i]);
    for (int n = 0; n <= 4; ++n)
      for (int c0 = 0; c0 <= n; ++c0)
        for (int c1 = 0; c0 + c1 <= n; ++c1)
          for (int c2 = 0; c0 + c1 + c2 <= n; ++c2) {
            const int c3 = n - c0 - c1 - c2;
            std::vector<double> rr;
            rr.insert(rr.end(), c0, al[0]);
            rr.insert(rr.end(), c1, al[1]);
            rr.insert(rr.end(), c2, al[2]);
            rr.insert(rr.end(), c3, al[3]);
            for (double q : qs) {
              probe_one("search2_int", rr, q, "probe_two_arg_int");
              probe_one("search2_f64", rr, q, "probe_two_arg_f64");
            }
          }
  }
}

// ------------------------------------------------------------------ eval mode
static double parse_word(const std::string & w)
{
  uint64_t u = std::strtoull(w.c_str(), nullptr, 16);
  double d;
  std::memcpy(&d, &u, 8);
  return d;
}

static int eval_mode()
{
  char * line = nullptr;
  size_t cap  = 0;
  while (getline(&line, &cap, stdin) > 0) {
    std::string s(line);
    while (!s.empty() && (s.back() == '\n' || s.back() == '\r')) s.pop_back();
    std::string tag;
    auto h = s.find(" # ");
    if (h != std::string::npos) { tag = s.substr(h + 3); s = s.substr(0, h); }
    auto bar = s.find(" |");
    if (bar != std::string::npos) s = s.substr(0, bar);
    std::vector<std::string> t;
    size_t p = 0;
    while (p < s.size()) {
      while (p < s.size() && s[p] == ' ') ++p;
      size_t q = p;
      while (q < s.size() && s[q] != ' ') ++q;
      if (q > p) t.push_back(s.substr(p, q - p));
      p = q;
    }
    if (t.size() < 3 || t[2] != "f64") { std::printf("SKIP bad-line\n"); continue; }
    std::vector<double> x;
    for (size_t i = 3; i < t.size(); ++i) x.push_back(parse_word(t[i]));
    run_line(t[0].c_str(), t[1], x, tag.c_str());
  }
  std::free(line);
  return 0;
}

int main(int argc, char ** argv)
{
  const std::string mode = argc > 1 ? argv[1] : "20";
  if (mode == "eval") return eval_mode();
  if (mode == "dump") { dump_tables(); return 0; }
  if (mode == "probe") { probes(); return 0; }
  if (argc > 2) g_exh_len = std::max(0, std::min(12, std::atoi(argv[2])));
  gen_all(std::atoi(mode.c_str()));
  return 0;
}
