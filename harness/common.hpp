// common.hpp — shared helpers of the correspondence harness (C++20, header only).
// Every random choice derives from one splitmix64 state seeded by VERIF_SEED.
#pragma once
#include <cmath>
#include <cstdint>
#include <cstdio>
#include <cstdlib>
#include <cstring>
#include <string>
#include <vector>
#include <Eigen/Core>

namespace vh {

struct Rng
{
  uint64_t s;
  explicit Rng(uint64_t seed) : s(seed * 0x9E3779B97F4A7C15ull + 0x1234567ull) {}
  uint64_t next()
  {
    uint64_t z = (s += 0x9E3779B97F4A7C15ull);
    z          = (z ^ (z >> 30)) * 0xBF58476D1CE4E5B9ull;
    z          = (z ^ (z >> 27)) * 0x94D049BB133111EBull;
    return z ^ (z >> 31);
  }
  double uni() { return double(next() >> 11) * (1.0 / 9007199254740992.0); }  // [0,1)
  double uni(double a, double b) { return a + (b - a) * uni(); }
  int below(int n) { return int(next() % uint64_t(n)); }
  double logu(double lo, double hi) { return std::pow(10.0, uni(std::log10(lo), std::log10(hi))); }
  double sign() { return (next() & 1) ? 1.0 : -1.0; }
  double normal()
  {
    double u1 = uni(), u2 = uni();
    if (u1 < 1e-300) u1 = 1e-300;
    return std::sqrt(-2 * std::log(u1)) * std::cos(2 * M_PI * u2);
  }
};

inline uint64_t seed_from_env()
{
  const char * e = std::getenv("VERIF_SEED");
  return e ? std::strtoull(e, nullptr, 10) : 1ull;
}

template<class S>
struct Prec;
template<>
struct Prec<double>
{
  static constexpr const char * name = "f64";
  static void put(FILE * f, double x)
  {
    uint64_t u;
    std::memcpy(&u, &x, 8);
    std::fprintf(f, " %016llx", static_cast<unsigned long long>(u));
  }
};
template<>
struct Prec<float>
{
  static constexpr const char * name = "f32";
  static void put(FILE * f, float x)
  {
    uint32_t u;
    std::memcpy(&u, &x, 4);
    std::fprintf(f, " %08x", u);
  }
};

// one protocol line:  op grp prec in… | out… # tag
template<class S>
struct Line
{
  FILE * f;
  Line(FILE * f_, const char * op, const std::string & grp) : f(f_)
  {
    std::fprintf(f, "%s %s %s", op, grp.c_str(), Prec<S>::name);
  }
  Line & s(S x)
  {
    Prec<S>::put(f, x);
    return *this;
  }
  template<class D>
  Line & v(const Eigen::MatrixBase<D> & m)
  {  // row-major flattening
    for (Eigen::Index i = 0; i < m.rows(); ++i)
      for (Eigen::Index j = 0; j < m.cols(); ++j) Prec<S>::put(f, S(m(i, j)));
    return *this;
  }
  Line & bar()
  {
    std::fprintf(f, " |");
    return *this;
  }
  void end(const char * tag = nullptr)
  {
    if (tag) std::fprintf(f, " # %s", tag);
    std::fprintf(f, "\n");
  }
};

// ---------------------------------------------------------------- strata
// rotation-angle strata; `kind`: 0 = any magnitude (exp, dr_exp), 1 = at most pi-1.1e-3 (inverse Jacobians),
// 2 = below pi but arbitrarily close (log, log∘exp, rminus)
inline const char * angle_stratum_name(int k)
{
  static const char * n[] = {"zero", "tiny", "switch", "above_switch", "small", "generic", "near_pi", "beyond_pi", "large"};
  return n[k];
}
constexpr int N_ANGLE_STRATA = 9;

inline double gen_angle(Rng & r, int stratum, int kind, double sw /* sqrt(eps2) */)
{
  switch (stratum) {
  case 0: return 0.0;
  case 1: return r.logu(1e-12, 0.9e-4);
  case 2: {
    static const double d[] = {0.0, 2.3e-16, -2.3e-16, 1e-12, -1e-12, 1e-6, -1e-6, 1e-3, -1e-3, 1e-2, -1e-2};
    return sw * (1.0 + d[r.below(11)]);
  }
  case 3: return r.logu(1.0e-4, 1e-2);
  case 4: return r.logu(1e-2, 0.3);
  case 5: return r.uni(0.3, 3.0);
  case 6: {
    double e = r.logu(1e-9, 1e-2);
    return kind == 1 ? M_PI - std::max(e, 1.1e-3) : M_PI - e;   // kind 0 and 2: arbitrarily close to pi from below
  }
  case 7: return kind == 1 ? r.uni(2.0, M_PI - 1.1e-3) : (kind == 2 ? r.uni(2.0, M_PI - 1e-9) : M_PI + r.logu(1e-9, 1.0));
  default: return kind == 1 || kind == 2 ? r.uni(0.5, 3.0) : r.uni(M_PI, 50.0);
  }
}

template<class S>
Eigen::Matrix<S, 3, 1> gen_dir3(Rng & r)
{
  Eigen::Matrix<S, 3, 1> d;
  int k = r.below(6);
  if (k < 3) {  // axis aligned
    d.setZero();
    d(k) = S(r.sign());
  } else {
    Eigen::Vector3d t(r.normal(), r.normal(), r.normal());
    if (k == 3) t(r.below(3)) = 0;  // two-axis
    if (t.norm() < 1e-6) t = Eigen::Vector3d(1, 0, 0);
    t.normalize();
    d = t.template cast<S>();
  }
  return d;
}

inline double gen_trans(Rng & r, int stratum)
{
  switch (stratum % 6) {
  case 0: return 0.0;
  case 1: return r.uni(-1, 1);
  case 2: return r.uni(-10, 10);
  case 3: return r.sign() * r.logu(1e-3, 1e3);
  case 4: return r.sign() * r.logu(1e-10, 1e-3);  // tiny but non-zero (all coordinates of one vector share the stratum)
  default: return r.uni(-1e3, 1e3);
  }
}

}  // namespace vh
