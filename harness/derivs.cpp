// derivs.cpp — correspondence harness for the generic helpers of derivatives.hpp (C05):
//   d_matrix_product (square factors n = 1..6, nvar = 1..6; static and dynamic Eigen types)
//   d2_fog           (static / dynamic / sparse outer Jacobian; arbitrary compatible sizes)
// Lines:  dmp <n>x<nvar> f64 A dA B dB | dAB           (all matrices row-major)
//         d2fog <no>x<ny>x<nx> f64 Jf Hf Jg Hg | H
// `# tag` names the storage variant (static / dynamic / sparse); the model is the same for all.
#include <Eigen/Core>
#include <Eigen/Sparse>
#include <smooth/derivatives.hpp>

#include "common.hpp"

using namespace vh;

template<class M>
void fill(M & m, Rng & r, int stratum)
{
  for (Eigen::Index i = 0; i < m.rows(); ++i)
    for (Eigen::Index j = 0; j < m.cols(); ++j) {
      switch (stratum % 4) {
      case 0: m(i, j) = r.uni(-1, 1); break;
      case 1: m(i, j) = r.below(3) == 0 ? 0.0 : r.uni(-10, 10); break;  // sparse-ish
      case 2: m(i, j) = double(r.below(7) - 3); break;                  // small integers (exact arithmetic)
      default: m(i, j) = r.sign() * r.logu(1e-3, 1e3); break;
      }
    }
}

template<class V>
void putv(std::vector<double> & x, const V & m)
{
  for (Eigen::Index i = 0; i < m.rows(); ++i)
    for (Eigen::Index j = 0; j < m.cols(); ++j) x.push_back(m(i, j));
}

void emit(const char * op, const std::string & grp, const std::vector<double> & x, const std::vector<double> & out, const char * tag)
{
  std::printf("%s %s f64", op, grp.c_str());
  for (double v : x) Prec<double>::put(stdout, v);
  std::printf(" |");
  for (double v : out) Prec<double>::put(stdout, v);
  std::printf(" # %s\n", tag);
}

template<int N, int NV>
void dmp_static(Rng & r, int reps)
{
  for (int k = 0; k < reps; ++k) {
    Eigen::Matrix<double, N, N> A, B;
    Eigen::Matrix<double, N, N * NV> dA, dB;
    fill(A, r, k); fill(B, r, k + 1); fill(dA, r, k); fill(dB, r, k + 2);
    std::vector<double> x, out;
    putv(x, A); putv(x, dA); putv(x, B); putv(x, dB);
    const auto R = smooth::d_matrix_product(A, dA, B, dB);
    putv(out, R);
    emit("dmp", std::to_string(N) + "x" + std::to_string(NV), x, out, "static");
    // dynamic-size Eigen types on the same data
    Eigen::MatrixXd Ad = A, Bd = B, dAd = dA, dBd = dB;
    const Eigen::MatrixXd Rd = smooth::d_matrix_product(Ad, dAd, Bd, dBd);
    std::vector<double> outd;
    putv(outd, Rd);
    emit("dmp", std::to_string(N) + "x" + std::to_string(NV), x, outd, "dynamic");
  }
}

template<int N, int... NVs>
void dmp_row(Rng & r, int reps, std::integer_sequence<int, NVs...>)
{
  (dmp_static<N, NVs + 1>(r, reps), ...);
}

template<int NO, int NY, int NX>
void fog_static(Rng & r, int reps)
{
  for (int k = 0; k < reps; ++k) {
    Eigen::Matrix<double, NO, NY> Jf;
    Eigen::Matrix<double, NY, NO * NY> Hf;
    Eigen::Matrix<double, NY, NX> Jg;
    Eigen::Matrix<double, NX, NY * NX> Hg;
    fill(Jf, r, k + 1); fill(Hf, r, k); fill(Jg, r, k + 2); fill(Hg, r, k + 3);
    std::vector<double> x, out;
    putv(x, Jf); putv(x, Hf); putv(x, Jg); putv(x, Hg);
    const std::string g = std::to_string(NO) + "x" + std::to_string(NY) + "x" + std::to_string(NX);
    {
      const auto R = smooth::d2_fog(Jf, Hf, Jg, Hg);
      putv(out, R);
      emit("d2fog", g, x, out, "static");
    }
    {
      Eigen::MatrixXd a = Jf, b = Hf, c = Jg, d = Hg;
      const Eigen::MatrixXd R = smooth::d2_fog(a, b, c, d);
      std::vector<double> o;
      putv(o, R);
      emit("d2fog", g, x, o, "dynamic");
    }
    {
      Eigen::SparseMatrix<double> Js = Eigen::MatrixXd(Jf).sparseView();
      Eigen::MatrixXd b = Hf, c = Jg, d = Hg;
      const Eigen::MatrixXd R = smooth::d2_fog(Js, b, c, d);
      std::vector<double> o;
      putv(o, R);
      emit("d2fog", g, x, o, "sparse");
    }
  }
}

int main(int argc, char ** argv)
{
  const int reps = argc > 1 ? std::atoi(argv[1]) : 2;
  Rng r(seed_from_env() * 1000 + 77);
  using Seq = std::make_integer_sequence<int, 6>;
  dmp_row<1>(r, reps, Seq{});
  dmp_row<2>(r, reps, Seq{});
  dmp_row<3>(r, reps, Seq{});
  dmp_row<4>(r, reps, Seq{});
  dmp_row<5>(r, reps, Seq{});
  dmp_row<6>(r, reps, Seq{});
  fog_static<1, 1, 1>(r, reps);
  fog_static<1, 3, 3>(r, reps);
  fog_static<2, 3, 4>(r, reps);
  fog_static<3, 2, 5>(r, reps);
  fog_static<4, 4, 1>(r, reps);
  fog_static<1, 6, 6>(r, reps);
  fog_static<5, 1, 2>(r, reps);
  fog_static<3, 3, 3>(r, reps);
  fog_static<2, 5, 2>(r, reps);
  fog_static<6, 2, 3>(r, reps);
  return 0;
}
