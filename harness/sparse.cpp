// sparse.cpp — harness of property C19 (sparse Lie-group derivative routines).
// Includes /repo/include directly and calls the real code in-process.
//
//   ./sparse dump            published patterns ad_sparse_pattern<G>, d_exp_sparse_pattern<G>,
//                            d2_exp_sparse_pattern<G> (column-major), sizes, compression flags
//   ./sparse eval < reqs     sp_ad | sp_dr_exp | sp_dr_expinv | sp_d2r_exp | sp_d2r_expinv
//                            <G> <prec> <rows> <cols> <i0> <nnz> (r c w)×nnz <na> a×na
//                            → request | <isCompressed> <nonZeros> (r c w)… | D <n> dense words # tag
//                            (the host is built exactly from the triplets, compressed; the dense
//                            words are the implementation's own dense result, row-major)
// Built twice: with asserts (default) and with -DNDEBUG (the variant that can show what happens
// when the host pattern lacks an entry: coeffRef inserts and the matrix is left uncompressed).
#include <smooth/bundle.hpp>
#include <smooth/c1.hpp>
#include <smooth/galilei.hpp>
#include <smooth/lie_sparse.hpp>
#include <smooth/se2.hpp>
#include <smooth/se3.hpp>
#include <smooth/se_k_3.hpp>
#include <smooth/so2.hpp>
#include <smooth/so3.hpp>

#include <algorithm>
#include <set>
#include <sstream>

#include "common.hpp"

using namespace vh;

#ifndef FAMILY
#define FAMILY 0
#endif
#ifndef SCALAR
#define SCALAR 2
#endif

template<class G>
struct GName;
template<class S> struct GName<smooth::SO2<S>> { static std::string get() { return "SO2"; } };
template<class S> struct GName<smooth::SO3<S>> { static std::string get() { return "SO3"; } };
template<class S> struct GName<smooth::SE2<S>> { static std::string get() { return "SE2"; } };
template<class S> struct GName<smooth::SE3<S>> { static std::string get() { return "SE3"; } };
template<class S> struct GName<smooth::C1<S>> { static std::string get() { return "C1"; } };
template<class S> struct GName<smooth::Galilei<S>> { static std::string get() { return "GAL"; } };
template<class S, int K> struct GName<smooth::SE_K_3<S, K>> { static std::string get() { return "SEK" + std::to_string(K); } };
template<class S, int N> struct GName<Eigen::Matrix<S, N, 1>> { static std::string get() { return "T" + std::to_string(N); } };
template<class... Gs>
struct GName<smooth::Bundle<Gs...>>
{
  static std::string get()
  {
    std::string s = "B[";
    bool first    = true;
    ((s += (first ? "" : ",") + GName<Gs>::get(), first = false), ...);
    return s + "]";
  }
};

// d2r_exp / d2r_expinv do not exist for Galilei and SE_K_3 (nor for Bundles containing them)
template<class G> struct HasHess : std::true_type {};
template<class S> struct HasHess<smooth::Galilei<S>> : std::false_type {};
template<class S, int K> struct HasHess<smooth::SE_K_3<S, K>> : std::false_type {};
template<class... Gs> struct HasHess<smooth::Bundle<Gs...>> : std::bool_constant<(HasHess<Gs>::value && ...)> {};

template<class S>
S parse_word(const std::string & w)
{
  if constexpr (std::is_same_v<S, double>) {
    uint64_t u = std::strtoull(w.c_str(), nullptr, 16);
    double d;
    std::memcpy(&d, &u, 8);
    return d;
  } else {
    uint32_t u = uint32_t(std::strtoul(w.c_str(), nullptr, 16));
    float d;
    std::memcpy(&d, &u, 4);
    return d;
  }
}

template<class S>
std::string hex(S x)
{
  char b[32];
  if constexpr (std::is_same_v<S, double>) { uint64_t u; std::memcpy(&u, &x, 8); std::snprintf(b, sizeof b, "%016llx", (unsigned long long)u); }
  else { uint32_t u; std::memcpy(&u, &x, 4); std::snprintf(b, sizeof b, "%08x", u); }
  return b;
}

template<class S>
void print_pattern(const char * which, const std::string & g, const Eigen::SparseMatrix<S> & p)
{
  std::printf("pattern %s %s %s %d %d %d %d :", g.c_str(), Prec<S>::name, which, int(p.rows()), int(p.cols()), p.isCompressed() ? 1 : 0,
    int(p.nonZeros()));
  for (int k = 0; k < p.outerSize(); ++k)
    for (typename Eigen::SparseMatrix<S>::InnerIterator it(p, k); it; ++it) std::printf(" %d %d", int(it.row()), int(it.col()));
  std::printf("\n");
}

template<class G>
void dump_group()
{
  using S             = smooth::Scalar<G>;
  const std::string g = GName<G>::get();
  std::printf("sizes %s %s %d %d\n", g.c_str(), Prec<S>::name, int(smooth::Dof<G>), smooth::IsCommutative<G> ? 1 : 0);
  print_pattern<S>("ad", g, smooth::ad_sparse_pattern<G>);
  print_pattern<S>("d", g, smooth::d_exp_sparse_pattern<G>);
  print_pattern<S>("d2", g, smooth::d2_exp_sparse_pattern<G>);
  // values of the published d_exp pattern: identity on the diagonal, zero elsewhere
  {
    const auto & p = smooth::d_exp_sparse_pattern<G>;
    int bad        = 0;
    for (int k = 0; k < p.outerSize(); ++k)
      for (typename Eigen::SparseMatrix<S>::InnerIterator it(p, k); it; ++it) {
        // SE2's hand-written table stores zeros everywhere (lie_group_sparse_impl.hpp:118-126)
        if (it.value() != S(0) && !(it.row() == it.col() && it.value() == S(1))) ++bad;
      }
    std::printf("patvalues %s %s %d\n", g.c_str(), Prec<S>::name, bad);
  }
}

// ------------------------------------------------------------------ eval
template<class G>
bool eval_group(const std::string & op, const std::vector<std::string> & t, std::string & reply)
{
  using S       = smooth::Scalar<G>;
  using SpMat   = Eigen::SparseMatrix<S>;
  constexpr int D = smooth::Dof<G>;
  size_t p      = 0;
  auto num      = [&]() -> long { return p < t.size() ? std::atol(t[p++].c_str()) : -1; };
  const long rows = num(), cols = num(), i0 = num(), nnz = num();
  if (rows < 0 || cols < 0 || i0 < 0 || nnz < 0) return false;
  SpMat sp(rows, cols);
  {
    std::vector<int> per_col(cols, 0);
    std::vector<std::tuple<long, long, S>> tr;
    for (long k = 0; k < nnz; ++k) {
      const long r = num(), c = num();
      if (p >= t.size() || r < 0 || c < 0 || r >= rows || c >= cols) return false;
      const S v = parse_word<S>(t[p++]);
      tr.emplace_back(r, c, v);
      per_col[c]++;
    }
    sp.reserve(per_col);
    for (auto & [r, c, v] : tr) sp.insert(r, c) = v;
    sp.makeCompressed();
  }
  const long na = num();
  if (na != D || p + na > t.size()) return false;
  smooth::Tangent<G> a;
  for (int i = 0; i < D; ++i) a(i) = parse_word<S>(t[p++]);

  const bool hess = op == "sp_d2r_exp" || op == "sp_d2r_expinv";
  std::ostringstream dense;
  // precondition guard for the assert-enabled build
  auto contains_block = [&](const SpMat & pat) {
    for (int k = 0; k < pat.outerSize(); ++k)
      for (typename SpMat::InnerIterator it(pat, k); it; ++it) {
        const long r = i0 + it.row();
        const long c = hess ? rows * (i0 + it.col() / D) + i0 + it.col() % D : i0 + it.col();
        if (r >= rows || c >= cols) return false;
        bool found = false;
        for (typename SpMat::InnerIterator jt(sp, c); jt; ++jt)
          if (jt.row() == r) { found = true; break; }
        if (!found) return false;
      }
    return true;
  };
  if (op == "sp_ad") {
    if (rows != D || cols != D) return false;
    smooth::ad_sparse<G>(sp, a);
    const smooth::TangentMap<G> M = smooth::ad<G>(a);
    dense << " | D " << D * D;
    for (int i = 0; i < D; ++i)
      for (int j = 0; j < D; ++j) dense << ' ' << hex<S>(M(i, j));
  } else if (op == "sp_dr_exp" || op == "sp_dr_expinv") {
    if (rows < i0 + D || cols < i0 + D) return false;
#ifndef NDEBUG
    if (!contains_block(smooth::d_exp_sparse_pattern<G>)) { reply = "PRECOND"; return true; }
#endif
    if (op == "sp_dr_exp") smooth::dr_exp_sparse<G>(sp, a, i0);
    else smooth::dr_expinv_sparse<G>(sp, a, i0);
    const smooth::TangentMap<G> M = op == "sp_dr_exp" ? smooth::dr_exp<G>(a) : smooth::dr_expinv<G>(a);
    dense << " | D " << D * D;
    for (int i = 0; i < D; ++i)
      for (int j = 0; j < D; ++j) dense << ' ' << hex<S>(M(i, j));
  } else if (hess) {
    if constexpr (HasHess<G>::value) {
      if (rows < i0 + D || cols < rows * (i0 + D)) return false;
#ifndef NDEBUG
      if (!contains_block(smooth::d2_exp_sparse_pattern<G>)) { reply = "PRECOND"; return true; }
#endif
      if (op == "sp_d2r_exp") smooth::d2r_exp_sparse<G>(sp, a, i0);
      else smooth::d2r_expinv_sparse<G>(sp, a, i0);
      const smooth::Hessian<G> M = op == "sp_d2r_exp" ? smooth::d2r_exp<G>(a) : smooth::d2r_expinv<G>(a);
      dense << " | D " << D * D * D;
      for (int i = 0; i < D; ++i)
        for (int j = 0; j < D * D; ++j) dense << ' ' << hex<S>(M(i, j));
    } else {
      return false;
    }
  } else {
    return false;
  }
  std::ostringstream os;
  os << ' ' << (sp.isCompressed() ? 1 : 0) << ' ' << sp.nonZeros();
  for (int k = 0; k < sp.outerSize(); ++k)
    for (typename SpMat::InnerIterator it(sp, k); it; ++it) os << ' ' << it.row() << ' ' << it.col() << ' ' << hex<S>(it.value());
  reply = os.str() + dense.str();
  return true;
}

// ------------------------------------------------------------------ catalogue
template<class S, class V>
void catalogue(V && visit)
{
  using namespace smooth;
  using V1 = Eigen::Matrix<S, 1, 1>;
  using V2 = Eigen::Matrix<S, 2, 1>;
  using V3 = Eigen::Matrix<S, 3, 1>;
  using V4 = Eigen::Matrix<S, 4, 1>;
  (void)sizeof(V1); (void)sizeof(V2); (void)sizeof(V3); (void)sizeof(V4);
#if FAMILY == 0
  visit.template group<SO2<S>>();
  visit.template group<SO3<S>>();
  visit.template group<SE2<S>>();
  visit.template group<C1<S>>();
  visit.template group<V3>();
#elif FAMILY == 1
  visit.template group<SE3<S>>();
  visit.template group<Bundle<V3, SO2<S>>>();
  visit.template group<Bundle<V3, SO3<S>>>();
#elif FAMILY == 2
  visit.template group<Galilei<S>>();
  visit.template group<SE_K_3<S, 2>>();
  visit.template group<Bundle<Galilei<S>, V4>>();
#elif FAMILY == 3
  visit.template group<Bundle<SO3<S>, SE2<S>>>();
  visit.template group<Bundle<C1<S>, V1, SO3<S>, SO2<S>>>();
  visit.template group<Bundle<Bundle<SO3<S>, V3>, SE2<S>>>();
#elif FAMILY == 4
  visit.template group<Bundle<V2, Bundle<SO2<S>, Bundle<SE3<S>, V1>>>>();
  visit.template group<Bundle<SE3<S>, SE3<S>>>();
#elif FAMILY == 5
  visit.template group<Bundle<SE2<S>, V3, SO3<S>, V2, C1<S>, Bundle<V3, SO3<S>>, SE3<S>>>();
#endif
}

struct DumpVisitor
{
  template<class G>
  void group() { dump_group<G>(); }
};

struct EvalVisitor
{
  const std::string & op;
  const std::string & grp;
  const std::vector<std::string> & toks;
  std::string reply;
  bool done = false, bad = false;
  template<class G>
  void group()
  {
    if (done || GName<G>::get() != grp) return;
    done = true;
    bad  = !eval_group<G>(op, toks, reply);
  }
};

int eval_mode()
{
  char * line = nullptr;
  size_t cap  = 0;
  while (getline(&line, &cap, stdin) > 0) {
    std::string s(line);
    while (!s.empty() && (s.back() == '\n' || s.back() == '\r')) s.pop_back();
    std::string tag;
    auto h = s.find(" # ");
    if (h != std::string::npos) { tag = s.substr(h); s = s.substr(0, h); }
    auto bar = s.find(" |");
    if (bar != std::string::npos) s = s.substr(0, bar);
    std::vector<std::string> t;
    {
      std::istringstream is(s);
      std::string w;
      while (is >> w) t.push_back(w);
    }
    if (t.size() < 3) { std::printf("SKIP bad-line\n"); continue; }
    std::vector<std::string> toks(t.begin() + 3, t.end());
    EvalVisitor v{t[0], t[1], toks};
#if SCALAR != 1
    if (t[2] == "f64") catalogue<double>(v);
#endif
#if SCALAR != 0
    if (t[2] == "f32") catalogue<float>(v);
#endif
    if (!v.done) std::printf("SKIP %s %s\n", t[0].c_str(), t[1].c_str());
    else if (v.bad) std::printf("BAD %s\n", s.c_str());
    else if (v.reply == "PRECOND") std::printf("PRECOND %s\n", s.c_str());
    else std::printf("%s |%s%s\n", s.c_str(), v.reply.c_str(), tag.c_str());
    std::fflush(stdout);
  }
  std::free(line);
  return 0;
}

int main(int argc, char ** argv)
{
  const std::string mode = argc > 1 ? argv[1] : "dump";
  if (mode == "eval") return eval_mode();
  if (mode == "dump") {
#if SCALAR != 1
    catalogue<double>(DumpVisitor{});
#endif
#if SCALAR != 0
    catalogue<float>(DumpVisitor{});
#endif
    return 0;
  }
  std::fprintf(stderr, "usage: sparse eval|dump\n");
  return 2;
}
