// conv.cpp — correspondence harness for property C17 (relations and conversions between groups).
// Includes the include tree of the repository under test (vlib.REPO, -I flag) and calls the real code in-process.  One protocol line per
// evaluated operation:   op grp prec <inputs> | <implementation outputs> # stratum
//
//   ./conv <n>      generation (VERIF_SEED from the environment), both scalar types
//   ./conv eval     request lines on stdin are re-evaluated by the implementation (replay/search)
//
// Ops (inputs → outputs; group coefficients are set directly through coeffs(), so signed zeros
// and exact branch-cut points reach the functions unchanged):
//   conv_so2_ctor [qz qw]→2   conv_so2_angle_ctor [a]→2   conv_so2_complex_ctor [re im]→2
//   conv_angle / conv_angle_cw / conv_angle_ccw [qz qw]→1   conv_u1, conv_unit_complex [qz qw]→(re,im)
//   conv_lift_so3 [2]→4   conv_project_so2 [4]→2   conv_lift_se3 [4]→7   conv_project_se2 [7]→4
//   conv_lift_project_so2 [2]→2   conv_lift_project_se2 [4]→4
//   conv_lift_hom_so2 [2+2]→ lift(g1 g2)(4) ++ lift(g1) lift(g2)(4);  conv_lift_hom_se2 [4+4]→7++7
//   conv_c1_scaling/angle [2]→1  conv_c1_so2/c1 [2]→2  conv_c1_complex_ctor [re im]→2
//   conv_c1_sa_ctor [s a]→2      conv_c1_refactor [2]→2  (C1(g.scaling(), g.so2().angle()))
//   conv_so3_quat_ctor [x y z w]→4   conv_so3_quat [4]→(w x y z)
//   conv_rot_x|y|z [t]→4    conv_rot_exp_x|y|z [t]→ rot(t)(4) ++ exp(t e_i)(4)
//   conv_se2_isometry [4]→9  conv_se2_iso_ctor [9]→4  conv_se2_iso_rt [4]→4
//   conv_se3_isometry [7]→16 conv_se3_iso_ctor [16]→7 ++ Eigen quaternion (x y z w)  conv_se3_iso_rt [7]→7
//   conv_euler [4]→ eulerAngles (3) ++ rot_z(e0) rot_y(e1) rot_x(e2) (4)     conv_of_euler [3]→4
//   conv_p1_<op> [SE_K_3<1> inputs]→ SE_K_3<1> result ++ SE3 result           (same inputs)
//   conv_p2_<op> [SE_K_3<2> inputs]→ SE_K_3<2> result ++ Galilei result at tau = 0 / s = 0
//        <op> ∈ identity matrix compose inverse log Ad exp hat ad dr_exp dr_expinv
// Constructors from parts and between storage types (API-coverage unit; all exact coefficient moves):
//   conv_se2_parts_ctor[_map] [qz qw x y]→4   conv_se3_parts_ctor[_map] [q(4) t(3)]→7   (_map: the rotation is a Map<const SO*>)
//   conv_gal_parts_ctor [q(4) v(3) p(3) t]→11   conv_gal_parts_ctor_dflt [q v p]→11 (default r1_t)   conv_sek2_parts_ctor [q(4) p1 p2]→10
//   conv_bundle_parts_ctor [q(4) v(3) se2(4) c1(2)]→13      Bundle<SO3,V3,SE2,C1>(so3, v, se2, c1)
//   conv_copy_<k>_<GRP> [coeffs]→coeffs,  k ∈ map cmap (G(const GBase<Map…>&)), asgmap asgcmap (value = view), mapasg (view = value),
//        mapasgcmap (view = const view), mapcopy (Map<G>(const Map<G>&) then read);  GRP ∈ SO2 SO3 SE2 SE3 C1 GAL SEK2 B
//   conv_so3_quat_write [w x y z]→4 (x y z w)    g.quat() = q  through the non-const accessor (no normalisation)
//   conv_euler_xyz [4]→ eulerAngles(0,1,2) (3) ++ rot_x(e0) rot_y(e1) rot_z(e2) (4)     conv_of_euler_xyz [3]→4
#include <complex>

#include <smooth/bundle.hpp>
#include <smooth/c1.hpp>
#include <smooth/galilei.hpp>
#include <smooth/se2.hpp>
#include <smooth/se3.hpp>
#include <smooth/se_k_3.hpp>
#include <smooth/so2.hpp>
#include <smooth/so3.hpp>

#include "common.hpp"

using namespace vh;

template<class S>
using VX = std::vector<S>;

template<class S, class D>
void put(VX<S> & out, const Eigen::MatrixBase<D> & m)
{
  for (Eigen::Index i = 0; i < m.rows(); ++i)
    for (Eigen::Index j = 0; j < m.cols(); ++j) out.push_back(S(m(i, j)));
}

template<class G, class S>
G fromc(const VX<S> & x, size_t off)
{
  G g;
  for (int i = 0; i < G::RepSize; ++i) g.coeffs()(i) = x[off + i];
  return g;
}

template<class V, class S>
V fromv(const VX<S> & x, size_t off)
{
  V v;
  for (int i = 0; i < v.size(); ++i) v(i) = x[off + i];
  return v;
}

// ------------------------------------------------------------------ LieGroupBase ops for the pairs
template<class G, class S>
bool lie_op(const std::string & op, const std::vector<G> & gs, const std::vector<typename G::Tangent> & ts, VX<S> & out)
{
  if (op == "identity" && gs.empty() && ts.empty()) put(out, G::Identity().coeffs());
  else if (op == "matrix" && gs.size() == 1) put(out, gs[0].matrix());
  else if (op == "compose" && gs.size() == 2) put(out, (gs[0] * gs[1]).coeffs());
  else if (op == "inverse" && gs.size() == 1) put(out, gs[0].inverse().coeffs());
  else if (op == "log" && gs.size() == 1) put(out, gs[0].log());
  else if (op == "Ad" && gs.size() == 1) put(out, gs[0].Ad());
  else if (op == "exp" && ts.size() == 1) put(out, G::exp(ts[0]).coeffs());
  else if (op == "hat" && ts.size() == 1) put(out, G::hat(ts[0]));
  else if (op == "ad" && ts.size() == 1) put(out, G::ad(ts[0]));
  else if (op == "dr_exp" && ts.size() == 1) put(out, G::dr_exp(ts[0]));
  else if (op == "dr_expinv" && ts.size() == 1) put(out, G::dr_expinv(ts[0]));
  else return false;
  return true;
}

inline bool is_tangent_op(const std::string & op)
{
  return op == "exp" || op == "hat" || op == "ad" || op == "dr_exp" || op == "dr_expinv";
}
inline int n_group_args(const std::string & op)
{
  if (op == "identity") return 0;
  if (op == "compose") return 2;
  return is_tangent_op(op) ? 0 : 1;
}

// embedding SE_K_3<2> -> Galilei on coefficients (tau = 0) and tangents (s = 0)
template<class S>
smooth::Galilei<S> embed2(const smooth::SE_K_3<S, 2> & g)
{
  smooth::Galilei<S> r;
  r.coeffs().template segment<6>(0) = g.coeffs().template segment<6>(0);
  r.coeffs()(6)                     = S(0);
  r.coeffs().template segment<4>(7) = g.coeffs().template segment<4>(6);
  return r;
}
template<class S>
typename smooth::Galilei<S>::Tangent embed2t(const typename smooth::SE_K_3<S, 2>::Tangent & a)
{
  typename smooth::Galilei<S>::Tangent r;
  r.template segment<6>(0) = a.template segment<6>(0);
  r(6)                     = S(0);
  r.template segment<3>(7) = a.template segment<3>(6);
  return r;
}

template<class S>
bool pair_op(int which, const std::string & op, const VX<S> & x, VX<S> & out)
{
  const int ng = n_group_args(op), nt = is_tangent_op(op) ? 1 : 0;
  if (which == 1) {
    using G1 = smooth::SE_K_3<S, 1>;
    using G2 = smooth::SE3<S>;
    if (x.size() != size_t(ng * 7 + nt * 6)) return false;
    std::vector<G1> g1;
    std::vector<G2> g2;
    std::vector<typename G1::Tangent> t1;
    std::vector<typename G2::Tangent> t2;
    for (int k = 0; k < ng; ++k) {
      g1.push_back(fromc<G1>(x, 7 * k));
      g2.push_back(fromc<G2>(x, 7 * k));
    }
    for (int k = 0; k < nt; ++k) {
      t1.push_back(fromv<typename G1::Tangent>(x, 6 * k));
      t2.push_back(fromv<typename G2::Tangent>(x, 6 * k));
    }
    return lie_op<G1, S>(op, g1, t1, out) && lie_op<G2, S>(op, g2, t2, out);
  } else {
    using G1 = smooth::SE_K_3<S, 2>;
    using G2 = smooth::Galilei<S>;
    if (x.size() != size_t(ng * 10 + nt * 9)) return false;
    std::vector<G1> g1;
    std::vector<G2> g2;
    std::vector<typename G1::Tangent> t1;
    std::vector<typename G2::Tangent> t2;
    for (int k = 0; k < ng; ++k) {
      g1.push_back(fromc<G1>(x, 10 * k));
      g2.push_back(embed2<S>(g1.back()));
    }
    for (int k = 0; k < nt; ++k) {
      t1.push_back(fromv<typename G1::Tangent>(x, 9 * k));
      t2.push_back(embed2t<S>(t1.back()));
    }
    return lie_op<G1, S>(op, g1, t1, out) && lie_op<G2, S>(op, g2, t2, out);
  }
}

// ------------------------------------------------------------------ construction / assignment between storage types
// conv_copy_<k>_<GRP>: the coefficients travel through one constructor or assignment operator between value, Map and
// Map<const> storage and must arrive verbatim.
template<class G, class S>
bool copy_kind(const std::string & k, const VX<S> & x, VX<S> & out)
{
  constexpr int R = G::RepSize;
  if (x.size() != size_t(R)) return false;
  S src[R + 2], dst[R + 2];
  for (int i = 0; i < R; ++i) { src[i] = x[i]; dst[i] = S(-7); }
  if (k == "map") {  // G(const GBase<Map<G>> &)
    smooth::Map<G> m(src);
    const G g(m);
    put(out, g.coeffs());
  } else if (k == "cmap") {  // G(const GBase<Map<const G>> &)
    const smooth::Map<const G> m(src);
    const G g(m);
    put(out, g.coeffs());
  } else if (k == "asgmap") {  // LieGroupBase::operator=(other storage): value = Map
    smooth::Map<G> m(src);
    G g = G::Identity();
    g   = m;
    put(out, g.coeffs());
  } else if (k == "asgcmap") {  // value = Map<const>
    const smooth::Map<const G> m(src);
    G g = G::Identity();
    g   = m;
    put(out, g.coeffs());
  } else if (k == "mapasg") {  // Map = value: writes the viewed memory
    const G g = fromc<G>(x, 0);
    smooth::Map<G> m(dst);
    m = g;
    for (int i = 0; i < R; ++i) out.push_back(dst[i]);
  } else if (k == "mapasgcmap") {  // Map = Map<const>
    const smooth::Map<const G> c(src);
    smooth::Map<G> m(dst);
    m = c;
    for (int i = 0; i < R; ++i) out.push_back(dst[i]);
  } else if (k == "mapasgmap") {  // Map = Map (defaulted copy assignment of the view: copies the COEFFICIENTS, not the pointer)
    smooth::Map<G> a(src), m(dst);
    m = a;
    for (int i = 0; i < R; ++i) out.push_back(dst[i]);
  } else if (k == "mapcopy") {  // Map(const Map &): a second view of the same memory
    smooth::Map<G> a(src);
    smooth::Map<G> b(a);
    b.coeffs()(0) = src[0];  // write through the copy: must land in src
    put(out, G(b).coeffs());
  } else {
    return false;
  }
  return true;
}

template<class S>
bool copy_op(const std::string & op, const VX<S> & x, VX<S> & out)
{
  using namespace smooth;
  using V3 = Eigen::Matrix<S, 3, 1>;
  const std::string rest = op.substr(10);  // <k>_<GRP>
  const auto us          = rest.find('_');
  if (us == std::string::npos) return false;
  const std::string k = rest.substr(0, us), grp = rest.substr(us + 1);
  if (grp == "SO2") return copy_kind<SO2<S>, S>(k, x, out);
  if (grp == "SO3") return copy_kind<SO3<S>, S>(k, x, out);
  if (grp == "SE2") return copy_kind<SE2<S>, S>(k, x, out);
  if (grp == "SE3") return copy_kind<SE3<S>, S>(k, x, out);
  if (grp == "C1") return copy_kind<C1<S>, S>(k, x, out);
  if (grp == "GAL") return copy_kind<Galilei<S>, S>(k, x, out);
  if (grp == "SEK2") return copy_kind<SE_K_3<S, 2>, S>(k, x, out);
  if (grp == "B") return copy_kind<Bundle<SO3<S>, V3, SE2<S>, C1<S>>, S>(k, x, out);
  return false;
}

// ------------------------------------------------------------------ one request
template<class S>
bool eval_op(const std::string & op, const VX<S> & x, VX<S> & out)
{
  using namespace smooth;
  using V2 = Eigen::Matrix<S, 2, 1>;
  const size_t n = x.size();
  if (op.rfind("conv_p1_", 0) == 0) return pair_op<S>(1, op.substr(8), x, out);
  if (op.rfind("conv_p2_", 0) == 0) return pair_op<S>(2, op.substr(8), x, out);

  if (op == "conv_so2_ctor" && n == 2) put(out, SO2<S>(x[0], x[1]).coeffs());
  else if (op == "conv_so2_angle_ctor" && n == 1) put(out, SO2<S>(x[0]).coeffs());
  else if (op == "conv_so2_complex_ctor" && n == 2) put(out, SO2<S>(std::complex<S>(x[0], x[1])).coeffs());
  else if (op == "conv_angle" && n == 2) out.push_back(fromc<SO2<S>>(x, 0).angle());
  else if (op == "conv_angle_cw" && n == 2) out.push_back(fromc<SO2<S>>(x, 0).angle_cw());
  else if (op == "conv_angle_ccw" && n == 2) out.push_back(fromc<SO2<S>>(x, 0).angle_ccw());
  else if (op == "conv_u1" && n == 2) {
    const std::complex<S> c = fromc<SO2<S>>(x, 0).u1();
    out.push_back(c.real());
    out.push_back(c.imag());
  } else if (op == "conv_unit_complex" && n == 2) put(out, fromc<SO2<S>>(x, 0).unit_complex());
  else if (op == "conv_lift_so3" && n == 2) put(out, fromc<SO2<S>>(x, 0).lift_so3().coeffs());
  else if (op == "conv_project_so2" && n == 4) put(out, fromc<SO3<S>>(x, 0).project_so2().coeffs());
  else if (op == "conv_lift_se3" && n == 4) put(out, fromc<SE2<S>>(x, 0).lift_se3().coeffs());
  else if (op == "conv_project_se2" && n == 7) put(out, fromc<SE3<S>>(x, 0).project_se2().coeffs());
  else if (op == "conv_lift_project_so2" && n == 2) put(out, fromc<SO2<S>>(x, 0).lift_so3().project_so2().coeffs());
  else if (op == "conv_lift_project_se2" && n == 4) put(out, fromc<SE2<S>>(x, 0).lift_se3().project_se2().coeffs());
  else if (op == "conv_lift_hom_so2" && n == 4) {
    const SO2<S> g1 = fromc<SO2<S>>(x, 0), g2 = fromc<SO2<S>>(x, 2);
    const SO2<S> g12 = g1 * g2;
    put(out, g12.lift_so3().coeffs());
    const SO3<S> l1 = g1.lift_so3(), l2 = g2.lift_so3();
    put(out, (l1 * l2).coeffs());
  } else if (op == "conv_lift_hom_se2" && n == 8) {
    const SE2<S> g1 = fromc<SE2<S>>(x, 0), g2 = fromc<SE2<S>>(x, 4);
    const SE2<S> g12 = g1 * g2;
    put(out, g12.lift_se3().coeffs());
    const SE3<S> l1 = g1.lift_se3(), l2 = g2.lift_se3();
    put(out, (l1 * l2).coeffs());
  } else if (op == "conv_c1_scaling" && n == 2) out.push_back(fromc<C1<S>>(x, 0).scaling());
  else if (op == "conv_c1_angle" && n == 2) out.push_back(fromc<C1<S>>(x, 0).angle());
  else if (op == "conv_c1_so2" && n == 2) put(out, fromc<C1<S>>(x, 0).so2().coeffs());
  else if (op == "conv_c1_c1" && n == 2) {
    const std::complex<S> c = fromc<C1<S>>(x, 0).c1();
    out.push_back(c.real());
    out.push_back(c.imag());
  } else if (op == "conv_c1_complex_ctor" && n == 2) put(out, C1<S>(std::complex<S>(x[0], x[1])).coeffs());
  else if (op == "conv_c1_sa_ctor" && n == 2) put(out, C1<S>(x[0], x[1]).coeffs());
  else if (op == "conv_c1_refactor" && n == 2) {
    const C1<S> g = fromc<C1<S>>(x, 0);
    put(out, C1<S>(g.scaling(), g.so2().angle()).coeffs());
  } else if (op == "conv_so3_quat_ctor" && n == 4) {
    const Eigen::Quaternion<S> q(x[3], x[0], x[1], x[2]);  // (w, x, y, z)
    put(out, SO3<S>(q).coeffs());
  } else if (op == "conv_so3_quat" && n == 4) {
    const SO3<S> g = fromc<SO3<S>>(x, 0);
    const auto q   = g.quat();
    out.push_back(q.w());
    out.push_back(q.x());
    out.push_back(q.y());
    out.push_back(q.z());
  } else if (op == "conv_rot_x" && n == 1) put(out, SO3<S>::rot_x(x[0]).coeffs());
  else if (op == "conv_rot_y" && n == 1) put(out, SO3<S>::rot_y(x[0]).coeffs());
  else if (op == "conv_rot_z" && n == 1) put(out, SO3<S>::rot_z(x[0]).coeffs());
  else if ((op == "conv_rot_exp_x" || op == "conv_rot_exp_y" || op == "conv_rot_exp_z") && n == 1) {
    const int ax = op.back() - 'x';
    const SO3<S> r = ax == 0 ? SO3<S>::rot_x(x[0]) : ax == 1 ? SO3<S>::rot_y(x[0]) : SO3<S>::rot_z(x[0]);
    Eigen::Matrix<S, 3, 1> a = Eigen::Matrix<S, 3, 1>::Zero();
    a(ax) = x[0];
    put(out, r.coeffs());
    put(out, SO3<S>::exp(a).coeffs());
  } else if (op == "conv_of_euler" && n == 3) {
    put(out, (SO3<S>::rot_z(x[0]) * SO3<S>::rot_y(x[1]) * SO3<S>::rot_x(x[2])).coeffs());
  } else if (op == "conv_euler" && n == 4) {
    const SO3<S> g                 = fromc<SO3<S>>(x, 0);
    const Eigen::Matrix<S, 3, 1> e = g.eulerAngles();
    put(out, e);
    put(out, (SO3<S>::rot_z(e(0)) * SO3<S>::rot_y(e(1)) * SO3<S>::rot_x(e(2))).coeffs());
  } else if (op == "conv_of_euler_xyz" && n == 3) {
    put(out, (SO3<S>::rot_x(x[0]) * SO3<S>::rot_y(x[1]) * SO3<S>::rot_z(x[2])).coeffs());
  } else if (op == "conv_euler_xyz" && n == 4) {
    const SO3<S> g                 = fromc<SO3<S>>(x, 0);
    const Eigen::Matrix<S, 3, 1> e = g.eulerAngles(0, 1, 2);
    put(out, e);
    put(out, (SO3<S>::rot_x(e(0)) * SO3<S>::rot_y(e(1)) * SO3<S>::rot_z(e(2))).coeffs());
  } else if (op.rfind("conv_euler_a", 0) == 0 && op.size() == 15 && n == 4) {
    // eulerAngles(i1, i2, i3) for ANY axis convention (Tait-Bryan and proper Euler), recomposed from rot_x/y/z
    const int i1 = op[12] - '0', i2 = op[13] - '0', i3 = op[14] - '0';
    auto rot = [](int i, S t) { return i == 0 ? SO3<S>::rot_x(t) : (i == 1 ? SO3<S>::rot_y(t) : SO3<S>::rot_z(t)); };
    const SO3<S> g                 = fromc<SO3<S>>(x, 0);
    const Eigen::Matrix<S, 3, 1> e = g.eulerAngles(i1, i2, i3);
    put(out, e);
    put(out, (rot(i1, e(0)) * rot(i2, e(1)) * rot(i3, e(2))).coeffs());
  } else if (op.rfind("conv_of_euler_a", 0) == 0 && op.size() == 18 && n == 3) {
    const int i1 = op[15] - '0', i2 = op[16] - '0', i3 = op[17] - '0';
    auto rot = [](int i, S t) { return i == 0 ? SO3<S>::rot_x(t) : (i == 1 ? SO3<S>::rot_y(t) : SO3<S>::rot_z(t)); };
    put(out, (rot(i1, x[0]) * rot(i2, x[1]) * rot(i3, x[2])).coeffs());
  } else if (op == "conv_so3_quat_write" && n == 4) {
    SO3<S> g = SO3<S>::Identity();
    g.quat() = Eigen::Quaternion<S>(x[0], x[1], x[2], x[3]);  // (w, x, y, z)
    put(out, g.coeffs());
  } else if ((op == "conv_se2_parts_ctor" || op == "conv_se2_parts_ctor_map") && n == 4) {
    const SO2<S> r = fromc<SO2<S>>(x, 0);
    const V2 t(x[2], x[3]);
    if (op == "conv_se2_parts_ctor") put(out, SE2<S>(r, t).coeffs());
    else {
      const Map<const SO2<S>> rm(r.data());
      put(out, SE2<S>(rm, t).coeffs());
    }
  } else if ((op == "conv_se3_parts_ctor" || op == "conv_se3_parts_ctor_map") && n == 7) {
    const SO3<S> r = fromc<SO3<S>>(x, 0);
    const Eigen::Matrix<S, 3, 1> t(x[4], x[5], x[6]);
    if (op == "conv_se3_parts_ctor") put(out, SE3<S>(r, t).coeffs());
    else {
      const Map<const SO3<S>> rm(r.data());
      put(out, SE3<S>(rm, t).coeffs());
    }
  } else if (op == "conv_gal_parts_ctor" && n == 11) {
    const SO3<S> r = fromc<SO3<S>>(x, 0);
    const Eigen::Matrix<S, 3, 1> v(x[4], x[5], x[6]), p(x[7], x[8], x[9]);
    put(out, Galilei<S>(r, v, p, x[10]).coeffs());
  } else if (op == "conv_gal_parts_ctor_dflt" && n == 10) {
    const SO3<S> r = fromc<SO3<S>>(x, 0);
    const Eigen::Matrix<S, 3, 1> v(x[4], x[5], x[6]), p(x[7], x[8], x[9]);
    put(out, Galilei<S>(r, v, p).coeffs());
  } else if (op == "conv_sek2_parts_ctor" && n == 10) {
    const SO3<S> r = fromc<SO3<S>>(x, 0);
    const Eigen::Matrix<S, 3, 1> p1(x[4], x[5], x[6]), p2(x[7], x[8], x[9]);
    put(out, SE_K_3<S, 2>(r, p1, p2).coeffs());
  } else if (op == "conv_bundle_parts_ctor" && n == 13) {
    using V3 = Eigen::Matrix<S, 3, 1>;
    const SO3<S> r = fromc<SO3<S>>(x, 0);
    const V3 v(x[4], x[5], x[6]);
    const SE2<S> e = fromc<SE2<S>>(x, 7);
    const C1<S> c  = fromc<C1<S>>(x, 11);
    put(out, Bundle<SO3<S>, V3, SE2<S>, C1<S>>(r, v, e, c).coeffs());
  } else if (op.rfind("conv_copy_", 0) == 0) {
    return copy_op<S>(op, x, out);
  } else if (op == "conv_se2_isometry" && n == 4) {
    put(out, fromc<SE2<S>>(x, 0).isometry().matrix());
  } else if (op == "conv_se2_iso_ctor" && n == 9) {
    Eigen::Transform<S, 2, Eigen::Isometry> t;
    for (int i = 0; i < 3; ++i)
      for (int j = 0; j < 3; ++j) t.matrix()(i, j) = x[3 * i + j];
    put(out, SE2<S>(t).coeffs());
  } else if (op == "conv_se2_iso_rt" && n == 4) {
    put(out, SE2<S>(fromc<SE2<S>>(x, 0).isometry()).coeffs());
  } else if (op == "conv_se3_isometry" && n == 7) {
    put(out, fromc<SE3<S>>(x, 0).isometry().matrix());
  } else if (op == "conv_se3_iso_ctor" && n == 16) {
    Eigen::Transform<S, 3, Eigen::Isometry> t;
    for (int i = 0; i < 4; ++i)
      for (int j = 0; j < 4; ++j) t.matrix()(i, j) = x[4 * i + j];
    put(out, SE3<S>(t).coeffs());
    const Eigen::Quaternion<S> qe(t.rotation());
    put(out, qe.coeffs());
  } else if (op == "conv_se3_iso_rt" && n == 7) {
    put(out, SE3<S>(fromc<SE3<S>>(x, 0).isometry()).coeffs());
  } else {
    (void)sizeof(V2);
    return false;
  }
  return true;
}

template<class S>
void emit(FILE * f, const std::string & op, const char * grp, const VX<S> & x, const VX<S> & out, const char * tag)
{
  std::fprintf(f, "%s %s %s", op.c_str(), grp, Prec<S>::name);
  for (S v : x) Prec<S>::put(f, v);
  std::fprintf(f, " |");
  for (S v : out) Prec<S>::put(f, v);
  if (tag && *tag) std::fprintf(f, " # %s", tag);
  std::fprintf(f, "\n");
}

template<class S>
void go(FILE * f, const std::string & op, const char * grp, const VX<S> & x, const char * tag)
{
  VX<S> out;
  if (eval_op<S>(op, x, out)) emit<S>(f, op, grp, x, out, tag);
  else std::fprintf(f, "SKIP %s\n", op.c_str());
}

// ------------------------------------------------------------------ input strata
template<class S>
struct Circ
{
  S qz, qw;
  const char * tag;
};

// SO2 coefficient pairs covering the whole circle, the quadrant points, both signed zeros and the
// floating-point neighbourhoods of the atan2 cuts.  `i` walks through the strata.
template<class S>
Circ<S> so2_stratum(Rng & r, int i)
{
  const S z = S(0), nz = -S(0), one = S(1);
  const S tiny = std::numeric_limits<S>::denorm_min(), mn = std::numeric_limits<S>::min(),
          eps = std::numeric_limits<S>::epsilon();
  static const int NS = 34;
  switch (i % NS) {
  case 0: return {z, one, "zero_pz"};
  case 1: return {nz, one, "zero_nz"};
  case 2: return {z, -one, "halfturn_pz"};   // (+0, -1): the angle_cw cut
  case 3: return {nz, -one, "halfturn_nz"};  // (-0, -1): the angle_ccw cut
  case 4: return {one, z, "quarter"};
  case 5: return {one, nz, "quarter"};
  case 6: return {-one, z, "quarter"};
  case 7: return {-one, nz, "quarter"};
  case 8: return {tiny, -one, "cut_adjacent"};
  case 9: return {-tiny, -one, "cut_adjacent"};
  case 10: return {mn, -one, "cut_adjacent"};
  case 11: return {-mn, -one, "cut_adjacent"};
  case 12: return {eps, -one, "cut_adjacent"};
  case 13: return {-eps, -one, "cut_adjacent"};
  case 14: return {S(std::sin(S(M_PI))), S(std::cos(S(M_PI))), "cut_adjacent"};
  case 15: return {S(std::sin(-S(M_PI))), S(std::cos(-S(M_PI))), "cut_adjacent"};
  case 16: return {tiny, one, "zero_adjacent"};
  case 17: return {-tiny, one, "zero_adjacent"};
  case 18: return {eps, one, "zero_adjacent"};
  case 19: return {-eps, one, "zero_adjacent"};
  case 20: {
    // +0 / -0 with a negative real part of generic magnitude below 1 (unnormalised view data)
    const S w     = -S(r.uni(0.25, 1.0));
    const bool pz = r.next() & 1;
    return {pz ? z : nz, w, pz ? "halfturn_pz_unnormalised" : "halfturn_nz_unnormalised"};
  }
  case 21: {
    const double e = r.logu(1e-12, 1e-2) * r.sign();  // |yaw| near pi
    const S a      = S((r.next() & 1) ? M_PI - std::fabs(e) : -M_PI + std::fabs(e));
    return {S(std::sin(a)), S(std::cos(a)), "near_pi"};
  }
  case 22: {
    const S a = S(r.sign() * (M_PI / 2 + r.sign() * r.logu(1e-12, 1e-2)));
    return {S(std::sin(a)), S(std::cos(a)), "near_quarter"};
  }
  case 23: {
    const S a = S(r.sign() * r.logu(1e-12, 1e-2));
    return {S(std::sin(a)), S(std::cos(a)), "near_zero"};
  }
  case 24: {
    // exactly on the cut with sign chosen at random: (±0, -1)
    const bool pz = r.next() & 1;
    return {pz ? z : nz, -one, pz ? "halfturn_pz" : "halfturn_nz"};
  }
  default: {
    const S a = S(r.uni(-M_PI, M_PI));
    return {S(std::sin(a)), S(std::cos(a)), "generic"};
  }
  }
}

template<class S>
smooth::SO3<S> random_so3(Rng & r, int i)
{
  using V3 = Eigen::Matrix<S, 3, 1>;
  const V3 d = gen_dir3<S>(r);
  double th;
  switch (i % 6) {
  case 0: th = r.uni(0, M_PI); break;
  case 1: th = M_PI - r.logu(1e-9, 1e-2); break;  // trace close to -1: the other branches of matrix->quaternion
  case 2: th = r.logu(1e-9, 1e-2); break;
  case 3: th = r.uni(M_PI, 2 * M_PI); break;
  case 4: th = 0; break;
  default: th = r.uni(0, 3.0); break;
  }
  return smooth::SO3<S>::exp(d * S(th));
}

template<class S, int K>
typename smooth::SE_K_3<S, K>::Tangent sek_tangent(Rng & r, int as, int kind, int ts)
{
  typename smooth::SE_K_3<S, K>::Tangent a;
  for (int i = 0; i < 3 * K; ++i) a(i) = S(gen_trans(r, ts));
  a.template tail<3>() = gen_dir3<S>(r) * S(gen_angle(r, as, kind, double(std::sqrt(S(smooth::eps2)))));
  return a;
}

template<class S, int K>
smooth::SE_K_3<S, K> sek_elem(Rng & r, int i)
{
  using G = smooth::SE_K_3<S, K>;
  G g     = G::exp(sek_tangent<S, K>(r, i % N_ANGLE_STRATA, 0, i / N_ANGLE_STRATA + r.below(5)));
  if (i % 7 == 3) g = g * G::exp(sek_tangent<S, K>(r, (i + 1) % N_ANGLE_STRATA, 0, r.below(5)));
  if (i % 11 == 5) g = g.inverse();
  return g;
}

template<class S, int K>
void run_pairs(FILE * f, Rng & r, int n)
{
  using G             = smooth::SE_K_3<S, K>;
  const std::string p = K == 1 ? "conv_p1_" : "conv_p2_";
  const char * grp    = K == 1 ? "SEK1" : "SEK2";
  go<S>(f, p + "identity", grp, {}, "");
  for (int i = 0; i < n; ++i) {
    const G g1 = sek_elem<S, K>(r, i), g2 = sek_elem<S, K>(r, n + 3 * i + 1);
    const auto a  = sek_tangent<S, K>(r, i % N_ANGLE_STRATA, 0, i / N_ANGLE_STRATA + r.below(5));
    const auto al = sek_tangent<S, K>(r, i % N_ANGLE_STRATA, 1, i / N_ANGLE_STRATA + r.below(5));
    const char * t = angle_stratum_name(i % N_ANGLE_STRATA);
    VX<S> xg, xgg, xa, xal, xl;
    put(xg, g1.coeffs());
    put(xgg, g1.coeffs());
    put(xgg, g2.coeffs());
    put(xa, a);
    put(xal, al);
    put(xl, G::exp(al).coeffs());
    go<S>(f, p + "matrix", grp, xg, t);
    go<S>(f, p + "compose", grp, xgg, t);
    go<S>(f, p + "inverse", grp, xg, t);
    go<S>(f, p + "log", grp, xl, t);
    go<S>(f, p + "Ad", grp, xg, t);
    go<S>(f, p + "exp", grp, xa, t);
    go<S>(f, p + "hat", grp, xa, t);
    go<S>(f, p + "ad", grp, xa, t);
    go<S>(f, p + "dr_exp", grp, xa, t);
    go<S>(f, p + "dr_expinv", grp, xal, t);
  }
}

template<class S>
void run_so2(FILE * f, Rng & r, int n)
{
  using namespace smooth;
  // angle functions, u1, lifts on the circle strata
  for (int i = 0; i < 34 * n; ++i) {
    const Circ<S> c = so2_stratum<S>(r, i);
    const VX<S> x{c.qz, c.qw};
    go<S>(f, "conv_angle", "SO2", x, c.tag);
    go<S>(f, "conv_angle_cw", "SO2", x, c.tag);
    go<S>(f, "conv_angle_ccw", "SO2", x, c.tag);
    if (i % 3 == 0) {
      go<S>(f, "conv_u1", "SO2", x, c.tag);
      go<S>(f, "conv_unit_complex", "SO2", x, c.tag);
    }
    go<S>(f, "conv_lift_so3", "SO2", x, c.tag);
    go<S>(f, "conv_lift_project_so2", "SO2", x, c.tag);
    // SE2 with the same rotation
    const VX<S> xe{S(gen_trans(r, i)), S(gen_trans(r, i + 1)), c.qz, c.qw};
    go<S>(f, "conv_lift_se3", "SE2", xe, c.tag);
    go<S>(f, "conv_lift_project_se2", "SE2", xe, c.tag);
    go<S>(f, "conv_se2_isometry", "SE2", xe, c.tag);
    go<S>(f, "conv_se2_iso_rt", "SE2", xe, c.tag);
    {
      // isometry matrix with this rotation
      const VX<S> T{c.qw, -c.qz, xe[0], c.qz, c.qw, xe[1], S(0), S(0), S(1)};
      go<S>(f, "conv_se2_iso_ctor", "SE2", T, c.tag);
    }
    // homomorphism of the lifts
    const Circ<S> d = so2_stratum<S>(r, i * 7 + 3 + r.below(34));
    go<S>(f, "conv_lift_hom_so2", "SO2", VX<S>{c.qz, c.qw, d.qz, d.qw}, c.tag);
    go<S>(f, "conv_lift_hom_se2", "SE2",
      VX<S>{xe[0], xe[1], c.qz, c.qw, S(gen_trans(r, i + 2)), S(gen_trans(r, i + 3)), d.qz, d.qw}, c.tag);
  }
  // constructors: unnormalised inputs, norms 1e-3..1e3, all sign patterns, zeros in one slot
  for (int i = 0; i < 12 * n; ++i) {
    // norms: 1, moderate 1e-3..1e3, and far from 1 on both sides (squares stay inside the float range)
    const double nrm = (i % 4 == 0) ? 1.0 : (i % 8 == 1 ? r.logu(1e-15, 1e-3) : (i % 8 == 5 ? r.logu(1e3, 1e15) : r.logu(1e-3, 1e3)));
    const double a   = (i % 6 == 5) ? (M_PI / 2) * r.below(4) : r.uni(-M_PI, M_PI);
    S qz = S(nrm * std::sin(a)), qw = S(nrm * std::cos(a));
    const char * tag = "unnormalised";
    if (i % 12 == 7) { qz = (r.next() & 1) ? S(0) : -S(0); qw = S(-nrm); tag = "halfturn_unnormalised"; }
    if (i % 12 == 11) { qw = (r.next() & 1) ? S(0) : -S(0); qz = S(r.sign() * nrm); tag = "quarter_unnormalised"; }
    go<S>(f, "conv_so2_ctor", "SO2", VX<S>{qz, qw}, tag);
    go<S>(f, "conv_so2_complex_ctor", "SO2", VX<S>{qw, qz}, tag);
    go<S>(f, "conv_c1_complex_ctor", "C1", VX<S>{qw, qz}, tag);
    // C1 element with these coefficients
    const VX<S> xc{qz, qw};
    go<S>(f, "conv_c1_scaling", "C1", xc, tag);
    go<S>(f, "conv_c1_angle", "C1", xc, tag);
    go<S>(f, "conv_c1_so2", "C1", xc, tag);
    go<S>(f, "conv_c1_c1", "C1", xc, tag);
    go<S>(f, "conv_c1_refactor", "C1", xc, tag);
    go<S>(f, "conv_c1_sa_ctor", "C1", VX<S>{S(nrm), S(a)}, tag);
  }
  // angle constructor over several turns incl. the multiples of pi/2
  for (int i = 0; i < 12 * n; ++i) {
    S a;
    const char * tag = "full_circle";
    if (i % 4 == 0) {
      a   = S((M_PI / 2) * (r.below(17) - 8));
      tag = "multiple_of_half_pi";
      if (r.below(3) == 0) a = std::nextafter(a, S(r.sign() * 100));
    } else a = S(r.uni(-4 * M_PI, 4 * M_PI));
    go<S>(f, "conv_so2_angle_ctor", "SO2", VX<S>{a}, tag);
    const char * ax[3] = {"x", "y", "z"};
    const int k = i % 3;
    go<S>(f, std::string("conv_rot_") + ax[k], "SO3", VX<S>{a}, tag);
    go<S>(f, std::string("conv_rot_exp_") + ax[k], "SO3", VX<S>{a}, tag);
    go<S>(f, std::string("conv_rot_exp_") + ax[(k + 1) % 3], "SO3", VX<S>{a}, tag);
  }
}

template<class S>
void run_so3(FILE * f, Rng & r, int n)
{
  using namespace smooth;
  for (int i = 0; i < 12 * n; ++i) {
    // quaternion constructor: unnormalised, negative w, w = ±0
    Eigen::Matrix<double, 4, 1> q(r.normal(), r.normal(), r.normal(), r.normal());
    if (q.norm() < 1e-3) q(0) = 1;
    q.normalize();
    const char * tag = q(3) < 0 ? "negative_w" : "positive_w";
    const double nrm = (i % 5 == 0) ? 1.0 : (i % 10 == 1 ? r.logu(1e-15, 1e-3) : (i % 10 == 7 ? r.logu(1e3, 1e15) : r.logu(1e-3, 1e3)));
    q *= nrm;
    if (i % 12 == 3) { q(3) = 0.0; tag = "zero_w"; }
    if (i % 12 == 9) { q(3) = -0.0; tag = "zero_w"; }
    if (i % 12 == 6) { q(0) = q(1) = 0; tag = q(3) < 0 ? "negative_w_planar" : "positive_w_planar"; }
    const VX<S> x{S(q(0)), S(q(1)), S(q(2)), S(q(3))};
    go<S>(f, "conv_so3_quat_ctor", "SO3", x, tag);
    // elements
    const SO3<S> g = random_so3<S>(r, i);
    VX<S> xg;
    put(xg, g.coeffs());
    go<S>(f, "conv_so3_quat", "SO3", xg, "");
    go<S>(f, "conv_project_so2", "SO3", xg, "general");
    Eigen::Matrix<S, 7, 1> se3c;
    for (int k = 0; k < 3; ++k) se3c(k) = S(gen_trans(r, i + k));
    se3c.template tail<4>() = g.coeffs();
    VX<S> xs;
    put(xs, se3c);
    go<S>(f, "conv_project_se2", "SE3", xs, "general");
    go<S>(f, "conv_se3_isometry", "SE3", xs, "");
    go<S>(f, "conv_se3_iso_rt", "SE3", xs, i % 6 == 1 ? "near_pi" : "");
    {
      VX<S> T;
      put(T, fromc<SE3<S>>(xs, 0).isometry().matrix());
      go<S>(f, "conv_se3_iso_ctor", "SE3", T, i % 6 == 1 ? "near_pi" : "");
    }
    // planar elements (rotation about z): project then lift is the identity map
    {
      const Circ<S> c = so2_stratum<S>(r, i * 5 + r.below(34));
      const SO3<S> gz = fromc<SO2<S>>(VX<S>{c.qz, c.qw}, 0).lift_so3();
      VX<S> xz;
      put(xz, gz.coeffs());
      go<S>(f, "conv_project_so2", "SO3", xz, "planar");
      VX<S> xzs{S(gen_trans(r, i)), S(gen_trans(r, i + 1)), S(0)};
      put(xzs, gz.coeffs());
      go<S>(f, "conv_project_se2", "SE3", xzs, "planar");
    }
    // Euler angles away from gimbal lock
    {
      SO3<S> ge = g;
      for (int tries = 0; tries < 20; ++tries) {
        const Eigen::Matrix<S, 3, 3> R = ge.matrix();
        if (std::fabs(double(R(2, 0))) < 0.999) break;
        ge = random_so3<S>(r, tries);
      }
      VX<S> xe;
      put(xe, ge.coeffs());
      go<S>(f, "conv_euler", "SO3", xe, "");
      const VX<S> e{S(r.uni(-M_PI, M_PI)), S(r.uni(-1.5, 1.5)), S(r.uni(-M_PI, M_PI))};
      go<S>(f, "conv_of_euler", "SO3", e, "");
    }
  }
}

// constructors from parts, construction / assignment between storage types, quat() write access, other Euler conventions
template<class S>
void run_ctors(FILE * f, Rng & r, int n)
{
  using namespace smooth;
  auto rnd = [&](int k) { return S(gen_trans(r, k)); };
  for (int i = 0; i < 4 * n; ++i) {
    const SO3<S> q  = random_so3<S>(r, i);
    const Circ<S> c = so2_stratum<S>(r, i * 3 + r.below(34));
    VX<S> xq;
    put(xq, q.coeffs());
    const char * tag = i % 6 == 1 ? "near_pi" : (i % 6 == 4 ? "identity_rot" : "");
    {
      const VX<S> x{c.qz, c.qw, rnd(i), rnd(i + 1)};
      go<S>(f, "conv_se2_parts_ctor", "SE2", x, c.tag);
      go<S>(f, "conv_se2_parts_ctor_map", "SE2", x, c.tag);
    }
    VX<S> x3 = xq;
    for (int k = 0; k < 3; ++k) x3.push_back(rnd(i + k));
    go<S>(f, "conv_se3_parts_ctor", "SE3", x3, tag);
    go<S>(f, "conv_se3_parts_ctor_map", "SE3", x3, tag);
    VX<S> xg = xq;
    for (int k = 0; k < 6; ++k) xg.push_back(rnd(i + k));
    go<S>(f, "conv_sek2_parts_ctor", "SEK2", xg, tag);
    go<S>(f, "conv_gal_parts_ctor_dflt", "GAL", xg, tag);
    xg.push_back(i % 5 == 0 ? S(0) : S(r.uni(-10, 10)));
    go<S>(f, "conv_gal_parts_ctor", "GAL", xg, tag);
    VX<S> xb = xq;
    for (int k = 0; k < 3; ++k) xb.push_back(rnd(i + k));
    xb.push_back(rnd(i)); xb.push_back(rnd(i + 2)); xb.push_back(c.qz); xb.push_back(c.qw);
    xb.push_back(S(r.uni(-2, 2))); xb.push_back(S(r.uni(-2, 2)));
    go<S>(f, "conv_bundle_parts_ctor", "B", xb, tag);
    // between storage types: arbitrary coefficient words (incl. signed zeros and non-normalised data) must arrive verbatim
    const char * kinds[] = {"map", "cmap", "asgmap", "asgcmap", "mapasg", "mapasgcmap", "mapasgmap", "mapcopy"};
    const char * k = kinds[i % 8];
    auto words = [&](int m) {
      VX<S> w;
      for (int j = 0; j < m; ++j) w.push_back(j % 5 == 3 ? (r.next() & 1 ? S(0) : -S(0)) : S(r.uni(-3, 3)));
      return w;
    };
    const std::pair<const char *, int> grps[] = {{"SO2", 2}, {"SO3", 4}, {"SE2", 4}, {"SE3", 7}, {"C1", 2}, {"GAL", 11}, {"SEK2", 10}, {"B", 13}};
    for (auto [gname, rep] : grps) go<S>(f, std::string("conv_copy_") + k + "_" + gname, gname, words(rep), "verbatim");
    // quat() write access, Euler angles in the x-y-z convention
    go<S>(f, "conv_so3_quat_write", "SO3", VX<S>{S(r.uni(-2, 2)), S(r.uni(-2, 2)), i % 4 == 2 ? -S(0) : S(r.uni(-2, 2)), S(r.uni(-2, 2))}, "verbatim");
    {
      SO3<S> ge = q;
      for (int tries = 0; tries < 20; ++tries) {
        const Eigen::Matrix<S, 3, 3> R = ge.matrix();
        if (std::fabs(double(R(0, 2))) < 0.999) break;
        ge = random_so3<S>(r, tries);
      }
      VX<S> xe;
      put(xe, ge.coeffs());
      go<S>(f, "conv_euler_xyz", "SO3", xe, "");
      {  // every axis convention in turn: 6 Tait-Bryan (i1 != i3) and 6 proper Euler (i1 == i3); gimbal lock excluded:
         // |R(i1,i3)| = |sin e1| (Tait-Bryan) resp. |cos e1| (proper Euler) must stay below 0.999
        static const int conv[12][3] = {{0, 1, 2}, {0, 2, 1}, {1, 0, 2}, {1, 2, 0}, {2, 0, 1}, {2, 1, 0},
                                        {0, 1, 0}, {0, 2, 0}, {1, 0, 1}, {1, 2, 1}, {2, 0, 2}, {2, 1, 2}};
        for (int pass = 0; pass < 2; ++pass) {
          const int * c = conv[(2 * i + pass * 7) % 12];
          SO3<S> gc     = pass == 0 ? ge : random_so3<S>(r, i + 3);
          for (int tries = 0; tries < 20; ++tries) {
            const Eigen::Matrix<S, 3, 3> R = gc.matrix();
            if (std::fabs(double(R(c[0], c[2]))) < 0.999) break;
            gc = random_so3<S>(r, tries);
          }
          VX<S> xc;
          put(xc, gc.coeffs());
          const std::string ax = std::string(1, char('0' + c[0])) + char('0' + c[1]) + char('0' + c[2]);
          go<S>(f, ("conv_euler_a" + ax).c_str(), "SO3", xc, c[0] == c[2] ? "proper_euler" : "tait_bryan");
        }
      }
      go<S>(f, "conv_of_euler_xyz", "SO3", VX<S>{S(r.uni(-M_PI, M_PI)), S(r.uni(-1.5, 1.5)), S(r.uni(-M_PI, M_PI))}, "");
    }
  }
}

template<class S>
void family(FILE * f, Rng & r, int n)
{
  run_so2<S>(f, r, n);
  run_so3<S>(f, r, n);
  run_pairs<S, 1>(f, r, 9 * n);
  run_pairs<S, 2>(f, r, 9 * n);
  run_ctors<S>(f, r, n);   // last: the random stream of the ops above is unchanged
}

// ------------------------------------------------------------------ eval mode
template<class S>
S parse_word(const std::string & w)
{
  if constexpr (std::is_same_v<S, double>) {
    uint64_t u = std::strtoull(w.c_str(), nullptr, 16);
    double d;
    std::memcpy(&d, &u, 8);
    return d;
  } else {
    uint32_t u = uint32_t(std::strtoul(w.c_str(), nullptr, 16));
    float d;
    std::memcpy(&d, &u, 4);
    return d;
  }
}

template<class S>
void eval_line(const std::string & op, const std::string & grp, const std::vector<std::string> & words, const std::string & tag)
{
  VX<S> x, out;
  for (auto & w : words) x.push_back(parse_word<S>(w));
  if (eval_op<S>(op, x, out)) emit<S>(stdout, op, grp.c_str(), x, out, tag.c_str());
  else std::printf("SKIP %s %s\n", op.c_str(), grp.c_str());
}

int eval_mode()
{
  char * line = nullptr;
  size_t cap  = 0;
  while (getline(&line, &cap, stdin) > 0) {
    std::string s(line);
    while (!s.empty() && (s.back() == '\n' || s.back() == '\r')) s.pop_back();
    std::string tag;
    auto h = s.find(" # ");
    if (h != std::string::npos) { tag = s.substr(h + 3); s = s.substr(0, h); }
    auto bar = s.find(" |");
    if (bar != std::string::npos) s = s.substr(0, bar);
    std::vector<std::string> t;
    size_t p = 0;
    while (p < s.size()) {
      while (p < s.size() && s[p] == ' ') ++p;
      size_t q = p;
      while (q < s.size() && s[q] != ' ') ++q;
      if (q > p) t.push_back(s.substr(p, q - p));
      p = q;
    }
    if (t.size() < 3) { std::printf("SKIP bad-line\n"); continue; }
    std::vector<std::string> words(t.begin() + 3, t.end());
    if (t[2] == "f64") eval_line<double>(t[0], t[1], words, tag);
    else if (t[2] == "f32") eval_line<float>(t[0], t[1], words, tag);
    else std::printf("SKIP bad-prec\n");
  }
  std::free(line);
  return 0;
}

int main(int argc, char ** argv)
{
  if (argc > 1 && std::string(argv[1]) == "eval") return eval_mode();
  const int n = argc > 1 ? std::atoi(argv[1]) : 4;
  Rng r(seed_from_env() * 1000 + 17);
  family<double>(stdout, r, n);
  family<float>(stdout, r, n);
  return 0;
}
