// mem.cpp — harness of property C16 (Map views) and of the layout part of C06.
// Includes /repo/include directly and calls the real code in-process.
//
//   ./mem eval   < requests      interpret `mem_script …` / `mem_cast …` request lines with the real
//                                 Map<G> / Map<const G> / value objects; reply = request | words # tag
//   ./mem dump                    observed write-set of every accessor and full-view mutator, sizes,
//                                 constness of Map<const G>, Bundle prefix-sum arrays (T2 tables)
//   ./mem agree <n>               value-vs-Map agreement of every LieGroupBase operation (bitwise)
//
// Script protocol (one line): mem_script <G> <prec> <N> <NV> <w×(N+NV·R)> <ops…>
//   state = N caller-owned words followed by NV value objects.  loc: m<off> | c<off> | v<j>
//   ops:  I loc path | C loc path n w×n | A dst src | K dst src | M loc path n w×n | ML dst src
//         | P loc path n w×n | X dst src            (see lean/Driver/OpsMem.lean)
#include <smooth/bundle.hpp>
#include <smooth/c1.hpp>
#include <smooth/galilei.hpp>
#include <smooth/se2.hpp>
#include <smooth/se3.hpp>
#include <smooth/se_k_3.hpp>
#include <smooth/so2.hpp>
#include <smooth/so3.hpp>

#include <algorithm>
#include <utility>
#include <memory>
#include <sstream>

#include "common.hpp"

using namespace vh;

#ifndef FAMILY
#define FAMILY 0
#endif
// SCALAR: 0 = double only, 1 = float only, 2 = both (one translation unit per scalar keeps the
// compile time of a unit below a minute)
#ifndef SCALAR
#define SCALAR 2
#endif
// PART: 0 = eval + dump modes, 1 = agree mode, 2 = everything
#ifndef PART
#define PART 2
#endif

// ------------------------------------------------------------------ names (descriptor language)
template<class G>
struct GName;
template<class S> struct GName<smooth::SO2<S>> { static std::string get() { return "SO2"; } };
template<class S> struct GName<smooth::SO3<S>> { static std::string get() { return "SO3"; } };
template<class S> struct GName<smooth::SE2<S>> { static std::string get() { return "SE2"; } };
template<class S> struct GName<smooth::SE3<S>> { static std::string get() { return "SE3"; } };
template<class S> struct GName<smooth::C1<S>> { static std::string get() { return "C1"; } };
template<class S> struct GName<smooth::Galilei<S>> { static std::string get() { return "GAL"; } };
template<class S, int K> struct GName<smooth::SE_K_3<S, K>> { static std::string get() { return "SEK" + std::to_string(K); } };
template<class S, int N> struct GName<Eigen::Matrix<S, N, 1>> { static std::string get() { return "T" + std::to_string(N); } };
template<class... Gs>
struct GName<smooth::Bundle<Gs...>>
{
  static std::string get()
  {
    std::string s = "B[";
    bool first    = true;
    ((s += (first ? "" : ",") + GName<Gs>::get(), first = false), ...);
    return s + "]";
  }
};

// ------------------------------------------------------------------ type classification
template<class T>
constexpr bool is_eigen_v = std::is_base_of_v<Eigen::EigenBase<T>, T>;
template<class T> constexpr bool is_se2_v = std::is_base_of_v<smooth::SE2Base<T>, T>;
template<class T> constexpr bool is_se3_v = std::is_base_of_v<smooth::SE3Base<T>, T>;
template<class T> constexpr bool is_gal_v = std::is_base_of_v<smooth::GalileiBase<T>, T>;
template<class T> constexpr bool is_sek_v = std::is_base_of_v<smooth::SE_K_3Base<T>, T>;
template<class T> constexpr bool is_bundle_v = std::is_base_of_v<smooth::BundleBase<T>, T>;

template<class S> struct OtherScalar;
template<> struct OtherScalar<double> { using type = float; };
template<> struct OtherScalar<float> { using type = double; };

template<class S>
S parse_word(const std::string & w)
{
  if constexpr (std::is_same_v<S, double>) {
    uint64_t u = std::strtoull(w.c_str(), nullptr, 16);
    double d;
    std::memcpy(&d, &u, 8);
    return d;
  } else {
    uint32_t u = uint32_t(std::strtoul(w.c_str(), nullptr, 16));
    float d;
    std::memcpy(&d, &u, 4);
    return d;
  }
}

template<class S>
bool same_bits(S a, S b)
{
  return std::memcmp(&a, &b, sizeof(S)) == 0;
}

// distance in units in the last place (0 = bitwise equal; huge for NaN/Inf class mismatches)
template<class S>
double ulp_diff(S a, S b)
{
  if (same_bits(a, b)) return 0;
  if (std::isnan(a) && std::isnan(b)) return 0;
  if (!std::isfinite(a) || !std::isfinite(b)) return 1e300;
  if (a == b) return 0.5;  // +0 / -0
  using I = std::conditional_t<std::is_same_v<S, double>, int64_t, int32_t>;
  I ia, ib;
  std::memcpy(&ia, &a, sizeof(S));
  std::memcpy(&ib, &b, sizeof(S));
  const I mn = std::numeric_limits<I>::min();
  if (ia < 0) ia = mn - ia;
  if (ib < 0) ib = mn - ib;
  return std::abs(double(ia) - double(ib));
}

// ------------------------------------------------------------------ accessor paths
// walk(view, path, k, f): follow the accessor chain path[k..] from `view` and call f(target).
template<class V, class F>
bool walk(V & v, const std::vector<std::string> & path, size_t k, F && f)
{
  using T = std::remove_cvref_t<V>;
  if (k == path.size()) {
    f(v);
    return true;
  }
  const std::string & p = path[k];
  if constexpr (is_eigen_v<T>) {
    return false;
  } else if constexpr (is_se2_v<T>) {
    if (p == "so2") { auto s = v.so2(); return walk(s, path, k + 1, f); }
    if (p == "r2") { auto s = v.r2(); return walk(s, path, k + 1, f); }
    return false;
  } else if constexpr (is_se3_v<T>) {
    if (p == "so3") { auto s = v.so3(); return walk(s, path, k + 1, f); }
    if (p == "r3") { auto s = v.r3(); return walk(s, path, k + 1, f); }
    return false;
  } else if constexpr (is_gal_v<T>) {
    if (p == "so3") { auto s = v.so3(); return walk(s, path, k + 1, f); }
    if (p == "r3_v") { auto s = v.r3_v(); return walk(s, path, k + 1, f); }
    if (p == "r3_p") { auto s = v.r3_p(); return walk(s, path, k + 1, f); }
    if (p == "r1_t") { auto s = v.r1_t(); return walk(s, path, k + 1, f); }
    return false;
  } else if constexpr (is_sek_v<T>) {
    if (p == "so3") { auto s = v.so3(); return walk(s, path, k + 1, f); }
    if (p.rfind("r3k", 0) == 0 || p.rfind("r3rt", 0) == 0) {
      const bool rt = p.rfind("r3rt", 0) == 0;
      const int idx = std::atoi(p.c_str() + (rt ? 4 : 3));
      bool ok       = false;
      if (idx < 0 || idx >= int(T::K)) return false;
      if (rt) {
        auto s = v.r3(idx);
        return walk(s, path, k + 1, f);
      }
      smooth::utils::static_for<T::K>([&](auto I) {
        if (int(I) == idx) {
          auto s = v.template r3<int(I)>();
          ok     = walk(s, path, k + 1, f);
        }
      });
      return ok;
    }
    return false;
  } else if constexpr (is_bundle_v<T>) {
    if (p.rfind("part", 0) == 0) {
      const int idx = std::atoi(p.c_str() + 4);
      bool ok       = false;
      smooth::utils::static_for<T::BundleSize>([&](auto I) {
        if (int(I) == idx) {
          auto s = v.template part<I>();
          ok     = walk(s, path, k + 1, f);
        }
      });
      return ok;
    }
    return false;
  } else {
    return false;
  }
}

std::vector<std::string> split(const std::string & s, char sep)
{
  std::vector<std::string> out;
  std::string cur;
  for (char c : s) {
    if (c == sep) { out.push_back(cur); cur.clear(); }
    else cur.push_back(c);
  }
  out.push_back(cur);
  return out;
}

std::vector<std::string> parse_path(const std::string & s)
{
  if (s == "-") return {};
  return split(s, '.');
}

// single-level accessor names of a group type, in memory order
template<class G>
std::vector<std::string> accessor_names()
{
  std::vector<std::string> r;
  if constexpr (is_se2_v<G>) r = {"r2", "so2"};
  else if constexpr (is_se3_v<G>) r = {"r3", "so3"};
  else if constexpr (is_gal_v<G>) r = {"r3_v", "r3_p", "r1_t", "so3"};
  else if constexpr (is_sek_v<G>) {
    for (int i = 0; i < int(G::K); ++i) r.push_back("r3k" + std::to_string(i));
    for (int i = 0; i < int(G::K); ++i) r.push_back("r3rt" + std::to_string(i));
    r.push_back("so3");
  } else if constexpr (is_bundle_v<G>) {
    for (int i = 0; i < int(G::BundleSize); ++i) r.push_back("part" + std::to_string(i));
  }
  return r;
}

// ------------------------------------------------------------------ script state
constexpr int MAXBUF = 256;

struct Loc
{
  char kind;  // m c v
  int idx;    // word offset (m, c) or value index (v)
};

template<class G>
struct State
{
  using S = typename smooth::liebase_info<G>::Scalar;
  alignas(64) S raw[MAXBUF + 8];
  int N = 0;
  std::vector<G> vals;

  template<class F>
  bool with_mut(Loc l, F && f)
  {
    if (l.kind == 'm') {
      if (l.idx < 0 || l.idx + int(G::RepSize) > N) return false;
      smooth::Map<G> m(raw + l.idx);
      f(m);
      return true;
    }
    if (l.kind == 'v') {
      if (l.idx < 0 || l.idx >= int(vals.size())) return false;
      f(vals[l.idx]);
      return true;
    }
    return false;
  }
  template<class F>
  bool with_any(Loc l, F && f)
  {
    if (l.kind == 'c') {
      if (l.idx < 0 || l.idx + int(G::RepSize) > N) return false;
      const smooth::Map<const G> m(raw + l.idx);
      f(m);
      return true;
    }
    if (l.kind == 'm') {
      if (l.idx < 0 || l.idx + int(G::RepSize) > N) return false;
      const smooth::Map<G> m(raw + l.idx);
      f(m);
      return true;
    }
    if (l.kind == 'v') {
      if (l.idx < 0 || l.idx >= int(vals.size())) return false;
      const G & g = vals[l.idx];
      f(g);
      return true;
    }
    return false;
  }
  void emit(std::vector<S> & out) const
  {
    for (int i = 0; i < N; ++i) out.push_back(raw[i]);
    for (const G & g : vals)
      for (int i = 0; i < int(G::RepSize); ++i) out.push_back(g.coeffs()(i));
  }
};

struct Toks
{
  const std::vector<std::string> & t;
  size_t p = 0;
  bool ok  = true;
  const std::string & next()
  {
    static const std::string empty;
    if (p >= t.size()) { ok = false; return empty; }
    return t[p++];
  }
  int num() { const std::string & s = next(); return ok ? std::atoi(s.c_str()) : 0; }
  Loc loc()
  {
    const std::string & s = next();
    if (!ok || s.size() < 2) { ok = false; return {'?', 0}; }
    return {s[0], std::atoi(s.c_str() + 1)};
  }
  template<class S>
  std::vector<S> words(int n)
  {
    std::vector<S> r;
    for (int i = 0; i < n && ok; ++i) r.push_back(parse_word<S>(next()));
    return r;
  }
  bool done() const { return p >= t.size(); }
};

template<class S, class T>
void assign_literal(T & tgt, const std::vector<S> & w, bool via_value, bool & ok)
{
  using TT = std::remove_cvref_t<T>;
  if constexpr (is_eigen_v<TT>) {
    if (int(w.size()) != int(tgt.size())) { ok = false; return; }
    Eigen::Matrix<S, TT::RowsAtCompileTime, 1> v;
    for (int i = 0; i < int(w.size()); ++i) v(i) = w[i];
    tgt = v;
  } else {
    using H = typename TT::PlainObject;
    if (int(w.size()) != int(H::RepSize)) { ok = false; return; }
    Eigen::Matrix<S, H::RepSize, 1> v;
    for (int i = 0; i < int(w.size()); ++i) v(i) = w[i];
    if (via_value) {
      H h;
      h.coeffs() = v;
      tgt        = h;  // cross-storage operator= (part<i>() = value, so3() = value …)
    } else {
      tgt.coeffs() = v;  // coeffs() = literal
    }
  }
}

// run one script.  Returns false on malformed input.  `valuediff` counts words where the op done
// through the view differs bitwise from the same op done on value objects holding the same words.
template<class G>
bool run_script(const std::vector<std::string> & toks, std::vector<typename smooth::liebase_info<G>::Scalar> & out, long & valuediff,
  long & valuechecked)
{
  using S               = typename smooth::liebase_info<G>::Scalar;
  using O               = typename OtherScalar<S>::type;
  constexpr int R       = G::RepSize;
  auto st               = std::make_unique<State<G>>();
  Toks T{toks};
  st->N        = T.num();
  const int NV = T.num();
  if (!T.ok || st->N < 0 || st->N > MAXBUF || NV < 0 || NV > 8) return false;
  {
    auto w = T.template words<S>(st->N + NV * R);
    if (!T.ok) return false;
    for (int i = 0; i < st->N; ++i) st->raw[i] = w[i];
    st->vals.resize(NV);
    for (int j = 0; j < NV; ++j)
      for (int i = 0; i < R; ++i) st->vals[j].coeffs()(i) = w[st->N + j * R + i];
  }
  auto cmp_value = [&](const G & expect, Loc l) {
    st->with_any(l, [&](const auto & now) {
      for (int i = 0; i < R; ++i) {
        ++valuechecked;
        if (!same_bits(S(expect.coeffs()(i)), S(now.coeffs()(i)))) ++valuediff;
      }
    });
  };
  while (!T.done()) {
    const std::string op = T.next();
    bool ok              = true;
    if (op == "I") {
      const Loc l  = T.loc();
      const auto p = parse_path(T.next());
      G shadow;
      if (p.empty()) shadow.setIdentity();
      ok = st->with_mut(l, [&](auto & v) {
        ok = walk(v, p, 0, [&](auto & tgt) {
          if constexpr (is_eigen_v<std::remove_cvref_t<decltype(tgt)>>) tgt.setZero();
          else tgt.setIdentity();
        });
      }) && ok;
      if (ok && p.empty()) cmp_value(shadow, l);
    } else if (op == "C") {
      const Loc l  = T.loc();
      const auto p = parse_path(T.next());
      const int n  = T.num();
      const auto w = T.template words<S>(n);
      if (!T.ok) return false;
      ok = st->with_mut(l, [&](auto & v) {
        ok = walk(v, p, 0, [&](auto & tgt) { assign_literal<S>(tgt, w, !p.empty(), ok); }) && ok;
      }) && ok;
    } else if (op == "A" || op == "K") {
      const Loc d = T.loc(), s = T.loc();
      G shadow;
      ok = st->with_any(s, [&](const auto & sv) { shadow = G(sv); });
      ok = ok && st->with_mut(d, [&](auto & dv) {
        st->with_any(s, [&](const auto & sv) {
          if (op == "A") dv = sv;
          else {
            G tmp(sv);  // construction from other storage
            dv = tmp;
          }
        });
      });
      if (ok) cmp_value(shadow, d);
    } else if (op == "M") {
      const Loc l  = T.loc();
      const auto p = parse_path(T.next());
      const int n  = T.num();
      const auto w = T.template words<S>(n);
      if (!T.ok) return false;
      G shadow;
      bool have_shadow = false;
      if (p.empty() && n == R) {
        G rhs;
        for (int i = 0; i < R; ++i) rhs.coeffs()(i) = w[i];
        st->with_any(l, [&](const auto & cur) { shadow = G(cur) * rhs; have_shadow = true; });
      }
      ok = st->with_mut(l, [&](auto & v) {
        ok = walk(v, p, 0, [&](auto & tgt) {
          using TT = std::remove_cvref_t<decltype(tgt)>;
          if constexpr (is_eigen_v<TT>) ok = false;
          else {
            using H = typename TT::PlainObject;
            if (n != int(H::RepSize)) { ok = false; return; }
            H h;
            for (int i = 0; i < n; ++i) h.coeffs()(i) = w[i];
            tgt *= h;
          }
        }) && ok;
      }) && ok;
      if (ok && have_shadow) cmp_value(shadow, l);
    } else if (op == "ML") {
      const Loc d = T.loc(), s = T.loc();
      G shadow;
      ok = st->with_any(d, [&](const auto & dv) { st->with_any(s, [&](const auto & sv) { shadow = G(dv) * G(sv); }); });
      ok = ok && st->with_mut(d, [&](auto & dv) { st->with_any(s, [&](const auto & sv) { dv *= sv; }); });
      if (ok) cmp_value(shadow, d);
    } else if (op == "P") {
      const Loc l  = T.loc();
      const auto p = parse_path(T.next());
      const int n  = T.num();
      const auto w = T.template words<S>(n);
      if (!T.ok) return false;
      G shadow;
      bool have_shadow = false;
      if (p.empty() && n == int(G::Dof)) {
        typename G::Tangent a;
        for (int i = 0; i < n; ++i) a(i) = w[i];
        st->with_any(l, [&](const auto & cur) { shadow = G(cur) + a; have_shadow = true; });
      }
      ok = st->with_mut(l, [&](auto & v) {
        ok = walk(v, p, 0, [&](auto & tgt) {
          using TT = std::remove_cvref_t<decltype(tgt)>;
          if constexpr (is_eigen_v<TT>) {
            if (n != int(tgt.size())) { ok = false; return; }
            Eigen::Matrix<S, TT::RowsAtCompileTime, 1> a;
            for (int i = 0; i < n; ++i) a(i) = w[i];
            tgt += a;
          } else {
            using H = typename TT::PlainObject;
            if (n != int(H::Dof)) { ok = false; return; }
            typename H::Tangent a;
            for (int i = 0; i < n; ++i) a(i) = w[i];
            tgt += a;
          }
        }) && ok;
      }) && ok;
      if (ok && have_shadow) cmp_value(shadow, l);
    } else if (op == "R" || op == "RL") {
      // read the sub-part src.path through the CONST overloads (Map<const G>, const Map<G> = std::as_const,
      // const value) and store its coefficients (R) / its log() (RL) in the first words of dst
      const Loc d  = T.loc(), sl = T.loc();
      const auto p = parse_path(T.next());
      std::vector<S> got;
      ok = st->with_any(sl, [&](const auto & sv) {
        ok = walk(sv, p, 0, [&](auto & tgt) {
          using TT = std::remove_cvref_t<decltype(tgt)>;
          if constexpr (is_eigen_v<TT>) {
            for (int i = 0; i < int(tgt.size()); ++i) got.push_back(tgt(i));
          } else if (op == "R") {
            for (int i = 0; i < int(TT::RepSize); ++i) got.push_back(tgt.coeffs()(i));
          } else {
            const auto a = tgt.log();
            for (int i = 0; i < int(a.size()); ++i) got.push_back(a(i));
          }
        }) && ok;
      }) && ok;
      ok = ok && int(got.size()) <= R && st->with_mut(d, [&](auto & dv) {
        for (int i = 0; i < int(got.size()); ++i) dv.coeffs()(i) = got[i];
      });
    } else if (op == "X") {
      const Loc d = T.loc(), s = T.loc();
      G shadow;
      ok = st->with_any(s, [&](const auto & sv) { shadow = G(sv).template cast<O>().template cast<S>(); });
      ok = ok && st->with_mut(d, [&](auto & dv) {
        st->with_any(s, [&](const auto & sv) { dv = sv.template cast<O>().template cast<S>(); });
      });
      if (ok) cmp_value(shadow, d);
    } else {
      return false;
    }
    if (!ok || !T.ok) return false;
    st->emit(out);
  }
  return true;
}

// cast<Other>() through the three storage kinds; returns false if they disagree bitwise
template<class G>
bool run_cast(const std::vector<std::string> & toks, std::vector<typename OtherScalar<typename smooth::liebase_info<G>::Scalar>::type> & out)
{
  using S         = typename smooth::liebase_info<G>::Scalar;
  using O         = typename OtherScalar<S>::type;
  constexpr int R = G::RepSize;
  if (int(toks.size()) != R) return false;
  alignas(64) S raw[R + 8];
  G g;
  for (int i = 0; i < R; ++i) {
    g.coeffs()(i) = parse_word<S>(toks[i]);
    raw[1 + i]    = g.coeffs()(i);
  }
  const smooth::Map<G> m(raw + 1);
  const smooth::Map<const G> c(raw + 1);
  const auto gv = g.template cast<O>();
  const auto gm = m.template cast<O>();
  const auto gc = c.template cast<O>();
  bool same     = true;
  for (int i = 0; i < R; ++i) {
    out.push_back(gm.coeffs()(i));
    same = same && same_bits(O(gv.coeffs()(i)), O(gm.coeffs()(i))) && same_bits(O(gv.coeffs()(i)), O(gc.coeffs()(i)));
  }
  return same;
}

// ------------------------------------------------------------------ dump mode (T2 tables)
template<class S>
S sentinel(int i)
{
  if constexpr (std::is_same_v<S, double>) {
    uint64_t u = 0x7ff8000000000000ull | uint64_t(i + 1);
    double d;
    std::memcpy(&d, &u, 8);
    return d;
  } else {
    uint32_t u = 0x7fc00000u | uint32_t(i + 1);
    float d;
    std::memcpy(&d, &u, 4);
    return d;
  }
}

template<class S>
void report_diff(const char * kind, const std::string & g, const std::string & what, const S * before, const S * after, int total, int view_off)
{
  std::vector<int> ch;
  for (int i = 0; i < total; ++i)
    if (!same_bits(before[i], after[i])) ch.push_back(i - view_off);
  bool contiguous = true;
  for (size_t i = 1; i < ch.size(); ++i) contiguous = contiguous && ch[i] == ch[i - 1] + 1;
  std::printf("%s %s %s %s", kind, g.c_str(), Prec<S>::name, what.c_str());
  if (ch.empty()) std::printf(" none");
  else if (contiguous) std::printf(" %d %d", ch.front(), int(ch.size()));
  else {
    std::printf(" scattered");
    for (int i : ch) std::printf(" %d", i);
  }
  std::printf("\n");
}

template<class G>
void dump_group()
{
  using S         = typename smooth::liebase_info<G>::Scalar;
  constexpr int R = G::RepSize;
  constexpr int GUARD = 8;
  const std::string g = GName<G>::get();
  std::printf("sizes %s %s %d %d %d\n", g.c_str(), Prec<S>::name, int(G::RepSize), int(G::Dof), int(G::Dim));
  for (int off0 = 0; off0 < 4; ++off0) {
    const int total = GUARD + off0 + R + GUARD;
    alignas(64) S before[MAXBUF], after[MAXBUF];
    auto fresh = [&] {
      for (int i = 0; i < total; ++i) before[i] = after[i] = sentinel<S>(i);
    };
    const int vo = GUARD + off0;
    // --- accessors
    for (const std::string & acc : accessor_names<G>()) {
      fresh();
      smooth::Map<G> m(after + vo);
      const std::vector<std::string> path{acc};
      walk(m, path, 0, [&](auto & tgt) {
        using TT = std::remove_cvref_t<decltype(tgt)>;
        if constexpr (is_eigen_v<TT>) {
          tgt = Eigen::Matrix<S, TT::RowsAtCompileTime, 1>::Constant(S(1.5));
        } else {
          typename TT::PlainObject h;
          h.coeffs().setConstant(S(1.5));
          tgt = h;
        }
      });
      report_diff<S>("view", g, acc + " @" + std::to_string(off0), before, after, total, vo);
      // the const accessor must not write and must alias the same words
      fresh();
      {
        const smooth::Map<const G> c(after + vo);
        S acc_sum = 0;
        walk(c, path, 0, [&](auto & tgt) {
          using TT = std::remove_cvref_t<decltype(tgt)>;
          if constexpr (is_eigen_v<TT>) acc_sum += S(tgt.size());
          else acc_sum += S(tgt.coeffs().size());
        });
        (void)acc_sum;
      }
      report_diff<S>("cview", g, acc + " @" + std::to_string(off0), before, after, total, vo);
      // READ window of the const overloads: which sentinel words does the returned view show?
      fresh();
      auto read_window = [&](const auto & view, const S * base, const char * kind) {
        std::vector<int> idx;
        walk(view, path, 0, [&](auto & tgt) {
          using TT = std::remove_cvref_t<decltype(tgt)>;
          auto word = [&](S x) {
            int found = -999;
            for (int i = -GUARD - 4; i < R + GUARD + 4; ++i)
              if (base + i >= after && base + i < after + total && same_bits(base[i], x)) { found = i; break; }
            idx.push_back(found);
          };
          if constexpr (is_eigen_v<TT>) { for (int i = 0; i < int(tgt.size()); ++i) word(tgt(i)); }
          else { for (int i = 0; i < int(TT::RepSize); ++i) word(tgt.coeffs()(i)); }
        });
        bool contiguous = !idx.empty() && idx[0] != -999;
        for (size_t i = 1; i < idx.size(); ++i) contiguous = contiguous && idx[i] == idx[i - 1] + 1;
        std::printf("rview %s %s %s %s @%d", g.c_str(), Prec<S>::name, acc.c_str(), kind, off0);
        if (contiguous) std::printf(" %d %d\n", idx.front(), int(idx.size()));
        else { std::printf(" scattered"); for (int i : idx) std::printf(" %d", i); std::printf("\n"); }
      };
      {
        const smooth::Map<const G> c(after + vo);
        read_window(c, after + vo, "cmap");
        smooth::Map<G> mm(after + vo);
        read_window(std::as_const(mm), after + vo, "asconst");
      }
      {
        // a const VALUE object holding sentinels: read window relative to its own data()
        G val;
        for (int i = 0; i < R; ++i) val.coeffs()(i) = after[vo + i];
        const G & cval = val;
        std::vector<int> idx;
        walk(cval, path, 0, [&](auto & tgt) {
          using TT = std::remove_cvref_t<decltype(tgt)>;
          auto word = [&](S x) {
            int found = -999;
            for (int i = 0; i < R; ++i) if (same_bits(val.coeffs()(i), x)) { found = i; break; }
            idx.push_back(found);
          };
          if constexpr (is_eigen_v<TT>) { for (int i = 0; i < int(tgt.size()); ++i) word(tgt(i)); }
          else { for (int i = 0; i < int(TT::RepSize); ++i) word(tgt.coeffs()(i)); }
        });
        bool contiguous = !idx.empty() && idx[0] != -999;
        for (size_t i = 1; i < idx.size(); ++i) contiguous = contiguous && idx[i] == idx[i - 1] + 1;
        std::printf("rview %s %s %s cvalue @%d", g.c_str(), Prec<S>::name, acc.c_str(), off0);
        if (contiguous) std::printf(" %d %d\n", idx.front(), int(idx.size()));
        else { std::printf(" scattered"); for (int i : idx) std::printf(" %d", i); std::printf("\n"); }
      }
    }
    // --- full-view mutators
    {
      fresh(); smooth::Map<G> m(after + vo); m.setIdentity();
      report_diff<S>("wset", g, "setIdentity @" + std::to_string(off0), before, after, total, vo);
    }
    {
      fresh(); smooth::Map<G> m(after + vo); m.coeffs() = Eigen::Matrix<S, R, 1>::Constant(S(1.5));
      report_diff<S>("wset", g, "coeffs @" + std::to_string(off0), before, after, total, vo);
    }
    {
      fresh(); smooth::Map<G> m(after + vo); G h; h.setIdentity(); m = h;
      report_diff<S>("wset", g, "assign @" + std::to_string(off0), before, after, total, vo);
    }
    {
      fresh(); smooth::Map<G> m(after + vo); m.setIdentity();
      for (int i = 0; i < R; ++i) before[vo + i] = sentinel<S>(200 + i);  // so that every word counts as changed
      G h; h.setIdentity(); m *= h;
      report_diff<S>("wset", g, "mul @" + std::to_string(off0), before, after, total, vo);
    }
    {
      fresh(); smooth::Map<G> m(after + vo); m.setIdentity();
      for (int i = 0; i < R; ++i) before[vo + i] = sentinel<S>(200 + i);
      m += G::Tangent::Zero();
      report_diff<S>("wset", g, "plus @" + std::to_string(off0), before, after, total, vo);
    }
    {
      // reading through a const view and through a mutable view writes nothing
      fresh(); smooth::Map<G> m(after + vo); m.setIdentity();
      for (int i = 0; i < total; ++i) before[i] = after[i];
      const smooth::Map<const G> c(after + vo);
      volatile S sink = 0;
      sink = sink + S(c.inverse().coeffs()(0)) + S(c.log().sum()) + S(c.matrix().sum()) + S((c * c).coeffs()(0)) + S(c.Ad().sum())
           + S((c - m).sum()) + S((c + G::Tangent::Zero()).coeffs()(0)) + S(c.template cast<typename OtherScalar<S>::type>().coeffs()(0));
      G copy(c);
      sink = sink + copy.coeffs()(0);
      report_diff<S>("wset", g, "const_reads @" + std::to_string(off0), before, after, total, vo);
    }
  }
  // --- constness of Map<const G>: number of mutating members that are available (expected 0)
  {
    using CM = smooth::Map<const G>;
    int n    = 0;
    std::string names;
    auto hit = [&](bool b, const char * nm) { if (b) { ++n; names += std::string(" ") + nm; } };
    // setIdentity()/setRandom() are declared without `requires is_mutable`; on a const map their
    // bodies are ill-formed (Eigen::Ref<non-const> from a read-only expression) — that is checked
    // by the negative compile tests of tools/props/c16.py, a requires-expression cannot see it.
    hit(requires(CM c, G h) { c = h; }, "assign");
    hit(requires(CM c, G h) { c *= h; }, "mul");
    hit(requires(CM c, typename G::Tangent a) { c += a; }, "plus");
    hit(requires(CM c) { c.coeffs()(0) = S(0); }, "coeffs_write");
    hit(requires(CM c) { *c.data() = S(0); }, "data_write");
    if constexpr (is_se2_v<G>) {
      hit(!std::is_same_v<decltype(std::declval<CM &>().so2()), smooth::Map<const smooth::SO2<S>>>, "so2_not_const_map");
      hit(!std::is_same_v<decltype(std::declval<CM &>().r2()), Eigen::Map<const Eigen::Vector2<S>>>, "r2_not_const_map");
    }
    if constexpr (is_se3_v<G>) {
      hit(!std::is_same_v<decltype(std::declval<CM &>().so3()), smooth::Map<const smooth::SO3<S>>>, "so3_not_const_map");
      hit(!std::is_same_v<decltype(std::declval<CM &>().r3()), Eigen::Map<const Eigen::Vector3<S>>>, "r3_not_const_map");
    }
    if constexpr (is_gal_v<G>) {
      hit(!std::is_same_v<decltype(std::declval<CM &>().so3()), smooth::Map<const smooth::SO3<S>>>, "so3_not_const_map");
      hit(!std::is_same_v<decltype(std::declval<CM &>().r3_v()), Eigen::Map<const Eigen::Vector3<S>>>, "r3_v_not_const_map");
      hit(!std::is_same_v<decltype(std::declval<CM &>().r3_p()), Eigen::Map<const Eigen::Vector3<S>>>, "r3_p_not_const_map");
      hit(!std::is_same_v<decltype(std::declval<CM &>().r1_t()), Eigen::Map<const Eigen::Vector<S, 1>>>, "r1_t_not_const_map");
    }
    if constexpr (is_sek_v<G>) {
      hit(!std::is_same_v<decltype(std::declval<CM &>().so3()), smooth::Map<const smooth::SO3<S>>>, "so3_not_const_map");
      hit(!std::is_same_v<decltype(std::declval<CM &>().template r3<0>()), Eigen::Map<const Eigen::Vector3<S>>>, "r3k_not_const_map");
      hit(!std::is_same_v<decltype(std::declval<CM &>().r3(0)), Eigen::Map<const Eigen::Vector3<S>>>, "r3rt_not_const_map");
    }
    if constexpr (is_bundle_v<G>) {
      // the const overload of part<i>() must hand out a read-only map (Eigen::Map<const V> / Map<const H>);
      // assignment through it is ill-formed in the body of Eigen's operator= (negative compile tests)
      smooth::utils::static_for<G::BundleSize>([&](auto I) {
        using PT = typename G::template PartType<I>;
        hit(!std::is_same_v<decltype(std::declval<CM &>().template part<I>()), smooth::MapDispatch<const PT>>, "part_not_const_map");
      });
    }
    std::printf("const %s %s %d%s\n", g.c_str(), Prec<S>::name, n, names.c_str());
  }
  // --- Bundle prefix sums (C06 layout)
  if constexpr (is_bundle_v<G>) {
    using Impl = typename smooth::liebase_info<G>::Impl;
    std::printf("bundle %s %s reps", g.c_str(), Prec<S>::name);
    for (auto x : Impl::RepSizes) std::printf(" %d", int(x));
    std::printf(" | dofs");
    for (auto x : Impl::Dofs) std::printf(" %d", int(x));
    std::printf(" | dims");
    for (auto x : Impl::Dims) std::printf(" %d", int(x));
    std::printf(" | reppsum");
    for (auto x : Impl::RepSizesPsum) std::printf(" %d", int(x));
    std::printf(" | dofpsum");
    for (auto x : Impl::DofsPsum) std::printf(" %d", int(x));
    std::printf(" | dimpsum");
    for (auto x : Impl::DimsPsum) std::printf(" %d", int(x));
    std::printf(" | partstart");
    smooth::utils::static_for<G::BundleSize>([&](auto I) { std::printf(" %d", int(G::template PartStart<I>)); });
    std::printf(" | partdof");
    smooth::utils::static_for<G::BundleSize>([&](auto I) { std::printf(" %d", int(G::template PartDof<I>)); });
    std::printf(" | total %d %d %d\n", int(G::RepSize), int(G::Dof), int(G::Dim));
  }
}

// ------------------------------------------------------------------ agree mode
template<class G>
struct HasHess : std::true_type {};
template<class S> struct HasHess<smooth::Galilei<S>> : std::false_type {};
template<class S, int K> struct HasHess<smooth::SE_K_3<S, K>> : std::false_type {};
template<class... Gs> struct HasHess<smooth::Bundle<Gs...>> : std::bool_constant<(HasHess<Gs>::value && ...)> {};
template<class S, int N> struct HasHess<Eigen::Matrix<S, N, 1>> : std::true_type {};

template<class S>
struct Agree
{
  std::string g, op;
  long n = 0, mism = 0;
  double worst = 0;
  std::string first;
  template<class A, class B>
  void cmp(const Eigen::MatrixBase<A> & ref, const Eigen::MatrixBase<B> & got, const char * combo)
  {
    for (Eigen::Index i = 0; i < ref.rows(); ++i)
      for (Eigen::Index j = 0; j < ref.cols(); ++j) {
        ++n;
        const double d = ulp_diff<S>(S(ref(i, j)), S(got(i, j)));
        if (d > worst) worst = d;
        if (d != 0) {
          if (mism == 0) first = combo;
          ++mism;
        }
      }
  }
  void cmpb(bool a, bool b, const char * combo)
  {
    ++n;
    if (a != b) { if (mism == 0) first = combo; ++mism; worst = 1e300; }
  }
  void flush()
  {
    std::printf("agree %s %s %s %ld %ld %.17g %s\n", g.c_str(), Prec<S>::name, op.c_str(), n, mism, worst, first.empty() ? "-" : first.c_str());
  }
};

template<class G>
void agree_group(Rng & r, int n)
{
  using S         = typename smooth::liebase_info<G>::Scalar;
  using O         = typename OtherScalar<S>::type;
  using Tangent   = typename G::Tangent;
  constexpr int R = G::RepSize;
  const std::string g = GName<G>::get();
  const char * opn[] = {"coeffs", "matrix", "inverse", "log", "Ad", "compose", "rplus", "rminus", "isApprox", "cast", "dof",
    "exp", "hat", "vee", "ad", "bracket", "dr_exp", "dr_expinv", "dl_exp", "dl_expinv", "d2r_exp", "d2r_expinv", "copy", "inplace_mul", "inplace_plus",
    // API-coverage unit (DESIGN 8.10): the statics also through Map<const G>, Identity / setIdentity, aliased in-place product through a
    // view, the free-function interface on views, and every CLASS-SPECIFIC member (accessor const overloads, conversions, actions)
    "Identity", "d2l_exp", "d2l_expinv", "set_identity", "inplace_sq", "free_fn", "accessor", "conversion", "action", "dr_action"};
  std::vector<Agree<S>> A;
  for (const char * o : opn) { A.push_back({}); A.back().g = g; A.back().op = o; }
  auto at = [&](const char * o) -> Agree<S> & { for (auto & a : A) if (a.op == o) return a; return A[0]; };
  alignas(64) S raw1[R + 8], raw2[R + 8];
  for (int it = 0; it < n; ++it) {
    Tangent t1, t2, a;
    for (int i = 0; i < int(G::Dof); ++i) { t1(i) = S(r.uni(-1.5, 1.5)); t2(i) = S(r.uni(-1.5, 1.5)); a(i) = S(r.uni(-1, 1)); }
    if (it % 5 == 1) a *= S(1e-5);  // series branches
    if (it % 7 == 2) a.setZero();
    const G g1 = G::exp(t1), g2 = G::exp(t2) * G::exp(t1);
    const int o1 = it % 4, o2 = (it / 4) % 4;
    for (int i = 0; i < R; ++i) { raw1[o1 + i] = g1.coeffs()(i); raw2[o2 + i] = g2.coeffs()(i); }
    const smooth::Map<G> m1(raw1 + o1), m2(raw2 + o2);
    const smooth::Map<const G> c1(raw1 + o1), c2(raw2 + o2);
    // class-specific public members of the concrete group classes, value versus view (x is const: the const overloads)
    auto class_specific = [&](const G & v, const auto & x, const char * combo) {
      using V2 = Eigen::Matrix<S, 2, 1>;
      using V3 = Eigen::Matrix<S, 3, 1>;
      using V4 = Eigen::Matrix<S, 4, 1>;
      const V2 p2(S(r.uni(-2, 2)), S(r.uni(-2, 2)));
      const V3 p3(S(r.uni(-2, 2)), S(r.uni(-2, 2)), S(r.uni(-2, 2)));
      const V4 p4(S(r.uni(-2, 2)), S(r.uni(-2, 2)), S(r.uni(-2, 2)), S(r.uni(-2, 2)));
      auto sc = [](S s) { return Eigen::Matrix<S, 1, 1>(s); };
      if constexpr (std::is_base_of_v<smooth::SO2Base<G>, G>) {
        at("conversion").cmp(sc(v.angle()), sc(x.angle()), combo);
        at("conversion").cmp(sc(v.angle_cw()), sc(x.angle_cw()), combo);
        at("conversion").cmp(sc(v.angle_ccw()), sc(x.angle_ccw()), combo);
        at("conversion").cmp(v.unit_complex(), x.unit_complex(), combo);
        at("conversion").cmp(V2(v.u1().real(), v.u1().imag()), V2(x.u1().real(), x.u1().imag()), combo);
        at("conversion").cmp(v.lift_so3().coeffs(), x.lift_so3().coeffs(), combo);
        at("action").cmp(v * p2, x * p2, combo);
        at("dr_action").cmp(v.dr_action(p2), x.dr_action(p2), combo);
      } else if constexpr (std::is_base_of_v<smooth::SO3Base<G>, G>) {
        at("accessor").cmp(v.quat().coeffs(), x.quat().coeffs(), combo);
        at("conversion").cmp(v.eulerAngles(), x.eulerAngles(), combo);
        at("conversion").cmp(v.eulerAngles(0, 1, 2), x.eulerAngles(0, 1, 2), combo);
        at("conversion").cmp(v.project_so2().coeffs(), x.project_so2().coeffs(), combo);
        at("action").cmp(v * p3, x * p3, combo);
        at("dr_action").cmp(v.dr_action(p3), x.dr_action(p3), combo);
      } else if constexpr (is_se2_v<G>) {
        at("accessor").cmp(v.so2().coeffs(), x.so2().coeffs(), combo);
        at("accessor").cmp(v.r2(), x.r2(), combo);
        at("conversion").cmp(v.isometry().matrix(), x.isometry().matrix(), combo);
        at("conversion").cmp(v.lift_se3().coeffs(), x.lift_se3().coeffs(), combo);
        at("action").cmp(v * p2, x * p2, combo);
        at("dr_action").cmp(v.dr_action(p2), x.dr_action(p2), combo);
      } else if constexpr (is_se3_v<G>) {
        at("accessor").cmp(v.so3().coeffs(), x.so3().coeffs(), combo);
        at("accessor").cmp(v.r3(), x.r3(), combo);
        at("conversion").cmp(v.isometry().matrix(), x.isometry().matrix(), combo);
        at("conversion").cmp(v.project_se2().coeffs(), x.project_se2().coeffs(), combo);
        at("action").cmp(v * p3, x * p3, combo);
        at("dr_action").cmp(v.dr_action(p3), x.dr_action(p3), combo);
      } else if constexpr (std::is_base_of_v<smooth::C1Base<G>, G>) {
        at("conversion").cmp(sc(v.angle()), sc(x.angle()), combo);
        at("conversion").cmp(sc(v.scaling()), sc(x.scaling()), combo);
        at("conversion").cmp(v.so2().coeffs(), x.so2().coeffs(), combo);
        at("conversion").cmp(V2(v.c1().real(), v.c1().imag()), V2(x.c1().real(), x.c1().imag()), combo);
        at("action").cmp(v * p2, x * p2, combo);
      } else if constexpr (is_gal_v<G>) {
        at("accessor").cmp(v.so3().coeffs(), x.so3().coeffs(), combo);
        at("accessor").cmp(v.r3_v(), x.r3_v(), combo);
        at("accessor").cmp(v.r3_p(), x.r3_p(), combo);
        at("accessor").cmp(v.r1_t(), x.r1_t(), combo);
        at("action").cmp(v * p4, x * p4, combo);
        at("dr_action").cmp(v.dr_action(p4), x.dr_action(p4), combo);
      } else if constexpr (is_sek_v<G>) {
        at("accessor").cmp(v.so3().coeffs(), x.so3().coeffs(), combo);
        at("accessor").cmp(v.template r3<0>(), x.template r3<0>(), combo);
        at("accessor").cmp(v.r3(int(G::K) - 1), x.r3(int(G::K) - 1), combo);
      } else if constexpr (is_bundle_v<G>) {
        auto flat = [](const auto & part) {
          if constexpr (is_eigen_v<std::remove_cvref_t<decltype(part)>>) return Eigen::Matrix<S, Eigen::Dynamic, 1>(part);
          else return Eigen::Matrix<S, Eigen::Dynamic, 1>(part.coeffs());
        };
        at("accessor").cmp(flat(v.template part<0>()), flat(x.template part<0>()), combo);
        at("accessor").cmp(flat(v.template part<G::BundleSize - 1>()), flat(x.template part<G::BundleSize - 1>()), combo);
      }
      (void)p2; (void)p3; (void)p4; (void)sc;
    };
    // the NON-const overloads of the sub-part accessors (they need a mutable receiver), read through
    auto class_specific_mut = [&](G & v, auto & x, const char * combo) {
      if constexpr (std::is_base_of_v<smooth::SO3Base<G>, G>) {
        at("accessor").cmp(v.quat().coeffs(), x.quat().coeffs(), combo);
      } else if constexpr (is_se2_v<G>) {
        at("accessor").cmp(v.so2().coeffs(), x.so2().coeffs(), combo);
        at("accessor").cmp(v.r2(), x.r2(), combo);
      } else if constexpr (is_se3_v<G>) {
        at("accessor").cmp(v.so3().coeffs(), x.so3().coeffs(), combo);
        at("accessor").cmp(v.r3(), x.r3(), combo);
      } else if constexpr (is_gal_v<G>) {
        at("accessor").cmp(v.so3().coeffs(), x.so3().coeffs(), combo);
        at("accessor").cmp(v.r3_v(), x.r3_v(), combo);
        at("accessor").cmp(v.r3_p(), x.r3_p(), combo);
        at("accessor").cmp(v.r1_t(), x.r1_t(), combo);
      } else if constexpr (is_sek_v<G>) {
        at("accessor").cmp(v.so3().coeffs(), x.so3().coeffs(), combo);
        at("accessor").cmp(v.template r3<0>(), x.template r3<0>(), combo);
        at("accessor").cmp(v.r3(int(G::K) - 1), x.r3(int(G::K) - 1), combo);
      }
      at("coeffs").cmp(v.coeffs(), x.coeffs(), combo);
      for (int i = 0; i < R; ++i) at("coeffs").cmpb(v.data()[i] == x.data()[i] || (v.data()[i] != v.data()[i]), true, combo);
    };
    // unary
    auto unary = [&](const auto & x, const char * combo) {
      at("coeffs").cmp(g1.coeffs(), x.coeffs(), combo);
      at("matrix").cmp(g1.matrix(), x.matrix(), combo);
      at("inverse").cmp(g1.inverse().coeffs(), x.inverse().coeffs(), combo);
      at("log").cmp(g1.log(), x.log(), combo);
      at("Ad").cmp(g1.Ad(), x.Ad(), combo);
      at("rplus").cmp((g1 + a).coeffs(), (x + a).coeffs(), combo);
      at("cast").cmp(g1.template cast<O>().coeffs().template cast<S>(), x.template cast<O>().coeffs().template cast<S>(), combo);
      at("dof").cmpb(g1.dof() == x.dof(), true, combo);
      const G cp(x);
      at("copy").cmp(g1.coeffs(), cp.coeffs(), combo);
      // free-function interface (concepts/lie_group.hpp, concepts/manifold.hpp) with a view as the argument
      at("free_fn").cmp(smooth::log(g1), smooth::log(x), combo);
      at("free_fn").cmp(smooth::inverse(g1).coeffs(), smooth::inverse(x).coeffs(), combo);
      at("free_fn").cmp(smooth::Ad(g1), smooth::Ad(x), combo);
      at("free_fn").cmp(smooth::rplus(g1, a).coeffs(), smooth::rplus(x, a).coeffs(), combo);
      at("free_fn").cmp(smooth::lplus(g1, a).coeffs(), smooth::lplus(x, a).coeffs(), combo);
      at("free_fn").cmpb(smooth::dof(g1) == smooth::dof(x), true, combo);
      class_specific(g1, x, combo);
    };
    unary(m1, "map");
    unary(c1, "cmap");
    // binary, all storage pairs against (value, value)
    auto binary = [&](const auto & x, const auto & y, const char * combo) {
      at("compose").cmp((g1 * g2).coeffs(), (x * y).coeffs(), combo);
      at("rminus").cmp(g1 - g2, x - y, combo);
      at("isApprox").cmpb(g1.isApprox(g2), x.isApprox(y), combo);
      at("isApprox").cmpb(g1.isApprox(g1), x.isApprox(x), combo);
    };
    binary(g1, m2, "value,map"); binary(g1, c2, "value,cmap");
    binary(m1, g2, "map,value"); binary(m1, m2, "map,map"); binary(m1, c2, "map,cmap");
    binary(c1, g2, "cmap,value"); binary(c1, m2, "cmap,map"); binary(c1, c2, "cmap,cmap");
    // in-place through a Map vs on a value
    {
      alignas(64) S raw3[R + 8];
      const int o3 = (it / 16) % 4;
      for (int i = 0; i < R; ++i) raw3[o3 + i] = g1.coeffs()(i);
      smooth::Map<G> m3(raw3 + o3);
      G v3 = g1;
      v3 *= g2; m3 *= c2;
      at("inplace_mul").cmp(v3.coeffs(), m3.coeffs(), "map*=cmap");
      v3 += a; m3 += a;
      at("inplace_plus").cmp(v3.coeffs(), m3.coeffs(), "map+=a");
      // aliased in-place product: the view is its own right operand (directly, and through a const view of the same memory)
      v3 *= v3; m3 *= m3;
      at("inplace_sq").cmp(v3.coeffs(), m3.coeffs(), "map*=map(same)");
      {
        const smooth::Map<const G> c3(raw3 + o3);
        v3 *= v3; m3 *= c3;
        at("inplace_sq").cmp(v3.coeffs(), m3.coeffs(), "map*=cmap(same)");
      }
      // the non-const accessor overloads on a mutable view, read back
      class_specific_mut(v3, m3, "map(mutable)");
      v3.setIdentity(); m3.setIdentity();
      at("set_identity").cmp(v3.coeffs(), m3.coeffs(), "map");
    }
    // static tangent API through the Map types
    using MG = smooth::Map<G>;
    using CG = smooth::Map<const G>;
    auto statics = [&]<class X>(std::type_identity<X>, const char * combo) {
      at("exp").cmp(G::exp(a).coeffs(), X::exp(a).coeffs(), combo);
      at("hat").cmp(G::hat(a), X::hat(a), combo);
      at("vee").cmp(G::vee(G::hat(a)), X::vee(X::hat(a)), combo);
      at("ad").cmp(G::ad(a), X::ad(a), combo);
      at("bracket").cmp(G::lie_bracket(a, t1), X::lie_bracket(a, t1), combo);
      at("dr_exp").cmp(G::dr_exp(a), X::dr_exp(a), combo);
      at("dr_expinv").cmp(G::dr_expinv(a), X::dr_expinv(a), combo);
      at("dl_exp").cmp(G::dl_exp(a), X::dl_exp(a), combo);
      at("dl_expinv").cmp(G::dl_expinv(a), X::dl_expinv(a), combo);
      at("Identity").cmp(G::Identity().coeffs(), X::Identity().coeffs(), combo);
      if constexpr (HasHess<G>::value) {
        at("d2r_exp").cmp(G::d2r_exp(a), X::d2r_exp(a), combo);
        at("d2r_expinv").cmp(G::d2r_expinv(a), X::d2r_expinv(a), combo);
        at("d2l_exp").cmp(G::d2l_exp(a), X::d2l_exp(a), combo);
        at("d2l_expinv").cmp(G::d2l_expinv(a), X::d2l_expinv(a), combo);
      }
    };
    statics(std::type_identity<MG>{}, "map");
    statics(std::type_identity<CG>{}, "cmap");
  }
  for (auto & a : A)
    if (a.n) a.flush();
}

// ------------------------------------------------------------------ catalogue
template<class S, class V>
void catalogue(V && visit)
{
  using namespace smooth;
  using V1 = Eigen::Matrix<S, 1, 1>;
  using V2 = Eigen::Matrix<S, 2, 1>;
  using V3 = Eigen::Matrix<S, 3, 1>;
  using V4 = Eigen::Matrix<S, 4, 1>;
  (void)sizeof(V1); (void)sizeof(V2); (void)sizeof(V3); (void)sizeof(V4);
#if FAMILY == 0
  visit.template group<SO2<S>>();
  visit.template group<SO3<S>>();
  visit.template group<SE2<S>>();
  visit.template group<C1<S>>();
#elif FAMILY == 1
  visit.template group<SE3<S>>();
  visit.template group<Bundle<SO3<S>>>();
  visit.template group<Bundle<V3, SO3<S>>>();
  visit.template group<Bundle<C1<S>, SO2<S>>>();
#elif FAMILY == 2
  visit.template group<Galilei<S>>();
  visit.template group<SE_K_3<S, 1>>();
#elif FAMILY == 3
  visit.template group<SE_K_3<S, 2>>();
  visit.template group<SE_K_3<S, 3>>();
  visit.template group<SE_K_3<S, 4>>();
#elif FAMILY == 4
  visit.template group<Bundle<V2, SE2<S>>>();
  visit.template group<Bundle<SE2<S>, V2>>();
  visit.template group<Bundle<SO2<S>, SO2<S>, SO2<S>>>();
  visit.template group<Bundle<V1, V3>>();
  visit.template group<Bundle<Bundle<V2, V2>, SO2<S>>>();
#elif FAMILY == 5
  visit.template group<Bundle<C1<S>, V1, SO3<S>, SO2<S>>>();
  visit.template group<Bundle<SE3<S>, V3, SO3<S>>>();
  visit.template group<Bundle<SE2<S>, V2, SO2<S>, SE3<S>>>();
#elif FAMILY == 6
  visit.template group<Bundle<Bundle<SO3<S>, V3>, SE2<S>>>();
  visit.template group<Bundle<V2, Bundle<SO2<S>, Bundle<SE3<S>, V1>>>>();
#elif FAMILY == 7
  visit.template group<Bundle<Galilei<S>, V4>>();
  visit.template group<Bundle<SE_K_3<S, 2>, SO3<S>>>();
#endif
}

struct DumpVisitor
{
  template<class G>
  void group()
  {
#if PART != 1
    dump_group<G>();
#endif
  }
};

struct AgreeVisitor
{
  Rng & r;
  int n;
  template<class G>
  void group()
  {
#if PART != 0
    agree_group<G>(r, n);
#endif
  }
};

template<class S>
struct EvalVisitor
{
  const std::string & op;
  const std::string & grp;
  const std::vector<std::string> & toks;
  std::string reply;
  bool done = false;
  template<class G>
  void group()
  {
    if (done || GName<G>::get() != grp) return;
#if PART != 1
    if (op == "mem_script") {
      std::vector<S> out;
      long vd = 0, vc = 0;
      if (!run_script<G>(toks, out, vd, vc)) { reply = "BAD"; done = true; return; }
      std::ostringstream os;
      char b[32];
      for (S x : out) {
        if constexpr (std::is_same_v<S, double>) { uint64_t u; std::memcpy(&u, &x, 8); std::snprintf(b, sizeof b, " %016llx", (unsigned long long)u); }
        else { uint32_t u; std::memcpy(&u, &x, 4); std::snprintf(b, sizeof b, " %08x", u); }
        os << b;
      }
      os << " # valuediff=" << vd << " valuechecked=" << vc;
      reply = os.str();
      done  = true;
    } else if (op == "mem_cast") {
      using O = typename OtherScalar<S>::type;
      std::vector<O> out;
      const bool same = run_cast<G>(toks, out);
      std::ostringstream os;
      char b[32];
      for (O x : out) {
        if constexpr (std::is_same_v<O, double>) { uint64_t u; std::memcpy(&u, &x, 8); std::snprintf(b, sizeof b, " %016llx", (unsigned long long)u); }
        else { uint32_t u; std::memcpy(&u, &x, 4); std::snprintf(b, sizeof b, " %08x", u); }
        os << b;
      }
      os << " # storages_agree=" << (same ? 1 : 0);
      reply = os.str();
      done  = true;
    }
#endif
  }
};

int eval_mode()
{
  char * line = nullptr;
  size_t cap  = 0;
  while (getline(&line, &cap, stdin) > 0) {
    std::string s(line);
    while (!s.empty() && (s.back() == '\n' || s.back() == '\r')) s.pop_back();
    auto bar = s.find(" |");
    if (bar != std::string::npos) s = s.substr(0, bar);
    std::vector<std::string> t;
    {
      std::istringstream is(s);
      std::string w;
      while (is >> w) t.push_back(w);
    }
    if (t.size() < 3) { std::printf("SKIP bad-line\n"); continue; }
    std::vector<std::string> toks(t.begin() + 3, t.end());
    std::string reply;
    bool done = false;
#if SCALAR != 1
    if (t[2] == "f64") { EvalVisitor<double> v{t[0], t[1], toks}; catalogue<double>(v); reply = v.reply; done = v.done; }
#endif
#if SCALAR != 0
    if (t[2] == "f32") { EvalVisitor<float> v{t[0], t[1], toks}; catalogue<float>(v); reply = v.reply; done = v.done; }
#endif
    if (!done) std::printf("SKIP %s %s\n", t[0].c_str(), t[1].c_str());
    else if (reply == "BAD") std::printf("BAD %s\n", s.c_str());
    else std::printf("%s |%s\n", s.c_str(), reply.c_str());
  }
  std::free(line);
  return 0;
}

int main(int argc, char ** argv)
{
  const std::string mode = argc > 1 ? argv[1] : "dump";
  if (mode == "eval") return eval_mode();
  if (mode == "dump") {
#if SCALAR != 1
    catalogue<double>(DumpVisitor{});
#endif
#if SCALAR != 0
    catalogue<float>(DumpVisitor{});
#endif
    return 0;
  }
  if (mode == "agree") {
    const int n = argc > 2 ? std::atoi(argv[2]) : 20;
    Rng r(seed_from_env() * 1000 + 16 + 10 * FAMILY + SCALAR);
#if SCALAR != 1
    catalogue<double>(AgreeVisitor{r, n});
#endif
#if SCALAR != 0
    catalogue<float>(AgreeVisitor{r, n});
#endif
    return 0;
  }
  std::fprintf(stderr, "usage: mem eval|dump|agree <n>\n");
  return 2;
}
