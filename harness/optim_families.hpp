// optim_families.hpp — generated problem families for the C09 harness (included by optim.cpp, PART>0).
// Every problem is a pure function of (VERIF_SEED, PART, family, index): `./optim run <family> <index>`
// re-runs exactly one of them.
#pragma once

template<class F_, class... A>
struct Prob
{
  using F    = F_;
  using Args = std::tuple<A...>;
  F f;
  Args x0, ref;
  bool has_ref{false};
  bool wc{false};  // unique well-conditioned minimiser inside the basin (distance audit applies)
  double ref_grad{std::nan("")};
  std::function<double(const Args &)> scale_fn;

  double dist(const Args & x) const
  {
    if (!has_ref) return std::nan("");
    double s = 0;
    [&]<std::size_t... I>(std::index_sequence<I...>) {
      ((s += smooth::rminus(std::get<I>(x), std::get<I>(ref)).squaredNorm()), ...);
    }(std::make_index_sequence<sizeof...(A)>{});
    return std::sqrt(s);
  }
  double fscale(const Args & x) const { return scale_fn ? scale_fn(x) : 1.0; }
};

template<class P>
void go(FILE * out, const char * fam, int idx, int mode, const RunCfg & cfg, P & prob, const std::string & extra = "")
{
  std::string tag = std::string(fam) + "/" + std::to_string(idx);
  auto outs       = run_mode(mode, prob, cfg, out, 3, tag);
  emit_run(out, fam, idx, mode, cfg, prob, outs, extra);
}

static std::string jmat(const MatrixXd & M)
{
  std::string s = "[";
  for (Eigen::Index i = 0; i < M.rows(); ++i) {
    s += (i ? ",[" : "[");
    for (Eigen::Index j = 0; j < M.cols(); ++j) s += (j ? ",\"" : "\"") + hexd(M(i, j)) + "\"";
    s += "]";
  }
  return s + "]";
}

// start-point strata shared by the families: 0 generic, 1 at the minimiser, 2 far, 3 very close
static double start_radius(Rng & rng, int idx, const char ** name)
{
  switch (idx % 6) {
  case 1: *name = "at_min"; return 0.0;
  case 2: *name = "far"; return rng.uni(1.0, 3.0);
  case 3: *name = "close"; return rng.logu(1e-9, 1e-4);
  default: *name = "generic"; return rng.uni(0.05, 1.0);
  }
}

#if PART == 1 || PART == 2
// ------------------------------------------------------------------ linear least squares  f(x) = A x - b
template<int M, int N>
struct LinF
{
  Eigen::Matrix<double, M, N> A;
  Eigen::Matrix<double, M, 1> b;
  Eigen::Matrix<double, M, 1> operator()(const Eigen::Matrix<double, N, 1> & x) const { return A * x - b; }
  Eigen::Matrix<double, M, N> jacobian(const Eigen::Matrix<double, N, 1> &) const { return A; }
};
struct LinSparseF
{
  MatrixXd A;
  VectorXd b;
  VectorXd operator()(const VectorXd & x) const { return A * x - b; }
  SpMat jacobian(const VectorXd &) const { return to_sparse<SpMat>(A); }
};
struct LinMultiF
{
  Eigen::Matrix<double, 8, 3> A1;
  Eigen::Matrix<double, 8, 2> A2;
  Eigen::Matrix<double, 8, 1> b;
  Eigen::Matrix<double, 8, 1> operator()(const Eigen::Vector3d & x1, const Eigen::Vector2d & x2) const
  {
    return A1 * x1 + A2 * x2 - b;
  }
  Eigen::Matrix<double, 8, 5> jacobian(const Eigen::Vector3d &, const Eigen::Vector2d &) const
  {
    Eigen::Matrix<double, 8, 5> J;
    J << A1, A2;
    return J;
  }
};

// dyadic A (m x n), dyadic x*, b = A x* + noise; returns condition number of A
static double gen_lin(Rng & rng, int m, int n, int idx, MatrixXd & A, VectorXd & b, VectorXd & xs, VectorXd & x0, std::string & tag)
{
  A.resize(m, n);
  xs.resize(n);
  for (int i = 0; i < m; ++i)
    for (int j = 0; j < n; ++j) A(i, j) = dyad(rng, 4, 2.0);
  if (idx % 11 == 7) A.col(rng.below(n)).setZero();                       // zero Jacobian column
  if (idx % 11 == 9 && n > 1) A.col(0) = A.col(n - 1);                    // exactly rank deficient
  for (int j = 0; j < n; ++j) xs(j) = dyad(rng, 4, 2.0);
  b = A * xs;  // exact (small dyadics)
  const int nk = rng.below(3);
  const double sig = nk == 0 ? 0.0 : (nk == 1 ? 1.0 / 1024 : 1.0 / 16);
  for (int i = 0; i < m; ++i) b(i) += sig * dyad(rng, 6, 1.0);
  const char * sname;
  const double rad = start_radius(rng, idx, &sname);
  x0               = xs;
  for (int j = 0; j < n; ++j) x0(j) += (rad == 0.0 ? 0.0 : std::ldexp(std::round(std::ldexp(rad * rng.uni(-1, 1), 30)), -30));
  Eigen::JacobiSVD<MatrixXd> svd(A);
  const auto sv   = svd.singularValues();
  const double kp = sv(sv.size() - 1) > 0 ? sv(0) / sv(sv.size() - 1) : INFINITY;
  tag             = std::string("start=") + sname + ",noise=" + std::to_string(nk);
  return kp;
}

template<class P>
void lin_finish(P & prob, const MatrixXd & A, const VectorXd & b, double kappa, std::string & extra, const std::string & tag)
{
  prob.wc      = kappa <= 20.0;
  prob.has_ref = std::isfinite(kappa) && kappa < 1e6;
  extra        = "\"A\":" + jmat(A) + ",\"b\":" + jvec(b) + ",\"kappa\":\"" + hexd(kappa) + "\",\"stratum\":\"" + tag + "\"";
}

#endif
#if PART == 1
static void fam_lin_static(FILE * out, Rng & rng, int idx)
{
  MatrixXd A;
  VectorXd b, xs, x0;
  std::string tag, extra;
  const double kp = gen_lin(rng, 7, 4, idx, A, b, xs, x0, tag);
  Prob<LinF<7, 4>, Eigen::Matrix<double, 4, 1>> p;
  p.f.A           = A;
  p.f.b           = b;
  std::get<0>(p.x0)  = x0;
  std::get<0>(p.ref) = A.colPivHouseholderQr().solve(b);
  p.scale_fn      = [A, b](const auto & x) { return (A.cwiseAbs() * std::get<0>(x).cwiseAbs() + b.cwiseAbs()).norm(); };
  lin_finish(p, A, b, kp, extra, tag);
  RunCfg cfg = gen_cfg(rng);
  const int mode = idx % 4;  // analytic, numerical, default (with / without jacobian)
  switch (mode) {
  case 2: {
    auto outs = run_problem<diff::Type::Default, true>(p, cfg, out, 3, "lin_static");
    emit_run(out, "lin_static", idx, 2, cfg, p, outs, extra);
    break;
  }
  case 3: {
    auto outs = run_problem<diff::Type::Default, false>(p, cfg, out, 3, "lin_static");
    emit_run(out, "lin_static", idx, 3, cfg, p, outs, extra);
    break;
  }
  default: go(out, "lin_static", idx, mode, cfg, p, extra);
  }
}

static void fam_lin_dynamic(FILE * out, Rng & rng, int idx)
{
  const int n = 1 + rng.below(6), m = n + rng.below(7);
  MatrixXd A;
  VectorXd b, xs, x0;
  std::string tag, extra;
  const double kp = gen_lin(rng, m, n, idx, A, b, xs, x0, tag);
  Prob<LinF<-1, -1>, VectorXd> p;
  p.f.A = A;
  p.f.b = b;
  std::get<0>(p.x0)  = x0;
  std::get<0>(p.ref) = A.colPivHouseholderQr().solve(b);
  p.scale_fn = [A, b](const auto & x) { return (A.cwiseAbs() * std::get<0>(x).cwiseAbs() + b.cwiseAbs()).norm(); };
  lin_finish(p, A, b, kp, extra, tag);
  RunCfg cfg = gen_cfg(rng);
  go(out, "lin_dynamic", idx, idx % 2, cfg, p, extra);
}

#endif
#if PART == 2
static void fam_lin_sparse(FILE * out, Rng & rng, int idx)
{
  const int n = 2 + rng.below(7), m = n + 1 + rng.below(6);
  MatrixXd A;
  VectorXd b, xs, x0;
  std::string tag, extra;
  gen_lin(rng, m, n, idx, A, b, xs, x0, tag);
  // sparsify, keep the diagonal band so that the matrix stays well conditioned, recompute b
  for (int i = 0; i < m; ++i)
    for (int j = 0; j < n; ++j)
      if ((i % n) != j && rng.below(3) != 0) A(i, j) = 0;
  for (int j = 0; j < n; ++j)
    if (A(j, j) == 0) A(j, j) = 1.5;
  b = A * xs;
  Eigen::JacobiSVD<MatrixXd> svd(A);
  const auto sv   = svd.singularValues();
  const double kp = sv(sv.size() - 1) > 0 ? sv(0) / sv(sv.size() - 1) : INFINITY;
  Prob<LinSparseF, VectorXd> p;
  p.f.A = A;
  p.f.b = b;
  std::get<0>(p.x0)  = x0;
  std::get<0>(p.ref) = A.colPivHouseholderQr().solve(b);
  p.scale_fn = [A, b](const auto & x) { return (A.cwiseAbs() * std::get<0>(x).cwiseAbs() + b.cwiseAbs()).norm(); };
  lin_finish(p, A, b, kp, extra, tag);
  RunCfg cfg = gen_cfg(rng);
  go(out, "lin_sparse", idx, (idx % 3 == 2) ? 1 : 0, cfg, p, extra);  // mostly the sparse analytic Jacobian
}

static void fam_lin_multi(FILE * out, Rng & rng, int idx)
{
  MatrixXd A;
  VectorXd b, xs, x0;
  std::string tag, extra;
  const double kp = gen_lin(rng, 8, 5, idx, A, b, xs, x0, tag);
  Prob<LinMultiF, Eigen::Vector3d, Eigen::Vector2d> p;
  p.f.A1 = A.leftCols(3);
  p.f.A2 = A.rightCols(2);
  p.f.b  = b;
  const VectorXd xr = A.colPivHouseholderQr().solve(b);
  std::get<0>(p.x0) = x0.head(3);
  std::get<1>(p.x0) = x0.tail(2);
  std::get<0>(p.ref) = xr.head(3);
  std::get<1>(p.ref) = xr.tail(2);
  p.scale_fn = [A, b](const auto & x) {
    VectorXd v(5);
    v << std::get<0>(x), std::get<1>(x);
    return (A.cwiseAbs() * v.cwiseAbs() + b.cwiseAbs()).norm();
  };
  lin_finish(p, A, b, kp, extra, tag);
  RunCfg cfg = gen_cfg(rng);
  go(out, "lin_multi", idx, idx % 2, cfg, p, extra);
}

#endif
#if PART == 3
// ------------------------------------------------------------------ degenerate starts
struct UnusedVarF
{  // third variable does not enter: zero Jacobian column
  double c0, c1;
  Eigen::Vector3d operator()(const Eigen::Vector3d & x) const
  {
    return Eigen::Vector3d(x(0) - c0, 2 * (x(1) - c1), x(0) + x(1) - c0 - c1);
  }
  Eigen::Matrix3d jacobian(const Eigen::Vector3d &) const
  {
    Eigen::Matrix3d J;
    J << 1, 0, 0, 0, 2, 0, 1, 1, 0;
    return J;
  }
};
struct ConstF
{  // constant residual: J = 0 everywhere, every point is a minimiser
  Eigen::Vector2d c;
  Eigen::Vector2d operator()(const Eigen::Vector2d &) const { return c; }
  Eigen::Matrix2d jacobian(const Eigen::Vector2d &) const { return Eigen::Matrix2d::Zero(); }
};
struct StationaryF
{  // r != 0 and J^T r = 0 at the start (x = 0 is a saddle/maximum of the cost for s < 0 … a stationary point)
  double s;
  Eigen::Vector2d operator()(const Eigen::Vector2d & x) const { return Eigen::Vector2d(1 + s * x(0) * x(0), x(1)); }
  Eigen::Matrix2d jacobian(const Eigen::Vector2d & x) const
  {
    Eigen::Matrix2d J;
    J << 2 * s * x(0), 0, 0, 1;
    return J;
  }
};

static void fam_degenerate(FILE * out, Rng & rng, int idx)
{
  RunCfg cfg = gen_cfg(rng);
  const int mode = (idx / 3) % 2;
  switch (idx % 3) {
  case 0: {
    Prob<UnusedVarF, Eigen::Vector3d> p;
    p.f.c0 = dyad(rng, 4, 2.0);
    p.f.c1 = dyad(rng, 4, 2.0);
    std::get<0>(p.x0) = Eigen::Vector3d(p.f.c0 + ((idx / 6) % 2 ? 0.0 : dyad(rng, 6, 1.0)), p.f.c1 + ((idx / 6) % 2 ? 0.0 : dyad(rng, 6, 1.0)), dyad(rng, 4, 3.0));
    p.scale_fn = [](const auto & x) { return 4 * (1.0 + std::get<0>(x).cwiseAbs().maxCoeff()); };
    go(out, "degen_unused", idx, mode, cfg, p, "\"stratum\":\"zero_jacobian_column\"");
    break;
  }
  case 1: {
    Prob<ConstF, Eigen::Vector2d> p;
    p.f.c = Eigen::Vector2d(dyad(rng, 4, 2.0), (idx / 6) % 2 ? 0.0 : 1.0);
    if ((idx / 12) % 2) p.f.c.setZero();
    std::get<0>(p.x0) = Eigen::Vector2d(dyad(rng, 4, 2.0), dyad(rng, 4, 2.0));
    p.scale_fn = [](const auto &) { return 1.0; };
    go(out, "degen_const", idx, mode, cfg, p, "\"stratum\":\"zero_jacobian\"");
    break;
  }
  default: {
    Prob<StationaryF, Eigen::Vector2d> p;
    p.f.s = (idx / 6) % 2 ? -0.5 : 0.5;
    std::get<0>(p.x0) = Eigen::Vector2d(0.0, (idx / 12) % 2 ? 0.0 : dyad(rng, 4, 2.0));
    p.scale_fn = [](const auto & x) { return 2.0 + std::get<0>(x).squaredNorm(); };
    go(out, "degen_stationary", idx, mode, cfg, p, "\"stratum\":\"stationary_start\"");
  }
  }
}


#endif
#if PART == 3
// ------------------------------------------------------------------ Rosenbrock / polynomial systems
struct RosenF
{
  double a;  // f = [a (y - x^2), 1 - x]
  Eigen::Vector2d operator()(const Eigen::Vector2d & x) const { return Eigen::Vector2d(a * (x(1) - x(0) * x(0)), 1 - x(0)); }
  Eigen::Matrix2d jacobian(const Eigen::Vector2d & x) const
  {
    Eigen::Matrix2d J;
    J << -2 * a * x(0), a, -1, 0;
    return J;
  }
};
struct PolyF
{  // f = [x^2 + y - c0, x + y^2 - c1, x y - c2]
  double c0, c1, c2;
  Eigen::Vector3d operator()(const Eigen::Vector2d & x) const
  {
    return Eigen::Vector3d(x(0) * x(0) + x(1) - c0, x(0) + x(1) * x(1) - c1, x(0) * x(1) - c2);
  }
  Eigen::Matrix<double, 3, 2> jacobian(const Eigen::Vector2d & x) const
  {
    Eigen::Matrix<double, 3, 2> J;
    J << 2 * x(0), 1, 1, 2 * x(1), x(1), x(0);
    return J;
  }
};
static void fam_poly(FILE * out, Rng & rng, int idx)
{
  RunCfg cfg = gen_cfg(rng);
  const int mode = (idx / 2) % 2;
  const char * sname;
  const double rad = start_radius(rng, idx, &sname);
  if (idx % 2 == 0) {
    Prob<RosenF, Eigen::Vector2d> p;
    p.f.a = (idx / 4) % 2 ? 10.0 : 2.0;
    std::get<0>(p.ref) = Eigen::Vector2d(1, 1);
    p.has_ref = true;
    std::get<0>(p.x0) = Eigen::Vector2d(1 + rad * rng.uni(-1, 1), 1 + rad * rng.uni(-1, 1));
    const double a = p.f.a;
    p.scale_fn = [a](const auto & x) { return a * (1 + std::get<0>(x).squaredNorm()) + 2; };
    go(out, "rosenbrock", idx, mode, cfg, p, std::string("\"stratum\":\"start=") + sname + "\"");
  } else {
    Prob<PolyF, Eigen::Vector2d> p;
    const double px = dyad(rng, 4, 2.0), py = dyad(rng, 4, 2.0);
    p.f.c0 = px * px + py;
    p.f.c1 = px + py * py;
    p.f.c2 = px * py;
    std::get<0>(p.ref) = Eigen::Vector2d(px, py);
    p.has_ref = true;
    std::get<0>(p.x0) = Eigen::Vector2d(px + rad * rng.uni(-1, 1), py + rad * rng.uni(-1, 1));
    p.scale_fn = [](const auto & x) { return 8 * (1 + std::get<0>(x).squaredNorm()); };
    go(out, "poly", idx, mode, cfg, p, std::string("\"stratum\":\"start=") + sname + "\"");
  }
}

#endif
#if PART == 4
// ------------------------------------------------------------------ exponential curve fit  y = a exp(b t)
struct ExpFitF
{
  VectorXd t, y;
  VectorXd operator()(const Eigen::Vector2d & p) const { return (p(0) * (p(1) * t).array().exp()).matrix() - y; }
  MatrixXd jacobian(const Eigen::Vector2d & p) const
  {
    MatrixXd J(t.size(), 2);
    J.col(0) = (p(1) * t).array().exp().matrix();
    J.col(1) = (p(0) * t.array() * (p(1) * t).array().exp()).matrix();
    return J;
  }
};
static void fam_expfit(FILE * out, Rng & rng, int idx)
{
  RunCfg cfg  = gen_cfg(rng);
  const int m = 5 + rng.below(10);
  Prob<ExpFitF, Eigen::Vector2d> p;
  p.f.t.resize(m);
  p.f.y.resize(m);
  const double as = rng.uni(0.5, 3.0), bs = rng.uni(-1.5, 1.0);
  const int nk     = idx % 3;
  const double sig = nk == 0 ? 0.0 : (nk == 1 ? 1e-4 : 1e-2);
  for (int i = 0; i < m; ++i) {
    p.f.t(i) = i / 8.0;
    p.f.y(i) = as * std::exp(bs * p.f.t(i)) + sig * rng.normal();
  }
  const char * sname;
  const double rad = std::min(0.5, start_radius(rng, idx / 3, &sname));
  std::get<0>(p.ref) = Eigen::Vector2d(as, bs);
  p.ref_grad = refine_reference(p, p.ref);
  p.has_ref  = p.ref_grad < 1e-9;
  std::get<0>(p.x0) = Eigen::Vector2d(as + rad * rng.uni(-1, 1), bs + rad * rng.uni(-1, 1));
  const VectorXd y = p.f.y;
  p.scale_fn = [y](const auto &) { return 2 * y.norm() + 1; };
  go(out, "expfit", idx, (idx / 3) % 2, cfg, p, std::string("\"stratum\":\"start=") + sname + ",noise=" + std::to_string(nk) + "\"");
}

// ------------------------------------------------------------------ mixed arguments (group element + dynamic vector)
struct MixedF
{  // tests/test_nls.cpp MixedArgs with an analytic Jacobian
  smooth::SO3d g0;
  VectorXd operator()(const smooth::SO3d & g, const VectorXd & v) const
  {
    VectorXd ret(6);
    ret << (g + v.head<3>()) - g0, v - Eigen::Vector3d::Ones();
    return ret;
  }
  MatrixXd jacobian(const smooth::SO3d & g, const VectorXd & v) const
  {
    // e = log(g0^-1 g exp(a)); d e / d g = dr_expinv(e) Ad(exp(a))^-1 ; d e / d a = dr_expinv(e) dr_exp(a)
    const Eigen::Vector3d a  = v.head<3>();
    const Eigen::Vector3d e  = (g + a) - g0;
    const Eigen::Matrix3d Ei = smooth::SO3d::dr_expinv(e);
    MatrixXd J               = MatrixXd::Zero(6, 6);
    J.block<3, 3>(0, 0)      = Ei * smooth::SO3d::exp(a).inverse().Ad();
    J.block<3, 3>(0, 3)      = Ei * smooth::SO3d::dr_exp(a);
    J.block<3, 3>(3, 3).setIdentity();
    return J;
  }
};
static void fam_mixed(FILE * out, Rng & rng, int idx)
{
  RunCfg cfg = gen_cfg(rng);
  Prob<MixedF, smooth::SO3d, VectorXd> p;
  Eigen::Vector3d w(rng.uni(-1, 1), rng.uni(-1, 1), rng.uni(-1, 1));
  p.f.g0 = smooth::SO3d::exp(w);
  std::get<1>(p.ref) = Eigen::Vector3d::Ones();
  std::get<0>(p.ref) = p.f.g0 * smooth::SO3d::exp(-Eigen::Vector3d::Ones());
  p.has_ref = true;
  p.wc      = true;
  const char * sname;
  const double rad = std::min(1.0, start_radius(rng, idx, &sname));
  Eigen::Vector3d dg(rng.uni(-1, 1), rng.uni(-1, 1), rng.uni(-1, 1)), dv(rng.uni(-1, 1), rng.uni(-1, 1), rng.uni(-1, 1));
  std::get<0>(p.x0) = std::get<0>(p.ref) + (rad * dg);
  std::get<1>(p.x0) = Eigen::Vector3d::Ones() + rad * dv;
  p.scale_fn = [](const auto & x) { return 8.0 + std::get<1>(x).norm(); };
  go(out, "mixed_so3_vec", idx, idx % 2, cfg, p, std::string("\"stratum\":\"start=") + sname + "\"");
}


#endif
#if PART == 5 || PART == 6
// ------------------------------------------------------------------ point-set alignment  f(g) = [g p_i - q_i]
template<class G, int Dim>
struct AlignF
{
  std::vector<Eigen::Matrix<double, Dim, 1>> p, q;
  VectorXd operator()(const G & g) const
  {
    VectorXd r(Dim * p.size());
    for (size_t i = 0; i < p.size(); ++i) r.template segment<Dim>(Dim * i) = g * p[i] - q[i];
    return r;
  }
  MatrixXd jacobian(const G & g) const
  {
    MatrixXd J(Dim * p.size(), G::Dof);
    for (size_t i = 0; i < p.size(); ++i) J.template middleRows<Dim>(Dim * i) = g.dr_action(p[i]);
    return J;
  }
};

template<class G>
typename G::Tangent rand_tangent(Rng & rng, double rot, double trans)
{
  typename G::Tangent a;
  for (int i = 0; i < G::Dof; ++i) a(i) = rng.uni(-1, 1);
  // rotation coordinates are the trailing ones for SE2/SE3, all for SO3
  if constexpr (std::is_same_v<G, smooth::SO3d>) {
    a *= rot / std::max(1e-9, a.norm());
  } else if constexpr (std::is_same_v<G, smooth::SE2d>) {
    a(0) *= trans;
    a(1) *= trans;
    a(2) *= rot;
  } else {
    a.template head<3>() *= trans;
    a.template tail<3>() *= rot / std::max(1e-9, a.template tail<3>().norm());
  }
  return a;
}

template<class G, int Dim>
void fam_align(FILE * out, Rng & rng, int idx, const char * name)
{
  RunCfg cfg  = gen_cfg(rng);
  const int K = 4 + rng.below(5);
  Prob<AlignF<G, Dim>, G> p;
  const G gs       = G::exp(rand_tangent<G>(rng, rng.uni(0.1, 2.8), 2.0));
  const int nk     = idx % 3;
  const double sig = nk == 0 ? 0.0 : (nk == 1 ? 1e-3 : 1e-2);
  double sc        = 0;
  for (int i = 0; i < K; ++i) {
    Eigen::Matrix<double, Dim, 1> pt, nz;
    for (int k = 0; k < Dim; ++k) {
      pt(k) = rng.uni(-2, 2);
      nz(k) = rng.normal();
    }
    p.f.p.push_back(pt);
    p.f.q.push_back(gs * pt + sig * nz);
    sc += pt.squaredNorm() + p.f.q.back().squaredNorm();
  }
  std::get<0>(p.ref) = gs;
  p.ref_grad         = refine_reference(p, p.ref);
  p.has_ref          = p.ref_grad < 1e-9;
  p.wc               = true;
  const char * sname;
  const double rad  = std::min(1.0, start_radius(rng, idx / 3, &sname));
  std::get<0>(p.x0) = gs + (rad == 0.0 ? G::Tangent::Zero().eval() : rand_tangent<G>(rng, rad, rad));
  if (rad == 0.0 && sig != 0.0) std::get<0>(p.x0) = std::get<0>(p.ref);
  const double s = std::sqrt(sc);
  p.scale_fn     = [s](const auto &) { return 2 * s + 4; };
  go(out, name, idx, (idx / 3) % 2, cfg, p, std::string("\"stratum\":\"start=") + sname + ",noise=" + std::to_string(nk) + "\"");
}

#endif
#if PART == 7
// ------------------------------------------------------------------ Bundle: f(b) = (b - b*) - c   (minimiser b* + c, zero residual)
using Bun = smooth::Bundle<smooth::SO3d, smooth::SE2d, Eigen::Vector2d>;
struct BundleF
{
  Bun bs;
  Bun::Tangent c;
  Bun::Tangent operator()(const Bun & b) const { return (b - bs) - c; }
  Bun::TangentMap jacobian(const Bun & b) const { return Bun::dr_expinv(b - bs); }
};
static void fam_bundle(FILE * out, Rng & rng, int idx)
{
  RunCfg cfg = gen_cfg(rng);
  Prob<BundleF, Bun> p;
  Bun::Tangent a, c, e;
  for (int i = 0; i < Bun::Dof; ++i) {
    a(i) = rng.uni(-1, 1);
    c(i) = 0.3 * rng.uni(-1, 1);
    e(i) = rng.uni(-1, 1);
  }
  p.f.bs = Bun::exp(a);
  p.f.c  = c;
  std::get<0>(p.ref) = p.f.bs + c;
  p.has_ref = true;
  p.wc      = true;
  const char * sname;
  const double rad  = std::min(0.8, start_radius(rng, idx, &sname));
  std::get<0>(p.x0) = std::get<0>(p.ref) + (rad * e);
  p.scale_fn        = [](const auto &) { return 16.0; };
  go(out, "bundle", idx, idx % 2, cfg, p, std::string("\"stratum\":\"start=") + sname + "\"");
}

#endif
#if PART == 8
// ------------------------------------------------------------------ three rotations, sparse analytic Jacobian (tests/test_nls.cpp)
struct TriSO3F
{
  Eigen::Vector3d d23, d31;
  VectorXd operator()(const smooth::SO3d & g1, const smooth::SO3d & g2, const smooth::SO3d & g3) const
  {
    VectorXd f(9);
    f.segment<3>(0) = g1.log();
    f.segment<3>(3) = (g3 - g2) - d23;
    f.segment<3>(6) = (g1 - g3) - d31;
    return f;
  }
  SpMat jacobian(const smooth::SO3d & g1, const smooth::SO3d & g2, const smooth::SO3d & g3) const
  {
    const Eigen::Matrix3d a  = smooth::SO3d::dr_expinv(g1.log());
    const Eigen::Matrix3d b3 = smooth::SO3d::dr_expinv(g3 - g2);
    const Eigen::Matrix3d b2 = -smooth::SO3d::dl_expinv(g3 - g2);
    const Eigen::Matrix3d c1 = smooth::SO3d::dr_expinv(g1 - g3);
    const Eigen::Matrix3d c3 = -smooth::SO3d::dl_expinv(g1 - g3);
    SpMat J(9, 9);
    for (int i = 0; i != 3; ++i)
      for (int j = 0; j != 3; ++j) {
        J.insert(i, j)         = a(i, j);
        J.insert(3 + i, 3 + j) = b2(i, j);
        J.insert(3 + i, 6 + j) = b3(i, j);
        J.insert(6 + i, 6 + j) = c3(i, j);
        J.insert(6 + i, 0 + j) = c1(i, j);
      }
    J.makeCompressed();
    return J;
  }
};
static void fam_triso3(FILE * out, Rng & rng, int idx)
{
  RunCfg cfg = gen_cfg(rng);
  Prob<TriSO3F, smooth::SO3d, smooth::SO3d, smooth::SO3d> p;
  for (int i = 0; i < 3; ++i) {
    p.f.d23(i) = rng.uni(-1, 1);
    p.f.d31(i) = rng.uni(-1, 1);
  }
  // zero-residual minimiser: g1 = I, g3 = g1 - d31 …  (g1 - g3) = d31  ⇒ g3 = g1 exp(d31)^-1 ; (g3 - g2) = d23 ⇒ g2 = g3 exp(d23)^-1
  const smooth::SO3d r1 = smooth::SO3d::Identity();
  const smooth::SO3d r3 = r1 * smooth::SO3d::exp(p.f.d31).inverse();
  const smooth::SO3d r2 = r3 * smooth::SO3d::exp(p.f.d23).inverse();
  p.ref     = std::make_tuple(r1, r2, r3);
  p.has_ref = true;
  p.wc      = true;
  const char * sname;
  const double rad = std::min(0.7, start_radius(rng, idx, &sname));
  auto pert        = [&]() { return Eigen::Vector3d(rad * rng.uni(-1, 1), rad * rng.uni(-1, 1), rad * rng.uni(-1, 1)); };
  p.x0             = std::make_tuple(r1 + pert(), r2 + pert(), r3 + pert());
  p.scale_fn       = [](const auto &) { return 12.0; };
  go(out, "tri_so3_sparse", idx, idx % 2, cfg, p, std::string("\"stratum\":\"start=") + sname + "\"");
}
#endif

static int n_families() { return (PART >= 6) ? 1 : 2; }
static void run_one(FILE * out, int fam, int idx)
{
  g_fam = fam;
  Rng rng(seed_from_env() * 1000003ull + uint64_t(PART) * 100003ull + uint64_t(fam) * 1009ull + uint64_t(idx) * 7919ull + 5);
#if PART == 1
  if (fam == 0) fam_lin_static(out, rng, idx);
  if (fam == 1) fam_lin_dynamic(out, rng, idx);
#elif PART == 2
  if (fam == 0) fam_lin_sparse(out, rng, idx);
  if (fam == 1) fam_lin_multi(out, rng, idx);
#elif PART == 3
  if (fam == 0) fam_degenerate(out, rng, idx);
  if (fam == 1) fam_poly(out, rng, idx);
#elif PART == 4
  if (fam == 0) fam_expfit(out, rng, idx);
  if (fam == 1) fam_mixed(out, rng, idx);
#elif PART == 5
  if (fam == 0) fam_align<smooth::SO3d, 3>(out, rng, idx, "align_so3");
  if (fam == 1) fam_align<smooth::SE2d, 2>(out, rng, idx, "align_se2");
#elif PART == 6
  if (fam == 0) fam_align<smooth::SE3d, 3>(out, rng, idx, "align_se3");
#elif PART == 7
  if (fam == 0) fam_bundle(out, rng, idx);
#elif PART == 8
  if (fam == 0) fam_triso3(out, rng, idx);
#endif
}
